/-
  C13 — cancel scopes of the asyncio backend, on a small faithful model of what CPython 3.12's asyncio does.

  Python mirrored (easynetwork/lowlevel/api_async/backend):
    _asyncio/tasks.py   CancelScope.__enter__ / __exit__ / __uncancel_task / __deliver_cancellation / cancel /
                        reschedule / __setup_cancellation_by_timeout / _reschedule_delayed_task_cancel /
                        _check_pending_cancellation / __cancel_task_unless_done,
                        TaskUtils.cancel_shielded_coro_yield / __cancel_shielded_await
    abc.py              _timeout_scope.__exit__, move_on_after, timeout
    _asyncio/backend.py sleep, coro_yield, ignore_cancellation
  asyncio (modelled, not verified; CPython 3.12 `asyncio/tasks.py`, `futures.py`, `base_events.py`):
    Task.cancel / uncancel / __step / __wakeup, Future.cancel / set_result / callbacks, asyncio.sleep,
    asyncio.shield, loop.call_soon / call_at / _run_once.

  One host task.  Programs are trees of `Stmt`; the coroutine is a frame stack, its suspension points are the
  `await`s of the mirrored Python.  Granularity: one `Handle` = one callback run by the event loop, one `turn` =
  one `_run_once()`.  Clock: ticks; a turn with nothing ready jumps to the first timer; every turn takes one tick
  (the policy of `harness/vlib/c13_run.py: VLoop.turn`); timers due at the same tick fire in creation order.

  Representation choices (validated by the correspondence check, not by proof):
  * a scheduled callback is identified by its role (`deliver s`, `timeoutCancel s`, `sleepDone f`, …) instead of a
    handle object: `handle.cancel()` removes the entries with that role (the real code keeps at most one live handle
    per role: `__cancel_handle`, `__timeout_handle`, the timer of one `asyncio.sleep`, the one delayed cancel);
  * the task's scope stack (`__current_task_scope_dict[task]`) is read off the `with` frames of the coroutine
    (`__exit__` raises RuntimeError if the two ever differ);
  * `flag` (in a blocking frame) and `bad` are ghost: `bad` records that a blocking operation started under a
    cancelled scope, outside every shield, completed normally (the event C13_interrupt excludes).
-/
namespace EasyNet.CS

/-- `CancelledError` message: `none` = plain `task.cancel()`, `some s` = "Cancelled by cancel scope <s>" -/
abbrev Msg := Option Nat

inductive Exc where
  | cancelled (m : Msg)
  | timeout
  deriving Repr, DecidableEq

/-- what is sent / thrown into the coroutine by `Task.__step` -/
inductive Signal where
  | ok
  | cancelled (m : Msg)
  deriving Repr, DecidableEq

inductive Stmt where
  | sleep (id d : Nat)                       -- await backend.sleep(d)       (d = 0: bare yield)
  | yield_ (id : Nat)                        -- await backend.coro_yield()
  | syield (id : Nat)                        -- await backend.cancel_shielded_coro_yield()
  | cancel (id i : Nat)                      -- scopes[i].cancel()           (i-th enclosing scope, 0 = innermost)
  | resched (id i : Nat) (d : Option Nat)    -- scopes[i].reschedule(now + d) / reschedule(inf)
  | scope (id : Nat) (timeout : Bool) (delay : Option Nat) (pre : Bool) (body : List Stmt)
                                             -- with backend.move_on_after(delay) / backend.timeout(delay)
                                             -- (pre: scope.cancel() before entering)
  | shield (id : Nat) (body : List Stmt)     -- await backend.ignore_cancellation(body())
  | tryc (id : Nat) (body : List Stmt)       -- try: body  except CancelledError: pass
  deriving Repr

/-- classification of what leaves a block -/
inductive Out where
  | ok | cancel | timeout
  deriving Repr, DecidableEq

def Out.ofExc : Option Exc → Out
  | none => .ok
  | some (.cancelled _) => .cancel
  | some .timeout => .timeout

/-- observable events (rendered as text lines by the driver) -/
inductive Ev where
  | blk (id t : Nat) (cc : List Bool)        -- blocking operation starts; cancel_called() of the active scopes, inner first
  | ret (id t : Nat)                         -- … completed
  | exc (id t : Nat)                         -- … raised CancelledError
  | did (id t : Nat)                         -- cancel / reschedule executed
  | enter (id t cancelling : Nat)
  | exit (id t : Nat) (reached out : Out) (called caught : Bool) (cancelling handles : Nat) (pc : List Bool)
  | sin (id t : Nat)
  | sout (id t : Nat) (out : Out)
  | swallow (id t : Nat)
  | ext (t : Nat) (done : Bool)
  | assertion
  deriving Repr, DecidableEq

inductive FState where
  | pending | result | cancelled (m : Msg)
  deriving Repr, DecidableEq

/-- the (single relevant) done-callback of a future -/
inductive Cb where
  | none
  | wakeup                      -- Task.__wakeup
  | innerDone (outer : Nat)     -- asyncio.shield: _inner_done_callback
  deriving Repr, DecidableEq

structure Fut where
  state : FState
  cb : Cb
  deriving Repr

/-- a callback scheduled on the loop -/
inductive Handle where
  | step                         -- Task.__step           (after a bare yield / first step)
  | wakeup (f : Nat)             -- Task.__wakeup(f)
  | deliver (s : Nat)            -- CancelScope.__deliver_cancellation
  | timeoutCancel (s : Nat)      -- CancelScope.cancel    (timer at the deadline)
  | sleepDone (f : Nat)          -- futures._set_result_unless_cancelled (timer of asyncio.sleep)
  | delayedCancel (m : Msg)      -- CancelScope.__cancel_task_unless_done
  | delayedPop                   -- __delayed_task_cancel_dict.pop
  | innerDone (f o : Nat)        -- asyncio.shield _inner_done_callback
  | ext                          -- external task.cancel()
  deriving Repr, DecidableEq

structure Scope where
  sid : Nat                      -- statement id (for the trace)
  active : Bool                  -- ENTERED (host task set)
  cancelCalled : Bool
  caught : Bool
  deadline : Option Nat          -- none = inf
  timeoutH : Bool                -- __timeout_handle is set
  cancelH : Bool                 -- __cancel_handle is set
  base : Nat                     -- __host_task_cancelling
  calls : Nat                    -- __host_task_cancel_calls
  deriving Repr

inductive BlkKind where
  | sleep (f : Nat)              -- asyncio.sleep(d>0): future f (its timer is `sleepDone f`)
  | bare                         -- asyncio.sleep(0) / coro_yield
  | sbare                        -- cancel_shielded_coro_yield
  deriving Repr

inductive Frame where
  | seq (rest : List Stmt)
  | scopeF (sc : Nat) (timeout : Bool)                       -- `with` block of scope number sc
  | shieldF (id : Nat) (yielded : Bool) (inner : Option Nat) (lastC : Option Msg)
                                                             -- __cancel_shielded_await driver; while suspended:
                                                             -- inner = none: at `yield None`; some f: shielding f
  | tryF (id : Nat)
  | blkF (id : Nat) (k : BlkKind) (flag : Bool)              -- flag (ghost): started under a cancelled scope, unshielded
  deriving Repr

/-- task outcome -/
inductive Res where
  | ok | cancel | timeout | crash
  deriving Repr, DecidableEq

structure K where
  -- loop
  now : Nat := 0
  ready : List Handle := []                          -- scheduled for the next turn
  batch : List Handle := []                          -- rest of the current turn
  timers : List (Nat × Int × Handle) := []           -- (when, prio, h), sorted, FIFO among equal keys
  futs : List Fut := []
  -- task
  mustCancel : Bool := false
  cancelMsg : Msg := none
  numCancels : Nat := 0
  waiter : Option Nat := none
  done : Option Res := none
  frames : List Frame := []
  -- scopes
  scopes : List Scope := []
  delayed : Option Msg := none                       -- __delayed_task_cancel_dict[task] (its message)
  -- constants
  stepFuel : Nat := 0
  fix : Bool := false                                -- model of docs/C13-fix-1.patch (undo remaining cancel calls on exit)
  -- ghost / trace
  extCount : Nat := 0                                -- external task.cancel() calls counted by the task
  phantom : Nat := 0                                 -- `uncancel(); cancel()` executed with cancelling() == 0
  bad : Bool := false                                -- a flagged blocking operation completed normally
  out : List Ev := []                                -- reversed
  deriving Repr

def K.emit (k : K) (e : Ev) : K := { k with out := e :: k.out }

/-! ## loop primitives -/

/-- `loop.call_soon(h)` -/
def K.callSoon (k : K) (h : Handle) : K := { k with ready := k.ready ++ [h] }

def timerLe (a b : Nat × Int × Handle) : Bool :=
  a.1 < b.1 || (a.1 == b.1 && a.2.1 ≤ b.2.1)

/-- insertion after every entry whose (when, prio) is not larger: FIFO among equal keys -/
def insertTimer (x : Nat × Int × Handle) : List (Nat × Int × Handle) → List (Nat × Int × Handle)
  | [] => [x]
  | y :: ys => if timerLe y x then y :: insertTimer x ys else x :: y :: ys

/-- `loop.call_at(when, h)` -/
def K.callAt (k : K) (when : Nat) (prio : Int) (h : Handle) : K :=
  { k with timers := insertTimer (when, prio, h) k.timers }

/-- `handle.cancel()` of the handle with role `h` -/
def K.cancelHandle (k : K) (h : Handle) : K :=
  { k with ready := k.ready.filter (· != h),
           batch := k.batch.filter (· != h),
           timers := k.timers.filter (fun p => p.2.2 != h) }

/-! ## futures -/

def K.futState (k : K) (f : Nat) : FState :=
  match k.futs[f]? with
  | some x => x.state
  | none => .result

def K.futCb (k : K) (f : Nat) : Cb :=
  match k.futs[f]? with
  | some x => x.cb
  | none => .none

def updAt {α} (l : List α) (i : Nat) (g : α → α) : List α :=
  match l, i with
  | [], _ => []
  | x :: xs, 0 => g x :: xs
  | x :: xs, i + 1 => x :: updAt xs i g

def K.updFut (k : K) (f : Nat) (g : Fut → Fut) : K := { k with futs := updAt k.futs f g }

/-- `loop.create_future()`; its id is `k.futs.length` -/
def K.newFut (k : K) : K := { k with futs := k.futs ++ [(⟨.pending, .none⟩ : Fut)] }

/-- `Future.__schedule_callbacks` -/
def K.scheduleCb (k : K) (f : Nat) : K :=
  match k.futCb f with
  | .none => k
  | .wakeup => (k.updFut f (fun x => { x with cb := .none })).callSoon (.wakeup f)
  | .innerDone o => (k.updFut f (fun x => { x with cb := .none })).callSoon (.innerDone f o)

/-- `Future.cancel(msg)`: `(state, returned bool)` -/
def K.futCancel (k : K) (f : Nat) (m : Msg) : K × Bool :=
  match k.futState f with
  | .pending => ((k.updFut f (fun x => { x with state := .cancelled m })).scheduleCb f, true)
  | _ => (k, false)

/-- `Future.set_result` on a pending future (`_set_result_unless_cancelled`) -/
def K.futSetResult (k : K) (f : Nat) : K :=
  match k.futState f with
  | .pending => (k.updFut f (fun x => { x with state := .result })).scheduleCb f
  | _ => k

/-! ## task -/

/-- `Task.cancel(msg)` (CPython 3.12) -/
def K.taskCancel (k : K) (m : Msg) : K :=
  if k.done.isSome then k else
  match k.waiter with
  | some f =>
    match k.futState f with
    | .pending => ({ k with numCancels := k.numCancels + 1 }.futCancel f m).1
    | _ => { k with numCancels := k.numCancels + 1, mustCancel := true, cancelMsg := m }
  | none => { k with numCancels := k.numCancels + 1, mustCancel := true, cancelMsg := m }

/-- `Task.uncancel()` (3.12: does not clear `_must_cancel`) -/
def K.taskUncancel (k : K) : K := { k with numCancels := k.numCancels - 1 }

/-! ## scopes -/

def defaultScope : Scope := ⟨0, false, false, false, none, false, false, 0, 0⟩

def K.scope (k : K) (s : Nat) : Scope := (k.scopes[s]?).getD defaultScope

def K.updScope (k : K) (s : Nat) (g : Scope → Scope) : K := { k with scopes := updAt k.scopes s g }

/-- scope numbers of the `with` frames, innermost first -/
def scopeIds : List Frame → List Nat
  | [] => []
  | .scopeF s _ :: fs => s :: scopeIds fs
  | _ :: fs => scopeIds fs

/-- `__current_task_scope_dict[task]` -/
def K.stack (k : K) : List Nat := scopeIds k.frames

/-- `CancelScope.__deliver_cancellation`; `cur` = the host task is the current task -/
def K.deliver (k : K) (s : Nat) (cur : Bool) : K :=
  if !(k.scope s).active then k else
  match k.delayed with
  | some m =>
    if m = some s then (k.updScope s (fun x => { x with cancelH := true })).callSoon (.deliver s)
    else k.updScope s (fun x => { x with cancelH := false })
  | none =>
    if !k.mustCancel && !cur then
      (((k.taskCancel (some s)).updScope s (fun x => { x with calls := x.calls + 1 })).updScope s
        (fun x => { x with cancelH := true })).callSoon (.deliver s)
    else (k.updScope s (fun x => { x with cancelH := true })).callSoon (.deliver s)

/-- `CancelScope.cancel` -/
def K.scopeCancel (k : K) (s : Nat) (cur : Bool) : K :=
  if (k.scope s).cancelCalled then k else
  (((k.updScope s (fun x => { x with cancelCalled := true })).cancelHandle (.timeoutCancel s)).updScope s
    (fun x => { x with timeoutH := false })).deliver s cur

/-- `CancelScope.__setup_cancellation_by_timeout` -/
def K.setupTimeout (k : K) (s : Nat) (cur : Bool) : K :=
  match (k.scope s).deadline with
  | none => k
  | some d =>
    if k.now ≥ d then k.scopeCancel s cur
    else (k.updScope s (fun x => { x with timeoutH := true })).callAt d 0 (.timeoutCancel s)

/-- `CancelScope.reschedule(when)` -/
def K.reschedule (k : K) (s : Nat) (when : Option Nat) (cur : Bool) : K :=
  if (k.scope s).active && !(k.scope s).cancelCalled then
    (((k.updScope s (fun x => { x with deadline := when })).cancelHandle (.timeoutCancel s)).updScope s
      (fun x => { x with timeoutH := false })).setupTimeout s cur
  else
    ((k.updScope s (fun x => { x with deadline := when })).cancelHandle (.timeoutCancel s)).updScope s
      (fun x => { x with timeoutH := false })

/-- `CancelScope._check_pending_cancellation`: first cancelled scope from the innermost -/
def K.checkPendingFrom (k : K) : List Nat → K
  | [] => k
  | p :: ps =>
    if (k.scope p).cancelCalled then
      if !(k.scope p).cancelH then k.deliver p true else k
    else k.checkPendingFrom ps

def K.checkPending (k : K) : K := k.checkPendingFrom k.stack

/-- `CancelScope._reschedule_delayed_task_cancel` (AssertionError → `crash`) -/
def K.reschedDelayed (k : K) (m : Msg) : K :=
  if k.delayed.isSome then { k.emit .assertion with done := some .crash }
  else ({ k with delayed := some m }.callSoon (.delayedCancel m)).callSoon .delayedPop

/-- creation (`move_on_after(delay)`), optional `cancel()`, `__enter__` and the `with` frame;
    the new scope's number is `k.scopes.length` -/
def K.scopeEnter (k : K) (sid : Nat) (to : Bool) (delay : Option Nat) (pre : Bool) : K :=
  if pre then
    { k with scopes := k.scopes ++ [(⟨sid, true, pre, false, delay.map (k.now + ·), false, false, k.numCancels, 0⟩ : Scope)],
             frames := .scopeF k.scopes.length to :: k.frames }.deliver k.scopes.length true
  else
    { k with scopes := k.scopes ++ [(⟨sid, true, pre, false, delay.map (k.now + ·), false, false, k.numCancels, 0⟩ : Scope)],
             frames := .scopeF k.scopes.length to :: k.frames }.setupTimeout k.scopes.length true

/-- `CancelScope.__uncancel_task`: `(state, caught)` -/
def K.uncancelLoop (k : K) (s : Nat) (m : Msg) : Nat → K × Bool
  | 0 => (k, decide (m = some s))
  | n + 1 =>
    if ((k.updScope s (fun x => { x with calls := x.calls - 1 })).taskUncancel).numCancels ≤ (k.scope s).base then
      ((k.updScope s (fun x => { x with calls := x.calls - 1 })).taskUncancel, true)
    else K.uncancelLoop ((k.updScope s (fun x => { x with calls := x.calls - 1 })).taskUncancel) s m n

/-- proposed repair (docs/C13-fix-1.patch): undo the cancel calls still accounted to the scope -/
def K.undoRemaining (k : K) (s : Nat) : K :=
  { k.updScope s (fun x => { x with calls := 0 }) with numCancels := k.numCancels - (k.scope s).calls }

/-- the `if exc_val is not None:` part of `__exit__` -/
def K.exitCatch (k : K) (s : Nat) : Option Exc → K
  | some (.cancelled m) =>
    (k.uncancelLoop s m (k.scope s).calls).1.updScope s (fun x => { x with caught := (k.uncancelLoop s m (k.scope s).calls).2 })
  | some .timeout => k.updScope s (fun x => { x with caught := false })
  | none => k

/-- the delayed task cancel carrying this scope's message is dropped -/
def K.dropOwnDelayed (k : K) (s : Nat) : K :=
  match k.delayed with
  | some m => if m = some s then { k with delayed := none }.cancelHandle (.delayedCancel m) else k
  | none => k

/-- the `if self.__cancel_called:` part of `__exit__` -/
def K.exitCancelled (k : K) (s : Nat) (e : Option Exc) : K :=
  if (k.exitCatch s e).fix then ((k.exitCatch s e).undoRemaining s).dropOwnDelayed s
  else (k.exitCatch s e).dropOwnDelayed s

/-- `CancelScope.__exit__` (the `with` frame of the scope is already popped) -/
def K.scopeExit (k : K) (s : Nat) (e : Option Exc) : K :=
  if (k.scope s).cancelCalled then
    ((((k.cancelHandle (.timeoutCancel s)).cancelHandle (.deliver s)).updScope s
      (fun x => { x with active := false, timeoutH := false, cancelH := false })).exitCancelled s e).checkPending
  else
    (((k.cancelHandle (.timeoutCancel s)).cancelHandle (.deliver s)).updScope s
      (fun x => { x with active := false, timeoutH := false, cancelH := false })).checkPending

/-! ## coroutine -/

inductive Yield where
  | bare
  | fut (f : Nat)
  deriving Repr

/-- the driver of `__cancel_shielded_await` receives what the inner coroutine yielded -/
def shieldWrap (id : Nat) (y : Yield) (k : K) : Frame × Yield × K :=
  match y with
  | .bare => (.shieldF id true none none, .bare, k)
  | .fut f =>
    -- `yield from asyncio.shield(to_yield)`: new outer future, inner gets `_inner_done_callback`
    (.shieldF id true (some f) none, .fut k.futs.length,
      (k.newFut).updFut f (fun x => { x with cb := .innerDone k.futs.length }))

/-- a yield travels from the innermost frame outwards through the shield drivers -/
def bubble : List Frame → Yield → K → List Frame × Yield × K
  | [], y, k => ([], y, k)
  | .shieldF id _ _ _ :: fs, y, k =>
    let r := shieldWrap id y k
    let r2 := bubble fs r.2.1 r.2.2
    (r.1 :: r2.1, r2.2.1, r2.2.2)
  | fr :: fs, y, k =>
    let r2 := bubble fs y k
    (fr :: r2.1, r2.2.1, r2.2.2)

inductive RRes where
  | go (sg : Signal)       -- the innermost frame is resumed with sg
  | susp (y : Yield)       -- a shield driver suspended again
  deriving Repr

def K.reschedOpt (k : K) : Option Msg → K
  | none => k
  | some m => k.reschedDelayed m

/-- resumption travels from the outermost frame inwards (frames given outermost first) -/
def resumeOuter : List Frame → Signal → K → List Frame × RRes × K
  | [], sg, k => ([], .go sg, k)
  | .shieldF id yl inner lastC :: rest, sg, k =>
    let lastC' : Option Msg := match sg with | .cancelled m => some m | .ok => lastC
    match inner with
    | none =>
      -- `try: yield None except CancelledError as exc: last_cancellation = exc`
      let r := resumeOuter rest .ok (k.reschedOpt lastC')
      match r.2.1 with
      | .go sg' => (.shieldF id yl none none :: r.1, .go sg', r.2.2)
      | .susp y => let w := shieldWrap id y r.2.2; (w.1 :: r.1, .susp w.2.1, w.2.2)
    | some f =>
      match k.futState f with
      | .pending =>
        -- `while not to_yield.done(): yield from asyncio.shield(to_yield)`
        (.shieldF id yl (some f) lastC' :: rest, .susp (.fut k.futs.length),
          (k.newFut).updFut f (fun x => { x with cb := .innerDone k.futs.length }))
      | .cancelled m' =>
        -- inner future cancelled: do not reschedule, throw into the coroutine
        let r := resumeOuter rest (.cancelled m') k
        match r.2.1 with
        | .go sg' => (.shieldF id yl none none :: r.1, .go sg', r.2.2)
        | .susp y => let w := shieldWrap id y r.2.2; (w.1 :: r.1, .susp w.2.1, w.2.2)
      | .result =>
        let r := resumeOuter rest .ok (k.reschedOpt lastC')
        match r.2.1 with
        | .go sg' => (.shieldF id yl none none :: r.1, .go sg', r.2.2)
        | .susp y => let w := shieldWrap id y r.2.2; (w.1 :: r.1, .susp w.2.1, w.2.2)
  | fr :: rest, sg, k =>
    let r := resumeOuter rest sg k
    (fr :: r.1, r.2.1, r.2.2)

inductive Ctl where
  | next                   -- continue with the top frame
  | raising (e : Exc)      -- an exception travels outwards
  | resume (sg : Signal)   -- the task was resumed at its suspension point
  deriving Repr

inductive Next where
  | cont (c : Ctl)
  | yielded (y : Yield)
  | finished (e : Option Exc)
  deriving Repr

def K.ccBits (k : K) : List Bool := k.stack.map (fun s => (k.scope s).cancelCalled)

def isScopeHandle (s : Nat) (h : Handle) : Bool :=
  h == .deliver s || h == .timeoutCancel s || h == .delayedCancel (some s)

def K.handleCount (k : K) (s : Nat) : Nat :=
  (k.batch.filter (isScopeHandle s)).length + (k.ready.filter (isScopeHandle s)).length +
    (k.timers.filter (fun p => isScopeHandle s p.2.2)).length

def notShield : Frame → Bool
  | .shieldF _ _ _ _ => false
  | _ => true

/-- ghost: a blocking operation starting now is under a cancelled scope and outside every shield -/
def K.flagNow (k : K) : Bool := k.ccBits.any id && k.frames.all notShield

def K.pop (k : K) : K := { k with frames := k.frames.drop 1 }
def K.push (k : K) (f : Frame) : K := { k with frames := f :: k.frames }

/-- start of one statement (the enclosing `seq` frame already holds the rest) -/
def K.startStmt (k : K) : Stmt → K × Next
  | .sleep id 0 => (((k.emit (.blk id k.now k.ccBits)).push (.blkF id .bare k.flagNow)), .yielded .bare)
  | .sleep id (d + 1) =>
    -- asyncio.sleep: future + call_later(d, _set_result_unless_cancelled)
    (((((k.emit (.blk id k.now k.ccBits)).newFut).callAt (k.now + (d + 1)) 0 (.sleepDone k.futs.length)).push
        (.blkF id (.sleep k.futs.length) k.flagNow)), .yielded (.fut k.futs.length))
  | .yield_ id => (((k.emit (.blk id k.now k.ccBits)).push (.blkF id .bare k.flagNow)), .yielded .bare)
  | .syield id => (((k.emit (.blk id k.now k.ccBits)).push (.blkF id .sbare false)), .yielded .bare)
  | .cancel id i =>
    match k.stack[i]? with
    | some s => ((k.scopeCancel s true).emit (.did id k.now), .cont .next)
    | none => (k, .cont .next)
  | .resched id i d =>
    match k.stack[i]? with
    | some s => ((k.reschedule s (d.map (k.now + ·)) true).emit (.did id k.now), .cont .next)
    | none => (k, .cont .next)
  | .scope id to delay pre body =>
    ((((k.scopeEnter id to delay pre).emit (.enter id k.now k.numCancels)).push (.seq body)), .cont .next)
  | .shield id body =>
    ((((k.emit (.sin id k.now)).push (.shieldF id false none none)).push (.seq body)), .cont .next)
  | .tryc id body => (((k.push (.tryF id)).push (.seq body)), .cont .next)

/-- what leaves the `with` block: move_on: `__exit__` returns cancelled_caught;
    timeout: `_timeout_scope.__exit__` raises TimeoutError iff cancelled_caught() -/
def exitOut (caught to : Bool) (e : Option Exc) : Option Exc :=
  if caught then (if to then some .timeout else none) else e

def nextOf : Option Exc → Next
  | none => .cont .next
  | some x => .cont (.raising x)

/-- end of a `with scope:` block; `e` = what reaches `__exit__` -/
def K.endScope (k : K) (s : Nat) (to : Bool) (e : Option Exc) : K × Next :=
  ((k.pop.scopeExit s e).emit (.exit ((k.pop.scopeExit s e).scope s).sid (k.pop.scopeExit s e).now (Out.ofExc e)
      (Out.ofExc (exitOut ((k.pop.scopeExit s e).scope s).caught to e)) ((k.pop.scopeExit s e).scope s).cancelCalled
      ((k.pop.scopeExit s e).scope s).caught (k.pop.scopeExit s e).numCancels ((k.pop.scopeExit s e).handleCount s)
      (k.pop.scopeExit s e).ccBits),
    nextOf (exitOut ((k.pop.scopeExit s e).scope s).caught to e))

/-- end of the shielded coroutine (StopIteration or exception out of `coroutine.send/throw`) -/
def K.endShield (k : K) (id : Nat) (yielded : Bool) (e : Option Exc) : K × Next :=
  if yielded then (k.pop.checkPending.emit (.sout id k.now (Out.ofExc e)), nextOf e)
  else (k.pop.emit (.sout id k.now (Out.ofExc e)), nextOf e)

/-- one micro-step of the coroutine -/
def K.coStep (k : K) (c : Ctl) : K × Next :=
  match c, k.frames with
  | .next, [] => (k, .finished none)
  | .raising e, [] => (k, .finished (some e))
  | .resume .ok, [] => (k, .finished none)
  | .resume (.cancelled m), [] => (k, .finished (some (.cancelled m)))
  | .next, .seq [] :: _ => (k.pop, .cont .next)
  | .next, .seq (s :: rest) :: fs => ({ k with frames := .seq rest :: fs }.startStmt s)
  | .raising e, .seq _ :: _ => (k.pop, .cont (.raising e))
  | .next, .scopeF s to :: _ => k.endScope s to none
  | .raising e, .scopeF s to :: _ => k.endScope s to (some e)
  | .next, .tryF _ :: _ => (k.pop, .cont .next)
  | .raising (.cancelled _), .tryF id :: _ => ((k.pop.emit (.swallow id k.now)), .cont .next)
  | .raising e, .tryF _ :: _ => (k.pop, .cont (.raising e))
  | .next, .shieldF id yl _ _ :: _ => k.endShield id yl none
  | .raising e, .shieldF id yl _ _ :: _ => k.endShield id yl (some e)
  -- resumption at the suspension point
  | .resume .ok, .blkF id (.sleep f) flag :: _ =>
    ({ (k.pop.cancelHandle (.sleepDone f)).emit (.ret id k.now) with bad := k.bad || flag }, .cont .next)
  | .resume (.cancelled m), .blkF id (.sleep f) _ :: _ =>
    ((k.pop.cancelHandle (.sleepDone f)).emit (.exc id k.now), .cont (.raising (.cancelled m)))
  | .resume .ok, .blkF id .bare flag :: _ => ({ k.pop.emit (.ret id k.now) with bad := k.bad || flag }, .cont .next)
  | .resume (.cancelled m), .blkF id .bare _ :: _ => (k.pop.emit (.exc id k.now), .cont (.raising (.cancelled m)))
  | .resume .ok, .blkF id .sbare _ :: _ => (k.pop.emit (.ret id k.now), .cont .next)
  | .resume (.cancelled m), .blkF id .sbare _ :: _ =>
    -- cancel_shielded_coro_yield: except CancelledError → _reschedule_delayed_task_cancel
    ((k.pop.reschedDelayed m).emit (.ret id k.now), .cont .next)
  -- first step of the coroutine (nothing awaited yet): a thrown CancelledError ends it at once
  | .resume .ok, _ :: _ => (k, .cont .next)
  | .resume (.cancelled m), _ :: _ => (k, .cont (.raising (.cancelled m)))
  | .next, .blkF _ _ _ :: _ => (k.pop, .cont .next)
  | .raising e, .blkF _ _ _ :: _ => (k.pop, .cont (.raising e))

/-- `result.add_done_callback(self.__wakeup); self._fut_waiter = result` -/
def K.setWaiter (k : K) (f : Nat) : K := { k.updFut f (fun x => { x with cb := .wakeup }) with waiter := some f }

/-- what `Task.__step` does with the value yielded by the coroutine -/
def K.taskYield (k : K) : Yield → K
  | .bare => k.callSoon .step
  | .fut f =>
    if k.mustCancel then
      if ((k.setWaiter f).futCancel f k.cancelMsg).2 then { ((k.setWaiter f).futCancel f k.cancelMsg).1 with mustCancel := false }
      else ((k.setWaiter f).futCancel f k.cancelMsg).1
    else k.setWaiter f

/-- the coroutine returned / raised -/
def K.taskFinish (k : K) : Option Exc → K
  | none => if k.mustCancel then { k with mustCancel := false, done := some .cancel } else { k with done := some .ok }
  | some (.cancelled _) => { k with done := some .cancel }
  | some .timeout => { k with done := some .timeout }

/-- run the coroutine until it yields or ends -/
def K.exec : Nat → K → Ctl → K
  | 0, k, _ => { k with done := some .crash }
  | fuel + 1, k, c =>
    if k.done.isSome then k else
    match k.coStep c with
    | (k1, .cont c1) => K.exec fuel k1 c1
    | (k1, .yielded y) =>
      let r := bubble k1.frames y k1
      { r.2.2 with frames := r.1 }.taskYield r.2.1
    | (k1, .finished e) => k1.taskFinish e

/-- `Task.__step(exc)`: `if self._must_cancel: if not isinstance(exc, CancelledError): exc = self._make_cancelled_error()` -/
def K.wakeSignal (k : K) (sg0 : Signal) : Signal :=
  if k.mustCancel then
    (match sg0 with
     | .cancelled m => .cancelled m
     | .ok => .cancelled k.cancelMsg)
  else sg0

/-- the resumption travels through the shield drivers (frames outermost first) -/
def K.resumed (k : K) (sg0 : Signal) : List Frame × RRes × K :=
  resumeOuter k.frames.reverse (k.wakeSignal sg0) { k with mustCancel := false, waiter := none }

/-- the state in which the innermost frame is resumed -/
def K.afterDrivers (k : K) (sg0 : Signal) : K :=
  { (k.resumed sg0).2.2 with frames := (k.resumed sg0).1.reverse }

/-- `Task.__step(exc)` -/
def K.taskStep (k : K) (sg0 : Signal) : K :=
  if k.done.isSome then k else
  match (k.resumed sg0).2.1 with
  | .susp y => (k.afterDrivers sg0).taskYield y
  | .go sg' => K.exec k.stepFuel (k.afterDrivers sg0) (.resume sg')

/-! ## handles and turns -/

def K.runHandleCore (k : K) : Handle → K
  | .step => k.taskStep .ok
  | .wakeup f =>
    match k.futState f with
    | .cancelled m => k.taskStep (.cancelled m)
    | _ => k.taskStep .ok
  | .deliver s => k.deliver s false
  | .timeoutCancel s => (k.updScope s (fun x => { x with timeoutH := false })).scopeCancel s false
  | .sleepDone f => k.futSetResult f
  | .delayedCancel m =>
    if k.done.isSome then k
    else ({ k.taskUncancel with phantom := k.phantom + (if k.numCancels = 0 then 1 else 0) }).taskCancel m
  | .delayedPop => { k with delayed := none }
  | .innerDone f o =>
    match k.futState o with
    | .cancelled _ => k
    | _ =>
      match k.futState f with
      | .cancelled _ => (k.futCancel o none).1
      | _ => k.futSetResult o
  | .ext =>
    let k1 := k.emit (.ext k.now k.done.isSome)
    if k1.done.isSome then k1 else { k1.taskCancel none with extCount := k1.extCount + 1 }

/-- (`crash` is a model artefact — fuel exhausted or the AssertionError of `_reschedule_delayed_task_cancel` —
    after which nothing runs any more) -/
def K.runHandle (k : K) (h : Handle) : K :=
  if k.done = some .crash then k else k.runHandleCore h

def K.runBatch : Nat → K → K
  | 0, k => k
  | n + 1, k =>
    match k.batch with
    | [] => k
    | h :: rest => K.runBatch n ({ k with batch := rest }.runHandle h)

def dueTimers (now : Nat) (ts : List (Nat × Int × Handle)) : List Handle :=
  (ts.takeWhile (fun p => p.1 ≤ now)).map (fun p => p.2.2)

/-- the clock at which the turn runs: an idle loop jumps to its first timer -/
def K.turnNow (k : K) : Nat :=
  if k.ready.isEmpty then (match k.timers with | [] => k.now | t :: _ => max k.now t.1) else k.now

/-- `_run_once`: the timers that are due join the ready queue; this batch (and nothing scheduled later) runs
    (`k.batch` is empty here: the previous turn ran its batch to the end) -/
def K.beginTurn (k : K) : K :=
  { k with now := k.turnNow, batch := k.batch ++ k.ready ++ dueTimers k.turnNow k.timers, ready := [],
           timers := k.timers.dropWhile (fun p => p.1 ≤ k.turnNow) }

/-- every turn takes one tick -/
def K.endTurn (k : K) : K := { k with now := k.now + 1 }

/-- one `_run_once()`; `none` = nothing ready and no timer (the real loop would block forever) -/
def K.turn (k : K) : Option K :=
  if k.ready.isEmpty && k.timers.isEmpty then none
  else some (K.runBatch k.beginTurn.batch.length k.beginTurn).endTurn

inductive Stop where
  | done | deadlock | overrun
  deriving Repr, DecidableEq

/-- `while not task.done(): loop.turn()` -/
def K.runTurns : Nat → K → K × Stop
  | 0, k => (k, .overrun)
  | n + 1, k =>
    if k.done.isSome then (k, .done) else
    match k.turn with
    | none => (k, .deadlock)
    | some k1 => K.runTurns n k1

/-! ## programs -/

mutual
  def Stmt.size : Stmt → Nat
    | .scope _ _ _ _ body => 1 + Stmt.sizeList body
    | .shield _ body => 1 + Stmt.sizeList body
    | .tryc _ body => 1 + Stmt.sizeList body
    | _ => 1
  def Stmt.sizeList : List Stmt → Nat
    | [] => 0
    | s :: ss => s.size + Stmt.sizeList ss
end

def addExt (extLast : Bool) : List Nat → K → K
  | [], k => k
  | t :: ts, k => addExt extLast ts (k.callAt t (if extLast then 1 else -1) .ext)

/-- `loop.create_task(program)` then the external `call_at(t, task.cancel)` timers -/
def K.init (prog : List Stmt) (ext : List Nat) (extLast fix : Bool) : K :=
  addExt extLast ext (({ frames := [.seq prog], stepFuel := 4 * Stmt.sizeList prog + 16, fix := fix } : K).callSoon .step)

def run (prog : List Stmt) (ext : List Nat) (extLast fix : Bool) (maxTurns : Nat) : K × Stop :=
  K.runTurns maxTurns (K.init prog ext extLast fix)

end EasyNet.CS
