/-
  Raw JSON stream framer: `JSONSerializer(use_lines=False)`.
  Core Lean only (linked into `endriver`).

  Python correspondences (src/easynetwork/serializers/json.py)
    JRaw.Counter            collections.Counter restricted to the keys b'"', b"{", b"[" (the only ones `raw_parse` touches):
                              get   = `counter[k]`           (a missing key reads as 0 and is NOT inserted)
                              set   = `counter[k] = v`       (also what `+= 1` / `-= 1` do: read, then assign -> inserts)
                              len   = `len(counter)`         (number of keys present)
                              firstKey = `next(iter(counter))` (first key ever inserted; keys are never deleted)
    JRaw.escaped            _JSONParser._escaped
    JRaw.split              _JSONParser._split_partial_document
    JRaw.scanLoop           the `for offset, char in enumerate(iter_bytes(view[offset:]), start=offset): match char:` loop
    JRaw.plainLoop          the second `while (nprint_idx := …) < 0:` loop (plain values)
    JRaw.feed               `generator.send(chunk)` on `_JSONParser.raw_parse(limit=limit)` up to the next yield / return / raise
    JRaw.produce            JSONSerializer.incremental_serialize with use_lines=False (on the already encoded text)

  `LimitOverrunError(msg, buffer, consumed)` is built without separator: `remaining_data = buffer[consumed:]`
  (exceptions.py, LimitOverrunError.__init__), which is what `Res.fail` carries.
-/
import EasyNet.Model.Framers
namespace EasyNet
namespace JRaw

def QUOTE : UInt8 := 34      -- b'"'
def LBRACE : UInt8 := 123    -- b"{"
def RBRACE : UInt8 := 125    -- b"}"
def LBRACK : UInt8 := 91     -- b"["
def RBRACK : UInt8 := 93     -- b"]"
def BSLASH : UInt8 := 92     -- _ESCAPE_BYTE

/-- `case b" " | b"\t" | b"\n" | b"\r"`, and the character class of `_whitespaces_match` (`[ \t\n\r]*`) -/
def isWs (c : UInt8) : Bool := c == 32 || c == 9 || c == 10 || c == 13

/-- `byte in _JSON_VALUE_BYTES` = `string.digits + string.ascii_letters + string.punctuation` = every ASCII byte 0x21..0x7e -/
def isValueByte (c : UInt8) : Bool := 33 ≤ c && c ≤ 126

/-! ### collections.Counter over the three keys -/

structure Counter where
  q : Option Int := none          -- value at key b'"'  (none = key absent)
  c : Option Int := none          -- value at key b"{"
  s : Option Int := none          -- value at key b"["
  firstKey : Option UInt8 := none -- first key ever inserted (= `next(iter(counter))`)
  deriving Repr, DecidableEq

def Counter.empty : Counter := {}

def Counter.slot (m : Counter) (k : UInt8) : Option Int :=
  if k == QUOTE then m.q else if k == LBRACE then m.c else if k == LBRACK then m.s else none

/-- `counter[k]` (read) -/
def Counter.get (m : Counter) (k : UInt8) : Int :=
  match m.slot k with
  | some v => v
  | none => 0

/-- `len(counter)` -/
def Counter.len (m : Counter) : Nat :=
  (if m.q.isSome then 1 else 0) + (if m.c.isSome then 1 else 0) + (if m.s.isSome then 1 else 0)

/-- `counter[k] = v` -/
def Counter.set (m : Counter) (k : UInt8) (v : Int) : Counter :=
  let fk := match m.firstKey with | some f => some f | none => some k
  if k == QUOTE then { m with q := some v, firstKey := fk }
  else if k == LBRACE then { m with c := some v, firstKey := fk }
  else if k == LBRACK then { m with s := some v, firstKey := fk }
  else m

/-! ### _escaped -/

/-- the loop of `_escaped` over `reversed(view)`, given the view already reversed -/
def escapedRev : Bytes → Bool → Bool
  | [], e => e
  | b :: rest, e => if b == BSLASH then escapedRev rest (!e) else e

/-- `_escaped(partial_document_view)` -/
def escaped (view : Bytes) : Bool := escapedRev view.reverse false

/-! ### _split_partial_document -/

/-- `_whitespaces_match(partial_document, consumed).end() - consumed` on the bytes from `consumed` on -/
def wsRun : Bytes → Nat
  | [] => 0
  | b :: rest => if isWs b then wsRun rest + 1 else 0

def split {σ : Type} (doc : Bytes) (consumed limit : Nat) : Res σ :=
  if consumed > limit then .fail (doc.drop consumed)                          -- LimitOverrunError(.., partial_document, consumed)
  else
    if consumed + wsRun (doc.drop consumed) == doc.length then .done doc []   -- only spaces follow: do not slice
    else
      if (doc.take (consumed + wsRun (doc.drop consumed))).isEmpty then
        .done (doc.drop (consumed + wsRun (doc.drop consumed))) []            -- `if not complete_document:` swap
      else .done (doc.take (consumed + wsRun (doc.drop consumed))) (doc.drop (consumed + wsRun (doc.drop consumed)))

/-! ### the generator -/

structure State where
  plain : Bool            -- false: suspended at the `yield` of the first loop; true: at the `yield` of the plain-value loop
  doc : Bytes             -- `partial_document`
  offset : Nat            -- `offset`               (first loop only)
  cnt : Counter           -- `enclosure_counter`    (first loop only)
  first : Option UInt8    -- `first_enclosure` (none = b"")
  deriving Repr, DecidableEq

/-- state at the first `partial_document = yield` (reading it as `b"" + yield`) -/
def init : State := ⟨false, [], 0, Counter.empty, none⟩

/-- how one pass over the new bytes of the first loop ends -/
inductive ScanOut where
  | closed (offset : Nat)                           -- `return split_partial_document(partial_document, offset + 1, limit)`
  | plainAt (offset : Nat)                          -- `raise _PlainValueError` with `char` at `offset`
  | exhausted (cnt : Counter) (first : Option UInt8) -- the `for` loop ran out of bytes
  deriving Repr, DecidableEq

/-- the statements after the `match` for the cases that do not `continue`:
    `if not first_enclosure: first_enclosure = next(iter(enclosure_counter))` -/
def firstOf (cnt : Counter) (first : Option UInt8) : Option UInt8 :=
  match first with
  | some f => some f
  | none => cnt.firstKey

/-- `enclosure_counter[first_enclosure] <= 0` -/
def closedNow (cnt : Counter) (first : Option UInt8) : Bool :=
  match first with
  | some f => decide (cnt.get f ≤ 0)
  | none => false          -- unreachable (`assert len(enclosure_counter) > 0`)

/-- new counter for the `match` arms that fall through to the `first_enclosure` test; `none` = the arm `continue`s or raises -/
def arm (rev : Bytes) (ch : UInt8) (cnt : Counter) : Option Counter :=
  if ch == QUOTE && !escapedRev rev false then
    some (cnt.set QUOTE (if cnt.get QUOTE == 1 then 0 else 1))         -- case b'"' if not escaped(view[:offset])
  else if cnt.get QUOTE > 0 then none                                   -- within a JSON string, move on
  else if ch == LBRACE || ch == LBRACK then some (cnt.set ch (cnt.get ch + 1))
  else if ch == RBRACE then some (cnt.set LBRACE (cnt.get LBRACE - 1))
  else if ch == RBRACK then some (cnt.set LBRACK (cnt.get LBRACK - 1))
  else none

/-- is this the arm `case _ if len(enclosure_counter) == 0: raise _PlainValueError` (given that `arm` returned `none`)? -/
def plainArm (ch : UInt8) (cnt : Counter) : Bool :=
  !(cnt.get QUOTE > 0) && !isWs ch && cnt.len == 0

/-- The `for` loop. `rev` is `view[:offset]` reversed (what `_escaped` walks over: the WHOLE accumulated document before
    `offset`, not just the current chunk), `rest` is `view[offset:]`. -/
def scanLoop : (rev rest : Bytes) → (offset : Nat) → (cnt : Counter) → (first : Option UInt8) → ScanOut
  | _, [], _, cnt, first => .exhausted cnt first
  | rev, ch :: rest, offset, cnt, first =>
    match arm rev ch cnt with
    | some cnt' =>
      if closedNow cnt' (firstOf cnt' first) then .closed offset
      else scanLoop (ch :: rev) rest (offset + 1) cnt' (firstOf cnt' first)
    | none =>
      if plainArm ch cnt then .plainAt offset
      else scanLoop (ch :: rev) rest (offset + 1) cnt first

/-- `next((idx for idx, byte in enumerate(partial_document) if byte not in _JSON_VALUE_BYTES), -1)` (`none` = -1) -/
def nprintIdx (doc : Bytes) : Option Nat := doc.findIdx? (fun b => !isValueByte b)

/-- one round of the second loop -/
def plainLoop (limit : Nat) (doc : Bytes) : Res State :=
  match nprintIdx doc with
  | none =>
    if doc.length > limit then .fail (doc.drop doc.length)          -- LimitOverrunError(.., partial_document, len(partial_document))
    else .need ⟨true, doc, 0, Counter.empty, none⟩
  | some idx => split doc idx limit

/-- one round of the first loop on `doc = partial_document` (already extended by the chunk) -/
def scanRound (limit : Nat) (doc : Bytes) (offset : Nat) (cnt : Counter) (first : Option UInt8) : Res State :=
  match scanLoop (doc.take offset).reverse (doc.drop offset) offset cnt first with
  | .closed off => split doc (off + 1) limit
  | .plainAt off =>
    -- `partial_document = partial_document[offset:] if offset > 0 else partial_document`, then the second loop
    plainLoop limit (if off > 0 then doc.drop off else doc)
  | .exhausted cnt' first' =>
    -- `offset = partial_document_view.nbytes; if offset > limit: raise LimitOverrunError(.., partial_document, offset)`
    if doc.length > limit then .fail (doc.drop doc.length)
    else .need ⟨false, doc, doc.length, cnt', first'⟩

/-- `generator.send(chunk)`: `partial_document += chunk`, then run up to the next `yield` / `return` / `raise`.
    (`limit > 0` is checked by the constructor of the serializer and by `raw_parse`; the driver refuses `limit = 0`.) -/
def feed (limit : Nat) (s : State) (chunk : Bytes) : Res State :=
  if s.plain then plainLoop limit (s.doc ++ chunk)
  else scanRound limit (s.doc ++ chunk) s.offset s.cnt s.first

/-- `incremental_serialize` with `use_lines=False`, on the encoded JSON text:
    `if not data.startswith((b"{", b"[", b'"')): data += b"\n"` -/
def produce (text : Bytes) : Bytes :=
  match text with
  | c :: _ => if c == LBRACE || c == LBRACK || c == QUOTE then text else text ++ [10]
  | [] => text ++ [10]

end JRaw
end EasyNet
