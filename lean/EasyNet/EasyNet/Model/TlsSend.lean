/-
  C12 — the send side of AsyncTLSStreamTransport (easynetwork/lowlevel/api_async/transports/tls.py) under
  concurrent callers.  Core Lean only.

  Python correspondences
    writeAllToSsl        AsyncTLSStreamTransport.__write_all_to_ssl_object  (`while write_backlog: … ssl_object.write(data)`)
                         The SSL object writes into an unbounded MemoryBIO, so every `write` takes the whole view.
    tstep (.send t)      send_all_from_iterable / send_all:  `self._data_deque.extend(…)` ; `__flush_data_to_send()` =
                         `_retry_ssl_method(__write_all_to_ssl_object, …)`: the synchronous write, then the `else:` branch
                         `async with self.__transport_send_lock:` up to the first await
    afterGrant           … `if self._write_bio.pending: await self._transport.send_all(self._write_bio.read())`
                         (nothing pending: the `async with` block is left at once = release)
    tstep (.resume t)    the task parked on the send lock is resumed and owns it
    tstep (.write t n)   the lower transport writes n more bytes of the blob and suspends the owner again
    tstep (.ret t)       lower send_all returned: leave the lock block, `return result`

  What OpenSSL does is abstracted to the law used by C08 (`TlsLaws`): the records the SSL object emits, read in the
  order they were written into the BIO, decrypt to the plaintext in the order it was passed to `write`.  Hence
  ciphertext is represented by the plaintext it carries: `bio`, `inflight`, `twire` are plaintext-equivalents.

  The send lock, the tasks parked on it and their arrival tickets are the `Sys` machine of Model/Senders.lean
  (`base`): `waiting` = parked on the send lock, `holding` = owns the send lock (and is flushing `inflight`).
-/
import EasyNet.Model.Senders
namespace EasyNet.C12
open EasyNet

/-- the lock part of the TLS machine is `Sys` with the lock switched on -/
def cfgL (cfg : Cfg) : Cfg := { useLock := true, packets := cfg.packets }

/-- `__write_all_to_ssl_object(ssl_object, write_backlog)`: returns the BIO contents afterwards (the backlog is empty then) -/
def writeAllToSsl : List Bytes → Bytes → Bytes
  | [], bio => bio
  | d :: backlog, bio => writeAllToSsl backlog (bio ++ d)

structure TlsSys where
  base : Sys                 -- send lock + where every task is
  deque : List Bytes         -- `_data_deque`
  bio : Bytes                -- `_write_bio` (pending ciphertext)
  inflight : Bytes           -- ciphertext read out of the BIO by the lock owner, not yet written by the lower transport
  twire : Bytes              -- what the lower transport has written
  -- ghost
  calls : List (Tid × Nat)   -- the send calls in call order

def TlsSys.init : TlsSys := { base := Sys.init, deque := [], bio := [], inflight := [], twire := [], calls := [] }

inductive TEv where
  | send (t : Tid)
  | resume (t : Tid)
  | write (t : Tid) (n : Nat)
  | ret (t : Tid)
  deriving Repr, DecidableEq

/-- `t` has just been granted the send lock -/
def TlsSys.afterGrant (cfg : Cfg) (s : TlsSys) (t : Tid) : Option TlsSys :=
  if s.bio.isEmpty then (step (cfgL cfg) s.base (.rel t)).map (fun b => { s with base := b })
  else some { s with inflight := s.bio, bio := [] }

def tstep (cfg : Cfg) (s : TlsSys) : TEv → Option TlsSys
  | .send t =>
    if s.base.pc t = .idle then
      match step (cfgL cfg) s.base (.send t) with
      | some b =>
        if b.pc t = .holding then
          TlsSys.afterGrant cfg
            { s with base := b, bio := writeAllToSsl (s.deque ++ [cfg.pkt t (s.base.idx t)]) s.bio, deque := [],
                     calls := s.calls ++ [(t, s.base.idx t)] } t
        else
          some { s with base := b, bio := writeAllToSsl (s.deque ++ [cfg.pkt t (s.base.idx t)]) s.bio, deque := [],
                        calls := s.calls ++ [(t, s.base.idx t)] }
      | none => none
    else none
  | .resume t =>
    match step (cfgL cfg) s.base (.resume t) with
    | some b => TlsSys.afterGrant cfg { s with base := b } t
    | none => none
  | .write t n =>
    if s.base.pc t = .holding then
      some { s with twire := s.twire ++ s.inflight.take n, inflight := s.inflight.drop n }
    else none
  | .ret t =>
    if s.base.pc t = .holding ∧ s.inflight = [] then
      (step (cfgL cfg) s.base (.rel t)).map (fun b => { s with base := b })
    else none

def trun (cfg : Cfg) : TlsSys → List TEv → Option TlsSys
  | s, [] => some s
  | s, e :: es => match tstep cfg s e with
    | some s' => trun cfg s' es
    | none => none

end EasyNet.C12
