/-
  Stream data consumers (easynetwork/lowlevel/_stream.py), generic in the framer.

    Consumer.next      StreamDataConsumer.next
    BufConsumer.*      BufferedStreamDataConsumer.get_write_buffer / next / __save_remainder_in_buffer
    drain / recvChunk  the receive pattern of every endpoint: `next(None)` until StopIteration,
                       then one transport read, `next(chunk)`, …

  Outputs are *frames* (`Item.frame data`): the payload codec (str/json/struct decoding, converter)
  is applied on top and is a parameter of the theorems (see Model/Codec.lean).
-/
import EasyNet.Model.Framers
namespace EasyNet

/-- what one `consumer.next(...)` call gives back -/
inductive Item where
  | frame (data : Bytes)      -- a complete frame was cut out (the codec then yields a packet or a parse error)
  | limit                     -- StreamProtocolParseError(LimitOverrunError)
  deriving Repr, DecidableEq

/-! ## copying consumer -/

structure Consumer (σ : Type) where
  buffer : Bytes              -- `__buffer`
  fr : Option σ               -- `__consumer` (suspended generator) or None

def Consumer.new {σ} : Consumer σ := ⟨[], none⟩

/-- `StreamDataConsumer.next(received_chunk)`; `none` result = StopIteration.
    `chunk = []` models both `None` and `b""` (the code treats them alike: `if not received_chunk`). -/
def Consumer.next {σ} (init : σ) (feed : σ → Bytes → Res σ) (c : Consumer σ) (chunk : Bytes) :
    Consumer σ × Option Item :=
  if chunk.isEmpty ∧ c.buffer.isEmpty then (c, none)                      -- raise StopIteration
  else
    let received := if chunk.isEmpty then c.buffer else c.buffer ++ chunk
    let consumer := match c.fr with | some s => s | none => init
    match feed consumer received with
    | .done data rest => (⟨rest, none⟩, some (.frame data))
    | .fail rest      => (⟨rest, none⟩, some .limit)
    | .need s         => (⟨[], some s⟩, none)

/-- `while True: try: consumer.next(None) except StopIteration: break` with explicit fuel
    (each successful call shortens the buffer, see `Props`). -/
def Consumer.drain {σ} (init : σ) (feed : σ → Bytes → Res σ) : Nat → Consumer σ → Consumer σ × List Item
  | 0, c => (c, [])
  | fuel + 1, c =>
    match Consumer.next init feed c [] with
    | (c', some it) => let r := Consumer.drain init feed fuel c'; (r.1, it :: r.2)
    | (c', none) => (c', [])

/-- one transport read followed by everything that can be delivered from it -/
def Consumer.recvChunk {σ} (init : σ) (feed : σ → Bytes → Res σ) (c : Consumer σ) (chunk : Bytes) :
    Consumer σ × List Item :=
  match Consumer.next init feed c chunk with
  | (c', some it) =>
    let r := Consumer.drain init feed (c'.buffer.length + 1) c'
    (r.1, it :: r.2)
  | (c', none) => (c', [])

def Consumer.run {σ} (init : σ) (feed : σ → Bytes → Res σ) : Consumer σ → List Bytes → Consumer σ × List Item
  | c, [] => (c, [])
  | c, ch :: chs =>
    let r := Consumer.recvChunk init feed c ch
    let r' := Consumer.run init feed r.1 chs
    (r'.1, r.2 ++ r'.2)

/-- bytes the consumer currently retains -/
def Consumer.held {σ} (acc : σ → Bytes) (c : Consumer σ) : Bytes :=
  match c.fr with | some s => acc s | none => c.buffer

/-! ## buffer-filling consumer -/

structure BufConsumer (σ : Type) where
  buffer : Bytes                -- contents of the serializer-owned buffer (length = capacity), [] = not created
  start : Nat                   -- `__buffer_start`
  written : Nat                 -- `__already_written`
  fr : Option σ                 -- `__consumer`
  crashed : Bool := false       -- a RuntimeError was raised ("start position at end of buffer")

def BufConsumer.new {σ} : BufConsumer σ := ⟨[], 0, 0, none, false⟩

/-- `get_write_buffer()` as far as state is concerned: allocate (capacity `cap`, zero-filled) and
    start a framer if there is none. Returns the position where the transport will write. -/
def BufConsumer.prepare {σ} (init : σ) (start0 : Nat) (cap : Nat) (c : BufConsumer σ) : BufConsumer σ :=
  let buffer := if c.buffer.isEmpty then List.replicate cap (0 : UInt8) else c.buffer
  match c.fr with
  | some _ => { c with buffer := buffer }
  | none => { c with buffer := buffer, start := start0, fr := some init }

/-- free space offered to the transport by `get_write_buffer()` -/
def BufConsumer.room {σ} (c : BufConsumer σ) : Nat := c.buffer.length - (c.start + c.written)

/-- `__save_remainder_in_buffer(rest)` on a consumer whose framer has just finished -/
def BufConsumer.saveRemainder {σ} (init : σ) (start0 cap : Nat) (c : BufConsumer σ) (rest : Bytes) : BufConsumer σ :=
  if rest.isEmpty then c
  else
    let c1 := BufConsumer.prepare init start0 cap c
    if c1.room = 0 then { c1 with crashed := true }
    else { c1 with buffer := writeAt c1.buffer (c1.start + c1.written) rest, written := c1.written + rest.length }

/-- `next(nb)`; `nb = 0` models `next(None)` as well as a fill of zero bytes. -/
def BufConsumer.next {σ} (init : σ) (start0 cap : Nat) (feed : σ → Bytes → Nat → BRes σ)
    (c : BufConsumer σ) (nb : Nat) : BufConsumer σ × Option Item :=
  match c.fr with
  | none => (c, none)
  | some s =>
    let total := nb + c.written
    if total = 0 then ({ c with written := 0 }, none)
    else
      match feed s c.buffer total with
      | .need s' st => ({ c with written := 0, fr := some s', start := st }, none)
      | .done data rest =>
        (BufConsumer.saveRemainder init start0 cap { c with written := 0, fr := none } rest, some (.frame data))
      | .fail rest =>
        (BufConsumer.saveRemainder init start0 cap { c with written := 0, fr := none } rest, some .limit)

def BufConsumer.drain {σ} (init : σ) (start0 cap : Nat) (feed : σ → Bytes → Nat → BRes σ) :
    Nat → BufConsumer σ → BufConsumer σ × List Item
  | 0, c => (c, [])
  | fuel + 1, c =>
    match BufConsumer.next init start0 cap feed c 0 with
    | (c', some it) => let r := BufConsumer.drain init start0 cap feed fuel c'; (r.1, it :: r.2)
    | (c', none) => (c', [])

/-- `get_write_buffer()`, the transport writes `data` (at most `room` bytes — the caller cuts), `next(len data)`,
    then drain. -/
def BufConsumer.fill {σ} (init : σ) (start0 cap : Nat) (feed : σ → Bytes → Nat → BRes σ)
    (c : BufConsumer σ) (data : Bytes) : BufConsumer σ × List Item :=
  let c1 := BufConsumer.prepare init start0 cap c
  if c1.room = 0 then ({ c1 with crashed := true }, [])
  else
    let c2 := { c1 with buffer := writeAt c1.buffer (c1.start + c1.written) data }
    match BufConsumer.next init start0 cap feed c2 data.length with
    | (c', some it) =>
      let r := BufConsumer.drain init start0 cap feed (c'.written + 1) c'
      (r.1, it :: r.2)
    | (c', none) => (c', [])

/-- a whole receive history on the buffered path: every fill is non-empty and fits the buffer offered by
    `get_write_buffer()` at that moment (`none` = the history is not one the transport can produce) -/
def BufConsumer.runFills {σ} (init : σ) (start0 cap : Nat) (feed : σ → Bytes → Nat → BRes σ) :
    BufConsumer σ → List Bytes → Option (BufConsumer σ × List Item)
  | c, [] => some (c, [])
  | c, d :: ds =>
    if d.isEmpty ∨ d.length > (BufConsumer.prepare init start0 cap c).room then none
    else
      match BufConsumer.runFills init start0 cap feed (BufConsumer.fill init start0 cap feed c d).1 ds with
      | some r' => some (r'.1, (BufConsumer.fill init start0 cap feed c d).2 ++ r'.2)
      | none => none

end EasyNet
