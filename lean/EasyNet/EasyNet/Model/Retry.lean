/-
  The blocking-I/O world of the selector based transports, and `SelectorBaseTransport._retry`.
  Core Lean only (linked into `endriver`).  Shared by C04 (send paths) and C11 (time budgets).

  Python correspondences
    Tmo                      a timeout in virtual ticks, `none` = math.inf
    Tmo.recompute            easynetwork.lowlevel._utils.ElapsedTime.recompute_timeout
    classifySend / classifyRecv
                             the `except` clauses of SocketStreamTransport.send_noblock / recv_noblock(_into),
                             SSLStreamTransport.send_noblock / recv_noblock(_into) + _try_ssl_method
    retryWait                the part of `_retry` that follows a WouldBlockOnRead/WouldBlockOnWrite
                             (base_selector.py: `if timeout <= 0: break` … `if not available: if not is_retry_interval: break`)
    retry                    one whole `_retry(callback, timeout)` call

  The environment is a pair of scripts.  Every socket call consumes one `SockCall` (the answer of the socket
  plus the processing ticks the call took); every `selector.select()` consumes one `SelEv`.
  A script that is used up ends the run with `exhaustedSock` / `exhaustedSel`: a loop that makes no progress
  therefore shows up as "consumes every answer the environment is able to give".
-/
import EasyNet.Model.Bytes
namespace EasyNet

/-- timeouts in ticks; `none` = `math.inf` -/
abbrev Tmo := Option Nat

namespace Tmo

/-- `timeout <= 0` -/
def isZero : Tmo → Bool
  | some 0 => true
  | _ => false

/-- `ElapsedTime.recompute_timeout(old)`: `max(old - elapsed, 0.0)`; `inf - x = inf` -/
def recompute : Tmo → Nat → Tmo
  | some t, e => some (t - e)
  | none, _ => none

/-- `a <= b` on floats with infinity -/
def le : Tmo → Tmo → Bool
  | _, none => true
  | none, some _ => false
  | some a, some b => decide (a ≤ b)

/-- `wait_time = timeout if timeout <= retry_interval else retry_interval` -/
def waitTime (t ri : Tmo) : Tmo := if le t ri then t else ri

end Tmo

/-- what a socket call answers -/
inductive SockEv where
  | sent (n : Nat)     -- send()/sendmsg() accepted `n` bytes (never more than offered)
  | data (b : Bytes)   -- recv()/recv_into() delivered `b` (never more than the buffer size); `[]` = end of stream
  | eagain             -- BlockingIOError
  | eintr              -- InterruptedError
  | wantR              -- ssl.SSLWantReadError
  | wantW              -- ssl.SSLWantWriteError
  | sysc               -- ssl.SSLSyscallError
  | zeroRet            -- ssl.SSLZeroReturnError
  | reset              -- ConnectionResetError
  | pipe               -- BrokenPipeError
  deriving Repr, DecidableEq

/-- one socket call: its answer and the ticks the call itself took (processing time) -/
structure SockCall where
  ev : SockEv
  p : Nat
  deriving Repr, DecidableEq

/-- what `selector.select(wait)` answers: ready after `d` ticks, or nothing after `wait + over` ticks
    (after `over` ticks when there is no timeout) -/
inductive SelEv where
  | ready (d : Nat)
  | expired (over : Nat)
  deriving Repr, DecidableEq

def SelEv.avail : SelEv → Bool
  | .ready _ => true
  | .expired _ => false

/-- ticks spent in `select(wv)` -/
def SelEv.elapsed : SelEv → Nat → Nat
  | .ready d, _ => d
  | .expired over, wv => wv + over

/-- ticks spent in `select()` (no timeout) -/
def SelEv.elapsedU : SelEv → Nat
  | .ready d => d
  | .expired over => over

/-- selectors.EVENT_READ / EVENT_WRITE -/
inductive Blk where
  | R | W
  deriving Repr, DecidableEq

/-- the two concrete families of socket transports -/
inductive Flavour where
  | plain   -- SocketStreamTransport / SocketDatagramTransport
  | tls     -- SSLStreamTransport
  deriving Repr, DecidableEq

/-- exceptions that leave the transport -/
inductive ErrK where
  | reset | pipe | blockingIO | interrupted | sslWantRead | sslWantWrite | sslSyscall | sslZeroReturn
  deriving Repr, DecidableEq

/-- outcome of one non-blocking attempt -/
inductive Cls where
  | ok (n : Nat)          -- send: bytes accepted
  | got (b : Bytes)       -- recv: bytes delivered
  | block (b : Blk)       -- WouldBlockOnRead / WouldBlockOnWrite
  | err (e : ErrK)
  | bad                   -- an answer that makes no sense for this call (harness error)
  deriving Repr, DecidableEq

/-- `send_noblock` of both socket transports -/
def classifySend : Flavour → SockEv → Cls
  | _, .sent n => .ok n
  | _, .data _ => .bad
  | .plain, .eagain => .block .W         -- except (BlockingIOError, InterruptedError): raise WouldBlockOnWrite
  | .plain, .eintr => .block .W
  | .plain, .wantR => .err .sslWantRead
  | .plain, .wantW => .err .sslWantWrite
  | .plain, .sysc => .err .sslSyscall
  | .plain, .zeroRet => .err .sslZeroReturn
  | .tls, .wantR => .block .R            -- _try_ssl_method: (SSLWantReadError, SSLSyscallError) -> WouldBlockOnRead
  | .tls, .sysc => .block .R
  | .tls, .wantW => .block .W            --                  SSLWantWriteError -> WouldBlockOnWrite
  | .tls, .zeroRet => .err .reset        -- send_noblock: SSLZeroReturnError -> ECONNRESET
  | .tls, .eagain => .err .blockingIO
  | .tls, .eintr => .err .interrupted
  | _, .reset => .err .reset
  | _, .pipe => .err .pipe

/-- `recv_noblock` / `recv_noblock_into` of both socket transports -/
def classifyRecv : Flavour → SockEv → Cls
  | _, .data b => .got b
  | _, .sent _ => .bad
  | .plain, .eagain => .block .R         -- except (BlockingIOError, InterruptedError): raise WouldBlockOnRead
  | .plain, .eintr => .block .R
  | .plain, .wantR => .err .sslWantRead
  | .plain, .wantW => .err .sslWantWrite
  | .plain, .sysc => .err .sslSyscall
  | .plain, .zeroRet => .err .sslZeroReturn
  | .tls, .wantR => .block .R
  | .tls, .sysc => .block .R
  | .tls, .wantW => .block .W
  | .tls, .zeroRet => .got []            -- recv_noblock: SSLZeroReturnError -> b""
  | .tls, .eagain => .err .blockingIO
  | .tls, .eintr => .err .interrupted
  | _, .reset => .err .reset
  | _, .pipe => .err .pipe

/-- what the environment saw -/
inductive Obs where
  | call (offered nbufs : Nat)     -- one send()/sendmsg() call
  | rcall (bufsize : Nat)          -- one recv()/recv_into() call
  | select (b : Blk) (w : Tmo)     -- one select() call
  | lockTry                        -- lock.acquire(blocking=False)
  | lockWait (w : Tmo)             -- lock.acquire(True, w)  /  `with lock:` (no timeout)
  | lockRelease                    -- lock.release() when the `with lock_with_timeout(...)` block is left
  deriving Repr, DecidableEq

/-- selector script, clock, accounting of where the time went, bytes on the wire, log (newest first) -/
structure World where
  sel : List SelEv
  now : Nat := 0
  waited : Nat := 0      -- Σ min(elapsed, requested) over the select() calls with a timeout
  over : Nat := 0        -- Σ (elapsed - requested) over those calls (over-sleep of select)
  unbounded : Nat := 0   -- Σ elapsed over the select() calls without timeout
  proc : Nat := 0        -- Σ processing ticks of the socket calls
  lockw : Nat := 0       -- Σ ticks spent in lock.acquire(True, timeout) with a timeout
  wire : Bytes := []
  log : List Obs := []
  deriving Repr, DecidableEq

/-- a socket call happened: log it, the clock advances by its processing ticks -/
def World.afterCall (w : World) (o : Obs) (p : Nat) : World :=
  { w with now := w.now + p, proc := w.proc + p, log := o :: w.log }

/-- bytes accepted by the socket -/
def World.put (w : World) (b : Bytes) : World :=
  { w with wire := w.wire ++ b }

/-- `select(wv)` took `el` ticks -/
def World.afterSelect (w : World) (b : Blk) (sel : List SelEv) (wv el : Nat) : World :=
  { w with sel := sel, now := w.now + el, waited := w.waited + min el wv, over := w.over + (el - wv),
           log := .select b (some wv) :: w.log }

/-- `select()` took `el` ticks -/
def World.afterSelectU (w : World) (b : Blk) (sel : List SelEv) (el : Nat) : World :=
  { w with sel := sel, now := w.now + el, unbounded := w.unbounded + el, log := .select b none :: w.log }

/-- result of the waiting part of `_retry` -/
inductive Wait where
  | cont (t : Tmo) (w : World)    -- loop again with the recomputed timeout
  | timeout (w : World)           -- raise TimeoutError
  | exhausted (w : World)         -- selector script used up
  | rterr (w : World)             -- RuntimeError("timeout error with infinite timeout")
  deriving Repr, DecidableEq

/-- `_retry`, from the `except WouldBlockOn…` clause to the end of the loop body -/
def retryWait (ri : Tmo) (b : Blk) (t : Tmo) (w : World) : Wait :=
  if t.isZero then .timeout w                                  -- if timeout <= 0: break
  else match w.sel with
    | [] => .exhausted w
    | e :: sel =>
      match Tmo.waitTime t ri with
      | none =>                                                -- available = bool(selector.select())
        if e.avail then .cont t (w.afterSelectU b sel e.elapsedU)
        else .rterr (w.afterSelectU b sel e.elapsedU)
      | some wv =>                                             -- available = bool(selector.select(wait_time))
        if !e.avail && Tmo.le t ri then                        -- not available and not is_retry_interval: break
          .timeout (w.afterSelect b sel wv (e.elapsed wv))
        else
          .cont (t.recompute (e.elapsed wv)) (w.afterSelect b sel wv (e.elapsed wv))

/-- how a blocking operation ends -/
inductive Outcome where
  | ok
  | timeout
  | err (e : ErrK)
  | aborted            -- ECONNABORTED raised by a client for a ConnectionError of the transport
  | exhaustedSock
  | exhaustedSel
  | rterr
  | bad
  deriving Repr, DecidableEq

/-- result of one `_retry` call -/
structure RetryRes where
  out : Outcome
  val : Cls              -- the callback's result when `out = ok` (`.ok n` / `.got b`)
  tmo : Tmo              -- the timeout `_retry` hands back
  rest : List SockCall
  w : World
  deriving Repr, DecidableEq

/-- one `_retry(callback, timeout)` where the callback is one socket call logged as `o` and interpreted by `cls` -/
def retry (cls : SockEv → Cls) (o : Obs) (ri : Tmo) : List SockCall → Tmo → World → RetryRes
  | [], t, w => ⟨.exhaustedSock, .bad, t, [], w⟩
  | c :: rest, t, w =>
    match cls c.ev with
    | .ok n => ⟨.ok, .ok n, t, rest, w.afterCall o c.p⟩
    | .got b => ⟨.ok, .got b, t, rest, w.afterCall o c.p⟩
    | .err e => ⟨.err e, .bad, t, rest, w.afterCall o c.p⟩
    | .bad => ⟨.bad, .bad, t, rest, w.afterCall o c.p⟩
    | .block b =>
      match retryWait ri b t (w.afterCall o c.p) with
      | .cont t' w' => retry cls o ri rest t' w'
      | .timeout w' => ⟨.timeout, .bad, t, rest, w'⟩
      | .exhausted w' => ⟨.exhaustedSel, .bad, t, rest, w'⟩
      | .rterr w' => ⟨.rterr, .bad, t, rest, w'⟩

end EasyNet
