/-
  C15 — stream server: the client coroutine, the two request receivers and the high-level handler
  that re-creates `handle()` generators.  Core Lean only (linked into `endriver`).

  Python correspondences (statement by statement)
    Iface                       what `_RequestReceiver` / `_BufferedRequestReceiver` use of the consumer:
                                  drainNext = consumer.next(None)
                                  want      = max_recv_size                         (copying path)
                                            = consumer.get_write_buffer() → room    (buffered path; allocates / starts the framer)
                                  feed      = consumer.next(data)                   (copying path)
                                            = the transport writes into the view, consumer.next(nbytes)   (buffered path)
    recvLoop / recvNext         lowlevel/api_async/servers/stream.py  _RequestReceiver.next / _BufferedRequestReceiver.next
                                  (`with timeout(...)`, drain first, shielded yield when a packet was buffered,
                                   transport.recv, disconnect filter, EOF → StopAsyncIteration, BaseException → ThrowAction)
    run (layer low)             AsyncStreamServer.__client_coroutine  (first anext, `while not transport.is_closing()`,
                                   action.asend, `finally: generator.aclose()`, exit stack: aclose_forcefully(transport))
    run (layer high), flatten   servers/misc.py build_lowlevel_stream_server_handler.handler
                                  (on_connection as coroutine or generator, `while not client.is_closing()`: new generator,
                                   SendAction/ThrowAction forwarding, GeneratorExit → generator.aclose(), on_disconnection)
  The transport is the harness's in-memory transport: chunks with absolute arrival times, then EOF or an error.
  Time is a `Nat` (sub-ticks).  A handler is data: what each generator does around each `yield`.
-/
import EasyNet.Model.Consumer
namespace EasyNet.C15
open EasyNet

/-- the consumer operations used by the request receivers -/
structure Iface (κ : Type) where
  drainNext : κ → κ × Option Item
  want : κ → κ × Nat
  feed : κ → Bytes → κ × Option Item

/-- copying path: `StreamDataConsumer` + `max_recv_size` -/
def copyIface {σ} (init : σ) (feed : σ → Bytes → Res σ) (maxRecv : Nat) : Iface (Consumer σ) where
  drainNext c := Consumer.next init feed c []
  want c := (c, maxRecv)
  feed c d := Consumer.next init feed c d

/-- buffered path: `BufferedStreamDataConsumer` (`get_write_buffer`, the transport fills the view, `next(nbytes)`) -/
def bufIface {σ} (init : σ) (start0 cap : Nat) (feed : σ → Bytes → Nat → BRes σ) : Iface (BufConsumer σ) where
  drainNext c := BufConsumer.next init start0 cap feed c 0
  want c := (BufConsumer.prepare init start0 cap c, (BufConsumer.prepare init start0 cap c).room)
  feed c d := BufConsumer.next init start0 cap feed
      { c with buffer := writeAt c.buffer (c.start + c.written) d } d.length

inductive EndKind where
  | eof        -- recv returns b""
  | reset      -- ConnectionResetError
  | oserror    -- another OSError
  deriving Repr, DecidableEq

structure Transport where
  chunks : List (Nat × Bytes)      -- (arrival time, data)
  endT : Nat
  endKind : EndKind
  filter : Bool                    -- a disconnect_error_filter accepting ConnectionError is installed
  deriving Repr

/-- receive-side state -/
structure RState (κ : Type) where
  k : κ
  tr : Transport
  now : Nat
  reads : List Bytes               -- what the transport has delivered so far, read by read
  sawEnd : Bool := false           -- the end of the stream (EOF / connection error) has been observed

/-- result of `request_receiver.next(timeout)` -/
inductive Action where
  | item (it : Item)       -- SendAction(request) for a frame; ThrowAction(StreamProtocolParseError) for a size error
  | timeout                -- ThrowAction(TimeoutError)
  | exc (conn : Bool)      -- ThrowAction(ConnectionError / other OSError) — error not filtered
  | eof                    -- raise StopAsyncIteration
  deriving Repr, DecidableEq

/-- deadline already reached when the read starts (cancelled at its first checkpoint) -/
def dlPassed (dl : Option Nat) (now : Nat) : Bool :=
  match dl with | none => false | some d => d ≤ now

/-- the awaited event happens strictly after the deadline -/
def expired (dl : Option Nat) (t : Nat) : Bool :=
  match dl with | none => false | some d => d < t

def atDeadline (dl : Option Nat) (now : Nat) : Nat :=
  match dl with | none => now | some d => d

/-- the `while True:` loop of `next()` from the first `transport.recv` on -/
def recvLoop {κ} (I : Iface κ) : Nat → RState κ → Option Nat → RState κ × Action
  | 0, s, _ => (s, .eof)
  | fuel + 1, s, dl =>
    -- (buffered path: `consumer.get_write_buffer()` is evaluated before the await)
    if dlPassed dl s.now then ({ s with k := (I.want s.k).1 }, .timeout)
    else
      match s.tr.chunks with
      | [] =>
        if expired dl (max s.tr.endT s.now) then ({ s with k := (I.want s.k).1, now := atDeadline dl s.now }, .timeout)
        else
          match s.tr.endKind with
          | .eof => ({ s with k := (I.want s.k).1, now := max s.tr.endT s.now, sawEnd := true }, .eof)
          | .reset =>
            if s.tr.filter then ({ s with k := (I.want s.k).1, now := max s.tr.endT s.now, sawEnd := true }, .eof)
            else ({ s with k := (I.want s.k).1, now := max s.tr.endT s.now, sawEnd := true }, .exc true)
          | .oserror => ({ s with k := (I.want s.k).1, now := max s.tr.endT s.now, sawEnd := true }, .exc false)
      | (t, d) :: rest =>
        if expired dl (max t s.now) then ({ s with k := (I.want s.k).1, now := atDeadline dl s.now }, .timeout)
        else
          match I.feed (I.want s.k).1 (d.take (I.want s.k).2) with
          | (k2, some it) =>
            ({ k := k2, now := max t s.now, reads := s.reads ++ [d.take (I.want s.k).2], sawEnd := s.sawEnd,
               tr := { s.tr with chunks := if (d.drop (I.want s.k).2).isEmpty then rest
                                           else (t, d.drop (I.want s.k).2) :: rest } }, .item it)
          | (k2, none) =>
            recvLoop I fuel
              { k := k2, now := max t s.now, reads := s.reads ++ [d.take (I.want s.k).2], sawEnd := s.sawEnd,
                tr := { s.tr with chunks := if (d.drop (I.want s.k).2).isEmpty then rest
                                            else (t, d.drop (I.want s.k).2) :: rest } } dl

def Transport.fuel (tr : Transport) : Nat :=
  (tr.chunks.map (fun c => c.2.length + 1)).sum + 2

/-- `request_receiver.next(timeout)` -/
def recvNext {κ} (I : Iface κ) (s : RState κ) (timeout : Option Nat) : RState κ × Action :=
  match I.drainNext s.k with
  | (k', some it) => ({ s with k := k' }, .item it)      -- `await cancel_shielded_coro_yield()` ; return SendAction
  | (k', none) => recvLoop I s.tr.fuel { s with k := k' } (timeout.map (s.now + ·))

/-! ## handlers as data -/

/-- what a generator does around one `yield`:
    `await sleep(sleep)`; `request = yield timeout` (a thrown exception is logged and swallowed);
    `if resp: await client.send_packet(..)`; `if close: await client.aclose()` -/
structure Step where
  sleep : Nat
  timeout : Option Nat
  resp : Bool
  close : Bool
  deriving Repr, DecidableEq

inductive Layer where
  | low     -- the generator is given to AsyncStreamServer.serve directly
  | high    -- build_lowlevel_stream_server_handler + AsyncStreamRequestHandler
  deriving Repr, DecidableEq

structure Shape where
  layer : Layer
  onconn : Option (List Step)       -- `none`: on_connection is a coroutine; `some steps`: an async generator
  gens : List (List Step)           -- the successive `handle()` generators (layer low: only the first)
  deriving Repr

/-- one `yield` of the flattened handler, or a generator that returns without yielding -/
inductive FItem where
  | step (name : String) (isOc first last : Bool) (st : Step)
  | emptyGen (name : String) (isOc : Bool)
  deriving Repr

def flattenGen (name : String) (isOc : Bool) : List Step → Bool → List FItem
  | [], true => [.emptyGen name isOc]
  | [], false => []
  | [st], first => [.step name isOc first true st]
  | st :: st2 :: rest, first => .step name isOc first false st :: flattenGen name isOc (st2 :: rest) false

def flattenGens : Nat → List (List Step) → List FItem
  | k, [] => [.emptyGen (toString k) false]          -- the script is exhausted: `handle()` returns at once
  | k, g :: gs => flattenGen (toString k) false g true ++ flattenGens (k + 1) gs

def Shape.flatten (sh : Shape) : List FItem :=
  match sh.layer with
  | .low => flattenGen "0" false (sh.gens.headD []) true
  | .high =>
    (match sh.onconn with | none => [] | some steps => flattenGen "oc" true steps true) ++ flattenGens 0 sh.gens

/-- observable events (the harness prints the same lines from the real run) -/
inductive Obs where
  | conn (t : Nat)
  | genStart (name : String) (t : Nat)
  | req (name : String) (it : Item) (t : Nat)        -- value sent / parse error thrown into the generator
  | errTimeout (name : String) (t : Nat)
  | errExc (name : String) (conn : Bool) (t : Nat)
  | resp (name : String) (t : Nat)
  | closedBy (name : String) (t : Nat)
  | genEnd (name : String) (closed : Bool) (t : Nat)  -- closed = GeneratorExit was thrown in (aclose), else it returned
  | disc (closing : Bool) (t : Nat)
  | taskDone (t : Nat)
  | final (transportClosed : Bool) (acloseCalls nresp : Nat)
  deriving Repr, DecidableEq

/-- handler-side state -/
structure Ctx (κ : Type) where
  s : RState κ
  closing : Bool      -- transport.is_closing() (set by the handler's client.aclose())
  acloseCalls : Nat
  nresp : Nat

/-- exit of the client task: `async with AsyncExitStack`: consumer.clear, aclose_forcefully(transport) -/
def finish {κ} (c : Ctx κ) : List Obs :=
  [.taskDone c.s.now, .final true (c.acloseCalls + 1) c.nresp]

/-- the low-level server closes the (outer) generator: GeneratorExit reaches the active generator `name` -/
def closeActive {κ} (layer : Layer) (name : String) (isOc : Bool) (c : Ctx κ) : List Obs :=
  .genEnd name true c.s.now ::
    (if layer = .high ∧ ¬ isOc then .disc c.closing c.s.now :: finish c else finish c)

/-- post-processing of one received action inside the generator -/
def post {κ} (name : String) (st : Step) (last : Bool) (c : Ctx κ) : Ctx κ × List Obs :=
  ({ c with closing := c.closing || st.close,
            acloseCalls := if st.close then c.acloseCalls + 1 else c.acloseCalls,
            nresp := if st.resp then c.nresp + 1 else c.nresp },
   (if st.resp then [Obs.resp name c.s.now] else []) ++
   (if st.close then [Obs.closedBy name c.s.now] else []) ++
   (if last then [Obs.genEnd name false c.s.now] else []))

def actionObs (name : String) (t : Nat) : Action → List Obs
  | .item it => [.req name it t]
  | .timeout => [.errTimeout name t]
  | .exc b => [.errExc name b t]
  | .eof => []

/-- outcome of one flattened item -/
structure StepRes (κ : Type) where
  obs : List Obs
  ctx : Ctx κ
  stop : Bool          -- the client task has ended (`obs` then ends with the closing events)

/-- one `yield` of the handler (or one generator that returns at once) and everything the servers do around it -/
def stepOnce {κ} (I : Iface κ) (layer : Layer) : FItem → Ctx κ → StepRes κ
  | .emptyGen name isOc, c =>
    if layer = .high ∧ isOc = false ∧ c.closing = true then ⟨.disc true c.s.now :: finish c, c, true⟩   -- `while not client.is_closing()`
    else if isOc then ⟨[.genStart name c.s.now, .genEnd name false c.s.now], c, false⟩
    else if layer = .high then
      ⟨.genStart name c.s.now :: .genEnd name false c.s.now :: .disc c.closing c.s.now :: finish c, c, true⟩
    else ⟨.genStart name c.s.now :: .genEnd name false c.s.now :: finish c, c, true⟩
  | .step name isOc first last st, c =>
    if first = true ∧ layer = .high ∧ isOc = false ∧ c.closing = true then ⟨.disc true c.s.now :: finish c, c, true⟩
    else if c.closing then
      -- `await sleep(..)`, `yield`; `while not transport.is_closing()` is false: finally → generator.aclose()
      ⟨(if first then [Obs.genStart name c.s.now] else []) ++
         closeActive layer name isOc { c with s := { c.s with now := c.s.now + st.sleep } },
       { c with s := { c.s with now := c.s.now + st.sleep } }, true⟩
    else if (recvNext I { c.s with now := c.s.now + st.sleep } st.timeout).2 = .eof then
      ⟨(if first then [Obs.genStart name c.s.now] else []) ++
         closeActive layer name isOc { c with s := (recvNext I { c.s with now := c.s.now + st.sleep } st.timeout).1 },
       { c with s := (recvNext I { c.s with now := c.s.now + st.sleep } st.timeout).1 }, true⟩
    else
      ⟨(if first then [Obs.genStart name c.s.now] else []) ++
         actionObs name (recvNext I { c.s with now := c.s.now + st.sleep } st.timeout).1.now
           (recvNext I { c.s with now := c.s.now + st.sleep } st.timeout).2 ++
         (post name st last { c with s := (recvNext I { c.s with now := c.s.now + st.sleep } st.timeout).1 }).2,
       (post name st last { c with s := (recvNext I { c.s with now := c.s.now + st.sleep } st.timeout).1 }).1, false⟩

/-- the client task from the first generator start to its end: observable events and final receive-side state -/
def run {κ} (I : Iface κ) (layer : Layer) : List FItem → Ctx κ → List Obs × RState κ
  | [], c => (finish c, c.s)                     -- layer low: the generator returned → StopAsyncIteration
  | it :: rest, c =>
    if (stepOnce I layer it c).stop then ((stepOnce I layer it c).obs, (stepOnce I layer it c).ctx.s)
    else ((stepOnce I layer it c).obs ++ (run I layer rest (stepOnce I layer it c).ctx).1,
          (run I layer rest (stepOnce I layer it c).ctx).2)

def connObs (sh : Shape) : List Obs :=
  if sh.layer = .high ∧ sh.onconn.isNone then [Obs.conn 0] else []

def initCtx {κ} (k0 : κ) (tr : Transport) : Ctx κ := ⟨⟨k0, tr, 0, [], false⟩, false, 0, 0⟩

/-- a whole session: (observable events, final receive-side state) -/
def sessionFull {κ} (I : Iface κ) (k0 : κ) (sh : Shape) (tr : Transport) : List Obs × RState κ :=
  (connObs sh ++ (run I sh.layer sh.flatten (initCtx k0 tr)).1, (run I sh.layer sh.flatten (initCtx k0 tr)).2)

def session {κ} (I : Iface κ) (k0 : κ) (sh : Shape) (tr : Transport) : List Obs :=
  (sessionFull I k0 sh tr).1

/-- the requests (frames and size errors) that reached handler generators, in order -/
def delivered : List Obs → List Item
  | [] => []
  | .req _ it _ :: rest => it :: delivered rest
  | _ :: rest => delivered rest

end EasyNet.C15
