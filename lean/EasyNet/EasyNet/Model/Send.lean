/-
  The blocking send paths (C04).  Core Lean only.

  Python correspondences
    adjustRaw                easynetwork.lowlevel._utils.adjust_leftover_buffer as shipped (deque of views, `nbytes`)
    adjust fix               the same with docs/C04-fix-1.patch when `fix = true` (drops the empty views left at the head)
    sendAllLoop / sendAll    StreamWriteTransport.send_all  (api_sync/transports/abc.py), with
                             SelectorStreamWriteTransport.send = `_retry(lambda: send_noblock(data), timeout)[0]` inlined:
                             the two nested `while` loops are one machine over the socket script
    sendmsgLoop              the `while buffers:` loop of SocketStreamTransport.send_all_from_iterable
                             (`try_sendmsg` = `socket.sendmsg(islice(buffers, SC_IOV_MAX))`, `_retry` inlined)
    sendAllFromIterable      the dispatch of send_all_from_iterable for the three socket transports
                             (SC_IOV_MAX <= 0 or no `sendmsg` -> `b"".join` + send_all; SSL: join + send_all)
    sendPacket               StreamEndpoint.send_packet -> _DataSenderImpl.send (chunks = producer.generate(packet))
-/
import EasyNet.Model.Retry
namespace EasyNet

/-! ## adjust_leftover_buffer -/

/-- `while nbytes > 0: b = popleft(); if len(b) <= nbytes: nbytes -= len(b) else: appendleft(b[nbytes:]); break`
    (`[]` with `n > 0` would be an IndexError; unreachable since `n ≤` total size, see `Lemmas/Send`) -/
def adjustRaw : List Bytes → Nat → List Bytes
  | [], _ => []
  | b :: bs, n =>
    if n = 0 then b :: bs
    else if b.length ≤ n then adjustRaw bs (n - b.length)
    else b.drop n :: bs

/-- with the fix: `while buffers and not buffers[0].nbytes: del buffers[0]` afterwards -/
def adjust (fix : Bool) (bufs : List Bytes) (n : Nat) : List Bytes :=
  if fix then (adjustRaw bufs n).dropWhile (·.isEmpty) else adjustRaw bufs n

/-! ## send_all -/

structure SAState where
  total : Nat      -- `total_sent`
  tOut : Tmo       -- send_all's `timeout`
  tIn : Tmo        -- `_retry`'s `timeout` inside the `send()` in progress
  start : Nat      -- clock at `ElapsedTime.__enter__` of the `send()` in progress
  deriving Repr, DecidableEq

/-- `send_all`: state at the top of a `_retry` iteration of the current `self.send(data[total_sent:], timeout)`.
    The zero-length branch (`nb_bytes_to_send == 0`: one `send`, then return) is the same machine: after the
    successful call `total_sent >= nb_bytes_to_send` holds. -/
def sendAllLoop (fl : Flavour) (ri : Tmo) (data : Bytes) : List SockCall → SAState → World → Outcome × World
  | [], _, w => (.exhaustedSock, w)
  | c :: rest, s, w =>
    match classifySend fl c.ev with
    | .ok k =>
      -- sent = min k offered;  total_sent += sent;  timeout = elapsed.recompute_timeout(timeout)
      if data.length ≤ s.total + min k (data.length - s.total) then
        (.ok, ((w.afterCall (.call (data.length - s.total) 1) c.p).put
                ((data.drop s.total).take (min k (data.length - s.total)))))
      else
        sendAllLoop fl ri data rest
          ⟨s.total + min k (data.length - s.total),
           s.tOut.recompute (w.now + c.p - s.start), s.tOut.recompute (w.now + c.p - s.start), w.now + c.p⟩
          ((w.afterCall (.call (data.length - s.total) 1) c.p).put
            ((data.drop s.total).take (min k (data.length - s.total))))
    | .block b =>
      match retryWait ri b s.tIn (w.afterCall (.call (data.length - s.total) 1) c.p) with
      | .cont t w' => sendAllLoop fl ri data rest { s with tIn := t } w'
      | .timeout w' => (.timeout, w')
      | .exhausted w' => (.exhaustedSel, w')
      | .rterr w' => (.rterr, w')
    | .err e => (.err e, w.afterCall (.call (data.length - s.total) 1) c.p)
    | .got _ => (.bad, w.afterCall (.call (data.length - s.total) 1) c.p)
    | .bad => (.bad, w.afterCall (.call (data.length - s.total) 1) c.p)

/-- `transport.send_all(data, timeout)` -/
def sendAll (fl : Flavour) (ri : Tmo) (data : Bytes) (t : Tmo) (sock : List SockCall) (w : World) : Outcome × World :=
  sendAllLoop fl ri data sock ⟨0, t, t, w.now⟩ w

/-! ## sendmsg loop -/

/-- bytes offered by `socket.sendmsg(islice(buffers, SC_IOV_MAX))` -/
def offered (iov : Nat) (bufs : List Bytes) : Nat := (bufs.take iov).flatten.length

/-- `while buffers: sent, timeout = self._retry(try_sendmsg, timeout); adjust_leftover_buffer(buffers, sent)` -/
def sendmsgLoop (fix : Bool) (ri : Tmo) (iov : Nat) : List SockCall → List Bytes → Tmo → World → Outcome × World
  | _, [], _, w => (.ok, w)
  | [], _ :: _, _, w => (.exhaustedSock, w)
  | c :: rest, b :: bs, t, w =>
    match classifySend .plain c.ev with
    | .ok k =>
      sendmsgLoop fix ri iov rest (adjust fix (b :: bs) (min k (offered iov (b :: bs)))) t
        ((w.afterCall (.call (offered iov (b :: bs)) (min iov (bs.length + 1))) c.p).put
          (((b :: bs).take iov).flatten.take (min k (offered iov (b :: bs)))))
    | .block blk =>
      match retryWait ri blk t (w.afterCall (.call (offered iov (b :: bs)) (min iov (bs.length + 1))) c.p) with
      | .cont t' w' => sendmsgLoop fix ri iov rest (b :: bs) t' w'
      | .timeout w' => (.timeout, w')
      | .exhausted w' => (.exhaustedSel, w')
      | .rterr w' => (.rterr, w')
    | .err e => (.err e, w.afterCall (.call (offered iov (b :: bs)) (min iov (bs.length + 1))) c.p)
    | .got _ => (.bad, w.afterCall (.call (offered iov (b :: bs)) (min iov (bs.length + 1))) c.p)
    | .bad => (.bad, w.afterCall (.call (offered iov (b :: bs)) (min iov (bs.length + 1))) c.p)

/-! ## dispatch -/

inductive Transport where
  | sendmsg      -- SocketStreamTransport on a socket that has `sendmsg`
  | nosendmsg    -- SocketStreamTransport, `hasattr(sock, "sendmsg")` false
  | tls          -- SSLStreamTransport
  deriving Repr, DecidableEq

/-- `transport.send_all_from_iterable(chunks, timeout)`; `iov` = `constants.SC_IOV_MAX` -/
def sendAllFromIterable (tr : Transport) (fix : Bool) (iov : Int) (ri : Tmo) (chunks : List Bytes) (t : Tmo)
    (sock : List SockCall) (w : World) : Outcome × World :=
  match tr with
  | .sendmsg =>
    if iov ≤ 0 then sendAll .plain ri chunks.flatten t sock w       -- super().send_all_from_iterable
    else sendmsgLoop fix ri iov.toNat sock chunks t w
  | .nosendmsg => sendAll .plain ri chunks.flatten t sock w         -- data = b"".join(...); self.send_all(data, timeout)
  | .tls => sendAll .tls ri chunks.flatten t sock w                 -- idem (SSLStreamTransport)

/-- `endpoint.send_packet(packet, timeout=…)` where the serializer produces `chunks` for the packet
    (`timeout=None` is `math.inf` = `none`) -/
def sendPacket (tr : Transport) (fix : Bool) (iov : Int) (ri : Tmo) (chunks : List Bytes) (t : Tmo)
    (sock : List SockCall) (w : World) : Outcome × World :=
  sendAllFromIterable tr fix iov ri chunks t sock w

/-- `transport.send_all(data, timeout)` for a transport kind -/
def sendAllOn (tr : Transport) (ri : Tmo) (data : Bytes) (t : Tmo) (sock : List SockCall) (w : World) :
    Outcome × World :=
  match tr with
  | .tls => sendAll .tls ri data t sock w
  | _ => sendAll .plain ri data t sock w

end EasyNet
