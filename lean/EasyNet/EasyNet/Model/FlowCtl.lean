/-
  C20 — model of the write side of the asyncio backend: `WriteFlowControl`, the sender coroutines of the adapters
  (`send_all = write + drain`, `send_all_from_iterable = writelines + drain`, `sendto + drain`), the tasks that run
  them, and the asyncio transport's user-space write buffer.
  Core Lean only (linked into `endriver`).

  Python mirrored
    src/easynetwork/lowlevel/api_async/backend/_asyncio/_flow_control.py
        WriteFlowControl.drain            -> `drainHead` (up to the closing checkpoint), `drainBody`, `runTask` (wake-up)
        pause_writing / resume_writing    -> `fcPause` / `fcResume`
        connection_lost                   -> `fcLost`
    .../_asyncio/stream/socket.py   AsyncioTransportStreamSocketAdapter.send_all / send_all_from_iterable -> `Op.send`, `Op.sendv`
    .../_asyncio/datagram/endpoint.py DatagramEndpoint.sendto, .../datagram/listener.py send_to          -> `Op.send` (kind dgram)
  CPython 3.12 asyncio (assumed behaviour, transcribed also in harness/vlib/c20_drive.py)
    transports._FlowControlMixin._maybe_pause_protocol / _maybe_resume_protocol / set_write_buffer_limits
    selector_events._SelectorSocketTransport.write / writelines / _write_ready(_write_sendmsg) / close / _force_close
    selector_events._SelectorDatagramTransport.sendto / _sendto_ready
    tasks.Task.cancel / __step / __wakeup, futures.Future (done callbacks run in a later loop turn, FIFO ready queue)

  `Cfg.wlp`      : does `writelines()` run the pause check (environment fact, probed by the harness)
  `Cfg.reassert` : does `send_all_from_iterable` call `set_write_buffer_limits(0)` after `writelines()` (docs/C20-fix-1.patch)
-/
namespace EasyNet.C20.FC

/-- state of a drain waiter (`asyncio.Future[None]`) -/
inductive Fut where
  | pending | result | exc (e : Nat) | cancelled
  deriving DecidableEq, Repr

/-- what a sender task does at its first step -/
inductive Op where
  | drain                         -- the drain coroutine alone
  | send (n : Nat)                -- transport.write(data) / transport.sendto(data); await drain()
  | sendv (sizes : List Nat)      -- transport.writelines(chunks); await drain()
  deriving DecidableEq, Repr

inductive PC where
  | idle                          -- no task
  | created (op : Op)             -- task created, first step scheduled
  | atYield                       -- `await TaskUtils.coro_yield()` of drain() (transport closing)
  | atWaiter                      -- `await waiter`
  deriving DecidableEq, Repr

structure Sender where
  pc : PC
  fut : Fut
  mustCancel : Bool
  endOff : Option Nat             -- ghost: offset of the end of this sender's bytes in the transport's byte stream
  deriving DecidableEq, Repr

def Sender.init : Sender := { pc := .idle, fut := .pending, mustCancel := false, endOff := none }

inductive Kind where
  | wfc | stream | dgram
  deriving DecidableEq, Repr

structure Cfg where
  kind : Kind
  n : Nat                         -- number of sender slots
  errno : Nat                     -- connection_lost_errno (ECONNRESET for streams, ECONNABORTED otherwise)
  wlp : Bool
  reassert : Bool
  high : Nat                      -- write-buffer high-water mark (0 for streams: set_write_buffer_limits(0))
  low : Nat

inductive Res where
  | ok | cancelled | err (e : Nat)
  deriving DecidableEq, Repr

inductive Handle where
  | task (i : Nat)                -- Task.__step / __wakeup of sender i
  | connLost (e : Option Nat)     -- loop.call_soon(transport._call_connection_lost, exc)
  deriving DecidableEq, Repr

structure St where
  paused : Bool                   -- WriteFlowControl.__write_paused
  lost : Bool                     -- WriteFlowControl.__connection_lost
  lostExc : Option Nat            -- errno of __connection_lost_exception (none: no exception)
  tbuf : List Nat                 -- transport._buffer (chunk sizes)
  kroom : Nat                     -- free room in the kernel send buffer
  closing : Bool                  -- transport.is_closing()
  connLost : Bool                 -- transport._conn_lost > 0
  protoPaused : Bool              -- transport._protocol_paused
  high : Nat
  low : Nat
  accepted : Nat                  -- ghost: bytes taken by write()/writelines()/sendto() (not silently dropped)
  flushed : Nat                   -- ghost: bytes taken by the kernel
  senders : Nat → Sender
  ready : List Handle             -- loop._ready (FIFO)
  doneLog : List (Nat × Res × Option Nat)   -- tasks that ended during the current turn (id, outcome, endOff), newest first

def St.init (c : Cfg) : St :=
  { paused := false, lost := false, lostExc := none, tbuf := [], kroom := 0, closing := false, connLost := false,
    protoPaused := false, high := c.high, low := c.low, accepted := 0, flushed := 0,
    senders := fun _ => Sender.init, ready := [], doneLog := [] }

def upd (f : Nat → Sender) (i : Nat) (x : Sender) : Nat → Sender := fun j => if j = i then x else f j

def St.size (s : St) : Nat := s.tbuf.sum

/-! ### WriteFlowControl callbacks -/

def fcPause (s : St) : St := { s with paused := true }

/-- ids (below `n`) whose waiter is pending, in increasing order -/
def pendingIds (n : Nat) (f : Nat → Sender) : List Nat :=
  (List.range n).filter (fun i => (f i).pc = .atWaiter ∧ (f i).fut = .pending)

/-- complete every pending waiter with `v`; their wake-ups are appended to the ready queue -/
def completeAll (c : Cfg) (s : St) (v : Fut) : St :=
  { s with
    senders := fun i => if (s.senders i).pc = .atWaiter ∧ (s.senders i).fut = .pending then { s.senders i with fut := v } else s.senders i,
    ready := s.ready ++ (pendingIds c.n s.senders).map .task }

/-- `resume_writing` -/
def fcResume (c : Cfg) (s : St) : St := completeAll c { s with paused := false } .result

/-- `connection_lost(exc)` -/
def fcLost (c : Cfg) (s : St) (e : Option Nat) : St :=
  if s.lost then s
  else completeAll c { s with paused := false, lost := true, lostExc := e } (.exc (e.getD c.errno))

/-! ### the transport's write buffer (asyncio, assumed behaviour) -/

/-- `_FlowControlMixin._maybe_pause_protocol` -/
def maybePauseProtocol (s : St) : St :=
  if s.size ≤ s.high then s
  else if s.protoPaused then s
  else fcPause { s with protoPaused := true }

/-- `_FlowControlMixin._maybe_resume_protocol` -/
def maybeResumeProtocol (c : Cfg) (s : St) : St :=
  if s.protoPaused ∧ s.size ≤ s.low then fcResume c { s with protoPaused := false } else s

/-- `_adjust_leftover_buffer`: drop `k` bytes from the front of the chunk list -/
def dropBytes : Nat → List Nat → List Nat
  | _, [] => []
  | k, b :: bs => if b ≤ k then dropBytes (k - b) bs else (b - k) :: bs

/-- `_SelectorSocketTransport.write(data)`, `n = len(data)`; returns the new state and whether the bytes were accepted -/
def tWrite (s : St) (n : Nat) : St × Bool :=
  if n = 0 then (s, false)
  else if s.connLost then (s, false)
  else if s.tbuf = [] then
    (if n ≤ s.kroom then ({ s with accepted := s.accepted + n, kroom := s.kroom - n, flushed := s.flushed + n }, true)
     else (maybePauseProtocol { s with accepted := s.accepted + n, kroom := 0, flushed := s.flushed + s.kroom,
                                       tbuf := [n - s.kroom] }, true))
  else (maybePauseProtocol { s with accepted := s.accepted + n, tbuf := s.tbuf ++ [n] }, true)

/-- the tail of `_write_ready` / `_sendto_ready`: `if not self._buffer and self._closing: self._call_connection_lost(None)` -/
def closeCheck (c : Cfg) (s : St) : St :=
  if s.tbuf = [] ∧ s.closing then fcLost c { s with connLost := true } none else s

/-- the kernel takes `min size kroom` bytes from the front of the buffer (`sendmsg` + `_adjust_leftover_buffer`) -/
def flushStep (s : St) : St :=
  { s with kroom := s.kroom - min s.size s.kroom, flushed := s.flushed + min s.size s.kroom,
           tbuf := dropBytes (min s.size s.kroom) s.tbuf }

/-- `_SelectorSocketTransport._write_ready` (`_write_sendmsg`) -/
def tWriteReady (c : Cfg) (s : St) : St :=
  if s.tbuf = [] ∨ s.connLost then s
  else if min s.size s.kroom = 0 then s
  else closeCheck c (maybeResumeProtocol c (flushStep s))

/-- `self._buffer.extend(chunks)` of writelines (CPython 3.12: no `_conn_lost` test before buffering) -/
def extendBuf (s : St) (sizes : List Nat) : St :=
  { s with tbuf := s.tbuf ++ sizes, accepted := if s.connLost then s.accepted else s.accepted + sizes.sum }

/-- `_SelectorSocketTransport.writelines(chunks)`; the pause check is run only if `c.wlp` -/
def tWritelines (c : Cfg) (s : St) (sizes : List Nat) : St × Bool :=
  if sizes = [] then (s, false)
  else if c.wlp then (maybePauseProtocol (tWriteReady c (extendBuf s sizes)), !s.connLost)
  else (tWriteReady c (extendBuf s sizes), !s.connLost)

/-- `set_write_buffer_limits(0)` -/
def tSetLimitsZero (s : St) : St := maybePauseProtocol { s with high := 0, low := 0 }

/-- `_SelectorDatagramTransport.sendto(data)` -/
def tSendto (s : St) (n : Nat) : St × Bool :=
  if n = 0 then (s, false)
  else if s.connLost then (s, false)
  else if s.tbuf = [] ∧ n ≤ s.kroom then
    ({ s with accepted := s.accepted + n, kroom := s.kroom - n, flushed := s.flushed + n }, true)
  else (maybePauseProtocol { s with accepted := s.accepted + n, tbuf := s.tbuf ++ [n] }, true)

/-- the loop of `_sendto_ready`: whole datagrams while they fit -/
def sendtoLoop : Nat → Nat → List Nat → Nat × Nat × List Nat
  | kroom, flushed, [] => (kroom, flushed, [])
  | kroom, flushed, b :: bs => if b ≤ kroom ∧ b ≠ 0 then sendtoLoop (kroom - b) (flushed + b) bs else (kroom, flushed, b :: bs)

/-- the kernel takes whole datagrams from the front of the buffer while they fit -/
def sendtoStep (s : St) : St :=
  { s with kroom := (sendtoLoop s.kroom s.flushed s.tbuf).1, flushed := (sendtoLoop s.kroom s.flushed s.tbuf).2.1,
           tbuf := (sendtoLoop s.kroom s.flushed s.tbuf).2.2 }

/-- `_SelectorDatagramTransport._sendto_ready` -/
def tSendtoReady (c : Cfg) (s : St) : St :=
  if s.connLost then s
  else closeCheck c (maybeResumeProtocol c (sendtoStep s))

/-- `transport.close()` (the stub transport of the bare WriteFlowControl only flips `is_closing()`) -/
def tClose (c : Cfg) (s : St) : St :=
  if s.closing then s
  else if c.kind = .wfc then { s with closing := true }
  else if s.size = 0 then { s with closing := true, connLost := true, ready := s.ready ++ [.connLost none] }
  else { s with closing := true }

/-- `transport._force_close(exc)` -/
def tForceClose (s : St) (e : Option Nat) : St :=
  if s.connLost then s
  else { s with tbuf := [], closing := true, connLost := true, ready := s.ready ++ [.connLost e] }

/-! ### sender tasks -/

def finish (s : St) (i : Nat) (r : Res) : St :=
  { s with senders := upd s.senders i { (s.senders i) with pc := .idle, mustCancel := false },
           doneLog := (i, r, (s.senders i).endOff) :: s.doneLog }

/-- `drain()` after the closing checkpoint -/
def drainBody (c : Cfg) (s : St) (i : Nat) : St :=
  if s.lost then finish s i (.err (s.lostExc.getD c.errno))
  else if ¬ s.paused then finish s i .ok
  else { s with senders := upd s.senders i { (s.senders i) with pc := .atWaiter, fut := .pending } }

/-- `drain()` from its start: `if self.__is_closing(): await coro_yield()` -/
def drainHead (c : Cfg) (s : St) (i : Nat) : St :=
  if s.closing then
    { s with senders := upd s.senders i { (s.senders i) with pc := .atYield }, ready := s.ready ++ [.task i] }
  else drainBody c s i

def setEndOff (s : St) (i : Nat) (acc : Bool) : St :=
  if acc then { s with senders := upd s.senders i { (s.senders i) with endOff := some s.accepted } } else s

/-- first step of a sender that is not cancelled: the synchronous part of the adapter method, then drain() -/
def runOp (c : Cfg) (s : St) (i : Nat) : Op → St
  | .drain => drainHead c s i
  | .send n =>
    (match c.kind with
     | .dgram => drainHead c (setEndOff (tSendto s n).1 i (tSendto s n).2) i
     | _ => drainHead c (setEndOff (tWrite s n).1 i (tWrite s n).2) i)
  | .sendv sizes =>
    if c.reassert then
      drainHead c (tSetLimitsZero (setEndOff (tWritelines c s sizes).1 i (tWritelines c s sizes).2)) i
    else drainHead c (setEndOff (tWritelines c s sizes).1 i (tWritelines c s sizes).2) i

/-- one scheduled `__step` / `__wakeup` of sender `i` -/
def runTask (c : Cfg) (s : St) (i : Nat) : St :=
  match (s.senders i).pc with
  | .idle => s
  | .created op => if (s.senders i).mustCancel then finish s i .cancelled else runOp c s i op
  | .atYield => if (s.senders i).mustCancel then finish s i .cancelled else drainBody c s i
  | .atWaiter =>
    if (s.senders i).mustCancel then finish s i .cancelled
    else match (s.senders i).fut with
      | .pending => s
      | .cancelled => finish s i .cancelled
      | .result => finish s i .ok
      | .exc e => finish s i (.err e)

def runHandle (c : Cfg) (s : St) : Handle → St
  | .task i => runTask c s i
  | .connLost e => fcLost c s e

/-- `Task.cancel()` -/
def cancelTask (s : St) (i : Nat) : St :=
  match (s.senders i).pc with
  | .idle => s
  | .created _ => { s with senders := upd s.senders i { (s.senders i) with mustCancel := true } }
  | .atYield => { s with senders := upd s.senders i { (s.senders i) with mustCancel := true } }
  | .atWaiter =>
    if (s.senders i).fut = .pending then
      { s with senders := upd s.senders i { (s.senders i) with fut := .cancelled }, ready := s.ready ++ [.task i] }
    else { s with senders := upd s.senders i { (s.senders i) with mustCancel := true } }

inductive Ev where
  | start (i : Nat) (op : Op)
  | pause | resume                 -- called directly by the harness playing the transport
  | kernel (k : Nat)
  | lost (e : Option Nat)          -- protocol.connection_lost(exc) called directly
  | fail (e : Option Nat)          -- transport._force_close(exc)
  | close
  | cancel (i : Nat)
  | turn
  deriving Repr

inductive Out where
  | started | busy | pause | resume | kernel | kernelSkip | lost | fail | failSkip | close | cancel
  | turn (log : List (Nat × Res × Option Nat))
  deriving DecidableEq, Repr

def startOk (c : Cfg) (s : St) (i : Nat) (op : Op) : Bool :=
  decide (i < c.n) && decide ((s.senders i).pc = .idle) &&
  (match op with
   | .drain => true
   | .send _ => decide (c.kind ≠ .wfc)
   | .sendv _ => decide (c.kind = .stream))

/-- `_run_once` takes the handles that are ready now; what they schedule runs in a later turn -/
def beginTurn (s : St) : St := { s with ready := [], doneLog := [] }
def endTurn (s : St) : St := { s with doneLog := [] }

def step (c : Cfg) (s : St) : Ev → St × Out
  | .start i op =>
    if startOk c s i op then
      ({ s with senders := upd s.senders i { pc := .created op, fut := .pending, mustCancel := false, endOff := none },
                ready := s.ready ++ [.task i] }, .started)
    else (s, .busy)
  | .pause => (fcPause s, .pause)
  | .resume => (fcResume c s, .resume)
  | .kernel k =>
    (match c.kind with
     | .wfc => (s, .kernelSkip)
     | .stream => (tWriteReady c { s with kroom := s.kroom + k }, .kernel)
     | .dgram => (tSendtoReady c { s with kroom := s.kroom + k }, .kernel))
  | .lost e => (fcLost c s e, .lost)
  | .fail e =>
    (match c.kind with
     | .wfc => (s, .failSkip)
     | _ => (tForceClose s e, .fail))
  | .close => (tClose c s, .close)
  | .cancel i => (cancelTask s i, .cancel)
  | .turn => (endTurn (s.ready.foldl (runHandle c) (beginTurn s)), .turn (s.ready.foldl (runHandle c) (beginTurn s)).doneLog)

def run (c : Cfg) : St → List Ev → St × List Out
  | s, [] => (s, [])
  | s, e :: es => ((run c (step c s e).1 es).1, (step c s e).2 :: (run c (step c s e).1 es).2)

end EasyNet.C20.FC
