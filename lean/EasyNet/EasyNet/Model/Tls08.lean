/-
  C08 — AsyncTLSStreamTransport (easynetwork/lowlevel/api_async/transports/tls.py) as a wrapper machine around an
  ABSTRACT SSL engine, plus the decision logic of the blocking SSLStreamTransport.  Core Lean only.

  Python correspondences (tls.py unless stated otherwise)
    Engine.call              one call of `ssl_object.do_handshake()` / `ssl_object.read(n[, buffer])` / `ssl_object.write(view)`.
                             The `SSLObject` + its two `MemoryBIO`s are a parameter: the engine sees the incoming BIO
                             (`rbio`, `rEof`), says how many of its bytes it consumed (`cin`) and which bytes it appended
                             to the outgoing BIO (`cout`).  Nothing else is assumed here (laws: `TlsLaws` below).
    St.rbio / wbio / deque   `_read_bio`, `_write_bio`, `_data_deque`
    Lock                     `backend.create_fair_lock()` (asyncio.Lock on the asyncio backend, FairLock elsewhere: both FIFO,
                             both hand the lock over without a suspension when it is free and nobody is queued)
    writeLoop                `__write_all_to_ssl_object`  (`while write_backlog: data = write_backlog[0]; sent = write(data);
                             if sent < len(data): write_backlog[0] = data[sent:] else: del write_backlog[0]`)
    callMeth                 `result = ssl_object_method(*args)` of `_retry_ssl_method`
    attempt                  one pass of `while True:` of `_retry_ssl_method` up to its first `await`
    wrPart/afterWrLock/rdPart     `except SSLWantReadError:` flush under the send lock — taken only if something is pending AND no
                             other task is already waiting for that lock (docs/C08-fix-2.patch) —, then `readinto` under the
                             recv lock.  `St.wrPolicy` selects the two earlier versions of that test (`always` = before any
                             fix, `pending` = docs/C08-fix-1.patch); they exist only for the negative theorems
                             `C08_lockalways_deadlock` / `C08_fix1_residual_deadlock` and the driver options `lockalways` / `fix1`
    wwPart                   `except SSLWantWriteError:`
    okPart/afterOkLock       `else:` flush pending output unless the method is `read` (current code, after the F4b fix)
    failSsl                  `except SSLError: read_bio.write_eof(); write_bio.write_eof(); raise`
    finish                   the `except` clauses of `recv`, `recv_into`, `__flush_data_to_send`, `wrap`
    resume                   the task's awaited operation completed (lock granted / `transport.send_all` returned or raised
                             OSError / `transport.recv_into` returned n bytes, 0, or raised OSError)
    apiCall                  `wrap` (handshake part), `recv`, `recv_into`, `send_all`, `send_all_from_iterable`

  Bytes carry a provenance tag: `plain` = came from the application through `send_all*`, `bio` = came out of the
  outgoing BIO.  Ghost fields (`accepted`, `written`, `xmits`, …) are only written, never read by the machine.
-/
import EasyNet.Model.Retry
namespace EasyNet.C08
open EasyNet

inductive Org where
  | plain | bio
  deriving DecidableEq, Repr

abbrev TB := Org × UInt8

def tag (o : Org) (b : Bytes) : List TB := b.map (fun x => (o, x))
def untag (l : List TB) : Bytes := l.map (·.2)

abbrev Tid := Nat

/-- how one engine call ends -/
inductive SslOut where
  | ok (n : Nat)        -- write: bytes accepted (read: |data|, handshake: 0)
  | wantRead | wantWrite
  | zeroReturn          -- ssl.SSLZeroReturnError
  | eofError            -- ssl.SSLEOFError (is_ssl_eof_error)
  | error               -- any other ssl.SSLError
  | desync              -- scripted engine only: log exhausted or method mismatch (a harness error, never a real answer)
  deriving DecidableEq, Repr

structure Resp where
  out : SslOut
  data : Bytes := []    -- plaintext returned by a successful read
  cin : Nat := 0        -- bytes consumed from the incoming BIO
  cout : Bytes := []    -- bytes appended to the outgoing BIO
  deriving DecidableEq, Repr

inductive Call where
  | handshake
  | read (n : Nat)
  | write (data : Bytes)
  deriving DecidableEq, Repr

/-- the `SSLObject`: any state type, any transition function -/
structure Engine (σ : Type) where
  call : σ → Call → (rbio : Bytes) → (rEof : Bool) → σ × Resp

/-- `ssl_object_method, *args` of `_retry_ssl_method` -/
inductive Meth where
  | handshake
  | read (n : Nat)
  | writeAll
  deriving DecidableEq, Repr

def Meth.isRead : Meth → Bool
  | .read _ => true
  | _ => false

inductive PC where
  | idle
  | wrLock (m : Meth) | wrSend (m : Meth) | rdLock (m : Meth) | rdInto (m : Meth)   -- SSLWantReadError branch
  | wwLock (m : Meth) | wwSend (m : Meth)                                           -- SSLWantWriteError branch
  | okLock (m : Meth) | okSend (m : Meth)                                           -- else branch (never for `read`)
  deriving DecidableEq, Repr

inductive LockId where
  | send | recv
  deriving DecidableEq, Repr

structure Lock where
  locked : Bool := false
  waiters : List Tid := []
  deriving DecidableEq, Repr

inductive Err where
  | sslZeroReturn | sslEof | sslError | oserror | connReset | typeError | desync | spin
  deriving DecidableEq, Repr

inductive Result where
  | hsOk
  | data (b : Bytes)      -- recv: the bytes; recv_into: the bytes stored in the caller's buffer (count = length)
  | sent
  | raised (e : Err)
  deriving DecidableEq, Repr

inductive Act where
  | ssl (t : Tid) (c : Call) (pendingIn : Nat) (r : Resp)
  | acq (t : Tid) (l : LockId) | park (t : Tid) (l : LockId) | rel (t : Tid) (l : LockId)
  | xmit (t : Tid) (payload : List TB)      -- `await self._transport.send_all(payload)`
  | rcv (t : Tid)                           -- `await self.transport.recv_into(buffer_view)`
  | fed (t : Tid) (n : Nat)                 -- `read_bio.write(buffer[:n])`
  | rbioEof (t : Tid)                       -- `read_bio.write_eof()` in readinto
  | bothEof (t : Tid)                       -- `read_bio.write_eof(); write_bio.write_eof()`
  | closeInner (t : Tid)                    -- `aclose_forcefully(transport)` in wrap
  | ret (t : Tid) (r : Result)
  deriving DecidableEq, Repr

def upd {α : Type} (f : Tid → α) (t : Tid) (v : α) : Tid → α := fun u => if u = t then v else f u

/-- when does the WANT_READ branch take the send lock ("Flush any pending writes first")?  A variant switch, never written
    by the machine. -/
inductive WrPolicy where
  | always            -- code before the fix: `async with send_lock: if self._write_bio.pending: …` (unconditionally)
  | pending           -- docs/C08-fix-1.patch: `if self._write_bio.pending: async with send_lock: …`
  | pendingNoWaiter   -- docs/C08-fix-2.patch (the code this model mirrors):
                      -- `if self._write_bio.pending and not self.__transport_send_lock_waiters: await self.__flush_pending_writes()`
  deriving DecidableEq, Repr

structure St (σ : Type) where
  eng : σ
  compat : Bool                  -- `_standard_compatible`
  wrPolicy : WrPolicy := .pendingNoWaiter
  rbio : Bytes := []
  rEof : Bool := false
  wbio : List TB := []
  wEof : Bool := false
  deque : List (List TB) := []
  sendLock : Lock := {}
  recvLock : Lock := {}
  pc : Tid → PC := fun _ => .idle
  acts : List Act := []          -- observable actions, oldest first
  -- ghost
  written : List TB := []        -- all chunks handed to send_all / send_all_from_iterable, in call order
  accepted : Bytes := []         -- all bytes `ssl.write` accepted, in order (logged at the engine call)
  mark : Tid → Nat := fun _ => 0 -- |written| right after the task's current send call appended its chunks
  completed : List (Tid × Nat × Nat) := []   -- (task, its mark, |accepted|) whenever a task's write loop ran to its end
  xmits : List (List TB) := []   -- payloads of transport.send_all, in call order
  outAll : List TB := []         -- everything the engine ever appended to the outgoing BIO
  taken : Bytes := []            -- everything transport.recv_into returned
  fedAll : Bytes := []           -- everything written to the incoming BIO
  consumed : Bytes := []         -- everything the engine took out of the incoming BIO
  engRead : Bytes := []          -- all plaintext returned by successful `ssl.read`
  returned : Bytes := []         -- all plaintext returned by recv / recv_into
  flushed : Tid → Nat := fun _ => 0   -- |outAll| at the task's last WANT_READ (what it has to flush before waiting)

def St.init {σ : Type} (e : σ) (compat : Bool) : St σ := { eng := e, compat := compat }

def St.log {σ : Type} (s : St σ) (a : Act) : St σ := { s with acts := s.acts ++ [a] }
def St.setPc {σ : Type} (s : St σ) (t : Tid) (p : PC) : St σ := { s with pc := upd s.pc t p }

def St.lock {σ : Type} (s : St σ) : LockId → Lock
  | .send => s.sendLock
  | .recv => s.recvLock

def St.setLock {σ : Type} (s : St σ) (l : LockId) (k : Lock) : St σ :=
  match l with
  | .send => { s with sendLock := k }
  | .recv => { s with recvLock := k }

/-- `Lock.acquire()` up to its first await: granted at once iff unlocked and nobody queued -/
def Lock.free (k : Lock) : Bool := !k.locked && k.waiters.isEmpty

/-- `async with lock:` entered by `t`; `true` = granted without suspension -/
def St.acquire {σ : Type} (s : St σ) (t : Tid) (l : LockId) : St σ × Bool :=
  if (s.lock l).free then ((s.setLock l { locked := true, waiters := [] }).log (.acq t l), true)
  else ((s.setLock l { (s.lock l) with waiters := (s.lock l).waiters ++ [t] }).log (.park t l), false)

/-- `lock.release()`: the head waiter (if any) is woken; it takes the lock when it runs -/
def St.release {σ : Type} (s : St σ) (t : Tid) (l : LockId) : St σ :=
  (s.setLock l { (s.lock l) with locked := false }).log (.rel t l)

/-- the woken head waiter runs: `self._waiters.remove(fut); self._locked = True` -/
def St.grant {σ : Type} (s : St σ) (t : Tid) (l : LockId) : Option (St σ) :=
  if (s.lock l).locked = false ∧ (s.lock l).waiters.head? = some t then
    some ((s.setLock l { locked := true, waiters := (s.lock l).waiters.tail }).log (.acq t l))
  else none

/-- the plaintext a call made the engine accept: `write(data) -> n` takes `data[:n]` -/
def acceptedBy (c : Call) (r : Resp) : Bytes :=
  match c, r.out with
  | .write d, .ok n => d.take n
  | _, _ => []

/-- the plaintext a call made the engine hand out -/
def readBy (c : Call) (r : Resp) : Bytes :=
  match c, r.out with
  | .read _, .ok _ => r.data
  | _, _ => []

/-- one engine call, with the BIO bookkeeping (and the engine-side ghost logs) -/
def St.engine {σ : Type} (E : Engine σ) (s : St σ) (t : Tid) (c : Call) : St σ × Resp :=
  ({ s with eng := (E.call s.eng c s.rbio s.rEof).1,
            rbio := s.rbio.drop (E.call s.eng c s.rbio s.rEof).2.cin,
            consumed := s.consumed ++ s.rbio.take (E.call s.eng c s.rbio s.rEof).2.cin,
            wbio := s.wbio ++ tag .bio (E.call s.eng c s.rbio s.rEof).2.cout,
            outAll := s.outAll ++ tag .bio (E.call s.eng c s.rbio s.rEof).2.cout,
            accepted := s.accepted ++ acceptedBy c (E.call s.eng c s.rbio s.rEof).2,
            engRead := s.engRead ++ readBy c (E.call s.eng c s.rbio s.rEof).2,
            acts := s.acts ++ [.ssl t c s.rbio.length (E.call s.eng c s.rbio s.rEof).2] },
   (E.call s.eng c s.rbio s.rEof).2)

/-- outcome of `ssl_object_method(*args)` -/
inductive MRes where
  | ok (r : Bytes)
  | exc (o : SslOut)
  | spin                       -- `write` of a non-empty view returned 0: the Python loop would never end
  deriving DecidableEq, Repr

def dqSize : List (List TB) → Nat
  | [] => 0
  | d :: dq => d.length + 1 + dqSize dq

/-- `__write_all_to_ssl_object(ssl_object, write_backlog)`; the backlog is threaded explicitly and stored back at the end -/
def writeLoop {σ : Type} (E : Engine σ) (t : Tid) : List (List TB) → St σ → St σ × MRes
  | [], s => ({ s with deque := [] }, .ok [])
  | d :: dq, s =>
    match (s.engine E t (.write (untag d))).2.out with
    | .ok n =>
      if n < d.length then
        if n = 0 then
          ({ (s.engine E t (.write (untag d))).1 with deque := d :: dq }, .spin)
        else
          -- write_backlog[0] = data[sent:]
          writeLoop E t (d.drop n :: dq) (s.engine E t (.write (untag d))).1
      else
        -- del write_backlog[0]
        writeLoop E t dq (s.engine E t (.write (untag d))).1
    | o => ({ (s.engine E t (.write (untag d))).1 with deque := d :: dq }, .exc o)
termination_by dq => dqSize dq
decreasing_by
  all_goals simp only [dqSize, List.length_drop]
  all_goals omega

/-- `result = ssl_object_method(*args)` -/
def callMeth {σ : Type} (E : Engine σ) (t : Tid) (m : Meth) (s : St σ) : St σ × MRes :=
  match m with
  | .handshake =>
    (match (s.engine E t .handshake).2.out with
     | .ok _ => ((s.engine E t .handshake).1, .ok [])
     | o => ((s.engine E t .handshake).1, .exc o))
  | .read n =>
    (match (s.engine E t (.read n)).2.out with
     | .ok _ => ((s.engine E t (.read n)).1, .ok (s.engine E t (.read n)).2.data)
     | o => ((s.engine E t (.read n)).1, .exc o))
  | .writeAll => writeLoop E t s.deque s

/-- how the API function that called `_retry_ssl_method` ends -/
def finish {σ : Type} (s : St σ) (t : Tid) (m : Meth) (r : Result) : St σ :=
  match m, r with
  | .handshake, .raised e =>
    -- wrap: `except BaseException: self.__closing = True; await aclose_forcefully(transport); raise`
    (((s.log (.closeInner t)).log (.ret t (.raised e))).setPc t .idle)
  | .read _, .data b =>
    ({ (s.log (.ret t (.data b))) with returned := s.returned ++ b }.setPc t .idle)
  | _, r => ((s.log (.ret t r)).setPc t .idle)

/-- the method returned normally: what the caller gets -/
def okResult : Meth → Bytes → Result
  | .handshake, _ => .hsOk
  | .read _, r => .data r
  | .writeAll, _ => .sent

/-- an `ssl.SSLError` left `_retry_ssl_method`: the `except` clauses of recv / recv_into / __flush_data_to_send -/
def excResult (compat : Bool) : Meth → SslOut → Result
  | .read _, .zeroReturn => .data []                        -- except SSLZeroReturnError: return b"" / 0
  | .read _, .eofError => if compat then .raised .sslEof else .data []
  | .writeAll, .zeroReturn => .raised .connReset            -- raise error_from_errno(ECONNRESET)
  | _, .zeroReturn => .raised .sslZeroReturn
  | _, .eofError => .raised .sslEof
  | _, .desync => .raised .desync
  | _, _ => .raised .sslError

/-- `except SSLError: self._read_bio.write_eof(); self._write_bio.write_eof(); raise` -/
def failSsl {σ : Type} (s : St σ) (t : Tid) (m : Meth) (o : SslOut) : St σ :=
  finish ({ s with rEof := true, wEof := true }.log (.bothEof t)) t m (excResult s.compat m o)

/-- `async with self.__transport_recv_lock: await self.__incoming_reader.readinto(self._read_bio)` up to the await -/
def rdPart {σ : Type} (s : St σ) (t : Tid) (m : Meth) : St σ :=
  if (s.acquire t .recv).2 then ((s.acquire t .recv).1.log (.rcv t)).setPc t (.rdInto m)
  else (s.acquire t .recv).1.setPc t (.rdLock m)

/-- send lock held in the WANT_READ branch (`__flush_pending_writes()`): `if self._write_bio.pending: await send_all(self._write_bio.read())` -/
def afterWrLock {σ : Type} (s : St σ) (t : Tid) (m : Meth) : St σ :=
  if s.wbio ≠ [] then
    ({ s with wbio := [], xmits := s.xmits ++ [s.wbio] }.log (.xmit t s.wbio)).setPc t (.wrSend m)
  else rdPart (s.release t .send) t m

/-- the test in front of `await self.__flush_pending_writes()` in the WANT_READ branch.
    `__transport_send_lock_waiters` (docs/C08-fix-2.patch) counts the tasks between the start of `send_lock.acquire()` and its
    return in `__flush_pending_writes`: exactly the lock's queue (a task that finds the lock free is granted it without
    suspension; a woken waiter stays counted — and queued — until it runs). -/
def St.wantsSendLock {σ : Type} (s : St σ) : Bool :=
  match s.wrPolicy with
  | .always => true
  | .pending => !s.wbio.isEmpty
  | .pendingNoWaiter => !s.wbio.isEmpty && s.sendLock.waiters.isEmpty

/-- `except SSLWantReadError:` — "Flush any pending writes first":
      `if self._write_bio.pending and not self.__transport_send_lock_waiters:   # checked BEFORE the lock
           await self.__flush_pending_writes()     # acquire; if self._write_bio.pending: send_all(self._write_bio.read()); release
       async with self.__transport_recv_lock: …`
    Nothing pending: nothing to flush.  Somebody already queued on the send lock: every owner of that lock flushes all
    that is pending when it gets it, so waiting behind it would add nothing — and the owner may be parked in `send_all`
    until the peer reads, while the peer waits for us to read. -/
def wrPart {σ : Type} (s : St σ) (t : Tid) (m : Meth) : St σ :=
  if s.wantsSendLock = true then
    (if (s.acquire t .send).2 then afterWrLock (s.acquire t .send).1 t m
     else (s.acquire t .send).1.setPc t (.wrLock m))
  else rdPart s t m

/-- send lock held in the WANT_WRITE branch (`__flush_pending_writes(even_if_empty=True)`):
    `await self._transport.send_all(self._write_bio.read())` (unconditional) -/
def afterWwLock {σ : Type} (s : St σ) (t : Tid) (m : Meth) : St σ :=
  ({ s with wbio := [], xmits := s.xmits ++ [s.wbio] }.log (.xmit t s.wbio)).setPc t (.wwSend m)

def wwPart {σ : Type} (s : St σ) (t : Tid) (m : Meth) : St σ :=
  if (s.acquire t .send).2 then afterWwLock (s.acquire t .send).1 t m
  else (s.acquire t .send).1.setPc t (.wwLock m)

/-- what `_retry_ssl_method` returns after the flush of the else branch (`do_handshake` and the write loop return None) -/
def doneResult : Meth → Result
  | .handshake => .hsOk
  | _ => .sent

/-- send lock held in the else branch -/
def afterOkLock {σ : Type} (s : St σ) (t : Tid) (m : Meth) : St σ :=
  if s.wbio ≠ [] then
    ({ s with wbio := [], xmits := s.xmits ++ [s.wbio] }.log (.xmit t s.wbio)).setPc t (.okSend m)
  else finish (s.release t .send) t m (doneResult m)

def okPart {σ : Type} (s : St σ) (t : Tid) (m : Meth) : St σ :=
  if (s.acquire t .send).2 then afterOkLock (s.acquire t .send).1 t m
  else (s.acquire t .send).1.setPc t (.okLock m)

/-- ghost: the write loop of `t`'s send call ran to its end (the backlog is empty) -/
def noteDone {σ : Type} (s : St σ) (t : Tid) : Meth → St σ
  | .writeAll => { s with completed := s.completed ++ [(t, s.mark t, s.accepted.length)] }
  | _ => s

/-- one pass of `while True:` in `_retry_ssl_method`, up to the first await or the return -/
def attempt {σ : Type} (E : Engine σ) (s : St σ) (t : Tid) (m : Meth) : St σ :=
  match (callMeth E t m s).2 with
  | .ok r =>
    -- `if ssl_object_method != self._ssl_object.read:` flush pending output; not after a read
    if m.isRead then finish (callMeth E t m s).1 t m (okResult m r)
    else okPart (noteDone (callMeth E t m s).1 t m) t m
  | .exc .wantRead =>
    wrPart { (callMeth E t m s).1 with flushed := upd (callMeth E t m s).1.flushed t (callMeth E t m s).1.outAll.length } t m
  | .exc .wantWrite => wwPart (callMeth E t m s).1 t m
  | .exc o => failSsl (callMeth E t m s).1 t m o
  | .spin => finish (callMeth E t m s).1 t m (.raised .spin)

/-- what the awaited operation of a task reports when it completes -/
inductive IoRes where
  | ok                  -- lock granted / send_all returned
  | data (d : Bytes)    -- recv_into returned |d| bytes (`[]` = end of stream)
  | err                 -- OSError
  deriving DecidableEq, Repr

/-- `except OSError: read_bio.write_eof(); write_bio.write_eof(); raise` of the WANT_READ branch -/
def failOs {σ : Type} (s : St σ) (t : Tid) (m : Meth) (eofs : Bool) : St σ :=
  if eofs then finish ({ s with rEof := true, wEof := true }.log (.bothEof t)) t m (.raised .oserror)
  else finish s t m (.raised .oserror)

inductive Api where
  | handshake
  | recv (n : Nat)
  | recvInto (cap : Nat)
  | sendAll (d : Bytes)
  | sendIter (ds : List Bytes)
  deriving DecidableEq, Repr

inductive Ev where
  | call (t : Tid) (a : Api)
  | resume (t : Tid) (io : IoRes)
  deriving DecidableEq, Repr

def apiCall {σ : Type} (E : Engine σ) (s : St σ) (t : Tid) : Api → St σ
  | .handshake => attempt E s t .handshake
  | .recv n => attempt E s t (.read n)
  | .recvInto cap => attempt E s t (.read (if cap = 0 then 1024 else cap))   -- `memoryview(buffer).nbytes or 1024`
  | .sendAll d =>
    attempt E { s with deque := s.deque ++ [tag .plain d], written := s.written ++ tag .plain d,
                       mark := upd s.mark t (s.written ++ tag .plain d).length } t .writeAll
  | .sendIter ds =>
    attempt E { s with deque := s.deque ++ ds.map (tag .plain), written := s.written ++ (ds.map (tag .plain)).flatten,
                       mark := upd s.mark t (s.written ++ (ds.map (tag .plain)).flatten).length } t .writeAll

def resume {σ : Type} (E : Engine σ) (s : St σ) (t : Tid) (io : IoRes) : Option (St σ) :=
  match s.pc t, io with
  | .idle, _ => none
  | .wrLock m, .ok => (s.grant t .send).map (fun s1 => afterWrLock s1 t m)
  | .wrSend m, .ok => some (rdPart (s.release t .send) t m)
  | .wrSend m, .err => some (failOs (s.release t .send) t m true)
  | .rdLock m, .ok => (s.grant t .recv).map (fun s1 => (s1.log (.rcv t)).setPc t (.rdInto m))
  | .rdInto m, .data d =>
    if d = [] then
      -- readinto: `read_bio.write_eof(); return 0`
      some (attempt E (({ s with rEof := true }.log (.rbioEof t)).release t .recv) t m)
    else if s.rEof then
      -- `read_bio.write(buffer[:n])` after `write_eof()` raises ssl.SSLError("cannot write() after write_eof()"), an OSError:
      -- caught by `except OSError:` of the WANT_READ branch.  That SSLError has `strerror = None`, so in recv / recv_into
      -- `is_ssl_eof_error(exc)` ("UNEXPECTED_EOF_WHILE_READING" in exc.strerror) raises TypeError (current code).
      some (finish ({ (s.release t .recv) with taken := s.taken ++ d, rEof := true, wEof := true }.log (.bothEof t)) t m
              (.raised (if m.isRead then .typeError else .sslError)))
    else
      some (attempt E (({ s with rbio := s.rbio ++ d, taken := s.taken ++ d, fedAll := s.fedAll ++ d }.log
                          (.fed t d.length)).release t .recv) t m)
  | .rdInto m, .err => some (failOs (s.release t .recv) t m true)
  | .wwLock m, .ok => (s.grant t .send).map (fun s1 => afterWwLock s1 t m)
  | .wwSend m, .ok => some (attempt E (s.release t .send) t m)
  | .wwSend m, .err => some (failOs (s.release t .send) t m false)
  | .okLock m, .ok => (s.grant t .send).map (fun s1 => afterOkLock s1 t m)
  | .okSend m, .ok => some (finish (s.release t .send) t m (doneResult m))
  | .okSend m, .err => some (failOs (s.release t .send) t m false)
  | _, _ => none

def step {σ : Type} (E : Engine σ) (s : St σ) : Ev → Option (St σ)
  | .call t a => if s.pc t = .idle then some (apiCall E s t a) else none
  | .resume t io => resume E s t io

def run {σ : Type} (E : Engine σ) : St σ → List Ev → Option (St σ)
  | s, [] => some s
  | s, e :: es => match step E s e with
    | some s' => run E s' es
    | none => none

/-! ### the scripted engine (correspondence, trace replay) -/

inductive CallKind where
  | handshake | read | write
  deriving DecidableEq, Repr

def Call.kind : Call → CallKind
  | .handshake => .handshake
  | .read _ => .read
  | .write _ => .write

/-- the engine that replays a log of answers; a call of the wrong kind, or past the end, answers `desync` -/
def scriptEngine : Engine (List (CallKind × Resp)) where
  call := fun log c _ _ =>
    match log with
    | [] => ([], { out := .desync })
    | (k, r) :: rest => if k = c.kind then (rest, r) else ([], { out := .desync })

/-! ### the seeded variant used to show that the theorem and the correspondence can fail
    (`data = write_backlog.popleft()` before the write, `appendleft(data[sent:])` only after a partial write) -/

def writeLoopPop {σ : Type} (E : Engine σ) (t : Tid) : List (List TB) → St σ → St σ × MRes
  | [], s => ({ s with deque := [] }, .ok [])
  | d :: dq, s =>
    match (s.engine E t (.write (untag d))).2.out with
    | .ok n =>
      if n < d.length then
        if n = 0 then ({ (s.engine E t (.write (untag d))).1 with deque := d :: dq }, .spin)
        else writeLoopPop E t (d.drop n :: dq) (s.engine E t (.write (untag d))).1
      else writeLoopPop E t dq (s.engine E t (.write (untag d))).1
    | o => ({ (s.engine E t (.write (untag d))).1 with deque := dq }, .exc o)     -- the popped chunk is gone
termination_by dq => dqSize dq
decreasing_by
  all_goals simp only [dqSize, List.length_drop]
  all_goals omega

/-! ### the blocking variant: `SSLStreamTransport._try_ssl_method` + `SelectorBaseTransport._retry`
    (api_sync/transports/socket.py, base_selector.py).  The decision tables are `classifyRecv .tls` /
    `classifySend .tls` of Model/Retry.lean; `_retry` is `EasyNet.retry`. -/

/-- `_try_ssl_method(self.__socket.recv_into, buffer)` inside `recv_noblock_into` (`SSLZeroReturnError -> 0`) -/
def tryRecv (e : SockEv) : Cls := classifyRecv .tls e

/-- `_try_ssl_method(self.__socket.send, data)` inside `send_noblock` (`SSLZeroReturnError -> ECONNRESET`) -/
def trySend (e : SockEv) : Cls := classifySend .tls e

/-- `SSLStreamTransport.recv_into(buffer, timeout)` = `_retry(lambda: recv_noblock_into(buffer), timeout)` -/
def blockingRecv (ri : Tmo) (bufsize : Nat) (sock : List SockCall) (t : Tmo) (w : World) : RetryRes :=
  retry tryRecv (.rcall bufsize) ri sock t w

/-- `SSLStreamTransport.send(data, timeout)` = `_retry(lambda: send_noblock(data), timeout)` -/
def blockingSend (ri : Tmo) (offered : Nat) (sock : List SockCall) (t : Tmo) (w : World) : RetryRes :=
  retry trySend (.call offered 1) ri sock t w

end EasyNet.C08
