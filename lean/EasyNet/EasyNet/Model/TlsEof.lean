/-
  C09 — TLS truncation is never reported as a clean end-of-stream.  Executable model, core Lean only (linked into `endriver`).

  The model is generic in the exception-class type `ε`; the concrete classes, their live subclass relation and every
  table-like piece of the Python logic (`except` clauses, the `match` of `is_ssl_eof_error`, the `suppress_ragged_eofs=`
  keyword expression, the client constructors' context set-up) are GENERATED from /repo's AST into Gen/TlsEofTables.lean
  (`Tables ε`) on every run.

  Python correspondences (easynetwork/lowlevel/…)
    isEofErr                 _utils.is_ssl_eof_error                              (match cases from the table)
    flush                    `if self._write_bio.pending: await self._transport.send_all(self._write_bio.read())`
    retry                    api_async/transports/tls.py  AsyncTLSStreamTransport._retry_ssl_method  +  _IncomingDataReader.readinto
    recvMap / recv           AsyncTLSStreamTransport.recv / recv_into             (except clauses from the table)
    wrap                     AsyncTLSStreamTransport.wrap  (from `with transport.backend().timeout(handshake_timeout)` on)
    aclose / acloseUnwrap    AsyncTLSStreamTransport.aclose  (acloseUnwrap = its inner `try: unwrap … except SSLError: flush … except OSError: pass`)
    stdlibRead               CPython ssl.SSLSocket.read  (`suppress_ragged_eofs`; stdlib, modelled)
    syncRecv                 api_sync/transports/socket.py  SSLStreamTransport.recv_noblock / recv_noblock_into + _try_ssl_method
    syncClose                SSLStreamTransport.close
    ctxAfter                 clients/tcp.py, clients/async_tcp.py  `ssl = create_default_context(); … ssl.options &= ~OP_IGNORE_UNEXPECTED_EOF`

  The SSL object and the wrapped transport are NOT modelled: they are the *script*, a list of responses consumed in order
  (`Resp.ssl` = what one call of `do_handshake/read/unwrap` did, `Resp.tr` = how one awaited call of the wrapped transport
  ended).  The model emits every call it makes (`Call`).  What OpenSSL may answer is constrained only by the laws of
  Lemmas/TlsEofLaws.lean (`LawClean`, `Ragged`, `UnwrapLaw`).
-/
namespace EasyNet.TlsEof

/-! ## generated-table vocabulary -/

/-- body of an `except` handler, as far as the translator understands it (anything else becomes `.unknown`) -/
inductive HStmt where
  | pass                          -- nothing / falls through
  | retEof                        -- `return b""` / `return 0`
  | retOther                      -- any other `return`
  | reraise                       -- bare `raise`
  | raiseNew                      -- `raise <something else>`
  | wouldBlockRead                -- `raise WouldBlockOnRead(...) from None`
  | wouldBlockWrite               -- `raise WouldBlockOnWrite(...) from None`
  | ifEofErr (t e : HStmt)        -- `if _utils.is_ssl_eof_error(exc): t else: e`
  | ifNotSC (t e : HStmt)         -- `if not self._standard_compatible: t else: e`
  | ifSC (t e : HStmt)            -- `if self._standard_compatible: t else: e`
  | seq (a b : HStmt)
  | unknown
  deriving Repr, DecidableEq

inductive HRes where
  | fall | eof | retOther | reraise | raiseNew | wbRead | wbWrite | unknown
  deriving Repr, DecidableEq

def HStmt.eval (sc isEof : Bool) : HStmt → HRes
  | .pass => .fall
  | .retEof => .eof
  | .retOther => .retOther
  | .reraise => .reraise
  | .raiseNew => .raiseNew
  | .wouldBlockRead => .wbRead
  | .wouldBlockWrite => .wbWrite
  | .unknown => .unknown
  | .ifEofErr t e => if isEof then t.eval sc isEof else e.eval sc isEof
  | .ifNotSC t e => if sc then e.eval sc isEof else t.eval sc isEof
  | .ifSC t e => if sc then t.eval sc isEof else e.eval sc isEof
  | .seq a b =>
    match a.eval sc isEof with
    | .fall => b.eval sc isEof
    | r => r

structure Clause (ε : Type) where
  classes : List ε
  body : HStmt
  deriving Repr

/-- one `case` of the `match exc:` in `is_ssl_eof_error` -/
structure EofCase (ε : Type) where
  cls : ε
  needsPat : Bool       -- guard `hasattr(exc, "strerror") and "UNEXPECTED_EOF_WHILE_READING" in exc.strerror`
  value : Bool          -- what the case returns
  deriving Repr

/-- what a handler of `_retry_ssl_method` does -/
inductive RAct where
  | wantRead            -- flush pending output, `readinto(read_bio)`; `except OSError:` mark both BIOs eof, re-raise
  | wantWrite           -- `send_all(write_bio.read())`
  | markEofReraise      -- `read_bio.write_eof(); write_bio.write_eof(); raise`
  | unknown
  deriving Repr, DecidableEq

/-- value of the keyword `suppress_ragged_eofs=` as an expression in `standard_compatible` -/
inductive KwExpr where
  | notSC | sc | const (b : Bool) | unknown
  deriving Repr, DecidableEq

def KwExpr.eval (sc : Bool) : KwExpr → Option Bool
  | .notSC => some (!sc)
  | .sc => some sc
  | .const b => some b
  | .unknown => none

/-- statements of the default-context set-up of a client constructor -/
inductive CtxStmt where
  | createDefault                         -- `ssl = _ssl_module.create_default_context()`
  | checkHostnameOff                      -- `ssl.check_hostname = False` (conditional; irrelevant to the option bits)
  | clearOption (name : String)           -- `with contextlib.suppress(AttributeError): ssl.options &= ~_ssl_module.<name>`
  | setOption (name : String)             -- `ssl.options |= _ssl_module.<name>`
  | other
  deriving Repr, DecidableEq

structure ClientCtx where
  client : String                         -- "tcp" | "async_tcp"
  guards : List String                    -- the `if` tests enclosing the set-up, outermost first (source text)
  stmts : List CtxStmt
  deriving Repr

inductive Method where
  | handshake | read | unwrap
  deriving Repr, DecidableEq

structure Tables (ε : Type) where
  sub : ε → ε → Bool                      -- live `issubclass`
  -- designated classes (by qualified name)
  sslError : ε
  zeroReturn : ε
  wantReadCls : ε
  wantWriteCls : ε
  eofError : ε
  osError : ε
  timeoutError : ε
  -- is_ssl_eof_error
  eofCases : List (EofCase ε)
  eofDefault : Bool
  -- _retry_ssl_method
  retryClauses : List (List ε × RAct)
  retryInnerCatch : List ε                -- the `except OSError:` around flush + readinto
  readintoEofOnZero : Bool                -- `_IncomingDataReader.readinto`: `read_bio.write_eof()` when the transport returned 0
  wantReadFlushes : Bool                  -- WANT_READ branch: `if self._write_bio.pending: send_all(...)` before `readinto`
  noFlushAfter : List Method              -- `else:` branch: `if ssl_object_method != self._ssl_object.read:` — no flush after these
  -- recv / recv_into
  recvClauses : List (Clause ε)
  recvIntoClauses : List (Clause ε)
  -- aclose / wrap
  acloseSwallow : List ε                  -- `except OSError: pass` around the unwrap
  acloseFlushesOnSslError : Bool          -- the unwrap has `except SSLError: with suppress(OSError): await self.__flush_pending_writes()`
  acloseFlushOn : List ε                  -- … the classes of that clause (`SSLError`); [] when the clause is absent
  acloseFlushSuppress : List ε            -- … the classes given to `contextlib.suppress` (`OSError`)
  acloseUnwraps : Bool                    -- `await self._retry_ssl_method(self._ssl_object.unwrap)` is there
  acloseGuardSC : Bool                    -- the unwrap is guarded by `self._standard_compatible and not transport.is_closing()`
  acloseMarksEof : Bool                   -- `self._read_bio.write_eof(); self._write_bio.write_eof()` after the unwrap
  acloseForceOnFail : Bool                -- `except BaseException: await aclose_forcefully(self._transport); raise`
  acloseFinalClose : Bool                 -- the `with ExitStack()` block ends with `await self._transport.aclose()`
  -- blocking transport
  suppressRagged : KwExpr
  trySslClauses : List (Clause ε)
  syncRecvClauses : List (Clause ε)
  syncRecvIntoClauses : List (Clause ε)
  syncCloseSwallow : List ε
  syncCloseUnwraps : Bool
  syncCloseFinally : Bool                 -- `finally: _close_stream_socket(self.__socket)`
  -- clients
  clientCtx : List ClientCtx
  optIgnoreEofBit : Option Nat            -- bit index of ssl.OP_IGNORE_UNEXPECTED_EOF (none: attribute missing)
  problems : List String                  -- what the translator could not read (must be empty)

/-! ## exception matching -/

def catches {ε} (T : Tables ε) (classes : List ε) (e : ε) : Bool := classes.any (fun c => T.sub e c)

def firstClause {ε} (T : Tables ε) : List (Clause ε) → ε → Option HStmt
  | [], _ => none
  | c :: cs, e => if catches T c.classes e then some c.body else firstClause T cs e

def retryAct {ε} (T : Tables ε) : List (List ε × RAct) → ε → Option RAct
  | [], _ => none
  | (cl, a) :: cs, e => if catches T cl e then some a else retryAct T cs e

/-- `_utils.is_ssl_eof_error(exc)`; `pat` = `"UNEXPECTED_EOF_WHILE_READING" in exc.strerror` -/
def isEofErr {ε} (T : Tables ε) (e : ε) (pat : Bool) : Bool :=
  match T.eofCases.find? (fun c => T.sub e c.cls && (!c.needsPat || pat)) with
  | some c => c.value
  | none => T.eofDefault

/-! ## scripts -/

/-- what one call of the SSL object did -/
inductive SslAns (ε : Type) where
  | ret (n : Nat)                         -- returned (`read`: n bytes; n = 0 is `b""`)
  | raise (e : ε) (pat : Bool)
  deriving Repr

/-- how one awaited call of the wrapped transport ended -/
inductive TAns (ε : Type) where
  | ok                                    -- send_all / aclose returned
  | n (k : Nat)                           -- recv_into returned k + 1 bytes (always > 0)
  | eof                                   -- recv_into returned 0
  | raise (e : ε)
  | cancel                                -- CancelledError from outside
  | timeout                               -- the enclosing scope's deadline fired here
  deriving Repr

inductive Resp (ε : Type) where
  | ssl (a : SslAns ε) (out : Nat) (alert : Bool)   -- `out` bytes appended to the write BIO by the call; `alert`: they end with the close_notify record
  | tr (a : TAns ε)
  deriving Repr

inductive Exn (ε : Type) where
  | cls (e : ε) (pat : Bool)
  | cancel
  | scopeTimeout
  deriving Repr

inductive Call where
  | ssl (m : Method)
  | getpeercert
  | send (n : Nat) (alert : Bool)
  | recvInto
  | rbioWrite (n : Nat)
  | rbioEof
  | wbioEof
  | innerClose
  | innerForce
  deriving Repr, DecidableEq

structure St where
  wpend : Nat := 0            -- `_write_bio.pending`
  walert : Bool := false      -- the pending output ends with the close_notify alert record
  rEof : Bool := false        -- `_read_bio.write_eof()` was called
  wEof : Bool := false
  fed : Nat := 0              -- ghost: bytes written into the read BIO so far
  closing : Bool := false     -- `__closing`
  closedEv : Bool := false    -- `__closed` event
  innerClosing : Bool := false   -- the wrapped transport's `is_closing()`
  deriving Repr, DecidableEq

inductive RR (ε : Type) where
  | ret (n : Nat)
  | exn (x : Exn ε)
  deriving Repr

/-- result of a step that may find the script exhausted / out of step (`none`) -/
abbrev Run (ε α : Type) := Option (α × St × List (Resp ε) × List Call)

def markBoth (s : St) : St := { s with rEof := true, wEof := true }

/-- `await self._transport.send_all(self._write_bio.read())` — the BIO is emptied before the await -/
def sendPending {ε} (s : St) (script : List (Resp ε)) : Run ε (Option (Exn ε)) :=
  match script with
  | .tr .ok :: rest => some (none, { s with wpend := 0, walert := false }, rest, [.send s.wpend s.walert])
  | .tr (.raise e) :: rest => some (some (.cls e false), { s with wpend := 0, walert := false }, rest, [.send s.wpend s.walert])
  | .tr .cancel :: rest => some (some .cancel, { s with wpend := 0, walert := false }, rest, [.send s.wpend s.walert])
  | .tr .timeout :: rest => some (some .scopeTimeout, { s with wpend := 0, walert := false }, rest, [.send s.wpend s.walert])
  | _ => none

/-- `if self._write_bio.pending: await self._transport.send_all(self._write_bio.read())` -/
def flush {ε} (s : St) (script : List (Resp ε)) : Run ε (Option (Exn ε)) :=
  if s.wpend = 0 then some (none, s, script, []) else sendPending s script

/-- the inner `except OSError:` of the WANT_READ branch -/
def innerCatch {ε} (T : Tables ε) (s : St) : Exn ε → St
  | .cls e _ => if catches T T.retryInnerCatch e then markBoth s else s
  | _ => s

def addOut (s : St) (out : Nat) (alert : Bool) : St :=
  { s with wpend := s.wpend + out, walert := if out = 0 then s.walert else alert }

/-- `_retry_ssl_method(method)`; `fuel` bounds the number of SSL calls -/
def retry {ε} (T : Tables ε) (m : Method) : Nat → St → List (Resp ε) → Run ε (RR ε)
  | 0, _, _ => none
  | fuel + 1, s, script =>
    match script with
    | .ssl (.ret n) out alert :: rest =>
      -- `else:` branch
      if T.noFlushAfter.contains m then some (.ret n, addOut s out alert, rest, [.ssl m])
      else
        match flush (addOut s out alert) rest with
        | none => none
        | some (none, s2, rest2, calls) => some (.ret n, s2, rest2, .ssl m :: calls)
        | some (some x, s2, rest2, calls) => some (.exn x, s2, rest2, .ssl m :: calls)
    | .ssl (.raise e pat) out alert :: rest =>
      match retryAct T T.retryClauses e with
      | some .wantRead =>
        match (if T.wantReadFlushes then flush (addOut s out alert) rest else some (none, addOut s out alert, rest, [])) with
        | none => none
        | some (some x, s2, rest2, calls) => some (.exn x, innerCatch T s2 x, rest2, .ssl m :: calls)
        | some (none, s2, rest2, calls) =>
          match rest2 with
          | .tr (.n k) :: rest3 =>
            match retry T m fuel { s2 with fed := s2.fed + (k + 1) } rest3 with
            | none => none
            | some (r, s3, rest4, calls') => some (r, s3, rest4, .ssl m :: calls ++ (.recvInto :: .rbioWrite (k + 1) :: calls'))
          | .tr .eof :: rest3 =>
            match retry T m fuel { s2 with rEof := s2.rEof || T.readintoEofOnZero } rest3 with
            | none => none
            | some (r, s3, rest4, calls') =>
              some (r, s3, rest4, .ssl m :: calls ++ (.recvInto :: (if T.readintoEofOnZero then [.rbioEof] else []) ++ calls'))
          | .tr (.raise e') :: rest3 =>
            some (.exn (.cls e' false), innerCatch T s2 (.cls e' false), rest3, .ssl m :: calls ++ [.recvInto])
          | .tr .cancel :: rest3 => some (.exn .cancel, s2, rest3, .ssl m :: calls ++ [.recvInto])
          | .tr .timeout :: rest3 => some (.exn .scopeTimeout, s2, rest3, .ssl m :: calls ++ [.recvInto])
          | _ => none
      | some .wantWrite =>
        match sendPending (addOut s out alert) rest with
        | none => none
        | some (some x, s2, rest2, calls) => some (.exn x, s2, rest2, .ssl m :: calls)
        | some (none, s2, rest2, calls) =>
          match retry T m fuel s2 rest2 with
          | none => none
          | some (r, s3, rest3, calls') => some (r, s3, rest3, .ssl m :: calls ++ calls')
      | some .markEofReraise =>
        some (.exn (.cls e pat), markBoth (addOut s out alert), rest, [.ssl m, .rbioEof, .wbioEof])
      | some .unknown => none
      | none => some (.exn (.cls e pat), addOut s out alert, rest, [.ssl m])
    | _ => none

/-! ## recv / recv_into -/

inductive Which where
  | recv | recvInto
  deriving Repr, DecidableEq

def Tables.clausesOf {ε} (T : Tables ε) : Which → List (Clause ε)
  | .recv => T.recvClauses
  | .recvInto => T.recvIntoClauses

/-- reader-visible result of one receive call -/
inductive Out (ε : Type) where
  | data (n : Nat)          -- n > 0 bytes
  | eof                     -- `b""` / 0
  | exc (x : Exn ε)
  | bad                     -- the table has something the model does not understand
  deriving Repr

def Out.isEof {ε} : Out ε → Bool
  | .eof => true
  | _ => false

def Out.isExc {ε} : Out ε → Bool
  | .exc _ => true
  | _ => false

/-- the `try … except` of `recv` / `recv_into` applied to how `_retry_ssl_method` ended -/
def recvMap {ε} (T : Tables ε) (sc : Bool) (w : Which) : RR ε → Out ε
  | .ret 0 => .eof
  | .ret (n + 1) => .data (n + 1)
  | .exn (.cls e pat) =>
    match firstClause T (T.clausesOf w) e with
    | none => .exc (.cls e pat)
    | some body =>
      match body.eval sc (isEofErr T e pat) with
      | .eof => .eof
      | .reraise => .exc (.cls e pat)
      | _ => .bad
  | .exn x => .exc x

def recv {ε} (T : Tables ε) (sc : Bool) (w : Which) (s : St) (script : List (Resp ε)) : Run ε (Out ε) :=
  match retry T .read (script.length + 1) s script with
  | none => none
  | some (r, s', rest, calls) => some (recvMap T sc w r, s', rest, calls)

/-! ## wrap / aclose -/

inductive COut (ε : Type) where
  | ok
  | exn (x : Exn ε)
  deriving Repr

def COut.isOk {ε} : COut ε → Bool
  | .ok => true
  | .exn _ => false

/-- `await aclose_forcefully(transport)`: the wrapped transport marks closing before its first suspension and the expired
    scope cancels it there -/
def force (s : St) : St × List Call := ({ s with innerClosing := true }, [.innerForce])

/-- `AsyncTLSStreamTransport.wrap` from the handshake on -/
def wrap {ε} (T : Tables ε) (s : St) (script : List (Resp ε)) : Run ε (COut ε) :=
  match retry T .handshake (script.length + 1) s script with
  | none => none
  | some (.ret _, s', rest, calls) => some (.ok, s', rest, calls ++ [.getpeercert])
  | some (.exn x, s', rest, calls) =>
    -- `except BaseException: self.__closing = True; await aclose_forcefully(transport); raise`
    -- (`timeout(handshake_timeout)` turns its own cancellation into TimeoutError first)
    let x' : Exn ε := match x with
      | .scopeTimeout => .cls T.timeoutError false
      | y => y
    some (.exn x', { (force s').1 with closing := true }, rest, calls ++ (force s').2)

/-- `await self._transport.aclose()` (graceful) -/
def innerClose {ε} (s : St) (script : List (Resp ε)) : Run ε (COut ε) :=
  match script with
  | .tr .ok :: rest => some (.ok, { s with innerClosing := true }, rest, [.innerClose])
  | .tr (.raise e) :: rest => some (.exn (.cls e false), { s with innerClosing := true }, rest, [.innerClose])
  | .tr .cancel :: rest => some (.exn .cancel, { s with innerClosing := true }, rest, [.innerClose])
  | .tr .timeout :: rest => some (.exn .scopeTimeout, { s with innerClosing := true }, rest, [.innerClose])
  | _ => none

def swallowed {ε} (T : Tables ε) : Exn ε → Bool
  | .cls e _ => catches T T.acloseSwallow e
  | _ => false

/-- is the exception caught by `except SSLError:` — the clause that flushes the output of a FAILING `unwrap()` (only when the
    generated table says the clause is there) -/
def sslFlushCaught {ε} (T : Tables ε) : Exn ε → Bool
  | .cls e _ => T.acloseFlushesOnSslError && catches T T.acloseFlushOn e
  | _ => false

/-- `with contextlib.suppress(OSError):` around that flush -/
def flushSuppressed {ε} (T : Tables ε) : Exn ε → Bool
  | .cls e _ => catches T T.acloseFlushSuppress e
  | _ => false

/-- the inner `try` statement of `aclose`:
      try:                 await self._retry_ssl_method(self._ssl_object.unwrap)
      except SSLError:     with contextlib.suppress(OSError): await self.__flush_pending_writes()     (if the table has the clause)
      except OSError:      pass
    The result is the exception that LEAVES the statement (`none`: it ended normally / the exception was handled).
    `unwrap()` may have written the close_notify alert into the outgoing BIO before failing (application data received from
    the peer and not read yet): the first handler hands it to the wrapped transport; an exception of that flush is not seen by
    the sibling `except OSError` (it leaves the statement unless `suppress` takes it). -/
def acloseUnwrap {ε} (T : Tables ε) (fuel : Nat) (s : St) (script : List (Resp ε)) : Run ε (Option (Exn ε)) :=
  match retry T .unwrap fuel s script with
  | none => none
  | some (.ret _, s2, rest, calls) => some (none, s2, rest, calls)
  | some (.exn x, s2, rest, calls) =>
    if sslFlushCaught T x then
      match flush s2 rest with
      | none => none
      | some (none, s3, rest3, calls3) => some (none, s3, rest3, calls ++ calls3)
      | some (some y, s3, rest3, calls3) => some (if flushSuppressed T y then none else some y, s3, rest3, calls ++ calls3)
    else some (if swallowed T x then none else some x, s2, rest, calls)

/-- what `aclose` returns when the exception `x` leaves the shutdown scope:
    `if shutdown_timeout_scope.cancelled_caught(): return`, anything else propagates -/
def acloseFail {ε} : Exn ε → COut ε
  | .scopeTimeout => .ok
  | y => .exn y

/-- `AsyncTLSStreamTransport.aclose` (first call; a later call only waits for the `__closed` event).
    The ExitStack callbacks run on every exit: `closedEv`. -/
def aclose {ε} (T : Tables ε) (sc : Bool) (s : St) (script : List (Resp ε)) : Run ε (COut ε) :=
  if s.closing then some (.ok, s, script, [])
  else if (sc || !T.acloseGuardSC) && !s.innerClosing && T.acloseUnwraps then
    match acloseUnwrap T (script.length + 1) { s with closing := true } script with
    | none => none
    | some (none, s2, rest, calls) =>
      -- `self._read_bio.write_eof(); self._write_bio.write_eof()`; the scope ends normally; `await self._transport.aclose()`
      if T.acloseFinalClose then
        match innerClose (if T.acloseMarksEof then markBoth s2 else s2) rest with
        | none => none
        | some (o, s3, rest3, calls3) =>
          some (o, { s3 with closedEv := true }, rest3, calls ++ (if T.acloseMarksEof then [.rbioEof, .wbioEof] else []) ++ calls3)
      else some (.ok, { s2 with closedEv := true }, rest, calls)
    | some (some x, s2, rest, calls) =>
      -- `except BaseException: await aclose_forcefully(self._transport); raise`
      if T.acloseForceOnFail then some (acloseFail x, { (force s2).1 with closedEv := true }, rest, calls ++ (force s2).2)
      else some (acloseFail x, { s2 with closedEv := true }, rest, calls)
  else if T.acloseFinalClose then
    match innerClose { s with closing := true } script with
    | none => none
    | some (o, s3, rest3, calls3) => some (o, { s3 with closedEv := true }, rest3, calls3)
  else some (.ok, { s with closing := true, closedEv := true }, script, [])

/-! ## blocking transport -/

/-- CPython `ssl.SSLSocket.read`: `except SSLError as x: if x.args[0] == SSL_ERROR_EOF and self.suppress_ragged_eofs: return 0`.
    `args[0] == SSL_ERROR_EOF` is what `_ssl.c` gives exactly the `SSLEOFError` instances (stdlib, modelled). -/
def stdlibRead {ε} (T : Tables ε) (suppress : Bool) : SslAns ε → SslAns ε
  | .raise e pat => if suppress && T.sub e T.eofError then .ret 0 else .raise e pat
  | a => a

inductive SOut (ε : Type) where
  | data (n : Nat)
  | eof
  | wouldBlockRead
  | wouldBlockWrite
  | exc (e : ε)
  | bad
  deriving Repr, DecidableEq

def Tables.syncClausesOf {ε} (T : Tables ε) : Which → List (Clause ε)
  | .recv => T.syncRecvClauses
  | .recvInto => T.syncRecvIntoClauses

/-- `_try_ssl_method(method)` applied to a raised class: what propagates -/
def trySsl {ε} (T : Tables ε) (e : ε) : HRes :=
  match firstClause T T.trySslClauses e with
  | none => .reraise
  | some b => b.eval true false

/-- `recv_noblock` / `recv_noblock_into` on what OpenSSL answered to the `SSL_read` underneath -/
def syncRecv {ε} (T : Tables ε) (sc : Bool) (w : Which) (a : SslAns ε) : SOut ε :=
  match T.suppressRagged.eval sc with
  | none => .bad
  | some suppress =>
    match stdlibRead T suppress a with
    | .ret 0 => .eof
    | .ret (n + 1) => .data (n + 1)
    | .raise e _ =>
      match trySsl T e with
      | .wbRead => .wouldBlockRead
      | .wbWrite => .wouldBlockWrite
      | .reraise =>
        match firstClause T (T.syncClausesOf w) e with
        | none => .exc e
        | some b =>
          match b.eval sc false with
          | .eof => .eof
          | .reraise => .exc e
          | _ => .bad
      | _ => .bad

inductive SCall where
  | unwrap | closeSocket
  deriving Repr, DecidableEq

/-- how one `unwrap` attempt inside `_retry` ends: returned, raised, or the shutdown timeout expired while waiting -/
inductive UAns (ε : Type) where
  | ok | raise (e : ε) | timeout
  deriving Repr

/-- `SSLStreamTransport.close`; `open_` = `self.__socket.fileno() >= 0`.  The script lists the attempts of `unwrap` inside
    `_retry`; after an attempt that would block, `.timeout` says the wait ran into the shutdown timeout. -/
def syncCloseLoop {ε} (T : Tables ε) : List (UAns ε) → List SCall × Option ε
  | [] => ([.unwrap], none)                          -- script exhausted: the attempt returns
  | .ok :: _ => ([.unwrap], none)
  | .timeout :: _ => ([.unwrap], none)                -- (not meaningful before a would-block: read as "returns")
  | .raise e :: rest =>
    match trySsl T e with
    | .wbRead | .wbWrite =>
      match rest with
      | .timeout :: _ => ([.unwrap], some T.timeoutError)     -- `_retry` raises TimeoutError
      | _ => let r := syncCloseLoop T rest; (.unwrap :: r.1, r.2)
    | _ => ([.unwrap], some e)

def syncClose {ε} (T : Tables ε) (sc open_ : Bool) (script : List (UAns ε)) : List SCall × Option ε :=
  let body : List SCall × Option ε :=
    if sc && open_ && T.syncCloseUnwraps then syncCloseLoop T script else ([], none)
  let prop : Option ε := match body.2 with
    | some e => if catches T T.syncCloseSwallow e then none else some e
    | none => none
  (body.1 ++ (if T.syncCloseFinally then [.closeSocket] else if prop.isNone then [.closeSocket] else []), prop)

/-! ## default client contexts -/

/-- `opts &= ~(1 <<< bit)` on a non-negative Python int -/
def clearBit (opts bit : Nat) : Nat := opts ^^^ (opts &&& (1 <<< bit))

def setBit (opts bit : Nat) : Nat := opts ||| (1 <<< bit)

/-- option word after the constructor's set-up; `defaultOpts` = `create_default_context().options`, `bitOf` resolves the
    attribute name (`none` = AttributeError, suppressed) -/
def ctxAfter (bitOf : String → Option Nat) (defaultOpts : Nat) : List CtxStmt → Nat → Nat
  | [], o => o
  | .createDefault :: r, _ => ctxAfter bitOf defaultOpts r defaultOpts
  | .clearOption name :: r, o =>
    match bitOf name with
    | some b => ctxAfter bitOf defaultOpts r (clearBit o b)
    | none => ctxAfter bitOf defaultOpts r o
  | .setOption name :: r, o =>
    match bitOf name with
    | some b => ctxAfter bitOf defaultOpts r (setBit o b)
    | none => ctxAfter bitOf defaultOpts r o
  | _ :: r, o => ctxAfter bitOf defaultOpts r o

end EasyNet.TlsEof
