/-
  C10 — the receive loops stacked on top of a cancellable `recv` / `recv_into`, as program-counter machines whose
  suspension points are the `await`s of the mirrored Python functions.  A cancellation (task.cancel(), timeout scope,
  a request handler's yielded timeout) can only be delivered at a suspension point.
  Core Lean only.

  `Loop` mirrors the shape shared by
      lowlevel/api_async/endpoints/stream.py   _DataReceiverImpl.receive / _BufferedReceiverImpl.receive
      lowlevel/api_async/servers/stream.py     _RequestReceiver.next / _BufferedRequestReceiver.next  (+ its shielded yield)
      lowlevel/api_async/transports/tls.py     _IncomingDataReader.readinto
      lowlevel/api_sync/endpoints/stream.py    the blocking receivers (TimeoutError instead of CancelledError)
    : `x = await lower.recv…(…)`, then — with no await in between — `consumer.next(x)` / `read_bio.write(buffer[:x])`.
  `Tls` mirrors `AsyncTLSStreamTransport._retry_ssl_method(self._ssl_object.read, …)` (recv / recv_into): the SSL object
  is abstracted to "decrypts whatever is in the read BIO" (record boundaries and the cipher are irrelevant to where
  bytes can get lost); `TCfg.flushAfterRead` = the code before docs/C10-fix-2.patch, which awaited the send lock and
  `send_all` *after* the plaintext had been taken out of the SSL object.
-/
import EasyNet.Model.Bytes
namespace EasyNet.C10.RL

/-! ### the generic receive loop -/

inductive LPC where
  | idle
  | awaitLower                    -- `await transport.recv(bufsize)` / `await transport.recv_into(buffer)`
  | shieldedYield                 -- `await backend.cancel_shielded_coro_yield()` of the server receivers
  deriving DecidableEq, Repr

structure LSt where
  pc : LPC
  fed : Bytes                     -- bytes handed to the consumer / written to the read BIO
  taken : Bytes                   -- bytes the lower receive returned (to a call that was not cancelled)
  deriving DecidableEq, Repr

def LSt.init : LSt := { pc := .idle, fed := [], taken := [] }

inductive LEv where
  | call (buffered shield : Bool) -- start: `consumer.next(None)` finds a complete packet already buffered or not
  | lowerRet (d : Bytes) (complete : Bool)   -- the lower receive returned `d`; `consumer.next(d)` completes a packet or not
  | lowerRaise                    -- the lower receive raised (CancelledError, TimeoutError, OSError): it returned nothing
  | cancelAtYield                 -- cancellation delivered at the shielded yield: swallowed, re-delivered later
  | resumeYield
  deriving Repr

inductive LOut where
  | packet | parked | raised | ignored
  deriving DecidableEq, Repr

def lstep (s : LSt) : LEv → LSt × LOut
  | .call buffered shield =>
    (match s.pc with
     | .idle =>
       if buffered then (if shield then ({ s with pc := .shieldedYield }, .parked) else (s, .packet))
       else ({ s with pc := .awaitLower }, .parked)
     | _ => (s, .ignored))
  | .lowerRet d complete =>
    (match s.pc with
     | .awaitLower =>
       -- no suspension point between the return of the lower receive and the hand-over to the consumer
       if d = [] then ({ s with pc := .idle }, .raised)                       -- end-of-stream
       else if complete then ({ s with pc := .idle, fed := s.fed ++ d, taken := s.taken ++ d }, .packet)
       else ({ s with fed := s.fed ++ d, taken := s.taken ++ d }, .parked)    -- loop: await the lower receive again
     | _ => (s, .ignored))
  | .lowerRaise =>
    (match s.pc with
     | .awaitLower => ({ s with pc := .idle }, .raised)
     | _ => (s, .ignored))
  | .cancelAtYield =>
    (match s.pc with
     | .shieldedYield => ({ s with pc := .idle }, .packet)                    -- the request is returned all the same
     | _ => (s, .ignored))
  | .resumeYield =>
    (match s.pc with
     | .shieldedYield => ({ s with pc := .idle }, .packet)
     | _ => (s, .ignored))

def lrun : LSt → List LEv → LSt
  | s, [] => s
  | s, e :: es => lrun (lstep s e).1 es

/-! ### the TLS read loop -/

inductive TPC where
  | idle
  | wrLock | wrSend               -- SSLWantRead branch: `async with send_lock` / `await transport.send_all(write_bio.read())`
  | rdLock | rdInto               -- `async with recv_lock` / `await transport.recv_into(buffer)` (inside readinto)
  | okLock (r : Bytes) | okSend (r : Bytes)   -- success branch: the same two awaits, holding the plaintext `r`
  deriving DecidableEq, Repr

structure TCfg where
  flushAfterRead : Bool

/-- what the environment answers at the decision points of one synchronous stretch -/
structure TEnv where
  pending : Bool                  -- write_bio.pending
  sendLockFree : Bool
  recvLockFree : Bool
  deriving Repr

structure TSt where
  pc : TPC
  bio : Bytes                     -- ciphertext written to the read BIO and not yet consumed by the SSL object
  returned : Bytes                -- plaintext returned to callers of recv / recv_into
  taken : Bytes                   -- bytes the wrapped transport's recv_into returned
  deriving DecidableEq, Repr

def TSt.init : TSt := { pc := .idle, bio := [], returned := [], taken := [] }

inductive TEv where
  | call (env : TEnv)
  | resume (env : TEnv) (d : Bytes)   -- the awaited operation completed (`d`: what recv_into returned, at `rdInto`)
  | cancel                            -- CancelledError at the current await
  deriving Repr

inductive TOut where
  | ret (r : Bytes) | parked | cancelled | eof | ignored
  deriving DecidableEq, Repr

/-- `async with recv_lock: await readinto(read_bio)` -/
def rdPart (s : TSt) (env : TEnv) : TSt × TOut :=
  if env.recvLockFree then ({ s with pc := .rdInto }, .parked) else ({ s with pc := .rdLock }, .parked)

/-- one pass of the `while True:` of `_retry_ssl_method(ssl_object.read, …)` up to its first await -/
def attempt (c : TCfg) (s : TSt) (env : TEnv) : TSt × TOut :=
  if s.bio ≠ [] then
    -- `result = ssl_object.read(…)` succeeded: the plaintext is out of the SSL object
    (if c.flushAfterRead then
       (if env.sendLockFree then
          (if env.pending then ({ s with pc := .okSend s.bio, bio := [] }, .parked)
           else ({ s with pc := .idle, bio := [], returned := s.returned ++ s.bio }, .ret s.bio))
        else ({ s with pc := .okLock s.bio, bio := [] }, .parked))
     else ({ s with pc := .idle, bio := [], returned := s.returned ++ s.bio }, .ret s.bio))
  else
    -- SSLWantReadError: flush pending writes first, then read more ciphertext
    (if env.sendLockFree then
       (if env.pending then ({ s with pc := .wrSend }, .parked) else rdPart s env)
     else ({ s with pc := .wrLock }, .parked))

def tstep (c : TCfg) (s : TSt) : TEv → TSt × TOut
  | .call env =>
    (match s.pc with
     | .idle => attempt c s env
     | _ => (s, .ignored))
  | .resume env d =>
    (match s.pc with
     | .idle => (s, .ignored)
     | .wrLock => if env.pending then ({ s with pc := .wrSend }, .parked) else rdPart s env
     | .wrSend => rdPart s env
     | .rdLock => ({ s with pc := .rdInto }, .parked)
     | .rdInto =>
       if d = [] then ({ s with pc := .idle }, .eof)           -- read_bio.write_eof(): the SSL object reports EOF
       else attempt c { s with bio := s.bio ++ d, taken := s.taken ++ d } env   -- read_bio.write(buffer[:n]); loop
     | .okLock r =>
       if env.pending then ({ s with pc := .okSend r }, .parked)
       else ({ s with pc := .idle, returned := s.returned ++ r }, .ret r)
     | .okSend r => ({ s with pc := .idle, returned := s.returned ++ r }, .ret r))
  | .cancel =>
    (match s.pc with
     | .idle => (s, .ignored)
     | _ => ({ s with pc := .idle }, .cancelled))

def trun (c : TCfg) : TSt → List TEv → TSt
  | s, [] => s
  | s, e :: es => trun c (tstep c s e).1 es

end EasyNet.C10.RL
