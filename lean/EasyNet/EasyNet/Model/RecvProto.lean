/-
  C10 — model of `StreamReaderBufferedProtocol` (read side) and of the reader task that awaits it.
  Core Lean only (linked into `endriver`).

  Python mirrored (src/easynetwork/lowlevel/api_async/backend/_asyncio/stream/socket.py):
    get_buffer / buffer_updated            -> `ioStep`        (one `_read_ready` of the asyncio transport)
    eof_received                           -> `eofStep`
    connection_lost                        -> `lostStep`
    receive_data / receive_data_into       -> `runHead` (up to the first await), `resumeYield`, `wakeWaiter`,
    _wait_for_data                            `finishFromBuffer` (after the await)
    _maybe_pause_transport / _maybe_resume_transport -> `maybePause` / `maybeResume`
  CPython 3.12 asyncio mirrored (Lib/asyncio/tasks.py, futures.py):
    Task.cancel()                          -> `cancelStep`    (cancel the awaited future if it is pending, else `_must_cancel`)
    Task.__step / __wakeup                 -> `turnStep`      (a `_must_cancel` task gets CancelledError whatever the future holds)
    Future.set_result / set_exception / cancel only act on a pending future; callbacks run in a later loop turn.

  One reader task at a time (the endpoints' receive guard enforces it).  `Cfg.guard` / `Cfg.salvage` select the
  protocol variant:  guard = `get_buffer` hands the caller's buffer out only while the read waiter is pending;
  salvage = a cancelled wake-up moves a byte count already delivered through the caller's buffer to the front of
  the internal buffer (docs/C10-fix-1.patch).  `false false` is the code before that patch.
-/
import EasyNet.Model.Bytes
namespace EasyNet.C10.RP

/-- state of the `asyncio.Future` `__read_waiter` -/
inductive Fut where
  | pending
  | result (n : Option Nat)      -- set_result(None) / set_result(nbytes)
  | exc (e : Nat)                -- set_exception(OSError(errno))
  | cancelled
  deriving DecidableEq, Repr

/-- the receive call in progress -/
inductive Req where
  | recv (bufsize : Nat)         -- receive_data(bufsize)
  | into (cap : Nat)             -- receive_data_into(buffer), cap = buffer.nbytes
  deriving DecidableEq, Repr

/-- where the reader task is -/
inductive PC where
  | idle                         -- no reader task alive
  | created (r : Req)            -- task created, first `__step` scheduled
  | atYield (r : Req)            -- parked at `await TaskUtils.coro_yield()` (bare yield, a `__step` is scheduled)
  | atWaiter (r : Req)           -- parked at `await self.__read_waiter` (`_fut_waiter` = the read waiter)
  deriving DecidableEq, Repr

structure Cfg where
  maxSize : Nat
  guard : Bool
  salvage : Bool

structure St where
  buf : Bytes                    -- __buffer[:__buffer_nbytes_written]
  capacity : Nat                 -- __buffer_view.nbytes
  ext : Option Nat               -- __external_buffer_view (its size)
  extData : Bytes                -- what the transport wrote into the caller's buffer during this call
  waiter : Option Fut            -- __read_waiter
  eof : Bool                     -- __eof_reached
  lost : Bool                    -- __connection_lost
  lostExc : Option Nat           -- __connection_lost_exception (errno)
  readPaused : Bool              -- __read_paused
  pc : PC
  mustCancel : Bool              -- Task._must_cancel
  deriving Repr

def St.init (c : Cfg) : St :=
  { buf := [], capacity := c.maxSize, ext := none, extData := [], waiter := none, eof := false, lost := false,
    lostExc := none, readPaused := false, pc := .idle, mustCancel := false }

inductive Ev where
  | start (r : Req)
  | io (b : Bytes)
  | eof
  | lost (e : Option Nat)
  | cancel
  | turn
  deriving Repr

inductive Out where
  | started | busy
  | ioSkip | ioFull
  | io (n : Nat) (toExt : Bool) (data : Bytes)
  | eof | eofSkip | lost | cancel
  | idle | parked
  | ret (d : Bytes)
  | retInto (n : Nat) (d : Bytes)
  | cancelled
  | err (e : Nat)
  | errAssert
  deriving DecidableEq, Repr

/-- `_compute_read_buffer_limits` + `add_flowcontrol_defaults(None, None, max_size // 1024 * 3 // 4)` -/
def highWater (c : Cfg) : Nat := c.maxSize / 1024 * 3 / 4 * 1024
def lowWater (c : Cfg) : Nat := highWater c / 4

/-- `_maybe_pause_transport` (the transport is forgotten after connection_lost) -/
def maybePause (c : Cfg) (s : St) : St :=
  if s.buf.length ≥ highWater c ∧ ¬ s.readPaused ∧ ¬ s.lost then { s with readPaused := true } else s

/-- `_maybe_resume_transport` -/
def maybeResume (c : Cfg) (s : St) : St :=
  if s.readPaused ∧ ¬ s.lost ∧ s.buf.length ≤ lowWater c then { s with readPaused := false } else s

/-- `_wakeup_read_waiter(exc)`: only a pending future is completed -/
def wake (s : St) (e : Option Nat) : St :=
  if s.waiter = some .pending then
    { s with waiter := some (match e with | none => .result none | some x => .exc x) }
  else s

/-- write into the protocol's own buffer: `get_buffer` returned `__buffer_view[nbytes_written:]`, then `buffer_updated(n)` -/
def ioInternal (c : Cfg) (s : St) (b : Bytes) : St × Out :=
  if s.capacity - s.buf.length = 0 then (s, .ioFull) else
  (maybePause c (wake { s with buf := s.buf ++ b.take (s.capacity - s.buf.length) } none),
   .io (min b.length (s.capacity - s.buf.length)) false (b.take (s.capacity - s.buf.length)))

/-- write into the caller's buffer, then `buffer_updated(n)`: the view is dropped and the count goes to the waiter
    *if it is still pending* (`_read_waiter_fut`) -/
def ioExternal (s : St) (cap : Nat) (b : Bytes) : St × Out :=
  if cap = 0 then (s, .ioFull) else
  ({ s with ext := none, extData := b.take cap,
            waiter := if s.waiter = some .pending then some (.result (some (min b.length cap))) else s.waiter },
   .io (min b.length cap) true (b.take cap))

/-- one `_read_ready` of the transport with `b` available in the kernel -/
def ioStep (c : Cfg) (s : St) (b : Bytes) : St × Out :=
  if s.eof ∨ s.lost ∨ s.readPaused ∨ b = [] then (s, .ioSkip) else
  match s.ext with
  | some cap =>
    if c.guard ∧ s.waiter ≠ some .pending then ioInternal c { s with ext := none } b
    else ioExternal s cap b
  | none => ioInternal c s b

/-- `eof_received` -/
def eofStep (s : St) : St × Out :=
  if s.eof ∨ s.lost then (s, .eofSkip) else
  (wake { s with ext := none, eof := true } none, .eof)

/-- the exception `connection_lost` records: a clean close with unread data becomes ECONNRESET (104) -/
def lostExcOf (s : St) (e : Option Nat) : Option Nat :=
  if e = none ∧ s.buf ≠ [] then some 104 else e

/-- `connection_lost(exc)` -/
def lostStep (s : St) (e : Option Nat) : St × Out :=
  if s.lost then (s, .lost) else
  (wake { s with lost := true, readPaused := false, lostExc := lostExcOf s e,
                 eof := s.eof || (lostExcOf s e).isNone, buf := [] } (lostExcOf s e), .lost)

/-- `Task.cancel()` -/
def cancelStep (s : St) : St :=
  match s.pc with
  | .idle => s
  | .created _ => { s with mustCancel := true }
  | .atYield _ => { s with mustCancel := true }
  | .atWaiter _ =>
    if s.waiter = some .pending then { s with waiter := some .cancelled }   -- fut_waiter.cancel() succeeded
    else { s with mustCancel := true }

/-- the part of receive_data / receive_data_into after `_wait_for_data` returned None: serve from the internal buffer -/
def finishFromBuffer (c : Cfg) (s : St) (r : Req) : St × Out :=
  match r with
  | .recv k => (maybeResume c { s with buf := s.buf.drop k, pc := .idle }, .ret (s.buf.take k))
  | .into cap => (maybeResume c { s with buf := s.buf.drop cap, pc := .idle }, .retInto (min s.buf.length cap) (s.buf.take cap))

/-- `_check_for_connection_lost()` then serve from the buffer (the waiter has been reset by the `finally`) -/
def afterWait (c : Cfg) (s : St) (r : Req) : St × Out :=
  match s.lostExc with
  | some e => ({ s with pc := .idle }, .err e)
  | none => finishFromBuffer c s r

/-- first `__step` of a receive task that is not cancelled: runs up to the first await -/
def runHead (_c : Cfg) (s : St) (r : Req) : St × Out :=
  match s.lostExc with
  | some e => ({ s with pc := .idle }, .err e)                          -- _check_for_connection_lost()
  | none =>
    if r = .recv 0 then ({ s with pc := .idle }, .ret [])                -- bufsize == 0
    else if r = .into 0 then ({ s with pc := .idle }, .retInto 0 [])     -- empty buffer
    else if s.buf ≠ [] ∨ s.eof then
      ({ s with waiter := some (.result none), pc := .atYield r }, .parked)   -- set_result(None); await coro_yield()
    else if s.readPaused then ({ s with pc := .idle }, .errAssert)
    else if s.lost then ({ s with pc := .idle }, .err 103)              -- transport is None: ECONNABORTED
    else
      ({ s with waiter := some .pending, extData := [],
                ext := (match r with | .into cap => some cap | .recv _ => none),
                pc := .atWaiter r }, .parked)

/-- `__restore_data_from_external_buffer` (only with `Cfg.salvage`): `n` bytes already sit in the caller's buffer -/
def salvageData (c : Cfg) (s : St) (n : Nat) : St :=
  if n = 0 then s
  else if s.lost then
    (if s.lostExc = none then { s with lostExc := some 104, eof := false } else s)
  else
    maybePause c { s with buf := s.extData.take n ++ s.buf,
                          capacity := max s.capacity (n + s.buf.length) }

/-- the `except asyncio.CancelledError:` clause added around `await self.__read_waiter` -/
def salvaged (c : Cfg) (s : St) : St :=
  if c.salvage then
    match s.waiter with
    | some (.result (some n)) => salvageData c s n
    | _ => s
  else s

/-- CancelledError thrown at `await self.__read_waiter` -/
def cancelledWake (c : Cfg) (s : St) : St × Out :=
  ({ salvaged c s with ext := none, waiter := none, pc := .idle, mustCancel := false }, .cancelled)

/-- the task wakes up at `await self.__read_waiter` -/
def wakeWaiter (c : Cfg) (s : St) (r : Req) : St × Out :=
  match s.waiter with
  | none => (s, .parked)
  | some .pending => (s, .parked)                                       -- no wake-up is scheduled
  | some .cancelled => cancelledWake c s
  | some (.result v) =>
    if s.mustCancel then cancelledWake c s
    else match v with
      | some n => ({ s with ext := none, waiter := none, pc := .idle }, .retInto n (s.extData.take n))
      | none => afterWait c { s with ext := none, waiter := none } r
  | some (.exc e) =>
    if s.mustCancel then cancelledWake c s
    else ({ s with ext := none, waiter := none, pc := .idle }, .err e)

/-- one loop turn: the reader task's scheduled `__step` / `__wakeup`, if any -/
def turnStep (c : Cfg) (s : St) : St × Out :=
  match s.pc with
  | .idle => (s, .idle)
  | .created r =>
    if s.mustCancel then ({ s with pc := .idle, mustCancel := false }, .cancelled)
    else runHead c s r
  | .atYield r =>
    if s.mustCancel then ({ s with waiter := none, pc := .idle, mustCancel := false }, .cancelled)
    else afterWait c { s with waiter := none } r
  | .atWaiter r => wakeWaiter c s r

def step (c : Cfg) (s : St) : Ev → St × Out
  | .start r =>
    (match s.pc with
     | .idle => ({ s with pc := .created r, mustCancel := false }, .started)
     | _ => (s, .busy))
  | .io b => ioStep c s b
  | .eof => eofStep s
  | .lost e => lostStep s e
  | .cancel => (cancelStep s, .cancel)
  | .turn => turnStep c s

def run (c : Cfg) : St → List Ev → St × List Out
  | s, [] => (s, [])
  | s, e :: es => ((run c (step c s e).1 es).1, (step c s e).2 :: (run c (step c s e).1 es).2)

/-- bytes the transport handed over (to either buffer) -/
def arrivedOf : List Out → Bytes
  | [] => []
  | .io _ _ d :: os => d ++ arrivedOf os
  | _ :: os => arrivedOf os

/-- bytes returned to callers of receive_data / receive_data_into -/
def deliveredOf : List Out → Bytes
  | [] => []
  | .ret d :: os => d ++ deliveredOf os
  | .retInto _ d :: os => d ++ deliveredOf os
  | _ :: os => deliveredOf os

end EasyNet.C10.RP
