/-
  Datagram side (C05).

  Python correspondences
    oneShot            AbstractIncrementalPacketSerializer.deserialize (serializers/abc.py): the one-shot interface derived
                       from the incremental one ("Missing data" / "Extra data" rejection)
    oneShotSer         AbstractIncrementalPacketSerializer.serialize = b"".join(incremental_serialize(packet))
    dgRecv             DatagramReceiverEndpoint / DatagramEndpoint receive (sync and async): exactly one transport.recv()
                       per call, then protocol.build_packet_from_datagram — no state is carried from call to call
    DQ.step            asyncio DatagramEndpointProtocol (datagram_received / error_received / connection_lost) and
                       DatagramEndpoint.recvfrom (lowlevel/api_async/backend/_asyncio/datagram/endpoint.py): the receive
                       queue with its `None` wake-ups and the exception queue
-/
import EasyNet.Model.Framers
namespace EasyNet.C05
open EasyNet

/-- result of a one-shot deserialize at framing level -/
inductive OneShot where
  | ok (data : Bytes)        -- the frame, to be decoded by the payload codec
  | missing                  -- DeserializeError("Missing data to create packet")
  | extra                    -- DeserializeError("Extra data caught")
  | limit                    -- LimitOverrunError (an IncrementalDeserializeError, hence a DeserializeError)
  deriving Repr, DecidableEq

/-- `next(consumer); consumer.send(data)` then the missing/extra tests -/
def oneShot {σ} (init : σ) (feed : σ → Bytes → Res σ) (data : Bytes) : OneShot :=
  match feed init data with
  | .need _ => .missing
  | .done d r => if r.isEmpty then .ok d else .extra
  | .fail _ => .limit

/-- what one received datagram becomes: a packet (frame to decode) or exactly one parse error -/
def dgRecv {σ} (init : σ) (feed : σ → Bytes → Res σ) (datagrams : List Bytes) : List OneShot :=
  datagrams.map (oneShot init feed)

/-! ## the asyncio datagram endpoint queue -/

structure DQ where
  recvq : List (Option Bytes) := []     -- asyncio.Queue of (data, addr) | None
  excq : List Nat := []                 -- asyncio.Queue of exceptions (identified by a number)
  attached : Bool := true               -- protocol.__transport is not None
  closing : Bool := false               -- transport.is_closing()
  deriving Repr, DecidableEq

inductive DEv where
  | dgram (d : Bytes)           -- protocol.datagram_received(d, addr)
  | error (e : Nat)             -- protocol.error_received(exc)
  | lost (e : Option Nat)       -- protocol.connection_lost(exc)   (the transport is closing from then on)
  | close                       -- endpoint.close_nowait(): transport.close() requested
  | recv                        -- await endpoint.recvfrom()
  deriving Repr, DecidableEq

inductive DOut where
  | none                        -- (not a recvfrom call)
  | got (d : Bytes)
  | exc (e : Nat)               -- the queued exception is raised
  | aborted                     -- ConnectionAbortedError
  | wait                        -- the call suspends (queue empty, transport open); nothing is consumed
  deriving Repr, DecidableEq

/-- `__check_exceptions()` then ECONNABORTED -/
def DQ.wake (q : DQ) : DQ × DOut :=
  match q.excq with
  | e :: rest => ({ q with excq := rest }, .exc e)
  | [] => (q, .aborted)

def DQ.step (q : DQ) : DEv → DQ × DOut
  | .dgram d => (if q.attached then { q with recvq := q.recvq ++ [some d] } else q, .none)
  | .error e =>
    (if q.attached then { q with excq := q.excq ++ [e], recvq := q.recvq ++ [none] } else q, .none)
  | .lost e =>
    (if q.attached then
        { q with attached := false, closing := true, recvq := q.recvq ++ [none],
                 excq := match e with | some x => q.excq ++ [x] | none => q.excq }
      else { q with closing := true }, .none)
  | .close => ({ q with closing := true }, .none)
  | .recv =>
    match q.recvq with
    | some d :: rest => ({ q with recvq := rest }, .got d)
    | none :: rest => DQ.wake { q with recvq := rest }
    | [] => if q.closing then DQ.wake q else (q, .wait)

def DQ.run : DQ → List DEv → DQ × List DOut
  | q, [] => (q, [])
  | q, e :: es =>
    let r := q.step e
    let r' := DQ.run r.1 es
    (r'.1, r.2 :: r'.2)

/-- datagrams returned by recvfrom calls -/
def gots : List DOut → List Bytes
  | [] => []
  | .got d :: rest => d :: gots rest
  | _ :: rest => gots rest

/-- what this event adds to the datagrams accepted by the protocol -/
def accepts (q : DQ) : DEv → List Bytes
  | .dgram d => if q.attached then [d] else []
  | _ => []

def gotList : DOut → List Bytes
  | .got d => [d]
  | _ => []

/-- datagrams the protocol accepted (`datagram_received` while the transport is attached) -/
def accepted : DQ → List DEv → List Bytes
  | _, [] => []
  | q, e :: es => accepts q e ++ accepted (q.step e).1 es

def queued (q : DQ) : List Bytes := q.recvq.filterMap id

end EasyNet.C05
