/-
  Generic ("file-based" and "compressor") incremental framers.  Core Lean only (linked into `endriver`).

  Python correspondences (statement by statement; see docs/GENERICFR.md for the line-by-line map)
    GenericFr.gfeed        FileBasedPacketSerializer.__generic_incremental_deserialize (serializers/base_stream.py)
                           one `generator.send(chunk)`: BytesIO(chunk) / seek(0,2)+write(chunk)+seek(0),
                           __check_file_buffer_limit, load_from_file, EOFError -> yield again,
                           expected error -> IncrementalDeserializeError(remaining_data=buffer.read()),
                           else `return packet, buffer.read()`
    GenericFr.checkLimit   FileBasedPacketSerializer.__check_file_buffer_limit  (+ LimitOverrunError.__init__ with
                           consumed = nbytes and no separator: the remainder is empty)
    GenericFr.feed         _wrap_generic_incremental_deserialize ∘ __generic_incremental_deserialize   (copy path)
    GenericFr.bfeed        _wrap_generic_buffered_incremental_deserialize ∘ __generic_incremental_deserialize:
                           every `nbytes` received sends `buffer[:nbytes]`; the write position yielded is None (= 0)
    GenericFr.bufCap       FileBasedPacketSerializer.create_deserializer_buffer : min(sizehint, limit)
    GenericFr.produce      FileBasedPacketSerializer.incremental_serialize      : nothing when the dump is empty
    GenericFr.deserialize  FileBasedPacketSerializer.deserialize (one-shot)
    GenericFr.cgfeed       AbstractCompressorSerializer.__generic_incremental_deserialize (serializers/wrapper/compressor.py)
    GenericFr.cfeed/cbfeed the same two wrappers around it;  cbufCap = create_deserializer_buffer (sizehint, no limit)
    GenericFr.cproduce     AbstractCompressorSerializer.incremental_serialize   : compress(...) chunk, then flush() chunk
    GenericFr.cdeserialize AbstractCompressorSerializer.deserialize (one-shot)

  The file loader and the decompressor are *parameters*:
    load : Bytes → LoadRes      what `load_from_file(file)` does on a file holding exactly those bytes, position 0:
                                  eof          raises EOFError (possibly WITHOUT having read up to the end: PeekFile)
                                  ok consumed  returns a packet, file position = consumed
                                  bad consumed raises an expected error, file position = consumed
    dec  : Bytes → DecRes       what a fresh decompressor has become after being given those bytes (in any number of
                                `decompress()` calls):
                                  more               not at end-of-stream yet
                                  fin consumed ok    eof reached, `unused_data` = bytes after `consumed`;
                                                     ok = the wrapped serializer accepts the decompressed data
                                  corrupt            decompress() raised an expected error
-/
import EasyNet.Model.Consumer
namespace EasyNet

inductive LoadRes where
  | eof
  | ok (consumed : Nat)
  | bad (consumed : Nat)
  deriving Repr, DecidableEq

inductive DecRes where
  | more
  | fin (consumed : Nat) (innerOk : Bool)
  | corrupt
  deriving Repr, DecidableEq

namespace GenericFr

/-- result of one `generator.send(chunk)` of a generic incremental deserializer -/
inductive GRes (σ : Type) where
  | need (s : σ)                     -- yielded again
  | ok (frame rest : Bytes)          -- StopIteration((packet, rest)); `frame` = the bytes the packet was loaded from
  | bad (frame rest : Bytes)         -- IncrementalDeserializeError(remaining_data = rest)
  | limit (rest : Bytes)             -- LimitOverrunError(remaining_data = rest)
  deriving Repr

/-- The consumers only distinguish "finished with a remainder" (packet or parse error: the remainder is stored, the
    generator dropped) from a size error.  A finished frame is handed to the generic consumer models as
    `Res.done (tag :: frame) rest`, the first byte telling a packet (`okTag`) from a parse error (`badTag`). -/
def okTag : UInt8 := 1
def badTag : UInt8 := 0

def GRes.toRes {σ} : GRes σ → Res σ
  | .need s => .need s
  | .ok f r => .done (okTag :: f) r
  | .bad f r => .done (badTag :: f) r
  | .limit r => .fail r

/-- buffered path: `_wrap_generic_buffered_incremental_deserialize` yields `None`, i.e. write position 0 -/
def GRes.toBRes {σ} : GRes σ → BRes σ
  | .need s => .need s 0
  | .ok f r => .done (okTag :: f) r
  | .bad f r => .done (badTag :: f) r
  | .limit r => .fail r

/-! ### file-based -/

structure State where
  started : Bool      -- false: suspended at the `(yield)` of `with BytesIO((yield)) as buffer` (`initial` is still True)
  buf : Bytes         -- `buffer.getvalue()`
  deriving Repr, DecidableEq

def init : State := ⟨false, []⟩

/-- contents of `buffer` once the chunk just sent is in:
    `BytesIO(chunk)` the first time, `buffer.seek(0, 2); buffer.write(chunk); buffer.seek(0)` afterwards -/
def appended (s : State) (chunk : Bytes) : Bytes :=
  if s.started then s.buf ++ chunk else chunk

/-- `__check_file_buffer_limit`: `some rest` = LimitOverrunError raised with that remainder
    (`LimitOverrunError(msg, buffer_view, consumed=buffer_view.nbytes)`, no separator) -/
def checkLimit (limit : Nat) (buffer : Bytes) : Option Bytes :=
  if buffer.length > limit then some (limitRemainder buffer buffer.length []) else none

/-- the body of the `while True:` loop from the limit check on, for a buffer holding `buffer` -/
def attempt (load : Bytes → LoadRes) (limit : Nat) (buffer : Bytes) : GRes State :=
  match checkLimit limit buffer with
  | some rest => .limit rest
  | none =>
    match load buffer with
    | .eof => .need ⟨true, buffer⟩                                   -- except EOFError: pass ; initial = False
    | .bad k => .bad (buffer.take k) (buffer.drop k)                 -- remaining_data=buffer.read()
    | .ok k => .ok (buffer.take k) (buffer.drop k)                   -- return packet, buffer.read()

def gfeed (load : Bytes → LoadRes) (limit : Nat) (s : State) (chunk : Bytes) : GRes State :=
  attempt load limit (appended s chunk)

/-- copy path (`_wrap_generic_incremental_deserialize` only copies the remainder to `bytes`) -/
def feed (load : Bytes → LoadRes) (limit : Nat) (s : State) (chunk : Bytes) : Res State :=
  (gfeed load limit s chunk).toRes

/-- buffered path: `nbytes = yield; gen.send(buffer[:nbytes])` -/
def bfeed (load : Bytes → LoadRes) (limit : Nat) (s : State) (buffer : Bytes) (nbytes : Nat) : BRes State :=
  (gfeed load limit s (buffer.take nbytes)).toBRes

/-- `create_deserializer_buffer(sizehint)` -/
def bufCap (limit sizehint : Nat) : Nat := min sizehint limit

/-- `incremental_serialize`: the chunks yielded for a packet whose `dump_to_file` wrote `dump` -/
def produce (dump : Bytes) : List Bytes :=
  if dump.length = 0 then [] else [dump]

/-- `serialize` -/
def serialize (dump : Bytes) : Bytes := dump

inductive OneShot where
  | pkt            -- the packet is returned
  | missing        -- DeserializeError("Missing data to create packet")
  | invalid        -- DeserializeError(str(expected error)) / the wrapped serializer's DeserializeError
  | extra          -- DeserializeError("Extra data caught") / "Trailing data error"
  deriving Repr, DecidableEq

/-- one-shot `deserialize(data)` -/
def deserialize (load : Bytes → LoadRes) (data : Bytes) : OneShot :=
  match load data with
  | .eof => .missing
  | .bad _ => .invalid
  | .ok k => if (data.drop k).isEmpty then .pkt else .extra       -- `if extra := buffer.read()`

/-! ### compressor -/

structure CState where
  fed : Bytes         -- everything given to `decompressor.decompress` so far (the decompressor object is a function of it)
  deriving Repr, DecidableEq

def cinit : CState := ⟨[]⟩

/-- one `chunk = yield` round of `while not decompressor.eof:` and, once eof is reached, the tail of the function
    (`unused_data`, the wrapped serializer's `deserialize`).  There is no size check in this framer. -/
def cgfeed (dec : Bytes → DecRes) (s : CState) (chunk : Bytes) : GRes CState :=
  match dec (s.fed ++ chunk) with
  | .corrupt => .bad (s.fed ++ chunk) []                             -- IncrementalDeserializeError(msg, remaining_data=b"")
  | .more => .need ⟨s.fed ++ chunk⟩
  | .fin k true => .ok ((s.fed ++ chunk).take k) ((s.fed ++ chunk).drop k)       -- return packet, unused_data
  | .fin k false => .bad ((s.fed ++ chunk).take k) ((s.fed ++ chunk).drop k)     -- remaining_data=unused_data

def cfeed (dec : Bytes → DecRes) (s : CState) (chunk : Bytes) : Res CState :=
  (cgfeed dec s chunk).toRes

def cbfeed (dec : Bytes → DecRes) (s : CState) (buffer : Bytes) (nbytes : Nat) : BRes CState :=
  (cgfeed dec s (buffer.take nbytes)).toBRes

/-- `create_deserializer_buffer(sizehint)` -/
def cbufCap (sizehint : Nat) : Nat := sizehint

/-- `incremental_serialize`: `yield compressor.compress(data)` (possibly empty) then `yield compressor.flush()` -/
def cproduce (comp : Bytes → Bytes × Bytes) (data : Bytes) : List Bytes :=
  [(comp data).1, (comp data).2]

/-- `serialize` -/
def cserialize (comp : Bytes → Bytes × Bytes) (data : Bytes) : Bytes :=
  (comp data).1 ++ (comp data).2

/-- one-shot `deserialize(data)`: decompress error, then `not eof`, then `unused_data`, then the wrapped serializer -/
def cdeserialize (dec : Bytes → DecRes) (data : Bytes) : OneShot :=
  match dec data with
  | .corrupt => .invalid
  | .more => .missing
  | .fin k innerOk =>
    if (data.drop k).isEmpty then (if innerOk then .pkt else .invalid) else .extra

/-- the decompressor seen as a loader (`corrupt` = an error that leaves nothing behind) -/
def loadOf (dec : Bytes → DecRes) (b : Bytes) : LoadRes :=
  match dec b with
  | .more => .eof
  | .fin k true => .ok k
  | .fin k false => .bad k
  | .corrupt => .bad b.length

end GenericFr
end EasyNet
