/-
  C19 — connection racing (easynetwork/lowlevel/api_async/backend/_common/dns_resolver.py).
  Core Lean only (linked into `endriver`).

  Python correspondences
    prioritize            _prioritize_ipv6_over_ipv4
    addGroup / groups / roundRobin / interleave
                          _interleave_addrinfos  (OrderedDict grouping, itertools.zip_longest + chain)
    bindLoop / beginRes   BaseAsyncDNSResolver._create_connection_impl, from `socket(...)` down to the
                          `await self.connect_socket(...)` (one address)
    St / Label / step     BaseAsyncDNSResolver._staggered_race_connection_impl as a transition system:
                          the stagger loop (`spawn`), the first step of a `try_connect` task (`begin k`),
                          its resumption out of `connect_socket` (`res k r`), `task.cancel()` on the caller
                          (`cancel`), and the end of the coroutine (`fin f`).
    seqFrom / seqStep     _create_connection_impl over a whole address list (create_datagram_connection)

  Atomic steps are the pieces of code between two `await`s (asyncio is cooperative).  The scheduler is *any*
  order of enabled steps: the model over-approximates what an event loop can do (the stagger timer may fire
  at any moment when the delay is finite, a cancelled child may see its cancellation at any later step, …),
  so every invariant proved for all label lists holds for every real schedule.
  Children are numbered by their position in the (reordered) address list: child `k` is the `k`-th
  `task_group.start_soon(try_connect, …)`.
-/
namespace EasyNet.Race

/-! ## address reordering -/

/-- model family numbers: 6 = AF_INET6, 4 = AF_INET, anything else = some other family -/
def isV6 (f : Nat) : Bool := f == 6
def isV4 (f : Nat) : Bool := f == 4

/-- `reordered.insert(1, addr)` -/
def insert1 {α} (a : α) (l : List α) : List α := l.take 1 ++ a :: l.drop 1

/-- loop state of `_prioritize_ipv6_over_ipv4`: (v6_found, v4_found, reordered) -/
structure PState (α : Type) where
  v6 : Bool
  v4 : Bool
  acc : List α

def prioStep {α} (fam : α → Nat) (s : PState α) (a : α) : PState α :=
  if isV6 (fam a) ∧ ¬ s.v6 then ⟨true, s.v4, a :: s.acc⟩                   -- reordered.insert(0, addr)
  else if isV4 (fam a) ∧ ¬ s.v4 ∧ s.v6 then ⟨s.v6, true, insert1 a s.acc⟩  -- reordered.insert(1, addr)
  else ⟨s.v6, s.v4, s.acc ++ [a]⟩                                           -- reordered.append(addr)

def prioritize {α} (fam : α → Nat) (l : List α) : List α :=
  (l.foldl (prioStep fam) ⟨false, false, []⟩).acc

/-- `addrinfos_by_family[family].append(addr)` on an insertion-ordered dictionary -/
def addGroup {α} (fam : α → Nat) (a : α) : List (Nat × List α) → List (Nat × List α)
  | [] => [(fam a, [a])]
  | (f, g) :: rest => if f = fam a then (f, g ++ [a]) :: rest else (f, g) :: addGroup fam a rest

def groups {α} (fam : α → Nat) (l : List α) : List (Nat × List α) :=
  l.foldl (fun acc a => addGroup fam a acc) []

/-- `[x for x in chain.from_iterable(zip_longest(*lists)) if x is not None]` (fuel = longest list) -/
def roundRobin {α} : Nat → List (List α) → List α
  | 0, _ => []
  | fuel + 1, ls => ls.filterMap List.head? ++ roundRobin fuel (ls.map List.tail)

def maxLen {α} (ls : List (List α)) : Nat := ls.foldr (fun l m => max l.length m) 0

def interleave {α} (fam : α → Nat) (l : List α) : List α :=
  let gs := (groups fam l).map Prod.snd
  roundRobin (maxLen gs) gs

/-- `_interleave_addrinfos(_prioritize_ipv6_over_ipv4(remote_addrinfo))` -/
def reorder {α} (fam : α → Nat) (l : List α) : List α := interleave fam (prioritize fam l)

/-! ## one connection attempt up to `connect_socket` -/

inductive Outcome where
  | ok | err | crash | hang
  deriving DecidableEq, Repr

structure Addr where
  id : Nat             -- position in the resolver's list (only used to name the attempt in outputs)
  fam : Nat
  sockOk : Bool        -- does `socket(family, type, proto)` succeed
  out : Outcome        -- what `connect_socket` will eventually do (environment)
  deriving Repr

structure Loc where
  fam : Nat
  bindOk : Bool
  deriving Repr

structure Cfg where
  addrs : List Addr               -- after `ensure_resolved`, in resolver order
  locals : Option (List Loc)      -- `local_addrinfo`
  stagger : Bool                  -- `happy_eyeballs_delay` is finite
  deriving Repr

/-- the `for lfamily, …, local_sockaddr in local_addrinfo` loop: indices tried (with result), success? -/
def bindLoop (fam : Nat) : Nat → List Loc → List (Nat × Bool) × Bool
  | _, [] => ([], false)
  | j, l :: rest =>
    if l.fam ≠ fam then bindLoop fam (j + 1) rest               -- skip local addresses of different family
    else if l.bindOk then ([(j, true)], true)                   -- break
    else
      let r := bindLoop fam (j + 1) rest
      ((j, false) :: r.1, r.2)

inductive BeginRes where
  | noSocket                    -- socket() raised OSError: one error
  | bindFailed (n : Nat)        -- all n bind attempts failed: socket closed, n errors
  | noLocal                     -- no local address of that family: OSError raised, caught below: closed, one error
  | connecting                  -- `await self.connect_socket(socket, remote_sockaddr)` reached
  deriving DecidableEq, Repr

def beginRes (locals : Option (List Loc)) (a : Addr) : BeginRes :=
  if ¬ a.sockOk then .noSocket
  else match locals with
    | none => .connecting
    | some ls =>
      let r := bindLoop a.fam 0 ls
      if r.2 then .connecting
      else if r.1.isEmpty then .noLocal
      else .bindFailed r.1.length

def BeginRes.errors : BeginRes → Nat
  | .noSocket => 1
  | .bindFailed n => n
  | .noLocal => 1
  | .connecting => 0

/-! ## the race -/

inductive Pc where
  | unspawned | spawned | connecting | done
  deriving DecidableEq, Repr

inductive Sock where
  | none | opened | closed
  deriving DecidableEq, Repr

structure Child where
  pc : Pc
  sock : Sock
  deriving Repr

inductive RaiseKind where
  | allfailed (n : Nat) | cancelled | crash
  deriving DecidableEq, Repr

inductive Fin where
  | ret (k : Nat)
  | raised (r : RaiseKind)
  deriving DecidableEq, Repr

structure St where
  next : Nat                 -- number of `start_soon` calls made by the stagger loop
  ch : Nat → Child
  winner : Option Nat        -- `winner`
  ext : Bool                 -- `task.cancel()` was called on the task running the race
  crashed : Bool             -- some try_connect task ended with a non-OSError exception (task group aborts)
  aborted : Bool             -- some try_connect task has been cancelled (the task group is aborting)
  errors : Nat               -- `len(errors)`
  fin : Option Fin

def St.init : St := ⟨0, fun _ => ⟨.unspawned, .none⟩, none, false, false, false, 0, none⟩

def St.setCh (s : St) (k : Nat) (c : Child) : St :=
  { s with ch := fun j => if j = k then c else s.ch j }

inductive Res where
  | ok | err | crash | cancelled
  deriving DecidableEq, Repr

inductive FinL where
  | ret | allfailed | cancelled | crash
  deriving DecidableEq, Repr

inductive Label where
  | spawn
  | begin (k : Nat)
  | res (k : Nat) (r : Res)
  | cancel
  | fin (f : FinL)
  deriving DecidableEq, Repr

/-- the addresses in the order the stagger loop walks them -/
def Cfg.ordered (cfg : Cfg) : List Addr := reorder Addr.fam cfg.addrs

def Cfg.n (cfg : Cfg) : Nat := cfg.ordered.length

def Cfg.addr (cfg : Cfg) (k : Nat) : Addr := cfg.ordered.getD k ⟨0, 0, false, .hang⟩

/-- the task group has a reason to cancel the children: the caller's scope was cancelled by the winner,
    the caller itself was cancelled, or a child crashed -/
def St.abortable (s : St) : Bool := s.winner.isSome || s.ext || s.crashed

/-- every started child has finished (a child cancelled before its first step never runs) -/
def St.quiet (s : St) (n : Nat) : Bool :=
  (List.range n).all fun k =>
    (s.ch k).pc == .done || (s.ch k).pc == .unspawned || ((s.ch k).pc == .spawned && s.abortable)

def St.allDone (s : St) (n : Nat) : Bool :=
  (List.range n).all fun k => (s.ch k).pc == .done

def Res.matches (r : Res) (o : Outcome) : Bool :=
  match r, o with
  | .ok, .ok => true
  | .err, .err => true
  | .crash, .crash => true
  | _, _ => false

def step (cfg : Cfg) (s : St) : Label → Option St
  | .spawn =>
    -- `task_group.start_soon(try_connect, addr, done)`; reached at loop entry, after `done.wait()` returned,
    -- or after `move_on_after(delay)` expired (finite delay only)
    if s.fin.isNone ∧ s.next < cfg.n ∧ (cfg.stagger ∨ s.next = 0 ∨ (s.ch (s.next - 1)).pc = .done) then
      some { s.setCh s.next ⟨.spawned, .none⟩ with next := s.next + 1 }
    else none
  | .begin k =>
    -- first step of try_connect: `_create_connection_impl([addr])` down to `await connect_socket(...)`
    if s.fin.isNone ∧ (s.ch k).pc = .spawned then
      match beginRes cfg.locals (cfg.addr k) with
      | .connecting => some (s.setCh k ⟨.connecting, .opened⟩)
      | .noSocket => some { s.setCh k ⟨.done, .none⟩ with errors := s.errors + 1 }
      | r => some { s.setCh k ⟨.done, .closed⟩ with errors := s.errors + r.errors }
    else none
  | .res k r =>
    if s.fin.isNone ∧ (s.ch k).pc = .connecting then
      match r with
      | .ok =>
        if r.matches (cfg.addr k).out then
          match s.winner with
          | none => some { s.setCh k ⟨.done, .opened⟩ with winner := some k }   -- winner = socket; scope.cancel()
          | some _ => some (s.setCh k ⟨.done, .closed⟩)                          -- socket.close()
        else none
      | .err =>
        if r.matches (cfg.addr k).out then
          some { s.setCh k ⟨.done, .closed⟩ with errors := s.errors + 1 }        -- except OSError: socket.close()
        else none
      | .crash =>
        if r.matches (cfg.addr k).out then
          some { s.setCh k ⟨.done, .closed⟩ with crashed := true }               -- except BaseException: socket.close(); raise
        else none
      | .cancelled =>
        if s.abortable then some { s.setCh k ⟨.done, .closed⟩ with aborted := true }   -- except BaseException: socket.close(); raise
        else none
    else none
  | .cancel =>
    if s.fin.isNone then some { s with ext := true } else none
  | .fin f =>
    if s.fin.isNone ∧ s.quiet cfg.n then
      match f with
      | .ret =>
        match s.winner with
        | some w => if ¬ s.crashed then some { s with fin := some (.ret w) } else none   -- return winner
        | none => none
      | .allfailed =>
        -- `if winner is None: raise BaseExceptionGroup("create_connection() failed", errors)`
        -- (reached only when the task group was left normally: no child was ever cancelled)
        if s.winner.isNone ∧ ¬ s.crashed ∧ ¬ s.aborted ∧ s.next = cfg.n ∧ s.allDone cfg.n then
          some { s with fin := some (.raised (.allfailed s.errors)) }
        else none
      | .cancelled =>
        if s.ext ∧ ¬ s.crashed then
          match s.winner with
          | some w => some { s.setCh w ⟨.done, .closed⟩ with fin := some (.raised .cancelled) }  -- winner.close(); raise
          | none => some { s with fin := some (.raised .cancelled) }
        else none
      | .crash =>
        if s.crashed then
          match s.winner with
          | some w => some { s.setCh w ⟨.done, .closed⟩ with fin := some (.raised .crash) }
          | none => some { s with fin := some (.raised .crash) }
        else none
    else none

def run (cfg : Cfg) : St → List Label → Option St
  | s, [] => some s
  | s, l :: ls => match step cfg s l with
    | some s' => run cfg s' ls
    | none => none

/-- a state of the race that some schedule reaches -/
def Reachable (cfg : Cfg) (s : St) : Prop := ∃ ls, run cfg St.init ls = some s

/-! ## `_create_connection_impl` over a whole list (create_datagram_connection): sequential attempts -/

structure SeqSt where
  started : Bool               -- the coroutine has run its first step
  pos : Nat                    -- index of the address being tried (= number of addresses given up)
  sock : Nat → Sock
  cur : Option Nat             -- attempt suspended in `connect_socket`
  errors : Nat
  ext : Bool
  fin : Option Fin

def SeqSt.setSock (s : SeqSt) (k : Nat) (x : Sock) : SeqSt :=
  { s with sock := fun j => if j = k then x else s.sock j }

/-- the `for … in remote_addrinfo` loop from address `k` on, until an attempt reaches `connect_socket`
    or the list is exhausted (`raise ExceptionGroup("create_connection() failed", errors)`) -/
def seqFrom (locals : Option (List Loc)) : List Addr → Nat → SeqSt → SeqSt
  | [], k, s => { s with pos := k, cur := none, fin := some (.raised (.allfailed s.errors)) }
  | a :: rest, k, s =>
    match beginRes locals a with
    | .connecting => { s.setSock k .opened with pos := k, cur := some k }
    | .noSocket => seqFrom locals rest (k + 1) { s with errors := s.errors + 1 }
    | r => seqFrom locals rest (k + 1) { s.setSock k .closed with errors := s.errors + r.errors }

def SeqSt.init : SeqSt := ⟨false, 0, fun _ => .none, none, 0, false, none⟩

inductive SeqLabel where
  | start                      -- first step of the coroutine
  | abort                      -- the task was cancelled before its first step: the coroutine never runs
  | res (r : Res)
  | cancel
  deriving DecidableEq, Repr

def seqStep (cfg : Cfg) (s : SeqSt) : SeqLabel → Option SeqSt
  | .cancel => if s.fin.isNone then some { s with ext := true } else none
  | .start =>
    if ¬ s.started ∧ s.fin.isNone then some (seqFrom cfg.locals cfg.addrs 0 { s with started := true }) else none
  | .abort =>
    if ¬ s.started ∧ s.fin.isNone ∧ s.ext then some { s with started := true, fin := some (.raised .cancelled) } else none
  | .res r =>
    match s.fin, s.cur with
    | none, some k =>
      match r with
      | .ok =>
        if r.matches (cfg.addrs.getD k ⟨0, 0, false, .hang⟩).out then
          some { s with cur := none, fin := some (.ret k) }                     -- errors.clear(); return socket
        else none
      | .err =>
        if r.matches (cfg.addrs.getD k ⟨0, 0, false, .hang⟩).out then
          -- except OSError: socket.close(); errors.append(exc); continue
          some (seqFrom cfg.locals (cfg.addrs.drop (k + 1)) (k + 1)
                  { s.setSock k .closed with errors := s.errors + 1, cur := none })
        else none
      | .crash =>
        if r.matches (cfg.addrs.getD k ⟨0, 0, false, .hang⟩).out then
          some { s.setSock k .closed with cur := none, fin := some (.raised .crash) }
        else none
      | .cancelled =>
        if s.ext then some { s.setSock k .closed with cur := none, fin := some (.raised .cancelled) }
        else none
    | _, _ => none

def seqRun (cfg : Cfg) : SeqSt → List SeqLabel → Option SeqSt
  | s, [] => some s
  | s, l :: ls => match seqStep cfg s l with
    | some s' => seqRun cfg s' ls
    | none => none

end EasyNet.Race
