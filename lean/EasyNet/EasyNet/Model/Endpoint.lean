/-
  Stream endpoint receive side (C03): `recv_packet` call sequences over a scripted transport.

  Python correspondences
    EP.loop / EP.receive    _DataReceiverImpl.receive / _BufferedReceiverImpl.receive of
                            lowlevel/api_sync/endpoints/stream.py (with its timeout / zero-timeout branches) and of
                            lowlevel/api_async/endpoints/stream.py (no timeout parameter: `zero = false`, a pending
                            read that is cancelled by a timeout scope is the event `.block`)
    clientOut               TCPNetworkClient.__convert_socket_error / AsyncTCPNetworkClient.__convert_socket_error
                            (every ConnectionError is reported as ConnectionAbortedError)
    iterate                 ClientRecvIterator.__next__ / AsyncClientRecvIterator.__anext__ (stop at the first OSError)

  The consumer is the interface `C15.Iface` (copying or buffer-filling consumer over any framer).
  The transport is a script: each `transport.recv(bufsize)` / `recv_into(buffer)` call consumes one event.
-/
import EasyNet.Model.StreamServer
namespace EasyNet.C03
open EasyNet EasyNet.C15

/-- what the transport answers to one read -/
inductive TEv where
  | data (b : Bytes)     -- bytes available (the read returns at most the requested size; the rest stays queued)
  | eof                  -- b"" / 0
  | block                -- nothing within the remaining time: TimeoutError (sync) / cancelled by the timeout scope (async)
  | reset                -- ConnectionResetError / BrokenPipeError
  | oserr                -- another OSError
  deriving Repr, DecidableEq

/-- how one `recv_packet` call ends -/
inductive ROut where
  | item (it : Item)     -- a packet, or StreamProtocolParseError for a size error (`Item.limit`)
  | timeout              -- TimeoutError
  | eos                  -- ConnectionAbortedError (end-of-stream)
  | connErr              -- ConnectionError from the transport
  | osErr                -- other OSError
  | stuck                -- script used up (the peer is silent for ever): the call would block
  deriving Repr, DecidableEq

structure EP (κ : Type) where
  k : κ
  eofReached : Bool := false       -- `_eof_reached`
  script : List TEv
  reads : List Bytes := []         -- every non-empty read handed to the consumer so far
  nreads : Nat := 0                -- number of transport read calls issued so far

/-- the `while not self._eof_reached:` loop. `zero` = the call's timeout is 0 (sync endpoints only). -/
def EP.loop {κ} (I : Iface κ) (zero : Bool) : Nat → EP κ → EP κ × ROut
  | 0, s => (s, .stuck)
  | fuel + 1, s =>
    match s.script with
    | [] => ({ s with k := (I.want s.k).1 }, .stuck)
    | ev :: rest =>
      match ev with
      | .block => ({ s with k := (I.want s.k).1, script := rest, nreads := s.nreads + 1 }, .timeout)
      | .reset => ({ s with k := (I.want s.k).1, script := rest, nreads := s.nreads + 1 }, .connErr)
      | .oserr => ({ s with k := (I.want s.k).1, script := rest, nreads := s.nreads + 1 }, .osErr)
      | .eof => ({ s with k := (I.want s.k).1, script := rest, nreads := s.nreads + 1, eofReached := true }, .eos)
      | .data b =>
        if (b.take (I.want s.k).2).isEmpty then
          -- an empty read is the end of the stream
          ({ s with k := (I.want s.k).1, script := rest, nreads := s.nreads + 1, eofReached := true }, .eos)
        else
          match I.feed (I.want s.k).1 (b.take (I.want s.k).2) with
          | (k2, some it) =>
            ({ s with k := k2, nreads := s.nreads + 1, reads := s.reads ++ [b.take (I.want s.k).2],
                      script := if (b.drop (I.want s.k).2).isEmpty then rest else .data (b.drop (I.want s.k).2) :: rest },
             .item it)
          | (k2, none) =>
            if zero ∧ (b.take (I.want s.k).2).length < (I.want s.k).2 then
              -- `elif len(chunk) < bufsize: break`  ->  TimeoutError
              ({ s with k := k2, nreads := s.nreads + 1, reads := s.reads ++ [b.take (I.want s.k).2],
                        script := if (b.drop (I.want s.k).2).isEmpty then rest else .data (b.drop (I.want s.k).2) :: rest },
               .timeout)
            else
              EP.loop I zero fuel
                { s with k := k2, nreads := s.nreads + 1, reads := s.reads ++ [b.take (I.want s.k).2],
                         script := if (b.drop (I.want s.k).2).isEmpty then rest else .data (b.drop (I.want s.k).2) :: rest }

def scriptFuel (sc : List TEv) : Nat :=
  (sc.map (fun e => match e with | .data b => b.length + 1 | _ => 1)).sum + 1

/-- `receiver.receive(timeout)` -/
def EP.receive {κ} (I : Iface κ) (s : EP κ) (zero : Bool) : EP κ × ROut :=
  match I.drainNext s.k with
  | (k', some it) => ({ s with k := k' }, .item it)
  | (k', none) =>
    if s.eofReached then ({ s with k := k' }, .eos)
    else EP.loop I zero (scriptFuel s.script) { s with k := k' }

/-- a history of `recv_packet` calls (one `zero` flag per call) -/
def EP.calls {κ} (I : Iface κ) : EP κ → List Bool → EP κ × List ROut
  | s, [] => (s, [])
  | s, z :: zs =>
    let r := EP.receive I s z
    let r' := EP.calls I r.1 zs
    (r'.1, r.2 :: r'.2)

/-- TCP clients report every connection error of the transport as ConnectionAbortedError -/
def clientOut : ROut → ROut
  | .connErr => .eos
  | o => o

/-- `for packet in client.iter_received_packets()`: stops at the first OSError (timeout, end of stream, …) -/
def iterate {κ} (I : Iface κ) (client : Bool) : Nat → EP κ → Bool → EP κ × List Item
  | 0, s, _ => (s, [])
  | fuel + 1, s, zero =>
    match EP.receive I s zero with
    | (s', .item it) => let r := iterate I client fuel s' zero; (r.1, it :: r.2)
    | (s', _) => (s', [])

def items : List ROut → List Item
  | [] => []
  | .item it :: rest => it :: items rest
  | _ :: rest => items rest

end EasyNet.C03
