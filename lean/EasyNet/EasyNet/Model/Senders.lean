/-
  C12 — concurrent senders on one client.  Core Lean only (linked into `endriver`).

  Python correspondences
    FairLock.*            easynetwork/lowlevel/api_async/backend/_common/fair_lock.py  (class FairLock)
                          acquire() is split at its only await:
                            acquireCall    the part before  `await waiter.wait()`   (fast path or enqueue)
                            acquireResume  wait() returned:  `self._waiters.remove(waiter)` ; `self._locked = True`
                            acquireCancel  wait() raised:    remove ; `if not self._locked: self._wake_up_first()` ; raise
                          release, wakeUpFirst = release(), _wake_up_first()
    guardEnter/guardExit  easynetwork/lowlevel/_utils.py  ResourceGuard.__enter__/__exit__
    step                  one atomic piece (between two awaits) of
                            AsyncTCPNetworkClient.send_packet         clients/async_tcp.py   `async with self.__send_lock: … endpoint.send_packet`
                            _ConnectedClientAPI.send_packet           servers/async_tcp.py   same shape
                            AsyncStreamEndpoint.send_packet           lowlevel/api_async/endpoints/stream.py   `with self.__send_guard: await sender.send(packet)`
                            ConnectedStreamClient.send_packet         lowlevel/api_async/servers/stream.py     same shape
                          over a transport whose send_all_from_iterable writes an arbitrary non-specified number of bytes and
                          suspends, again and again (events `write t n`).
                          `useLock = false` is the bare endpoint (no lock above the guard).
                          The thread-safe blocking clients (clients/tcp.py, clients/udp.py) are the instance in which
                          the lock is a mutex: same machine, `resume` = the OS hands the mutex over.

  Ghost (history) variables, not present in the code: `order`, `res`, `next`, `ticket`, `granted`.
-/
import EasyNet.Model.Bytes
namespace EasyNet.C12
open EasyNet

abbrev Tid := Nat

/-! ## FairLock -/

/-- `_locked`, `_waiters` (deque of events; an entry is (task that created the event, event.is_set())) -/
structure FairLock where
  locked : Bool
  waiters : List (Tid × Bool)
  deriving Repr, DecidableEq

def FairLock.new : FairLock := ⟨false, []⟩

/-- `_wake_up_first`: `if not self._waiters: return` ; `self._waiters[0].set()` -/
def FairLock.wakeUpFirst (l : FairLock) : FairLock :=
  match l.waiters with
  | [] => l
  | w :: ws => { l with waiters := (w.1, true) :: ws }

/-- `acquire()` up to the await.  Result `true`: fast path, the lock is taken (`self._locked = True`).
    `false`: `if self._locked or self._waiters:` a fresh event was appended and the task now waits on it. -/
def FairLock.acquireCall (l : FairLock) (t : Tid) : FairLock × Bool :=
  if l.locked || !l.waiters.isEmpty then ({ l with waiters := l.waiters ++ [(t, false)] }, false)
  else ({ l with locked := true }, true)

/-- `deque.remove(waiter)`: first occurrence -/
def removeWaiter (t : Tid) : List (Tid × Bool) → List (Tid × Bool)
  | [] => []
  | w :: ws => if w.1 = t then ws else w :: removeWaiter t ws

/-- is the event task `t` waits on set? (the loop may resume `t` only then) -/
def FairLock.isSet (l : FairLock) (t : Tid) : Bool :=
  l.waiters.any (fun w => w.1 == t && w.2)

/-- `acquire()` after `await waiter.wait()` returned: `finally: self._waiters.remove(waiter)` ; `self._locked = True` -/
def FairLock.acquireResume (l : FairLock) (t : Tid) : FairLock :=
  { locked := true, waiters := removeWaiter t l.waiters }

/-- `acquire()` when `await waiter.wait()` raised (cancellation):
    `finally: remove` ; `except BaseException: if not self._locked: self._wake_up_first()` ; `raise` -/
def FairLock.acquireCancel (l : FairLock) (t : Tid) : FairLock :=
  if l.locked then { l with waiters := removeWaiter t l.waiters }
  else FairLock.wakeUpFirst { l with waiters := removeWaiter t l.waiters }

/-- `release()`; `false` = `RuntimeError("Lock not acquired")` -/
def FairLock.release (l : FairLock) : FairLock × Bool :=
  if l.locked then (FairLock.wakeUpFirst { l with locked := false }, true) else (l, false)

/-! ## senders -/

/-- where a sender task is suspended -/
inductive PC where
  | idle                      -- not inside send_packet
  | waiting                   -- parked in `FairLock.acquire` (`await waiter.wait()`)
  | holding                   -- owns the lock, has not entered the endpoint yet (`await self.__ensure_connected()`)
  | sending (rest : Bytes)    -- inside `transport.send_all_from_iterable`, `rest` not yet written
  deriving Repr, DecidableEq

/-- how a `send_packet` call ended -/
inductive Outcome where
  | ok                -- returned normally: the packet was written
  | busy              -- BusyResourceError from the ResourceGuard, nothing written
  | cancelled         -- cancelled while parked in the lock, nothing written
  | released          -- left the lock block without sending (`rel`)
  | lockError         -- `release()` raised RuntimeError, nothing written
  | sentLockError     -- the packet was written, then `release()` raised RuntimeError
  deriving Repr, DecidableEq

/-- did this call put its packet on the wire? -/
def Outcome.written : Outcome → Bool
  | .ok => true
  | .sentLockError => true
  | _ => false

structure Cfg where
  useLock : Bool                 -- client objects: true;  bare endpoint: false
  packets : Tid → List Bytes     -- what each sender sends (bytes produced by the serializer for each packet)

def Cfg.pkt (cfg : Cfg) (t i : Nat) : Bytes := (cfg.packets t).getD i []

def upd {α : Type} (f : Tid → α) (t : Tid) (v : α) : Tid → α := fun u => if u = t then v else f u

structure Sys where
  lock : FairLock
  guard : Bool                   -- ResourceGuard.__held
  wire : Bytes                   -- everything the transport has written so far
  pc : Tid → PC
  idx : Tid → Nat                -- number of finished send_packet calls of each sender = index of its current packet
  -- ghost
  res : Tid → List Outcome       -- outcomes of the finished calls
  order : List (Tid × Nat)       -- successful sends in completion order
  next : Nat                     -- number of lock.acquire() calls so far
  ticket : Tid → Nat             -- arrival number of the sender's current acquire() call
  granted : List Nat             -- arrival numbers in the order the lock was granted

def Sys.init : Sys :=
  { lock := FairLock.new, guard := false, wire := [], pc := fun _ => .idle, idx := fun _ => 0,
    res := fun _ => [], order := [], next := 0, ticket := fun _ => 0, granted := [] }

/-- the `send_packet` call of `t` returns or raises -/
def Sys.complete (s : Sys) (t : Tid) (o : Outcome) : Sys :=
  { s with pc := upd s.pc t .idle, idx := upd s.idx t (s.idx t + 1), res := upd s.res t (s.res t ++ [o]) }

/-- leaving `async with lock:` -/
def Sys.unlock (cfg : Cfg) (s : Sys) : Sys × Bool :=
  if cfg.useLock then ({ s with lock := s.lock.release.1 }, s.lock.release.2) else (s, true)

/-- the lock has just been granted to `t` -/
def Sys.grant (s : Sys) (t : Tid) : Sys :=
  { s with pc := upd s.pc t .holding, granted := s.granted ++ [s.ticket t] }

/-- `endpoint.send_packet(packet)` up to the first suspension inside the transport:
    `with self.__send_guard:` raises BusyResourceError if held, else the transport call starts -/
def Sys.enter (cfg : Cfg) (s : Sys) (t : Tid) : Sys :=
  if s.guard then (s.unlock cfg).1.complete t (if (s.unlock cfg).2 then .busy else .lockError)
  else { s with guard := true, pc := upd s.pc t (.sending (cfg.pkt t (s.idx t))) }

inductive Ev where
  | send (t : Tid)            -- task t calls send_packet
  | resume (t : Tid)          -- the loop resumes t, whose lock event is set
  | cancel (t : Tid)          -- t is cancelled while parked in acquire()
  | xmit (t : Tid)            -- t (lock owner) enters endpoint.send_packet
  | write (t : Tid) (n : Nat) -- the transport writes n more bytes for t, then suspends t again
  | ret (t : Tid)             -- everything written; the transport call returns
  | rel (t : Tid)             -- t leaves the `async with lock` block without sending
  deriving Repr, DecidableEq

/-- one atomic step; `none` = the event cannot happen in this state -/
def step (cfg : Cfg) (s : Sys) : Ev → Option Sys
  | .send t =>
    if s.pc t = .idle then
      (if cfg.useLock then
        (if (s.lock.acquireCall t).2 then
          some (Sys.grant { s with lock := (s.lock.acquireCall t).1, next := s.next + 1, ticket := upd s.ticket t s.next } t)
        else
          some { s with lock := (s.lock.acquireCall t).1, next := s.next + 1, ticket := upd s.ticket t s.next,
                        pc := upd s.pc t .waiting })
      else some (s.enter cfg t))
    else none
  | .resume t =>
    if s.pc t = .waiting ∧ s.lock.isSet t = true then
      some (Sys.grant { s with lock := s.lock.acquireResume t } t)
    else none
  | .cancel t =>
    if s.pc t = .waiting then
      some (Sys.complete { s with lock := s.lock.acquireCancel t } t .cancelled)
    else none
  | .xmit t =>
    if s.pc t = .holding then some (s.enter cfg t) else none
  | .write t n =>
    match s.pc t with
    | .sending rest => some { s with wire := s.wire ++ rest.take n, pc := upd s.pc t (.sending (rest.drop n)) }
    | _ => none
  | .ret t =>
    if s.pc t = .sending [] then
      some (Sys.complete { (Sys.unlock cfg { s with guard := false }).1 with order := s.order ++ [(t, s.idx t)] } t
              (if (Sys.unlock cfg { s with guard := false }).2 then .ok else .sentLockError))
    else none
  | .rel t =>
    if s.pc t = .holding then
      some ((s.unlock cfg).1.complete t (if (s.unlock cfg).2 then .released else .lockError))
    else none

/-- a schedule: `none` as soon as an event is impossible -/
def run (cfg : Cfg) : Sys → List Ev → Option Sys
  | s, [] => some s
  | s, e :: es => match step cfg s e with
    | some s' => run cfg s' es
    | none => none

end EasyNet.C12
