/-
  C17 — one client's failure never affects the others.  Core Lean only (linked into `endriver`).

  Part 1: Python exception trees and the `try / except / except*` filters a per-client exception crosses before it can
          reach the server's task group.  Generic in the class type `κ`; the concrete classes, the live subclass relation,
          every filter (read from the AST) and the nesting map are generated into Gen/IsoTables.lean on every run.

    Tree                    an exception object: `leaf c` = an instance of class c, `group cs` = a
                            `BaseExceptionGroup` whose `.exceptions` are cs (CPython picks `ExceptionGroup` when every
                            member is an `Exception`, see `clsOf`)
    split                   `BaseExceptionGroup.split(cond)` (PEP 654): the group itself is tested first, then the
                            members recursively; empty halves are `None`; nesting is preserved
    Layer (plain)           `try: … except A: … except B: …`  — the first clause one of whose classes is a superclass of the
                            *object's own class* handles it (a group is matched by `ExceptionGroup` / `BaseExceptionGroup`)
    Layer (star)            `try: … except* A: … except* B: …` — a naked exception is matched like a one-member group;
                            a group is split clause after clause; what no clause took is re-raised
    Act                     what the handler body does: `swallow` (ends normally), `reraise` (bare `raise`),
                            `swallowIf c` (`if not isinstance(exc, c): raise`)
    runLayers               composition, innermost first (a filter = the layers around one `yield` / call; a position's
                            chain = the concatenation of the filters that enclose it)

  Part 2: the TCP per-client epilogue (servers/misc.py `build_lowlevel_stream_server_handler.handler`,
          servers/async_tcp.py `__client_initializer`, lowlevel/api_async/servers/stream.py `__client_coroutine`):
          the exit-stack callbacks pushed so far are unwound LIFO whatever happened.

  Part 3: the UDP client state after a handler failure: the event is `ge` of Model/DgramSrv.lean ("the generator
          finishes — returns, or raises and is swallowed above") when the filter swallows.
-/
import EasyNet.Model.DgramSrv
namespace EasyNet.Iso

/-! ## Part 1: trees, split, filters -/

inductive Tree (κ : Type) where
  | leaf (c : κ)
  | group (cs : List (Tree κ))
  deriving Repr

/-- the subclass relation and the three designated classes -/
structure Classes (κ : Type) where
  sub : κ → κ → Bool          -- live `issubclass(a, b)`
  exc : κ                      -- `Exception`
  eg : κ                       -- `ExceptionGroup`
  beg : κ                      -- `BaseExceptionGroup`

section
variable {κ : Type}

mutual
  def Tree.leaves : Tree κ → List κ
    | .leaf c => [c]
    | .group cs => leavesList cs
  def leavesList : List (Tree κ) → List κ
    | [] => []
    | t :: ts => t.leaves ++ leavesList ts
end

/-- every leaf is an instance of `Exception` -/
def Tree.allExc (K : Classes κ) (t : Tree κ) : Bool := t.leaves.all (fun c => K.sub c K.exc)

/-- the object's own class: CPython's `BaseExceptionGroup.__new__` returns an `ExceptionGroup` iff every member is an
    `Exception` (recursively: a member group is an `Exception` iff it is an `ExceptionGroup`) -/
def Tree.clsOf (K : Classes κ) : Tree κ → κ
  | .leaf c => c
  | .group cs => if (Tree.group cs).allExc K then K.eg else K.beg

/-- `isinstance(obj, classes)` -/
def Tree.isInst (K : Classes κ) (classes : List κ) (t : Tree κ) : Bool :=
  classes.any (fun e => K.sub (t.clsOf K) e)

def optGroup (l : List (Tree κ)) : Option (Tree κ) := if l.isEmpty then none else some (.group l)

mutual
  /-- `BaseExceptionGroup.split` generalised to a naked exception (as `except*` does): (match, rest) -/
  def split (m : Tree κ → Bool) : Tree κ → Option (Tree κ) × Option (Tree κ)
    | .leaf c => if m (.leaf c) then (some (.leaf c), none) else (none, some (.leaf c))
    | .group cs =>
      if m (.group cs) then (some (.group cs), none)
      else
        let r := splitList m cs
        (optGroup r.1, optGroup r.2)
  def splitList (m : Tree κ → Bool) : List (Tree κ) → List (Tree κ) × List (Tree κ)
    | [] => ([], [])
    | t :: ts =>
      let a := split m t
      let r := splitList m ts
      (a.1.toList ++ r.1, a.2.toList ++ r.2)
end

inductive Act (κ : Type) where
  | swallow
  | reraise
  | swallowIf (c : κ)
  deriving Repr

/-- what the handler logs: nothing, always, or unless the object is an instance of one of `quiet`;
    `what` = "<origin> <LEVEL> <key>", `withExc` = `exc_info=` given -/
inductive LogSpec (κ : Type) where
  | silent
  | always (what : String) (withExc : Bool)
  | unless (quiet : List κ) (what : String) (withExc : Bool)
  deriving Repr

structure Clause (κ : Type) where
  classes : List κ
  log : LogSpec κ
  act : Act κ
  deriving Repr

structure Layer (κ : Type) where
  star : Bool
  clauses : List (Clause κ)
  deriving Repr

structure Filter (κ : Type) where
  name : String
  site : String                 -- Python function the layers were read from
  layers : List (Layer κ)       -- innermost first
  outer : Bool                  -- a per-client outermost guard (what C17_filter_total is about)
  deriving Repr

/-- one hook position of the nesting map -/
structure Position where
  kind : String                 -- tcp | tcp-tls | udp
  pos : String
  filters : List String         -- names of the enclosing filters, innermost first
  ocCompleted : Bool            -- `on_connection` has completed when control is at this position
  odRegistered : Bool           -- `disconnect_client` is on the exit stack when control is at this position
  deriving Repr

/-- one log record: (what, tree logged or none) -/
abbrev LogRec (κ : Type) := String × Option (Tree κ)

def LogSpec.emit (K : Classes κ) (l : LogSpec κ) (obj : Tree κ) : List (LogRec κ) :=
  match l with
  | .silent => []
  | .always w e => [(w, if e then some obj else none)]
  | .unless q w e => if obj.isInst K q then [] else [(w, if e then some obj else none)]

/-- the outcome of a handler body on the object it caught: `none` = ended normally -/
def Act.apply (K : Classes κ) (a : Act κ) (obj : Tree κ) : Option (Tree κ) :=
  match a with
  | .swallow => none
  | .reraise => some obj
  | .swallowIf c => if K.sub (obj.clsOf K) c then none else some obj

/-- `try … except A … except B …` -/
def runPlain (K : Classes κ) : List (Clause κ) → Tree κ → Option (Tree κ) × List (LogRec κ)
  | [], t => (some t, [])
  | c :: cs, t =>
    if t.isInst K c.classes then (c.act.apply K t, c.log.emit K t)
    else runPlain K cs t

/-- `try … except* A … except* B …` on a group: clause after clause on what is left.
    (a clause whose body re-raises leaves its part in what propagates — approximation: later clauses still see it) -/
def runStarGroup (K : Classes κ) : List (Clause κ) → Tree κ → Option (Tree κ) × List (LogRec κ)
  | [], t => (some t, [])
  | c :: cs, t =>
    let r := split (Tree.isInst K c.classes) t
    match r.1 with
    | none => runStarGroup K cs t
    | some m =>
      match c.act.apply K m with
      | some _ =>
        let x := runStarGroup K cs t
        (x.1, c.log.emit K m ++ x.2)
      | none =>
        match r.2 with
        | none => (none, c.log.emit K m)
        | some rest =>
          let x := runStarGroup K cs rest
          (x.1, c.log.emit K m ++ x.2)

/-- a naked exception in `except*`: the handler receives `ExceptionGroup("", [exc])` (and a bare `raise` in it propagates
    that wrapper); unmatched: re-raised naked -/
def runStarNaked (K : Classes κ) : List (Clause κ) → κ → Option (Tree κ) × List (LogRec κ)
  | [], c => (some (.leaf c), [])
  | cl :: cs, c =>
    if (Tree.leaf c).isInst K cl.classes then
      let wrapped : Tree κ := .group [.leaf c]
      match cl.act.apply K wrapped with
      | none => (none, cl.log.emit K wrapped)
      | some _ => (some wrapped, cl.log.emit K wrapped)
    else runStarNaked K cs c

def runLayer (K : Classes κ) (l : Layer κ) (t : Tree κ) : Option (Tree κ) × List (LogRec κ) :=
  if l.star then
    match t with
    | .leaf c => runStarNaked K l.clauses c
    | .group _ => runStarGroup K l.clauses t
  else runPlain K l.clauses t

/-- innermost layer first; `none` = swallowed, `some r` = r escapes the outermost layer -/
def runLayers (K : Classes κ) : List (Layer κ) → Tree κ → Option (Tree κ) × List (LogRec κ)
  | [], t => (some t, [])
  | l :: ls, t =>
    let a := runLayer K l t
    match a.1 with
    | none => (none, a.2)
    | some r =>
      let b := runLayers K ls r
      (b.1, a.2 ++ b.2)

def findFilter (fs : List (Filter κ)) (name : String) : Option (Filter κ) := fs.find? (fun f => f.name == name)

/-- the layers of a position: concatenation of its filters' layers; `none` if a name is unknown -/
def chainLayers (fs : List (Filter κ)) : List String → Option (List (Layer κ))
  | [] => some []
  | n :: ns =>
    match findFilter fs n, chainLayers fs ns with
    | some f, some rest => some (f.layers ++ rest)
    | _, _ => none

/-- decidable guard check used by the theorems: a plain layer that swallows every class `≤ Exception` -/
def Layer.plainTotal (K : Classes κ) (all : List κ) (l : Layer κ) : Bool :=
  !l.star && (all.filter (fun c => K.sub c K.exc)).all (fun c => (runPlain K l.clauses (.leaf c)).1.isNone)

/-! ## Part 2: TCP per-client epilogue -/

/-- exit-stack callbacks of one client task (stream.py `task_exit_stack`, async_tcp.py `client_exit_stack`,
    misc.py `request_handler_exit_stack`), named after what they do -/
inductive Cb where
  | closeTransport        -- `task_exit_stack.push_async_callback(aclose_forcefully, transport)`
  | clearConsumer         -- `task_exit_stack.callback(consumer.clear)`
  | bindServer            -- `client_exit_stack.enter_context(self._bind_server())`
  | suppressAndLog        -- `client_exit_stack.enter_context(self.__suppress_and_log_remaining_exception(...))`
  | linger                -- `client_exit_stack.callback(self.__set_socket_linger_if_not_closed, …)` (plain TCP)
  | logDisconnected       -- `client_exit_stack.callback(logger.log, …, "%s disconnected", …)`
  | markClosing           -- `client_exit_stack.push_async_callback(client._on_disconnect)`
  | yieldClientTry        -- not a callback: `try: yield client / except BaseException: …; raise` of `__client_initializer`,
                          -- crossed after the inner exit stack and before `client_exit_stack` unwinds
  | disconnectClient      -- `request_handler_exit_stack.push_async_callback(disconnect_client)`
  deriving DecidableEq, Repr

structure TcpSt (κ : Type) where
  stack : List Cb := []                 -- top first
  hooks : List String := []             -- request handler hook log (reverse order)
  logs : List (LogRec κ) := []
  ocDone : Bool := false                -- `on_connection` completed
  odCount : Nat := 0                    -- calls of `on_disconnection`
  closed : Bool := false                -- transport closed
  closing : Bool := false               -- `client.is_closing()`
  gensStarted : Nat := 0
  gensClosed : Nat := 0
  inflight : Option (Tree κ) := none    -- the exception currently propagating

/-- where the per-client code is when the fault fires; `k` = requests handled by the current generator before it,
    `gen` = 1-based index of the `handle` generator -/
inductive TcpPos where
  | ocCoro | ocPre | ocPost | ocThrown
  | hPre (gen : Nat) | hPost (gen k : Nat) | hThrown (gen : Nat) | hGexit (gen : Nat)
  | od (gen : Nat)
  | none_ (gen : Nat)                   -- no fault: the client leaves while generator `gen` waits at its yield
  deriving Repr

def TcpPos.name : TcpPos → String
  | .ocCoro => "oc_coro" | .ocPre => "oc_pre" | .ocPost => "oc_post" | .ocThrown => "oc_thrown"
  | .hPre _ => "h_pre" | .hPost _ _ => "h_post" | .hThrown _ => "h_thrown" | .hGexit _ => "h_gexit"
  | .od _ => "od" | .none_ _ => "none"

def TcpSt.hook (s : TcpSt κ) (h : String) : TcpSt κ := { s with hooks := h :: s.hooks }
def TcpSt.push (s : TcpSt κ) (c : Cb) : TcpSt κ := { s with stack := c :: s.stack }

/-- the scripted handler starts `n` complete generators (2 requests each) before generator `gen` -/
def startGens (s : TcpSt κ) : Nat → Nat → TcpSt κ
  | 0, _ => s
  | n + 1, i =>
    startGens ({ (s.hook s!"handle:start_g{i}").hook s!"handle:closed_g{i}" with
                  gensStarted := s.gensStarted + 1, gensClosed := s.gensClosed + 1 }) n (i + 1)

/-- the fault fires inside `on_connection` (it never completes) -/
def TcpPos.ocFault : TcpPos → Bool
  | .ocCoro | .ocPre | .ocPost | .ocThrown => true
  | _ => false

def TcpPos.gen : TcpPos → Nat
  | .hPre g | .hPost g _ | .hThrown g | .hGexit g | .od g | .none_ g => g
  | _ => 1

/-- an exception is in flight when unwinding starts (otherwise the client simply left: GeneratorExit closed the generator) -/
def TcpPos.raises : TcpPos → Bool
  | .od _ | .none_ _ => false
  | _ => true

/-- stream.py `__client_coroutine` (task_exit_stack) then async_tcp.py `__client_initializer` (client_exit_stack) up to
    `yield client` -/
def tcpEnter : TcpSt κ :=
  let s : TcpSt κ := {}
  let s := (s.push .closeTransport).push .clearConsumer
  let s := ((((s.push .bindServer).push .suppressAndLog).push .linger).push .logDisconnected).push .markClosing
  s.push .yieldClientTry

/-- forward execution of the client task up to the fault (misc.py `handler`, statement order) -/
def tcpForward (odRegistered : Bool) (p : TcpPos) (t : Tree κ) : TcpSt κ :=
  let s : TcpSt κ := tcpEnter
  -- misc.py: on_connection
  let s := s.hook "on_connection:start"
  if p.ocFault then { s with inflight := some t }
  else
    let s := { s.hook "on_connection:done" with ocDone := true }
    -- `request_handler_exit_stack.push_async_callback(disconnect_client)` (its place is read from the AST: `odRegistered`)
    let s := if odRegistered then s.push .disconnectClient else s
    let s := startGens s (p.gen - 1) 1
    let s := { s.hook s!"handle:start_g{p.gen}" with gensStarted := s.gensStarted + 1 }
    -- the generator's `finally:` runs when it raises / is closed
    let s := { s.hook s!"handle:closed_g{p.gen}" with gensClosed := s.gensClosed + 1 }
    if p.raises then { s with inflight := some t } else s

/-- the exception in flight (if any) crosses the named filter -/
def throughFilter (K : Classes κ) (fs : List (Filter κ)) (name : String) (s : TcpSt κ) : TcpSt κ :=
  match s.inflight with
  | none => s
  | some t =>
    match findFilter fs name with
    | none => s
    | some f =>
      let r := runLayers K f.layers t
      { s with logs := s.logs ++ r.2, inflight := r.1 }

/-- run one callback during unwinding; `fs` = generated filters, `odFault` = what `on_disconnection` raises (if anything) -/
def tcpUnwind1 (K : Classes κ) (fs : List (Filter κ)) (odFault : Option (Tree κ)) (s : TcpSt κ) (c : Cb) : TcpSt κ :=
  match c with
  | .closeTransport => { s with closed := true }
  | .clearConsumer | .bindServer | .linger | .logDisconnected => s
  | .markClosing => { s with closing := true }
  | .disconnectClient =>
    let s := { s.hook "on_disconnection" with odCount := s.odCount + 1 }
    match odFault with
    | none => s
    | some t =>
      -- an exception raised by the callback replaces the one in flight (which becomes its `__context__`)
      match findFilter fs "tcp.disconnect_client" with
      | none => { s with inflight := some t }
      | some f =>
        let r := runLayers K f.layers t
        { s with logs := s.logs ++ r.2, inflight := match r.1 with | some e => some e | none => s.inflight }
  | .suppressAndLog => throughFilter K fs "tcp.suppress_and_log" s
  | .yieldClientTry => throughFilter K fs "tcp.initializer" s

def tcpUnwind (K : Classes κ) (fs : List (Filter κ)) (odFault : Option (Tree κ)) (s : TcpSt κ) : TcpSt κ :=
  s.stack.foldl (tcpUnwind1 K fs odFault) { s with stack := [] }

/-- what `on_disconnection` raises -/
def TcpPos.odFault (p : TcpPos) (t : Tree κ) : Option (Tree κ) :=
  match p with
  | .od _ => some t
  | _ => none

/-- the whole life of the faulty client's task -/
def tcpRun (K : Classes κ) (fs : List (Filter κ)) (odRegistered : Bool) (p : TcpPos) (t : Tree κ) : TcpSt κ :=
  tcpUnwind K fs (p.odFault t) (tcpForward odRegistered p t)

/-! ## Part 3: UDP — what a handler failure does to the per-client state (with Model/DgramSrv.lean) -/

open DgramSrv in
/-- the request handler generator of address `a` raises `t`: the filter chain decides whether it is swallowed;
    in both cases `__client_coroutine`'s `finally:` runs `__on_client_coroutine_task_done` (`ge` of DgramSrv) -/
def udpFault {α} (K : Classes κ) (layers : List (Layer κ)) (s : Sys α) (a : Nat) (t : Tree κ) :
    Option (Sys α) × Option (Tree κ) :=
  (sstep s a .ge, (runLayers K layers t).1)

end

end EasyNet.Iso
