/-
  Byte strings and substring search, as used by the EasyNetwork framers.
  Core Lean only (this file is linked into the `endriver` executable).

  Python correspondences
    matchAt sep buf j        buf[j:j+len(sep)] == sep
    findIn sep buf off stop  buf.find(sep, off, stop)      (bytearray.find with start and stop; stop ≤ len(buf))
    findFrom sep buf off     buf.find(sep, off)
    limitRemainder           easynetwork.exceptions.LimitOverrunError.__init__ (computation of remaining_data)
-/
namespace EasyNet

abbrev Bytes := List UInt8

/-- `buf[j : j+|sep|] == sep` -/
def matchAt (sep buf : Bytes) (j : Nat) : Bool :=
  (buf.drop j).take sep.length == sep

/-- Python `buf.find(sep, off, stop)` (for a non-empty `sep` and `stop ≤ |buf|`):
    the least `j ≥ off` with `j + |sep| ≤ stop` and `buf[j:j+|sep|] = sep`.
    The conjunct `off < stop` only serves termination (it follows from the first one when `sep ≠ []`). -/
def findIn (sep buf : Bytes) (off stop : Nat) : Option Nat :=
  if off + sep.length ≤ stop ∧ off < stop then
    if matchAt sep buf off then some off else findIn sep buf (off + 1) stop
  else none
termination_by stop - off

/-- Python `buf.find(sep, off)`. -/
def findFrom (sep buf : Bytes) (off : Nat) : Option Nat :=
  findIn sep buf off buf.length

/-- Python `buf.find(sep)`. -/
def firstOcc (sep buf : Bytes) : Option Nat := findFrom sep buf 0

/-- The `while` loop of `LimitOverrunError.__init__`:
    `while rem.nbytes and rem[:seplen] != separator[:rem.nbytes]: rem = rem[1:]` -/
def stripToSepPrefix (sep : Bytes) : Bytes → Bytes
  | [] => []
  | x :: xs =>
    if (x :: xs).take sep.length == sep.take (x :: xs).length then x :: xs
    else stripToSepPrefix sep xs

/-- `LimitOverrunError(msg, buffer, consumed, separator).remaining_data` -/
def limitRemainder (buffer : Bytes) (consumed : Nat) (sep : Bytes) : Bytes :=
  if sep.length = 0 then buffer.drop consumed
  else if (buffer.drop consumed).take sep.length == sep then (buffer.drop consumed).drop sep.length
  else stripToSepPrefix sep (buffer.drop consumed)

/-- overwrite `buf[pos : pos+|data|] = data` (memoryview slice assignment; caller guarantees it fits) -/
def writeAt (buf : Bytes) (pos : Nat) (data : Bytes) : Bytes :=
  buf.take pos ++ data ++ buf.drop (pos + data.length)

end EasyNet
