/-
  Producer side of the separator-framed serializers.

    AutoSep.produce    AutoSeparatedPacketSerializer.incremental_serialize (serializers/base_stream.py), with
                       incremental_serialize_check_separator=True: strip the separators at the end, refuse (ValueError)
                       data in which the separator occurs — also across the junction with the separator about to be
                       appended —, emit nothing for empty data, else `data + separator`.
-/
import EasyNet.Model.Bytes
namespace EasyNet

/-- `while data.endswith(separator): data = data.removesuffix(separator)` (fuel = |data|) -/
def stripSuffixes (sep : Bytes) : Nat → Bytes → Bytes
  | 0, d => d
  | fuel + 1, d =>
    if sep.length ≤ d.length ∧ d.drop (d.length - sep.length) == sep then stripSuffixes sep fuel (d.take (d.length - sep.length))
    else d

inductive Produced where
  | refused               -- ValueError
  | nothing               -- the generator yields nothing
  | chunk (b : Bytes)
  deriving Repr, DecidableEq

def AutoSep.produce (sep data : Bytes) : Produced :=
  let d := stripSuffixes sep data.length data
  if (firstOcc sep (d ++ sep.dropLast)).isSome then .refused
  else if d.isEmpty then .nothing
  else .chunk (d ++ sep)

end EasyNet
