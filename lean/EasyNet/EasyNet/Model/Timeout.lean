/-
  Blocking receive, lock acquisition and the packet iterator with their time budgets (C11).  Core Lean only.

  Python correspondences
    recvLoop / receive       _DataReceiverImpl.receive (api_sync/endpoints/stream.py), with
                             SelectorStreamReadTransport.recv = `_retry(lambda: recv_noblock(bufsize), timeout)[0]` inlined
                             (one machine over the socket script).  The stream consumer is a PARAMETER
                             (`next : κ → Bytes → κ × Option Item`, `next c []` = `consumer.next(None)`).
    lockWithTimeout          easynetwork.lowlevel._utils.lock_with_timeout
    clientRecv / clientSend  TCPNetworkClient.recv_packet / send_packet (lock + endpoint call + __convert_socket_error)
    iterNext / iterRun       ClientRecvIterator.__next__ (clients/_iter.py) / a `for` loop over the iterator
    dgramRecv / dgramSend    SelectorDatagramReadTransport.recv / SelectorDatagramWriteTransport.send (= one `_retry`)
-/
import EasyNet.Model.Send
import EasyNet.Model.Consumer
namespace EasyNet

/-- how a receive call ends -/
inductive RecvOut where
  | pkt (it : Item)        -- a packet (`Item.limit` = StreamProtocolParseError raised by the consumer)
  | timeout                -- TimeoutError
  | eof                    -- ConnectionAbortedError (end-of-stream)
  | err (e : ErrK)
  | exhaustedSock
  | exhaustedSel
  | rterr
  | bad
  deriving Repr, DecidableEq

/-- result of a receive call: outcome, consumer state, `_eof_reached`, world -/
structure RecvRes (κ : Type) where
  out : RecvOut
  cons : κ
  eof : Bool
  w : World

/-- the `while not self._eof_reached:` loop of `_DataReceiverImpl.receive`; state at the top of a `_retry`
    iteration of the current `transport.recv(bufsize, timeout)`.
    `tOut` = receive's `timeout`, `tIn` = `_retry`'s, `start` = clock at `ElapsedTime.__enter__`.
    `room cons` = size of the read: `max_recv_size` (copying receiver) or `buffer.nbytes` of `consumer.get_write_buffer()`
    (`_BufferedReceiverImpl.receive`, whose loop is the same otherwise). -/
def recvLoop {κ : Type} (fl : Flavour) (ri : Tmo) (room : κ → Nat) (next : κ → Bytes → κ × Option Item) :
    List SockCall → κ → Tmo → Tmo → Nat → World → RecvRes κ
  | [], cons, _, _, _, w => ⟨.exhaustedSock, cons, false, w⟩
  | c :: rest, cons, tOut, tIn, start, w =>
    match classifyRecv fl c.ev with
    | .got b =>
      if (b.take (room cons)).isEmpty then
        -- `if not chunk: self._eof_reached = True; continue`  → loop ends → raise ECONNABORTED
        ⟨.eof, cons, true, w.afterCall (.rcall (room cons)) c.p⟩
      else
        match next cons (b.take (room cons)) with
        | (cons', some it) => ⟨.pkt it, cons', false, w.afterCall (.rcall (room cons)) c.p⟩   -- return consumer.next(chunk)
        | (cons', none) =>                                                              -- except StopIteration:
          if !tOut.isZero then                                                          -- if timeout > 0:
            recvLoop fl ri room next rest cons'
              (tOut.recompute (w.now + c.p - start)) (tOut.recompute (w.now + c.p - start)) (w.now + c.p)
              (w.afterCall (.rcall (room cons)) c.p)
          else if (b.take (room cons)).length < room cons then                                -- elif len(chunk) < bufsize: break
            ⟨.timeout, cons', false, w.afterCall (.rcall (room cons)) c.p⟩
          else
            recvLoop fl ri room next rest cons' tOut tOut (w.now + c.p) (w.afterCall (.rcall (room cons)) c.p)
    | .block blk =>
      match retryWait ri blk tIn (w.afterCall (.rcall (room cons)) c.p) with
      | .cont t w' => recvLoop fl ri room next rest cons tOut t start w'
      | .timeout w' => ⟨.timeout, cons, false, w'⟩
      | .exhausted w' => ⟨.exhaustedSel, cons, false, w'⟩
      | .rterr w' => ⟨.rterr, cons, false, w'⟩
    | .err e => ⟨.err e, cons, false, w.afterCall (.rcall (room cons)) c.p⟩
    | .ok _ => ⟨.bad, cons, false, w.afterCall (.rcall (room cons)) c.p⟩
    | .bad => ⟨.bad, cons, false, w.afterCall (.rcall (room cons)) c.p⟩

/-- `_DataReceiverImpl.receive(timeout)` = `endpoint.recv_packet(timeout=…)` -/
def receive {κ : Type} (fl : Flavour) (ri : Tmo) (room : κ → Nat) (next : κ → Bytes → κ × Option Item)
    (cons : κ) (eof : Bool) (t : Tmo) (sock : List SockCall) (w : World) : RecvRes κ :=
  match next cons [] with                                   -- try: return consumer.next(None)
  | (cons', some it) => ⟨.pkt it, cons', eof, w⟩
  | (cons', none) =>
    if eof then ⟨.eof, cons', true, w⟩                      -- loop not entered: raise ECONNABORTED
    else recvLoop fl ri room next sock cons' t t w.now w

/-! ## lock_with_timeout -/

/-- state of the lock when the call arrives: free, or released by its holder after `d` ticks -/
inductive LockEv where
  | free
  | busy (d : Nat)
  deriving Repr, DecidableEq

def LockEv.delay : LockEv → Nat
  | .free => 0
  | .busy d => d

inductive LockRes where
  | acquired (t : Tmo) (w : World)    -- the `with` body runs with the remaining timeout `t`
  | timeout (w : World)               -- raise TimeoutError
  deriving Repr, DecidableEq

/-- `with lock:` without timeout took `el` ticks -/
def World.afterLockU (w : World) (el : Nat) : World :=
  { w with now := w.now + el, unbounded := w.unbounded + el, log := .lockWait none :: w.log }

def World.lockTry (w : World) : World := { w with log := .lockTry :: w.log }

/-- `lock.acquire(True, tv)` took `el` ticks -/
def World.afterLock (w : World) (tv el : Nat) : World :=
  { w with now := w.now + el, lockw := w.lockw + el, log := .lockWait (some tv) :: w.log }

/-- `lock_with_timeout(lock, timeout)` up to the `yield` -/
def lockWithTimeout (ev : LockEv) (t : Tmo) (w : World) : LockRes :=
  match t with
  | none => .acquired none (w.afterLockU ev.delay)          -- if timeout is None or timeout == math.inf: with lock: yield
  | some tv =>
    match ev with
    | .free => .acquired (some tv) w.lockTry                -- lock.acquire(blocking=False) succeeded
    | .busy d =>
      if tv = 0 then .timeout w.lockTry                     -- if timeout == 0 or not lock.acquire(True, timeout): raise
      else if d ≤ tv then .acquired (some (tv - d)) (w.lockTry.afterLock tv d)   -- timeout = elapsed.recompute_timeout(timeout)
      else .timeout (w.lockTry.afterLock tv tv)

/-- leaving the `with lock_with_timeout(lock, timeout)` block after the lock was acquired: `ExitStack` calls `lock.release()`
    (exactly once, whatever the body did: return, raise).  Nothing is released when the acquisition failed. -/
def World.lockRelease (w : World) : World := { w with log := .lockRelease :: w.log }

/-! ## TCPNetworkClient -/

/-- `__convert_socket_error`: every ConnectionError becomes ECONNABORTED -/
def clientErr : RecvOut → RecvOut
  | .err .reset => .eof
  | .err .pipe => .eof
  | o => o

/-- `client.recv_packet(timeout=…)`; `lk = none`: plain endpoint call (no lock, no error conversion) -/
def clientRecv {κ : Type} (fl : Flavour) (ri : Tmo) (room : κ → Nat) (next : κ → Bytes → κ × Option Item)
    (lk : Option LockEv) (cons : κ) (eof : Bool) (t : Tmo) (sock : List SockCall) (w : World) : RecvRes κ :=
  match lk with
  | none => receive fl ri room next cons eof t sock w
  | some ev =>
    match lockWithTimeout ev t w with
    | .timeout w' => ⟨.timeout, cons, eof, w'⟩
    | .acquired t' w' =>
      ⟨clientErr (receive fl ri room next cons eof t' sock w').out,
       (receive fl ri room next cons eof t' sock w').cons,
       (receive fl ri room next cons eof t' sock w').eof,
       (receive fl ri room next cons eof t' sock w').w.lockRelease⟩

/-- `__convert_socket_error` on the send side -/
def clientErrS : Outcome → Outcome
  | .err .reset => .aborted
  | .err .pipe => .aborted
  | o => o

/-- `client.send_packet(packet, timeout=…)` -/
def clientSend (tr : Transport) (fix : Bool) (iov : Int) (ri : Tmo) (lk : Option LockEv) (chunks : List Bytes) (t : Tmo)
    (sock : List SockCall) (w : World) : Outcome × World :=
  match lk with
  | none => sendPacket tr fix iov ri chunks t sock w
  | some ev =>
    match lockWithTimeout ev t w with
    | .timeout w' => (.timeout, w')
    | .acquired t' w' =>
      (clientErrS (sendPacket tr fix iov ri chunks t' sock w').1, (sendPacket tr fix iov ri chunks t' sock w').2.lockRelease)

/-! ## ClientRecvIterator -/

/-- one `next(iterator)` call with its own environment -/
structure NextCall where
  gap : Nat                -- application time before the call (outside the iterator: not deducted)
  lk : LockEv
  sock : List SockCall
  sel : List SelEv
  deriving Repr, DecidableEq

/-- result of `__next__` -/
structure IterRes (κ : Type) where
  out : RecvOut            -- `.timeout`, `.eof`, `.err` = StopIteration (they are OSError)
  stop : Bool              -- StopIteration raised
  tmo : Tmo                -- `self.__timeout` afterwards
  cons : κ
  eof : Bool
  w : World

def RecvOut.isOSError : RecvOut → Bool
  | .timeout => true
  | .eof => true
  | .err _ => true
  | _ => false

def RecvOut.isPacket : RecvOut → Bool
  | .pkt (.frame _) => true
  | _ => false

/-- `ClientRecvIterator.__next__`: `with ElapsedTime() as elapsed: packet = client.recv_packet(timeout=self.__timeout)`;
    OSError -> StopIteration; on success `self.__timeout = elapsed.recompute_timeout(self.__timeout)` -/
def iterNext {κ : Type} (fl : Flavour) (ri : Tmo) (room : κ → Nat) (next : κ → Bytes → κ × Option Item)
    (cons : κ) (eof : Bool) (t : Tmo) (lk : LockEv) (sock : List SockCall) (w : World) : IterRes κ :=
  ⟨(clientRecv fl ri room next (some lk) cons eof t sock w).out,
   (clientRecv fl ri room next (some lk) cons eof t sock w).out.isOSError,
   if (clientRecv fl ri room next (some lk) cons eof t sock w).out.isPacket
     then t.recompute ((clientRecv fl ri room next (some lk) cons eof t sock w).w.now - w.now) else t,
   (clientRecv fl ri room next (some lk) cons eof t sock w).cons,
   (clientRecv fl ri room next (some lk) cons eof t sock w).eof,
   (clientRecv fl ri room next (some lk) cons eof t sock w).w⟩

/-- `for packet in client.iter_received_packets(timeout=t): …` over the given calls: stops at the first StopIteration
    (or at anything that is not a packet).  Returns the outcomes and the final world. -/
def iterRun {κ : Type} (fl : Flavour) (ri : Tmo) (room : κ → Nat) (next : κ → Bytes → κ × Option Item) :
    List NextCall → κ → Bool → Tmo → World → List RecvOut × World
  | [], _, _, _, w => ([], w)
  | n :: ns, cons, eof, t, w =>
    let r := iterNext fl ri room next cons eof t n.lk n.sock { w with sel := n.sel, now := w.now + n.gap }
    if r.out.isPacket then
      (r.out :: (iterRun fl ri room next ns r.cons r.eof r.tmo r.w).1,
       (iterRun fl ri room next ns r.cons r.eof r.tmo r.w).2)
    else ([r.out], r.w)

/-! ## datagram transports -/

/-- `SocketDatagramTransport.recv(timeout)` -/
def dgramRecv (ri : Tmo) (bufsize : Nat) (t : Tmo) (sock : List SockCall) (w : World) : RetryRes :=
  retry (classifyRecv .plain) (.rcall bufsize) ri sock t w

/-- `SocketDatagramTransport.send(data, timeout)` -/
def dgramSend (ri : Tmo) (data : Bytes) (t : Tmo) (sock : List SockCall) (w : World) : RetryRes :=
  retry (classifySend .plain) (.call data.length 1) ri sock t w

/-! ## UDPNetworkClient -/

/-- `UDPNetworkClient.recv_packet(timeout=…)`: `lock_with_timeout(receive lock, timeout)`, then
    `DatagramEndpoint.recv_packet(timeout=remaining)` = one `transport.recv(remaining)`; `__convert_socket_error` only
    rewrites the closed-socket errnos (never scripted).  `lk = none`: the bare transport call. -/
def udpClientRecv (ri : Tmo) (bufsize : Nat) (lk : Option LockEv) (t : Tmo) (sock : List SockCall) (w : World) : RetryRes :=
  match lk with
  | none => dgramRecv ri bufsize t sock w
  | some ev =>
    match lockWithTimeout ev t w with
    | .timeout w' => ⟨.timeout, .bad, t, sock, w'⟩
    | .acquired t' w' => { dgramRecv ri bufsize t' sock w' with w := (dgramRecv ri bufsize t' sock w').w.lockRelease }

/-- `UDPNetworkClient.send_packet(packet, timeout=…)`: `lock_with_timeout(send lock, timeout)`, then one
    `transport.send(datagram, remaining)` -/
def udpClientSend (ri : Tmo) (data : Bytes) (lk : Option LockEv) (t : Tmo) (sock : List SockCall) (w : World) : RetryRes :=
  match lk with
  | none => dgramSend ri data t sock w
  | some ev =>
    match lockWithTimeout ev t w with
    | .timeout w' => ⟨.timeout, .bad, t, sock, w'⟩
    | .acquired t' w' => { dgramSend ri data t' sock w' with w := (dgramSend ri data t' sock w').w.lockRelease }

end EasyNet
