/-
  C16 — datagram server: per-client queue, one client coroutine at a time
  (easynetwork/lowlevel/api_async/servers/datagram.py).  Core Lean only (linked into `endriver`).

  Python correspondences
    Client                  one `_ClientData` (+ the tasks that refer to it)
      inflight              handler tasks created by the listener (`task_group.start_soon(handler, data, addr)`,
                            backend/_asyncio/datagram/listener.py `_DatagramListenerServeContext.handle`) that have
                            not run their first step yet — the listener starts them in arrival order
      pushing               handler tasks suspended inside `push_datagram` (`async with self._queue_condition`)
      queue                 `_datagram_queue`
      state                 `_ClientData.__state`  (None / TASK_PENDING / TASK_RUNNING)
      r                     where the client coroutine (`__client_coroutine` + `__client_coroutine_inner_loop`) is
    markPending/markRunning/markDone     `_ClientData.mark_pending / mark_running / mark_done`
    coroutineStart          `__client_coroutine` up to the first `anext` (mark_running, `datagram_received_cb(ctx)`,
                            `pop_datagram_no_wait()`)
    taskDone                `__on_client_coroutine_task_done`
    step                    one atomic step (code between two awaits) of one of the tasks:
      arrive d              `DatagramListenerProtocol.datagram_received` -> `start_soon(handler, d, addr)`
      h                     first step of `handler`: `push_datagram` up to the lock, or — state None — the whole
                            `if client_data.state is None and nb_datagrams_in_queue > 0:` block, inline
      hl                    the handler got the condition lock: `notify()`, `len(queue)`, the `state is None` test
      gy timed              the request handler generator yields (with / without timeout)
      ge                    the request handler generator finishes (returns, or raises and is swallowed above)
      rs                    first step of a client coroutine task started by the task-done hook
      wk                    the client coroutine wakes up in `pop_datagram` (`queue_condition.wait()` returned)
      to                    `backend.timeout(timeout)` expired in `pop_datagram`: TimeoutError thrown into the generator
  The scheduler is any order of enabled steps (over-approximation of every event loop); the request handler
  generator is arbitrary (any sequence of `gy`/`ge`).
-/
namespace EasyNet.DgramSrv

inductive CState where
  | idle | pending | running          -- None | TASK_PENDING | TASK_RUNNING
  deriving DecidableEq, Repr

/-- program counter of the client coroutine -/
inductive RPc (α : Type) where
  | none                               -- no client coroutine exists
  | scheduled                          -- started with `task_group.start_soon` by the task-done hook, not yet run
  | first (d : α)                      -- datagram popped (`pop_datagram_no_wait`), generator before its first yield
  | handling                           -- generator running between `asend`/`athrow` and its next yield
  | waiting (timed notified : Bool)    -- `await queue_condition.wait()` in `pop_datagram`
  deriving Repr

structure Client (α : Type) where
  inflight : List α
  pushing : Nat
  queue : List α
  state : CState
  r : RPc α
  arrived : List α          -- ghost: every datagram received for this address, in order
  consumed : List α         -- ghost: datagrams handed to a generator (or discarded by one that ended before its first yield)
  active : Nat              -- ghost: generator objects alive
  bad : Bool                -- `handle_inconsistent_state_error()` or IndexError on `popleft()` happened

def Client.init {α} : Client α := ⟨[], 0, [], .idle, .none, [], [], 0, false⟩

inductive Label (α : Type) where
  | arrive (d : α)
  | h
  | hl
  | gy (timed : Bool)
  | ge
  | rs
  | wk
  | to
  deriving Repr

def markPending {α} (c : Client α) : Client α :=
  { c with bad := c.bad || (c.state != .idle), state := .pending }

def markRunning {α} (c : Client α) : Client α :=
  { c with bad := c.bad || (c.state != .pending), state := .running }

def markDone {α} (c : Client α) : Client α :=
  { c with bad := c.bad || (c.state != .running), state := .idle }

/-- `__client_coroutine` from `mark_running()` to the first `anext(request_handler_generator)` -/
def coroutineStart {α} (c : Client α) : Client α :=
  let c := markRunning c
  match c.queue with
  | d :: q => { c with queue := q, r := .first d, active := c.active + 1 }
  | [] => { c with bad := true, r := .handling, active := c.active + 1 }      -- IndexError: pop from an empty deque

/-- `client_data.mark_pending(); await self.__client_coroutine(...)` inside the handler task -/
def startInline {α} (c : Client α) : Client α := coroutineStart (markPending c)

/-- `__on_client_coroutine_task_done` -/
def taskDone {α} (c : Client α) : Client α :=
  let c := { markDone c with active := c.active - 1 }
  if c.queue.isEmpty then { c with r := .none }
  else { markPending c with r := .scheduled }

/-- `queue_condition.notify()` -/
def notify {α} : RPc α → RPc α
  | .waiting t _ => .waiting t true
  | r => r

/-- hand the next queued datagram to the generator (`pop_datagram` → `action.asend(generator)`) -/
def deliver {α} (c : Client α) (d : α) (q : List α) : Client α :=
  { c with queue := q, consumed := c.consumed ++ [d], r := .handling }

def step {α} (c : Client α) : Label α → Option (Client α)
  | .arrive d => some { c with inflight := c.inflight ++ [d], arrived := c.arrived ++ [d] }
  | .h =>
    match c.inflight with
    | [] => none
    | d :: rest =>
      -- push_datagram: `self._datagram_queue.append(datagram)` happens before any await
      let c1 := { c with inflight := rest, queue := c.queue ++ [d] }
      if c1.state = .idle then some (startInline c1)       -- no await in push_datagram; n > 0; state is None
      else some { c1 with pushing := c1.pushing + 1 }      -- `async with queue_condition` (may suspend)
  | .hl =>
    if c.pushing = 0 then none else
    let c1 := { c with pushing := c.pushing - 1, r := notify c.r }
    if c1.state = .idle ∧ ¬ c1.queue.isEmpty then some (startInline c1) else some c1
  | .gy timed =>
    match c.r with
    | .first d => some { c with consumed := c.consumed ++ [d], r := .handling }   -- first request: timeout ignored
    | .handling =>
      match c.queue with
      | d :: q => some (deliver c d q)
      | [] => some { c with r := .waiting timed false }
    | _ => none
  | .ge =>
    match c.r with
    | .first d => some (taskDone { c with consumed := c.consumed ++ [d] })   -- documented: the datagram is discarded
    | .handling => some (taskDone c)
    | _ => none
  | .rs =>
    match c.r with
    | .scheduled => some (coroutineStart c)
    | _ => none
  | .wk =>
    match c.r with
    | .waiting t true =>
      match c.queue with
      | d :: q => some (deliver c d q)
      | [] => some { c with r := .waiting t false }           -- `while not queue: await queue_condition.wait()`
    | _ => none
  | .to =>
    match c.r with
    | .waiting true _ => some { c with r := .handling }       -- TimeoutError → ThrowAction → generator
    | _ => none

def run {α} : Client α → List (Label α) → Option (Client α)
  | c, [] => some c
  | c, l :: ls => match step c l with
    | some c' => run c' ls
    | none => none

/-- the datagram the client coroutine has popped but not yet handed over -/
def held {α} : RPc α → List α
  | .first d => [d]
  | _ => []

/-- a generator object exists -/
def RPc.live {α} : RPc α → Bool
  | .first _ | .handling | .waiting _ _ => true
  | _ => false

/-! ## several client addresses: the server keeps one `_ClientData` per address (`client_data_cache`) -/

abbrev Sys (α : Type) := Nat → Client α

def Sys.init {α} : Sys α := fun _ => Client.init

def sstep {α} (s : Sys α) (a : Nat) (l : Label α) : Option (Sys α) :=
  (step (s a) l).map fun c => fun b => if b = a then c else s b

def srun {α} : Sys α → List (Nat × Label α) → Option (Sys α)
  | s, [] => some s
  | s, (a, l) :: ls => match sstep s a l with
    | some s' => srun s' ls
    | none => none

end EasyNet.DgramSrv
