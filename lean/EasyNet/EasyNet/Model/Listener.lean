/-
  C14 / C18 — the TCP listener of the asyncio backend:
  `ListenerSocketAdapter.raw_accept()` / `aclose()` (easynetwork/lowlevel/api_async/backend/_asyncio/stream/listener.py)
  as a transition system over the points where the two coroutines can be suspended.  Core Lean only.

  Python correspondences
    St.sockRef          `self.__socket is not None`
    St.osOpen           the listening socket object has not been closed (`fileno() != -1`)
    St.marker           `self.__accept_scope is not None`   ("an accept is in progress")
    St.scopeCancelled   `self.__accept_scope.cancel()` was called by `aclose()` and not delivered yet
    St.apc              where the task that runs `raw_accept()` is parked: not inside / in `loop.sock_accept()` / in the
                        100 ms back-off sleep after a capacity error (EMFILE, ENFILE, ENOBUFS, ENOMEM)
    St.cpc              where the task that runs `aclose()` is parked: not inside / at `await TaskUtils.coro_yield()`
    step .acceptCall    `raw_accept()` up to its first await:
                          `if self.__accept_scope is not None: raise EBUSY` ; `if self.__socket is None: raise EBADF` ;
                          `with open_cancel_scope() as self.__accept_scope: await loop.sock_accept(...)`
    step (.acceptDone r)  `sock_accept` completed: `finally: self.__accept_scope = None`, then
                          ok → return ; capacity error → log, `with open_cancel_scope() as self.__accept_scope: await sleep(0.1)` ;
                          ignorable error (ECONNABORTED …) → loop again (a new scope, a new `sock_accept`) ; other → raise
    step .scopeDelivered  the cancellation requested by `aclose()` reaches the parked accept task: the scope swallows it:
                          in `sock_accept`: `client_sock is None` → raise EBADF ; in the back-off: `cancelled_caught()` → raise EBADF ;
                          both through `finally: self.__accept_scope = None`
    step .backoffDone     the sleep ended: `finally: self.__accept_scope = None`, loop again
    step .extCancel       the accept task is cancelled from outside (server shutdown) at its suspension: CancelledError
                          propagates through the `finally` clauses
    step .closeCall       `aclose()` up to its first await: `if socket is None: return` ;
                          `with contextlib.closing(socket): self.__socket = None ; if self.__accept_scope is not None: cancel() ; await coro_yield()`
                          (no accept in progress: no await, the `with` block ends: socket closed)
    step .closeResume     the yield returned: the `with` block ends: socket closed
    step .closeCancel     the close task is cancelled at the yield (aclose_forcefully, move_on_after(0) …): `closing.__exit__`
                          still closes the socket, CancelledError propagates
-/
namespace EasyNet.Lsn

inductive AccRes where
  | ok | capacity | ignorable | other
  deriving Repr, DecidableEq

inductive APc where
  | idle | accept | backoff
  deriving Repr, DecidableEq

inductive CPc where
  | idle | yielded
  deriving Repr, DecidableEq

structure St where
  sockRef : Bool := true
  osOpen : Bool := true
  marker : Bool := false
  scopeCancelled : Bool := false
  apc : APc := .idle
  cpc : CPc := .idle
  deriving Repr, DecidableEq

def St.init : St := {}

inductive Ev where
  | acceptCall
  | acceptDone (r : AccRes)
  | scopeDelivered
  | backoffDone
  | extCancel
  | closeCall
  | closeResume
  | closeCancel
  deriving Repr, DecidableEq

/-- what the caller of the coroutine that made the step observes (none: the coroutine is suspended / nothing ended) -/
inductive Out where
  | accepted            -- raw_accept returned a socket
  | ebusy | ebadf       -- raw_accept raised OSError(EBUSY) / OSError(EBADF)
  | oserror             -- raw_accept raised the accept error itself
  | acceptCancelled     -- raw_accept left by CancelledError
  | closeReturned       -- aclose returned
  | closeCancelled      -- aclose left by CancelledError
  deriving Repr, DecidableEq

/-- `with open_cancel_scope() as self.__accept_scope:` entered, the task parks in `where_` -/
def St.enterScope (s : St) (where_ : APc) : St := { s with marker := true, scopeCancelled := false, apc := where_ }

/-- `finally: self.__accept_scope = None`, the task leaves `raw_accept` -/
def St.leave (s : St) : St := { s with marker := false, scopeCancelled := false, apc := .idle }

/-- one step; `none` = the event is not enabled in this state -/
def step (s : St) : Ev → Option (St × Option Out)
  | .acceptCall =>
    if s.apc ≠ .idle then
      -- another task calls raw_accept() while one is inside: the marker is set
      some (s, some .ebusy)
    else if s.marker then some (s, some .ebusy)
    else if !s.sockRef then some (s, some .ebadf)
    else some (s.enterScope .accept, none)
  | .acceptDone r =>
    if s.apc = .accept ∧ s.scopeCancelled = false then
      match r with
      | .ok => some (s.leave, some .accepted)
      | .capacity => some ((s.leave).enterScope .backoff, none)
      | .ignorable => some ((s.leave).enterScope .accept, none)
      | .other => some (s.leave, some .oserror)
    else none
  | .scopeDelivered =>
    if s.apc ≠ .idle ∧ s.scopeCancelled = true then some (s.leave, some .ebadf) else none
  | .backoffDone =>
    if s.apc = .backoff ∧ s.scopeCancelled = false then some ((s.leave).enterScope .accept, none) else none
  | .extCancel =>
    -- (an external cancellation while the scope's own request is outstanding is the C13 known finding: not an event here)
    if s.apc ≠ .idle ∧ s.scopeCancelled = false then some (s.leave, some .acceptCancelled) else none
  | .closeCall =>
    if !s.sockRef then some (s, some .closeReturned)
    else if s.marker then some ({ s with sockRef := false, scopeCancelled := true, cpc := .yielded }, none)
    else some ({ s with sockRef := false, osOpen := false }, some .closeReturned)
  | .closeResume =>
    if s.cpc = .yielded then some ({ s with osOpen := false, cpc := .idle }, some .closeReturned) else none
  | .closeCancel =>
    if s.cpc = .yielded then some ({ s with osOpen := false, cpc := .idle }, some .closeCancelled) else none

/-- run a history; disabled events are skipped (the environment cannot make them happen) -/
def run : St → List Ev → St
  | s, [] => s
  | s, e :: es =>
    match step s e with
    | some (s', _) => run s' es
    | none => run s es

/-- the observable outputs of a history, in order (`skip` marks a disabled event) -/
def trace : St → List Ev → List (Option Out)
  | _, [] => []
  | s, e :: es =>
    match step s e with
    | some (s', o) => o :: trace s' es
    | none => trace s es

end EasyNet.Lsn
