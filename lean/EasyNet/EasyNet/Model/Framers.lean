/-
  Incremental framers: the pure core of EasyNetwork's incremental deserializer generators.
  A generator is modelled by its suspended state `σ` and `feed : σ → input → Res σ` (= `generator.send`).

  Python correspondences (statement by statement)
    RU.*     serializers/tools.py      GeneratorStreamReader.read_until   (+ read_all)
    RE.*     serializers/tools.py      GeneratorStreamReader.read_exactly (+ read_all)
    BRU.*    serializers/base_stream.py _buffered_readuntil  (+ the slicing done by its callers)
    BFX.*    serializers/base_stream.py FixedSizePacketSerializer.buffered_incremental_deserialize
-/
import EasyNet.Model.Bytes
namespace EasyNet

/-- Result of `generator.send(chunk)` on the copying path. -/
inductive Res (σ : Type) where
  | need (s : σ)                    -- generator yielded again
  | done (data rest : Bytes)        -- StopIteration((data, rest))   (data still to be decoded by the codec)
  | fail (rest : Bytes)             -- LimitOverrunError(remaining_data = rest)
  deriving Repr

/-- Result of `generator.send(nbytes)` on the buffered path; `need` carries the yielded write position. -/
inductive BRes (σ : Type) where
  | need (s : σ) (start : Nat)
  | done (data rest : Bytes)
  | fail (rest : Bytes)
  deriving Repr

/-! ### read_until (copying path) -/

structure RUState where
  started : Bool      -- false while still in the first `while not buffer:` loop
  buf : Bytes         -- `buffer`
  offset : Nat        -- `offset`
  deriving Repr, DecidableEq

def RU.init : RUState := ⟨false, [], 0⟩

/-- One pass of the `while True:` body of `read_until`, up to the next `yield` / `return` / `raise`. -/
def RU.loop (sep : Bytes) (limit : Nat) (keepEnd : Bool) (buffer : Bytes) (offset : Nat) : Res RUState :=
  if offset + sep.length ≤ buffer.length then            -- buflen - offset >= seplen
    match findFrom sep buffer offset with
    | some sepidx =>
      if sepidx > limit then .fail (limitRemainder buffer sepidx sep)
      else .done (buffer.take (if keepEnd then sepidx + sep.length else sepidx))
                 (buffer.drop (sepidx + sep.length))
    | none =>
      if buffer.length + 1 - sep.length > limit then
        .fail (limitRemainder buffer (buffer.length + 1 - sep.length) sep)
      else .need ⟨true, buffer, buffer.length + 1 - sep.length⟩
  else .need ⟨true, buffer, offset⟩

def RU.feed (sep : Bytes) (limit : Nat) (keepEnd : Bool) (s : RUState) (chunk : Bytes) : Res RUState :=
  if s.started then RU.loop sep limit keepEnd (s.buf ++ chunk) s.offset
  else if chunk.isEmpty then .need s
  else RU.loop sep limit keepEnd chunk 0

/-! ### read_exactly (copying path) -/

structure REState where
  buf : Bytes
  deriving Repr, DecidableEq

def RE.init : REState := ⟨[]⟩

/-- both `while` loops of `read_exactly` (for `n > 0` they are the single loop `while len(buffer) < n`) -/
def RE.feed (n : Nat) (s : REState) (chunk : Bytes) : Res REState :=
  if (s.buf ++ chunk).length < n then .need ⟨s.buf ++ chunk⟩
  else .done ((s.buf ++ chunk).take n) ((s.buf ++ chunk).drop n)

/-! ### _buffered_readuntil (buffered path). The buffer belongs to the consumer; `feed` reads it. -/

structure BRUState where
  buflen : Nat
  offset : Nat
  deriving Repr, DecidableEq

def BRU.init : BRUState := ⟨0, 0⟩
def BRU.start : Nat := 0          -- `buflen = yield 0`

/-- `fixed = true` models the repaired code (`LimitOverrunError` gets `buffer[:buflen]`);
    `fixed = false` the code as found (whole buffer, stale bytes included).  The translator
    decides which one the current source is (Gen/Variant.lean). -/
def BRU.feed (fixed : Bool) (sep : Bytes) (keepEnd : Bool) (s : BRUState) (buffer : Bytes) (nb : Nat) : BRes BRUState :=
  let buflen := s.buflen + nb
  if s.offset + sep.length ≤ buflen then
    match findIn sep buffer s.offset buflen with
    | some sepidx =>
      .done (buffer.take (if keepEnd then sepidx + sep.length else sepidx))
            ((buffer.take buflen).drop (sepidx + sep.length))
    | none =>
      -- limit = len(buffer) - 1 - seplen ; `offset > limit`
      if (buflen + 1 - sep.length) + sep.length + 1 > buffer.length then
        .fail (limitRemainder (if fixed then buffer.take buflen else buffer) (buflen + 1 - sep.length) sep)
      else .need ⟨buflen, buflen + 1 - sep.length⟩ buflen
  else .need ⟨buflen, s.offset⟩ buflen

/-! ### fixed-size, buffered path -/

structure BFXState where
  nread : Nat
  deriving Repr, DecidableEq

def BFX.init : BFXState := ⟨0⟩
def BFX.start : Nat := 0

def BFX.feed (size : Nat) (s : BFXState) (buffer : Bytes) (nb : Nat) : BRes BFXState :=
  if s.nread + nb < size then .need ⟨s.nread + nb⟩ (s.nread + nb)
  else .done (buffer.take size) ((buffer.take (s.nread + nb)).drop size)

end EasyNet
