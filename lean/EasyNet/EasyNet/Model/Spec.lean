/-
  Byte-level reference semantics ("decode the accumulated bytes from scratch"), against which the
  stateful framers/consumers are proved.  Nothing here mirrors Python code: these are the *specs*.

    SRes                result of looking at the accumulated, not yet consumed bytes
    RU.spec             separator framing, copying path  (limit counted on the payload index)
    BRU.spec            separator framing, buffered path (limit = buffer capacity)
    RE.spec             fixed size
    refDrain/refRecv/refRun   the consumer algorithm over a spec: after each read, cut out everything
                        that is complete; what remains is `held`
-/
import EasyNet.Model.Consumer
namespace EasyNet

inductive SRes where
  | need
  | done (data rest : Bytes)
  | fail (rest : Bytes)
  deriving Repr, DecidableEq

def Res.erase {σ} : Res σ → SRes
  | .need _ => .need
  | .done d r => .done d r
  | .fail r => .fail r

def BRes.erase {σ} : BRes σ → SRes
  | .need _ _ => .need
  | .done d r => .done d r
  | .fail r => .fail r

/-- separator framing on the copying path, as a function of the accumulated bytes only -/
def RU.spec (sep : Bytes) (limit : Nat) (keepEnd : Bool) (b : Bytes) : SRes :=
  match firstOcc sep b with
  | some i =>
    if i > limit then .fail (limitRemainder b i sep)
    else .done (b.take (if keepEnd then i + sep.length else i)) (b.drop (i + sep.length))
  | none =>
    if b.length + 1 - sep.length > limit then .fail (limitRemainder b (b.length + 1 - sep.length) sep)
    else .need

/-- separator framing on the buffered path (buffer capacity `cap`), accumulated bytes `b`, `|b| ≤ cap` -/
def BRU.spec (sep : Bytes) (cap : Nat) (keepEnd : Bool) (b : Bytes) : SRes :=
  match firstOcc sep b with
  | some i => .done (b.take (if keepEnd then i + sep.length else i)) (b.drop (i + sep.length))
  | none =>
    if b.length + 2 > cap ∧ sep.length ≤ b.length then .fail (limitRemainder b (b.length + 1 - sep.length) sep)
    else .need

def RE.spec (n : Nat) (b : Bytes) : SRes :=
  if b.length < n then .need else .done (b.take n) (b.drop n)

/-- `next(None)` until nothing more is complete. Returns (held bytes, items). -/
def refDrain (spec : Bytes → SRes) : Nat → Bytes → Bytes × List Item
  | 0, b => (b, [])
  | fuel + 1, b =>
    if b.isEmpty then ([], [])
    else match spec b with
      | .need => (b, [])
      | .done d r => let x := refDrain spec fuel r; (x.1, .frame d :: x.2)
      | .fail r => let x := refDrain spec fuel r; (x.1, .limit :: x.2)

/-- one read of `c` with `h` held -/
def refRecv (spec : Bytes → SRes) (h c : Bytes) : Bytes × List Item :=
  if (h ++ c).isEmpty then ([], [])
  else match spec (h ++ c) with
    | .need => (h ++ c, [])
    | .done d r => let x := refDrain spec (r.length + 1) r; (x.1, .frame d :: x.2)
    | .fail r => let x := refDrain spec (r.length + 1) r; (x.1, .limit :: x.2)

def refRun (spec : Bytes → SRes) : Bytes → List Bytes → Bytes × List Item
  | h, [] => (h, [])
  | h, c :: cs =>
    let x := refRecv spec h c
    let y := refRun spec x.1 cs
    (y.1, x.2 ++ y.2)

/-- frame-by-frame decoding of a whole stream in one go -/
def decodeAll (spec : Bytes → SRes) (s : Bytes) : Bytes × List Item := refRun spec [] [s]

end EasyNet
