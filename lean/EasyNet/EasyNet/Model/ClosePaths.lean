/-
  C14 — close paths as structured control-flow programs with an exception / cancellation semantics.
  Core Lean only (linked into `endriver`).

  A close path of EasyNetwork is written as a `Prog`: try / except BaseException / finally / `except OSError: pass` /
  `move_on_after` / `timeout` / `aclose_forcefully` (= body inside an already expired scope) nesting, flags, and
  suspension points.  `exec` runs it against a list of *decisions*, one per suspension, in order:
     ok       the awaited operation completes
     err      it raises OSError (the wrapped transport's own send / recv failing, an SSL error)
     cancel   `task.cancel()` was requested while the task was parked there (external cancellation)
     timeout  the deadline of the innermost enclosing `move_on_after` / `timeout` scope fired there
     stop     the retry loop (`_retry_ssl_method`) is over
     fail     the retry loop ends with an OSError raised without suspending (an SSL error from the SSL object itself)
  When the list is exhausted every further suspension completes (`ok`) and loops stop.

  Python correspondences
    innerClose i steps err      `await transport_i.aclose()` of the wrapped transport — a parameter with the contract
                                "marks closing before its first suspension" (then `steps` suspensions, then maybe an error)
    stapledProg                 transports/composite.py  _close_stapled_transports / _try_graceful_close
    endpointProg                endpoints/stream.py      AsyncStreamEndpoint.aclose
    tlsCloseProg                transports/tls.py        AsyncTLSStreamTransport.aclose
    tlsWrapProg                 transports/tls.py        AsyncTLSStreamTransport.wrap (from the handshake on)
    tcpClientProg               clients/async_tcp.py     AsyncTCPNetworkClient.aclose   (`fixed` = with docs/C14-fix-1.patch)
    forcefully                  transports/utils.py      aclose_forcefully
-/
namespace EasyNet.C14

/-- flags -/
inductive Tgt where
  | inner (i : Nat)      -- wrapped transport i: close requested (its `closed` flag)
  | closing              -- the outer object's own closing flag
  | event                -- TLS: the `__closed` event
  deriving Repr, DecidableEq

inductive Prog where
  | skip
  | mark (t : Tgt)
  | await                                   -- may complete, raise OSError, be cancelled, time out
  | park                                    -- lock / event wait: may complete, be cancelled, time out
  | raiseErr                                -- raise OSError
  | seq (a b : Prog)
  | many (a : Prog)                         -- retry loop
  | tryExcept (b h : Prog)                  -- try: b  except BaseException: h; raise
  | tryExceptCancel (b h : Prog)            -- try: b  except CancelledError: h; raise
  | tryFinally (b f : Prog)
  | suppressErr (b : Prog)                  -- try: b  except OSError: pass
  | moveOnAfter (b onCaught onNormal : Prog) -- with move_on_after(..) as s: b ;  if s.cancelled_caught(): onCaught else: onNormal
  | forcefully (b : Prog)                   -- with move_on_after(0): b
  | timeoutScope (b : Prog)                 -- with timeout(..): b      (TimeoutError instead of swallowing)
  | ifFlag (t : Tgt) (a b : Prog)
  deriving Repr

inductive Dec where
  | ok | err | cancel | timeout | stop | fail
  deriving Repr, DecidableEq

inductive Exc where
  | err                  -- OSError
  | cancel               -- CancelledError from outside
  | scope (d : Nat)      -- CancelledError issued by the cancel scope entered at depth d
  | timeoutErr           -- TimeoutError (an OSError)
  deriving Repr, DecidableEq

inductive Out where
  | ok
  | raised (e : Exc)
  deriving Repr, DecidableEq

structure St where
  flags : List Tgt := []
  deriving Repr

def St.has (s : St) (t : Tgt) : Bool := s.flags.contains t
def St.set (s : St) (t : Tgt) : St := if s.has t then s else { flags := t :: s.flags }

structure Env where
  depth : Nat := 0
  forced : Option Nat := none     -- innermost enclosing expired scope (aclose_forcefully)
  timed : Option Nat := none      -- innermost enclosing scope with a deadline
  deriving Repr

structure Res where
  out : Out
  st : St
  ds : List Dec

/-- one suspension point; `canErr` = the awaited operation can fail with OSError -/
def suspend (canErr : Bool) (env : Env) (ds : List Dec) (st : St) : Res :=
  match ds with
  | [] =>
    match env.forced with
    | some d => ⟨.raised (.scope d), st, []⟩
    | none => ⟨.ok, st, []⟩
  | d :: rest =>
    match env.forced with
    | some f =>
      -- inside an expired scope every suspension is cancelled by the scope (an external cancellation wins)
      if d = .cancel then ⟨.raised .cancel, st, rest⟩ else ⟨.raised (.scope f), st, rest⟩
    | none =>
      match d with
      | .ok => ⟨.ok, st, rest⟩
      | .stop => ⟨.ok, st, rest⟩
      | .fail => if canErr then ⟨.raised .err, st, rest⟩ else ⟨.ok, st, rest⟩
      | .err => if canErr then ⟨.raised .err, st, rest⟩ else ⟨.ok, st, rest⟩
      | .cancel => ⟨.raised .cancel, st, rest⟩
      | .timeout =>
        match env.timed with
        | some t => ⟨.raised (.scope t), st, rest⟩
        | none => ⟨.ok, st, rest⟩

def isOSError : Exc → Bool
  | .err => true
  | .timeoutErr => true
  | _ => false

def isCancel : Exc → Bool
  | .cancel => true
  | .scope _ => true
  | _ => false

/-- the retry loop: `body` is the semantics of one iteration -/
def iterate (body : List Dec → St → Res) : Nat → List Dec → St → Res
  | 0, ds, st => ⟨.ok, st, ds⟩
  | _ + 1, [], st => ⟨.ok, st, []⟩
  | fuel + 1, d :: rest, st =>
    if d = .stop then ⟨.ok, st, rest⟩
    else if d = .fail then ⟨.raised .err, st, rest⟩
    else
      match body (d :: rest) st with
      | ⟨.ok, st', ds'⟩ => iterate body fuel ds' st'
      | r => r

def exec : Prog → Env → List Dec → St → Res
  | .skip, _, ds, st => ⟨.ok, st, ds⟩
  | .mark t, _, ds, st => ⟨.ok, st.set t, ds⟩
  | .await, env, ds, st => suspend true env ds st
  | .park, env, ds, st => suspend false env ds st
  | .raiseErr, _, ds, st => ⟨.raised .err, st, ds⟩
  | .seq a b, env, ds, st =>
    match exec a env ds st with
    | ⟨.ok, st', ds'⟩ => exec b env ds' st'
    | r => r
  | .many a, env, ds, st => iterate (exec a env) (ds.length + 1) ds st
  | .tryExcept b h, env, ds, st =>
    match exec b env ds st with
    | ⟨.ok, st', ds'⟩ => ⟨.ok, st', ds'⟩
    | ⟨.raised e, st', ds'⟩ =>
      match exec h env ds' st' with
      | ⟨.ok, st'', ds''⟩ => ⟨.raised e, st'', ds''⟩
      | r => r
  | .tryExceptCancel b h, env, ds, st =>
    match exec b env ds st with
    | ⟨.ok, st', ds'⟩ => ⟨.ok, st', ds'⟩
    | ⟨.raised e, st', ds'⟩ =>
      if isCancel e then
        match exec h env ds' st' with
        | ⟨.ok, st'', ds''⟩ => ⟨.raised e, st'', ds''⟩
        | r => r
      else ⟨.raised e, st', ds'⟩
  | .tryFinally b f, env, ds, st =>
    match exec b env ds st with
    | ⟨o, st', ds'⟩ =>
      match exec f env ds' st' with
      | ⟨.ok, st'', ds''⟩ => ⟨o, st'', ds''⟩
      | r => r
  | .suppressErr b, env, ds, st =>
    match exec b env ds st with
    | ⟨.raised e, st', ds'⟩ => if isOSError e then ⟨.ok, st', ds'⟩ else ⟨.raised e, st', ds'⟩
    | r => r
  | .moveOnAfter b c n, env, ds, st =>
    match exec b { depth := env.depth + 1, forced := env.forced, timed := some env.depth } ds st with
    | ⟨.ok, st', ds'⟩ => exec n env ds' st'
    | ⟨.raised e, st', ds'⟩ => if e = .scope env.depth then exec c env ds' st' else ⟨.raised e, st', ds'⟩
  | .forcefully b, env, ds, st =>
    match exec b { depth := env.depth + 1, forced := some env.depth, timed := env.timed } ds st with
    | ⟨.raised e, st', ds'⟩ => if e = .scope env.depth then ⟨.ok, st', ds'⟩ else ⟨.raised e, st', ds'⟩
    | r => r
  | .timeoutScope b, env, ds, st =>
    match exec b { depth := env.depth + 1, forced := env.forced, timed := some env.depth } ds st with
    | ⟨.raised e, st', ds'⟩ => if e = .scope env.depth then ⟨.raised .timeoutErr, st', ds'⟩ else ⟨.raised e, st', ds'⟩
    | r => r
  | .ifFlag t a b, env, ds, st => if st.has t then exec a env ds st else exec b env ds st

/-! ## the close paths -/

def awaits : Nat → Prog
  | 0 => .skip
  | n + 1 => .seq .await (awaits n)

/-- `await transport_i.aclose()` of the wrapped (in-memory) transport: closing is marked before the first suspension;
    a transport already closing only yields once -/
def innerClose (i steps : Nat) (err : Bool) : Prog :=
  .ifFlag (.inner i) .await
    (.seq (.mark (.inner i)) (.seq (awaits steps) (if err then .raiseErr else .skip)))

/-- composite.py `_close_stapled_transports(send = 0, receive = 1)`: the exit stack first leaves the send transport's
    `_try_graceful_close` (else: `await send.aclose()`); what it raises enters the receive transport's
    `except BaseException: await aclose_forcefully(receive); raise`; otherwise `else: await receive.aclose()` -/
def stapledProg (s0 : Nat) (e0 : Bool) (s1 : Nat) (e1 : Bool) : Prog :=
  .seq (.tryExcept (innerClose 0 s0 e0) (.forcefully (innerClose 1 s1 e1))) (innerClose 1 s1 e1)

/-- endpoints/stream.py `AsyncStreamEndpoint.aclose`: `with send_guard: try: await transport.aclose() finally: receiver.clear()` -/
def endpointProg (s : Nat) (e : Bool) : Prog :=
  .tryFinally (innerClose 0 s e) .skip

/-- tls.py `AsyncTLSStreamTransport.aclose`, from `with contextlib.ExitStack() as stack:` on (first close) -/
def tlsFirstProg (sc : Bool) (s : Nat) (e : Bool) : Prog :=
  .tryFinally                                           -- `with ExitStack() as stack: stack.callback(self.__closed.set) …`
    (.seq (.mark .closing)
      (.ifFlag (.inner 0) (innerClose 0 s e)            -- `… and not self._transport.is_closing()` is false
        (if sc then
          .moveOnAfter
            (.tryExcept
              (.seq (.suppressErr (.many .await))       -- `try: await self._retry_ssl_method(unwrap)  except OSError: pass`
                    .skip)                              -- write_eof()
              (.forcefully (innerClose 0 s e)))         -- `except BaseException: await aclose_forcefully(transport); raise`
            .skip                                       -- `if scope.cancelled_caught(): return`
            (innerClose 0 s e)                          -- `await self._transport.aclose()`
         else innerClose 0 s e)))
    (.mark .event)

/-- tls.py `AsyncTLSStreamTransport.aclose` -/
def tlsCloseProg (sc : Bool) (s : Nat) (e : Bool) : Prog :=
  .ifFlag .closing
    (.ifFlag .event .skip .park)                        -- `await self.__closed.wait(); return`
    (tlsFirstProg sc s e)

/-- tls.py `AsyncTLSStreamTransport.wrap`: handshake under `timeout(handshake_timeout)`; any failure marks closing and
    force-closes the transport -/
def tlsWrapProg (s : Nat) (e : Bool) : Prog :=
  .tryExcept (.timeoutScope (.many .await))
    (.seq (.mark .closing) (.forcefully (innerClose 0 s e)))

/-- clients/async_tcp.py `AsyncTCPNetworkClient.aclose` (connected client).
    `busy`: another task holds the send lock, so acquiring it parks.
    `fixed = false`: the code as found (`async with self.__send_lock: await self.__endpoint.aclose()`).
    `fixed = true`: docs/C14-fix-1.patch (`try: await lock.acquire() except CancelledError: aclose_forcefully(transport); raise`,
    then `try: await endpoint.aclose() finally: lock.release()`). -/
def tcpClientProg (fixed busy : Bool) (s : Nat) (e : Bool) : Prog :=
  if fixed then
    .seq (.tryExceptCancel (if busy then .park else .skip) (.forcefully (innerClose 0 s e)))
         (.tryFinally (endpointProg s e) .skip)
  else
    .seq (if busy then .park else .skip) (endpointProg s e)

def run (p : Prog) (ds : List Dec) : Res := exec p {} ds {}

end EasyNet.C14
