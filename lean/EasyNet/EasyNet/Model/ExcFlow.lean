/-
  How an exception raised at a codec call site travels through nested `try … except` layers.
  Generic in the exception type `ε` (the concrete classes, their subclass relation and the layers are generated
  from the Python source into Gen/ExcTables.lean).

  Python semantics mirrored: the first `except` clause one of whose classes is a superclass of the raised class
  handles it; its body either raises a new exception (`convert`), re-raises (`reraise`) or ends normally (`swallow`);
  if no clause matches the exception propagates unchanged to the next enclosing layer.
-/
namespace EasyNet

inductive Action (ε : Type) where
  | convert (target : ε)
  | reraise
  | swallow
  deriving Repr

structure Handler (ε : Type) where
  classes : List ε
  action : Action ε
  deriving Repr

structure Pipeline (ε : Type) where
  name : String
  alphabet : List ε
  layers : List (List (Handler ε))      -- innermost first
  deriving Repr

/-- `none` = nothing propagates (the handler ended normally) -/
def catchLayer {ε} (sub : ε → ε → Bool) : List (Handler ε) → ε → Option ε
  | [], e => some e
  | h :: hs, e =>
    if h.classes.any (fun c => sub e c) then
      match h.action with
      | .convert t => some t
      | .reraise => some e
      | .swallow => none
    else catchLayer sub hs e

def propagate {ε} (sub : ε → ε → Bool) : List (List (Handler ε)) → ε → Option ε
  | [], e => some e
  | l :: ls, e =>
    match catchLayer sub l e with
    | some e' => propagate sub ls e'
    | none => none

/-- every class of the alphabet, raised at the innermost site, leaves the outermost layer as one of `good` -/
def Pipeline.ok {ε} [DecidableEq ε] (sub : ε → ε → Bool) (good : List ε) (p : Pipeline ε) : Bool :=
  p.alphabet.all (fun e => match propagate sub p.layers e with
    | some r => good.contains r
    | none => false)

end EasyNet
