/-
  C20 — Sending applies backpressure and never hangs on a dead connection.
  Property theorems only (lemmas: EasyNet/Lemmas/FlowCtl.lean, FlowCtlFlush.lean; model: EasyNet/Model/FlowCtl.lean).

  The model is `WriteFlowControl` (drain / pause_writing / resume_writing / connection_lost), the sender coroutines of
  the asyncio adapters (`send_all = write + drain`, `send_all_from_iterable = writelines + drain`, datagram
  `sendto + drain`), the CPython 3.12 task semantics (cancel, wake-up in a later loop turn through a FIFO ready
  queue) and the asyncio transport's user-space write buffer with its pause/resume checks (assumed behaviour of
  asyncio).  An event list is any interleaving of sender starts, kernel progress, connection loss (with / without
  error, direct or through the transport), close, cancellation of individual senders and loop turns, for any number
  of senders.
-/
import EasyNet.Lemmas.FlowCtlFlush
import EasyNet.Lemmas.FlowCtlSched
namespace EasyNet
open EasyNet.C20.FC
set_option linter.unusedSimpArgs false

/-- **C20, main statement (stream transport).**  With the write-buffer limits forced to 0, no pause/resume calls other
    than the transport's own, and a pause check after `writelines` (by the interpreter: `wlp`, or by the adapter
    re-asserting the limits: `reassert`): in every reachable state, every `send_all` / `send_all_from_iterable` that the
    next loop turn completes *successfully* has all of its bytes (everything up to the end offset of its data in the
    transport's byte stream) taken by the kernel — nothing of it is left in the user-space buffer. -/
theorem C20_returns_only_when_flushed (c : Cfg) (hk : c.kind = .stream) (hh : c.high = 0) (hl : c.low = 0)
    (hfix : c.wlp = true ∨ c.reassert = true) (evs : List Ev) (hnd : ∀ e ∈ evs, e.isDirect = false)
    (log : List (Nat × Res × Option Nat)) (hlog : (step c (run c (St.init c) evs).1 .turn).2 = .turn log)
    (i e : Nat) (hm : (i, Res.ok, some e) ∈ log) :
    e ≤ (step c (run c (St.init c) evs).1 .turn).1.flushed := by
  have hinv := finv_run c hk hfix evs hnd (finv_init c hh hl)
  simp only [step] at hlog
  injection hlog with hlog
  subst hlog
  exact turn_ok_flushed c hk hfix hinv i e hm

/-- non-vacuity: a peer that reads nothing keeps both kinds of sender suspended; they return once the kernel took
    their bytes (offsets 10 and 17), and the turn that completes them reports them flushed -/
example :
    let c : Cfg := { kind := .stream, n := 2, errno := 104, wlp := false, reassert := true, high := 0, low := 0 }
    let evs : List Ev := [.start 0 (.send 10), .turn, .start 1 (.sendv [3, 4]), .turn, .turn, .kernel 5, .turn, .kernel 12]
    (∀ e ∈ evs, e.isDirect = false) ∧
      (run c (St.init c) evs).1.flushed = 17 ∧
      (step c (run c (St.init c) evs).1 .turn).2 = .turn [(1, .ok, some 17), (0, .ok, some 10)] := by
  decide +kernel

/-- **The pause check after `writelines` is necessary.**  In the model of the code before the patch on an interpreter
    whose `writelines()` does not run it (`wlp = reassert = false`, CPython 3.12.1), `send_all_from_iterable` returns
    while all its bytes are still in the user-space buffer. -/
theorem C20_writelines_without_pause_check_returns_unflushed :
    let c : Cfg := { kind := .stream, n := 1, errno := 104, wlp := false, reassert := false, high := 0, low := 0 }
    ∃ evs : List Ev, (∀ e ∈ evs, e.isDirect = false) ∧
      (step c (run c (St.init c) evs).1 .turn).2 = .turn [(0, .ok, some 12)] ∧
      (step c (run c (St.init c) evs).1 .turn).1.flushed = 0 :=
  ⟨[.start 0 (.sendv [5, 7])], by decide +kernel⟩

/-- **pendingWaiter → paused ∧ ¬lost**, for every event list (including hostile direct pause/resume calls), every
    transport kind and any number of senders: a sender is never left parked on a waiter while writing is allowed or
    the connection is gone. -/
theorem C20_waiter_implies_paused (c : Cfg) (evs : List Ev) (i : Nat)
    (hw : Waiting (run c (St.init c) evs).1 i) :
    (run c (St.init c) evs).1.paused = true ∧ (run c (St.init c) evs).1.lost = false :=
  winv_run c evs (winv_init c) i hw

example :
    let c : Cfg := { kind := .wfc, n := 2, errno := 103, wlp := false, reassert := false, high := 0, low := 0 }
    Waiting (run c (St.init c) [.pause, .start 0 .drain, .start 1 .drain, .turn, .cancel 0, .turn]).1 1 := by
  decide +kernel

/-- **Every suspended sender is resumed when writing resumes.**  `resume_writing` completes the waiter of every
    parked sender, schedules its wake-up, leaves nobody waiting; and the wake-up of a sender that was not cancelled
    meanwhile makes its `drain()` return normally. -/
theorem C20_all_resumed (c : Cfg) (s : St) (i : Nat) (hi : i < c.n) (hw : Waiting s i) :
    ((fcResume c s).senders i).pc = .atWaiter ∧ ((fcResume c s).senders i).fut = .result ∧
    Handle.task i ∈ (fcResume c s).ready ∧ (∀ j, ¬ Waiting (fcResume c s) j) ∧
    (((fcResume c s).senders i).mustCancel = false →
      ((runTask c (fcResume c s) i).senders i).pc = .idle ∧
      (runTask c (fcResume c s) i).doneLog = (i, .ok, (s.senders i).endOff) :: s.doneLog) := by
  have hw' := hw
  unfold Waiting at hw'
  have hmem : i ∈ pendingIds c.n s.senders := mem_pendingIds hi hw'
  refine ⟨by simp [fcResume, completeAll, hw'], by simp [fcResume, completeAll, hw'], ?_, ?_, ?_⟩
  · simp [fcResume, completeAll]; exact Or.inr hmem
  · intro j; exact completeAll_none_waiting c _ _ (by simp) j
  · intro hmc
    have hpc : ((fcResume c s).senders i).pc = .atWaiter := by simp [fcResume, completeAll, hw']
    have hf : ((fcResume c s).senders i).fut = .result := by simp [fcResume, completeAll, hw']
    have he : ((fcResume c s).senders i).endOff = (s.senders i).endOff := by simp [fcResume, completeAll, hw']
    rw [runTask_result c _ i hpc hf hmc]
    simp [finish, upd, he]
    simp [fcResume, completeAll]

example :
    let c : Cfg := { kind := .wfc, n := 3, errno := 103, wlp := false, reassert := false, high := 0, low := 0 }
    let s := (run c (St.init c) [.pause, .start 0 .drain, .start 2 .drain, .turn]).1
    Waiting s 0 ∧ Waiting s 2 ∧ (step c (fcResume c s) .turn).2 = .turn [(2, .ok, none), (0, .ok, none)] := by
  decide +kernel

/-- **Every suspended sender fails with a connection error when the connection is lost** (with the given exception,
    or with the configured errno when there is none); nobody is left waiting, and a `drain()` started afterwards fails
    at once instead of parking. -/
theorem C20_all_failed_on_loss (c : Cfg) (s : St) (e : Option Nat) (hl : s.lost = false) (i : Nat) (hi : i < c.n)
    (hw : Waiting s i) :
    ((fcLost c s e).senders i).fut = .exc (e.getD c.errno) ∧ Handle.task i ∈ (fcLost c s e).ready ∧
    (∀ j, ¬ Waiting (fcLost c s e) j) ∧ (fcLost c s e).lost = true ∧
    (((fcLost c s e).senders i).mustCancel = false →
      (runTask c (fcLost c s e) i).doneLog = (i, .err (e.getD c.errno), (s.senders i).endOff) :: s.doneLog) ∧
    (∀ j, (drainBody c (fcLost c s e) j).doneLog
        = (j, .err (e.getD c.errno), ((fcLost c s e).senders j).endOff) :: (fcLost c s e).doneLog) := by
  have hw' := hw
  unfold Waiting at hw'
  have hmem : i ∈ pendingIds c.n s.senders := mem_pendingIds hi hw'
  have hl' : ¬ s.lost = true := by simp [hl]
  refine ⟨by simp [fcLost, hl', completeAll, hw'], ?_, ?_, by simp [fcLost, hl', completeAll], ?_, ?_⟩
  · simp [fcLost, hl', completeAll]; exact Or.inr hmem
  · intro j
    unfold fcLost; simp only [hl', if_false]
    exact completeAll_none_waiting c _ _ (by simp) j
  · intro hmc
    have hpc : ((fcLost c s e).senders i).pc = .atWaiter := by simp [fcLost, hl', completeAll, hw']
    have hf : ((fcLost c s e).senders i).fut = .exc (e.getD c.errno) := by simp [fcLost, hl', completeAll, hw']
    have he : ((fcLost c s e).senders i).endOff = (s.senders i).endOff := by simp [fcLost, hl', completeAll, hw']
    rw [runTask_exc c _ i _ hpc hf hmc]
    simp [finish, upd, he]
    simp [fcLost, hl', completeAll]
  · intro j
    have hlost : (fcLost c s e).lost = true := by simp [fcLost, hl', completeAll]
    have hexc : (fcLost c s e).lostExc = e := by simp [fcLost, hl', completeAll]
    unfold drainBody
    simp [hlost, finish, hexc]

example :
    let c : Cfg := { kind := .stream, n := 2, errno := 104, wlp := false, reassert := true, high := 0, low := 0 }
    let s := (run c (St.init c) [.start 0 (.send 9), .start 1 (.sendv [2, 2]), .turn, .turn]).1
    s.lost = false ∧ Waiting s 0 ∧ Waiting s 1 ∧
      (run c s [.fail (some 32), .turn, .turn]).2.getLast? = some (.turn [(1, .err 32, some 13), (0, .err 32, some 9)]) := by
  decide +kernel

/-- **Cancelling one suspended sender does not strand the others**: `task.cancel()` on sender `i` changes nothing but
    sender `i` itself (its waiter is cancelled and its wake-up scheduled): the flags, the write buffer, every other
    sender and every already scheduled wake-up are untouched — so the two theorems above still apply to the others. -/
theorem C20_cancel_one_keeps_others (s : St) (i : Nat) :
    (∀ j, j ≠ i → (cancelTask s i).senders j = s.senders j) ∧
    (cancelTask s i).paused = s.paused ∧ (cancelTask s i).lost = s.lost ∧ (cancelTask s i).tbuf = s.tbuf ∧
    (∀ h, h ∈ s.ready → h ∈ (cancelTask s i).ready) ∧
    (Waiting s i → ((cancelTask s i).senders i).fut = .cancelled ∧ Handle.task i ∈ (cancelTask s i).ready) := by
  unfold cancelTask
  refine ⟨?_, ?_, ?_, ?_, ?_, ?_⟩
  · intro j hji; repeat' split
    all_goals simp [upd, hji]
  · repeat' split
    all_goals rfl
  · repeat' split
    all_goals rfl
  · repeat' split
    all_goals rfl
  · intro h hh; repeat' split
    all_goals simp [hh]
  · intro hw
    unfold Waiting at hw
    simp [hw.1, hw.2, upd]

example :
    let c : Cfg := { kind := .wfc, n := 3, errno := 103, wlp := false, reassert := false, high := 0, low := 0 }
    let s := (run c (St.init c) [.pause, .start 0 .drain, .start 1 .drain, .start 2 .drain, .turn]).1
    Waiting s 1 ∧ (run c s [.cancel 1, .turn, .resume, .turn]).2 =
      [.cancel, .turn [(1, .cancelled, none)], .resume, .turn [(2, .ok, none), (0, .ok, none)]] := by
  decide +kernel

/-- **No lost wake-up, no sender stranded.**  For every event list (any transport kind, any number of senders, hostile
    direct pause/resume calls included), every sender task that exists in the reached state is either parked on a
    *pending* drain waiter — and then writing is paused and the connection alive, so `C20_all_resumed` /
    `C20_all_failed_on_loss` apply to it — or has its next step / wake-up in the event loop's ready queue, which the
    next loop turn runs.  In particular nothing that happens to *another* sender (cancellation, completion, error) can
    leave this one suspended without a pending waiter. -/
theorem C20_no_lost_wakeup (c : Cfg) (evs : List Ev) (i : Nat)
    (h : ((run c (St.init c) evs).1.senders i).pc ≠ .idle) :
    (Waiting (run c (St.init c) evs).1 i ∧ (run c (St.init c) evs).1.paused = true ∧ (run c (St.init c) evs).1.lost = false) ∨
    Handle.task i ∈ (run c (St.init c) evs).1.ready := by
  have hq := qinv_run c evs (qinv_init c)
  rcases hq.2 i h with hw | hm
  · exact Or.inl ⟨hw, winv_run c evs (winv_init c) i hw⟩
  · exact Or.inr hm

example :
    let c : Cfg := { kind := .stream, n := 3, errno := 104, wlp := false, reassert := true, high := 0, low := 0 }
    let s := (run c (St.init c) [.start 0 (.send 9), .start 1 (.sendv [2, 2]), .turn, .start 2 .drain, .cancel 0, .kernel 20]).1
    (s.senders 0).pc ≠ .idle ∧ (s.senders 1).pc ≠ .idle ∧ (s.senders 2).pc ≠ .idle ∧
      s.ready = [.task 2, .task 0, .task 1] := by
  decide +kernel

end EasyNet
