/-
  C08 — TLS transport is a transparent, encrypted byte stream.
  Property theorems only (model: EasyNet/Model/Tls08.lean, lemmas: EasyNet/Lemmas/Tls08*.lean).

  The model is the step machine `EasyNet.C08.step` of AsyncTLSStreamTransport's wrapper logic: any number of tasks, each
  between two awaits of `_retry_ssl_method`; the SSL object is an arbitrary `Engine` (any state type, any transition
  function); an event list is a schedule (which task calls what, which awaited lock / send_all / recv_into completes when
  and with what: every fragmentation of the ciphertext, every interleaving of the two directions, injected OSError).
  `run E (St.init e compat) evs = some s` says every event was enabled when it happened.

  The machine mirrors the code WITH docs/C08-fix-2.patch (`St.init` has `wrPolicy := .pendingNoWaiter`): in the WANT_READ
  branch the send lock is taken only if the outgoing BIO holds bytes and no other task is already queued for that lock.
  The two earlier versions of that branch (`WrPolicy.always` = no fix, `WrPolicy.pending` = docs/C08-fix-1.patch only) are
  kept as variants for the negative theorems at the end of this file.
-/
import EasyNet.Lemmas.Tls08Laws
import EasyNet.Lemmas.Tls08CtlStep
import EasyNet.Lemmas.Tls08Flush
import EasyNet.Lemmas.Tls08Duplex
import EasyNet.Lemmas.Tls08Pair
namespace EasyNet.C08
open EasyNet

/-- a scripted run used by the non-vacuity examples.  Task 0 does the handshake (WANT_READ, 2 bytes of ciphertext, done);
    task 2 sends the chunks "abc","de": WANT_READ on the first write (flush, wait for input, 1 byte arrives, retry), then a
    partial write of 2, then the rest; task 1 reads 2 bytes. -/
def exLog : List (CallKind × Resp) :=
  [ (.handshake, { out := .wantRead, cout := [9, 9, 9] }), (.handshake, { out := .ok 0, cin := 2, cout := [8] }),
    (.write, { out := .wantRead }), (.write, { out := .ok 2, cin := 1, cout := [7, 7] }), (.write, { out := .ok 1, cout := [7] }),
    (.write, { out := .ok 2, cout := [6, 6, 6] }), (.read, { out := .ok 2, data := [120, 121] }) ]

def exEvs : List Ev :=
  [ .call 0 .handshake, .resume 0 .ok, .resume 0 (.data [1, 2]), .resume 0 .ok,
    .call 2 (.sendIter [[97, 98, 99], [100, 101]]), .resume 2 (.data [3]), .resume 2 .ok, .call 1 (.recv 2) ]

end EasyNet.C08

namespace EasyNet
open EasyNet.C08

/-- **C08, nothing dropped or duplicated on the write path.**  For every engine (every script of `ssl.write` outcomes:
    partial writes, WANT_READ / WANT_WRITE at any call, errors), every number of tasks and every schedule: the bytes
    accepted by `ssl.write`, followed by what is still in `_data_deque`, are exactly the bytes handed to
    `send_all` / `send_all_from_iterable`, in call order.  And whenever a task's write loop ran to its end (the only way a
    send call can return normally), `|accepted| ≥` the number of bytes written up to and including that call:
    `(t, mark, |accepted|) ∈ completed → mark ≤ |accepted|`. -/
theorem C08_write_exactly_once {σ : Type} (E : Engine σ) (e : σ) (compat : Bool) (evs : List Ev) (s : St σ)
    (h : run E (St.init e compat) evs = some s) :
    s.accepted ++ untag s.deque.flatten = untag s.written ∧
    (∀ x ∈ s.completed, x.2.1 ≤ x.2.2) ∧ (∀ t, s.mark t ≤ s.written.length) := by
  have := run_closed (MInv.closed E) evs _ s (MInv.init e compat) h
  exact ⟨this.g.once, this.comp, this.mark⟩

example : (run scriptEngine (St.init exLog true) exEvs).map (fun s => (s.accepted, untag s.written, s.returned)) =
    some ([97, 98, 99, 100, 101], [97, 98, 99, 100, 101], [120, 121]) := by decide +kernel
example : (run scriptEngine (St.init exLog true) exEvs).map (fun s => (s.deque, s.completed)) = some ([], [(2, 5, 5)]) := by
  decide +kernel

/-- the statement is not void: the seeded write loop (`popleft` before the write, `appendleft` only after a partial write)
    loses the chunk when `write` raises WANT_READ, the real one keeps it -/
example :
    ((writeLoopPop scriptEngine 0 [tag .plain [1, 2]]
        { (St.init [(CallKind.write, ({ out := .wantRead } : Resp))] true) with written := tag .plain [1, 2] }).1.deque,
     (writeLoop scriptEngine 0 [tag .plain [1, 2]]
        { (St.init [(CallKind.write, ({ out := .wantRead } : Resp))] true) with written := tag .plain [1, 2] }).1.deque)
    = ([], [tag .plain [1, 2]]) := by decide +kernel

/-- **C08, provenance.**  Every byte passed to the wrapped transport's `send_all` came out of the outgoing BIO; what is
    pending in the BIO came from the engine; `_data_deque` only ever holds application bytes (which go nowhere but into
    `ssl.write`, see `writeLoop`); and the payloads, in call order, followed by what is still pending, are exactly the bytes
    the engine emitted — none lost, duplicated or reordered. -/
theorem C08_provenance {σ : Type} (E : Engine σ) (e : σ) (compat : Bool) (evs : List Ev) (s : St σ)
    (h : run E (St.init e compat) evs = some s) :
    (∀ p ∈ s.xmits, ∀ b ∈ p, b.1 = Org.bio) ∧ (∀ b ∈ s.wbio, b.1 = Org.bio) ∧
    (∀ c ∈ s.deque, ∀ b ∈ c, b.1 = Org.plain) ∧ s.xmits.flatten ++ s.wbio = s.outAll := by
  have := run_closed (G1.closed E) evs _ s (G1.init e compat) h
  exact ⟨this.xmitBio, this.wbioBio, this.dqPlain, this.outs⟩

example : (run scriptEngine (St.init exLog true) exEvs).map (fun s => s.xmits.map (fun p => p.map (·.1))) =
    some [[.bio, .bio, .bio], [.bio], [.bio, .bio, .bio, .bio, .bio, .bio]] := by decide +kernel

/-- **C08, the read side is a conduit.**  The ciphertext written to the incoming BIO is the ciphertext taken from the
    wrapped transport, in order (all of it as long as the BIO was not closed); the engine consumed a prefix of it; and
    recv / recv_into returned exactly what `ssl.read` produced. -/
theorem C08_conduit {σ : Type} (E : Engine σ) (e : σ) (compat : Bool) (evs : List Ev) (s : St σ)
    (h : run E (St.init e compat) evs = some s) :
    s.consumed ++ s.rbio = s.fedAll ∧ s.fedAll <+: s.taken ∧ (s.rEof = false → s.fedAll = s.taken) ∧
    s.returned = s.engRead := by
  have g := run_closed (G1.closed E) evs _ s (G1.init e compat) h
  have r := run_closed (RInv.closed E) evs _ s (by simp [RInv, St.init, St.core]) h
  exact ⟨g.ins, g.fedTaken, g.fedEq, r⟩

example : (run scriptEngine (St.init exLog true) exEvs).map (fun s => (s.taken, s.consumed, s.rbio, s.engRead)) =
    some ([1, 2, 3], [1, 2, 3], [], [120, 121]) := by decide +kernel

/-- a schedule with lock contention: task 2's write leaves 3 bytes in the BIO and is inside `transport.send_all`
    (holding the send lock) when task 1's read hits WANT_READ *and emits one byte* (so it has something to flush) and
    parks on the send lock -/
def exLog2 : List (CallKind × Resp) :=
  [ (.write, { out := .ok 2, cout := [5, 5, 5] }), (.read, { out := .wantRead, cout := [4] }),
    (.read, { out := .ok 1, data := [120] }) ]
def exEvs2 : List Ev := [.call 2 (.sendAll [97, 98]), .call 1 (.recv 4)]

/-- **C08, the two transport locks are exclusive.**  In every reachable state at most one task is inside
    `transport.send_all` and at most one inside `transport.recv_into` (so the order of the `xmits` log is the order on the
    wire, and ciphertext is fed to the incoming BIO in the order it was received); whoever is inside holds the lock; the
    tasks parked on a lock are exactly its queue, each once. -/
theorem C08_locks_exclusive {σ : Type} (E : Engine σ) (e : σ) (compat : Bool) (evs : List Ev) (s : St σ)
    (h : run E (St.init e compat) evs = some s) :
    (∀ t u, cls (s.pc t) = .holdS → cls (s.pc u) = .holdS → t = u) ∧
    (∀ t u, cls (s.pc t) = .holdR → cls (s.pc u) = .holdR → t = u) ∧
    (∀ t, cls (s.pc t) = .holdS → s.sendLock.locked = true) ∧ (∀ t, cls (s.pc t) = .holdR → s.recvLock.locked = true) ∧
    (∀ t, cls (s.pc t) = .waitS ↔ t ∈ s.sendLock.waiters) ∧ (∀ t, cls (s.pc t) = .waitR ↔ t ∈ s.recvLock.waiters) ∧
    s.sendLock.waiters.Nodup ∧ s.recvLock.waiters.Nodup := by
  have ci := run_CI (E := E) evs _ s (CI.init e compat) h
  exact ⟨ci.1.uniq, ci.2.uniq, ci.1.locked, ci.2.locked, ci.1.wait, ci.2.wait, ci.1.nodup, ci.2.nodup⟩

example : (run scriptEngine (St.init exLog2 true) exEvs2).map (fun s => (s.pc 2, s.pc 1, s.sendLock)) =
    some (.okSend .writeAll, .wrLock (.read 4), { locked := true, waiters := [1] }) := by decide +kernel

/-- **C08, no deadlock — the part that is proved.**  For every engine and every schedule:
    (1) *no wrapper-level deadlock, no lost wake-up*: in every reachable state in which some operation is incomplete, some
        task can be resumed — either a task is inside a call of the wrapped transport (its completion is the environment's
        business: "fair delivery"), or a lock is free and the head of its queue is runnable;
    (2) *flush before waiting for input*: whenever a step leaves its task waiting for ciphertext (queued for the receive
        lock or inside `transport.recv_into`), that task either just completed its own flush (`wrSend`), or was already
        queued for the receive lock, or the outgoing BIO is empty at the end of the step, or (since docs/C08-fix-2.patch)
        another task is queued on the send lock —
    (3) — and *whoever is granted the send lock flushes everything*: after the step of a task that was queued on the send
        lock and got it, the outgoing BIO is empty.  (Before the fix the last alternative of (2) did not exist: the reader
        queued behind that task instead, which is the full-duplex deadlock, see `C08_lockalways_deadlock`.)
    MISSING for the full statement ("the handshake and every transfer complete under any fair delivery"): a termination
    measure for a closed system of two endpoints under `TlsLaws` (+ the liveness law "read yields as soon as a complete
    record is available").  That part is exercised, not proved: the real-OpenSSL sessions (incl. the full-duplex sessions
    over bounded pipes) run on a virtual-time loop on which a hang is detected exactly.  Known limit of the code (see
    docs/C08.md): with two tasks in the WANT_READ branch at once, the second one waits for fresh input even if the first
    one's read already fed what it needed. -/
theorem C08_no_deadlock_partial {σ : Type} (E : Engine σ) (e : σ) (compat : Bool) (evs : List Ev) (s : St σ)
    (h : run E (St.init e compat) evs = some s) :
    ((∃ t, s.pc t ≠ .idle) → ∃ t io, (resume E s t io).isSome = true) ∧
    (∀ t io s', resume E s t io = some s' → waitsInput (s'.pc t) = true →
      (∃ m, s.pc t = .wrSend m) ∨ (∃ m, s.pc t = .rdLock m) ∨ s'.wbio = [] ∨ s'.sendLock.waiters ≠ []) ∧
    (∀ t a, s.pc t = .idle → waitsInput ((apiCall E s t a).pc t) = true →
      (apiCall E s t a).wbio = [] ∨ (apiCall E s t a).sendLock.waiters ≠ []) ∧
    (∀ t s', resume E s t .ok = some s' → cls (s.pc t) = .waitS → s'.wbio = []) := by
  have ci := run_CI (E := E) evs _ s (CI.init e compat) h
  exact ⟨progress_of_CIs E s ci, fun t io s' hs hw => resume_flush s s' t io hs hw,
         fun t a _ hw => apiCall_flush s t a hw, fun t s' hs hc => grant_flushes s s' t hs hc⟩

/-- non-vacuity: in the contended state above an operation is incomplete, and the holder can be resumed -/
example : (run scriptEngine (St.init exLog2 true) exEvs2).map
    (fun s => ((resume scriptEngine s 2 .ok).isSome, (resume scriptEngine s 1 .ok).isSome)) = some (true, false) := by
  decide +kernel

/-- … and the handshake of the first example waits for input only after its 3 bytes of output were handed to the transport -/
example : (run scriptEngine (St.init exLog true) (exEvs.take 2)).map (fun s => (s.pc 0, s.wbio, s.xmits.map List.length)) =
    some (.rdInto .handshake, [], [3]) := by decide +kernel

/-- **C08, transparency (prefix at every moment).**  Two endpoints `a` (writer) and `b` (reader), each an arbitrary run of
    the wrapper machine around an engine obeying `TlsLaws`, with any number of tasks and both directions active; the
    network is any delivery such that what `b`'s transport has returned so far is a prefix of what `a` handed to its
    transport (any fragmentation, any delay).  Then the plaintext returned by `b`'s recv / recv_into calls is a prefix of the
    plaintext written on `a`. -/
theorem C08_transparent {σa σb : Type} {Ea : Engine σa} {Eb : Engine σb} {pAB pBA : Bytes → Bytes}
    (La : TlsLaws Ea pAB pBA) (Lb : TlsLaws Eb pBA pAB) (hm : Mono pAB)
    (ea : σa) (eb : σb) (ca cb : Bool) (evsA evsB : List Ev) (a : St σa) (b : St σb)
    (ga : La.good ea) (gb : Lb.good eb)
    (ia : La.acc ea = [] ∧ La.out ea = [] ∧ La.inp ea = [] ∧ La.ret ea = [])
    (ib : Lb.acc eb = [] ∧ Lb.out eb = [] ∧ Lb.inp eb = [] ∧ Lb.ret eb = [])
    (ha : run Ea (St.init ea ca) evsA = some a) (hb : run Eb (St.init eb cb) evsB = some b)
    (net : b.taken <+: untag a.xmits.flatten) :
    b.returned <+: untag a.written := by
  have g1a := run_closed (G1.closed Ea) evsA _ a (G1.init ea ca) ha
  have g1b := run_closed (G1.closed Eb) evsB _ b (G1.init eb cb) hb
  have la := run_closed (GL.closed La) evsA _ a
    (GL.init _ ea ca ga ia) ha
  have lb := run_closed (GL.closed Lb) evsB _ b
    (GL.init _ eb cb gb ib) hb
  have rb := run_closed (RInv.closed Eb) evsB _ b (by simp [RInv, St.init, St.core]) hb
  exact chain_prefix La Lb hm a.core b.core g1a g1b la lb rb net

/-- **C08, transparency (equality at quiescence).**  If moreover nothing is left anywhere on the way — `a`'s backlog and
    outgoing BIO are empty, the network has delivered everything, `b`'s incoming BIO is empty and open, and `b`'s engine
    has handed out every complete record it consumed — then `b` has read exactly what `a` wrote. -/
theorem C08_transparent_quiescent {σa σb : Type} {Ea : Engine σa} {Eb : Engine σb} {pAB pBA : Bytes → Bytes}
    (La : TlsLaws Ea pAB pBA) (Lb : TlsLaws Eb pBA pAB)
    (ea : σa) (eb : σb) (ca cb : Bool) (evsA evsB : List Ev) (a : St σa) (b : St σb)
    (ga : La.good ea) (gb : Lb.good eb)
    (ia : La.acc ea = [] ∧ La.out ea = [] ∧ La.inp ea = [] ∧ La.ret ea = [])
    (ib : Lb.acc eb = [] ∧ Lb.out eb = [] ∧ Lb.inp eb = [] ∧ Lb.ret eb = [])
    (ha : run Ea (St.init ea ca) evsA = some a) (hb : run Eb (St.init eb cb) evsB = some b)
    (hdq : a.deque = []) (hw : a.wbio = []) (net : b.taken = untag a.xmits.flatten)
    (hr : b.rbio = []) (he : b.rEof = false) (hbuf : Lb.ret b.eng = pAB (Lb.inp b.eng)) :
    b.returned = untag a.written := by
  have g1a := run_closed (G1.closed Ea) evsA _ a (G1.init ea ca) ha
  have g1b := run_closed (G1.closed Eb) evsB _ b (G1.init eb cb) hb
  have la := run_closed (GL.closed La) evsA _ a
    (GL.init _ ea ca ga ia) ha
  have lb := run_closed (GL.closed Lb) evsB _ b
    (GL.init _ eb cb gb ib) hb
  have rb := run_closed (RInv.closed Eb) evsB _ b (by simp [RInv, St.init, St.core]) hb
  exact chain_eq La Lb a.core b.core g1a g1b la lb rb hdq hw net hr he hbuf

/-- non-vacuity: the laws are satisfiable (null cipher, writes accepted 2 bytes at a time) and a concrete full-duplex
    exchange ends with equality: `a` sends "abc" + "de" (partial writes), `b` receives the ciphertext in pieces of 1, 3
    and 1 bytes and reads it with buffers of 2 and 8 bytes. -/
def exA : List Ev := [.call 2 (.sendIter [[97, 98, 99], [100, 101]]), .resume 2 .ok]
def exB : List Ev :=
  [.call 1 (.recv 2), .resume 1 (.data [97]), .call 1 (.recv 8), .resume 1 (.data [98, 99, 100]), .call 1 (.recv 8),
   .resume 1 (.data [101])]

example : (run (nullEngine 1) (St.init {} true) exA).map (fun a => (untag a.xmits.flatten, a.deque, a.wbio)) =
    some ([97, 98, 99, 100, 101], [], []) := by decide +kernel

example : (run (nullEngine 1) (St.init {} true) exB).map (fun b => (b.taken, b.returned, b.rbio, b.rEof)) =
    some ([97, 98, 99, 100, 101], [97, 98, 99, 100, 101], [], false) := by decide +kernel

example : (nullLaws 1).good {} ∧ Mono (id : Bytes → Bytes) := ⟨⟨rfl, rfl⟩, mono_id⟩

/-! ### full duplex: the WANT_READ branch and the send lock (docs/C08-fix-2.patch) -/

/-- the situation of the full-duplex defect on one endpoint: task 2's `send_all` produced 3 bytes, took the send lock and is
    parked inside `transport.send_all` (backpressure); then task 1's `recv` hits WANT_READ with an EMPTY outgoing BIO -/
def exLog3 : List (CallKind × Resp) :=
  [ (.write, { out := .ok 2, cout := [5, 5, 5] }), (.read, { out := .wantRead }), (.read, { out := .ok 1, data := [120] }) ]

/-- **C08, the reader needs no send lock when it has nothing to flush.**  For every engine, task count and schedule, in
    every reachable state `s` of the current code:
    (1) a pass of `_retry_ssl_method` (`attempt`: what `recv`, `recv_into`, `send_all*`, the handshake and every retry run)
        whose SSL call ends in WANT_READ while the outgoing BIO is empty — or while another task is already queued on the
        send lock — does not touch the send lock: the lock is unchanged, the task ends the step queued on the RECEIVE lock or
        inside `transport.recv_into`, and the only actions logged after the SSL call are `acq recv, rcv` (receive lock free)
        or `park recv`;
    (2) a task that does wait for the send lock in the WANT_READ branch is the first of that lock's queue (it waits for
        nobody but the lock's owner) and the outgoing BIO holds bytes to flush. -/
theorem C08_reader_needs_no_send_lock_when_nothing_pending {σ : Type} (E : Engine σ) (e : σ) (compat : Bool)
    (evs : List Ev) (s : St σ) (h : run E (St.init e compat) evs = some s) :
    (∀ t m, (callMeth E t m s).2 = .exc .wantRead →
      ((callMeth E t m s).1.wbio = [] ∨ s.sendLock.waiters ≠ []) →
      (attempt E s t m).sendLock = s.sendLock ∧ waitsInput ((attempt E s t m).pc t) = true ∧
      (attempt E s t m).acts = (callMeth E t m s).1.acts ++
        (if s.recvLock.free = true then [.acq t .recv, .rcv t] else [.park t .recv])) ∧
    (∀ t m, s.pc t = .wrLock m → s.sendLock.waiters.head? = some t ∧ s.wbio ≠ []) := by
  have hpol : s.wrPolicy = .pendingNoWaiter := run_policy evs _ s h
  exact ⟨fun t m hr hn => attempt_wantRead_direct s t m hpol hr hn,
         run_WL evs _ s rfl (WLs_init e compat) h⟩

/-- non-vacuity of (1): in the situation `exLog3` the reader goes straight into `transport.recv_into`; the send lock
    (held by task 2, nobody queued) is untouched -/
example : (run scriptEngine (St.init exLog3 true) [.call 2 (.sendAll [97, 98])]).map
    (fun s => ((callMeth scriptEngine 1 (.read 4) s).2, (callMeth scriptEngine 1 (.read 4) s).1.wbio, s.pc 2, s.sendLock)) =
    some (.exc .wantRead, [], .okSend .writeAll, { locked := true, waiters := [] }) := by decide +kernel
example : (run scriptEngine (St.init exLog3 true) [.call 2 (.sendAll [97, 98])]).map
    (fun s => ((attempt scriptEngine s 1 (.read 4)).pc 1, (attempt scriptEngine s 1 (.read 4)).sendLock,
               (attempt scriptEngine s 1 (.read 4)).acts.drop s.acts.length)) =
    some (.rdInto (.read 4), { locked := true, waiters := [] },
          [.ssl 1 (.read 4) 0 { out := .wantRead }, .acq 1 .recv, .rcv 1]) := by decide +kernel

/-- non-vacuity of (2): in the contended state `exLog2` (the read emitted a byte) the reader waits for the send lock, first in
    the queue, with that byte to flush -/
example : (run scriptEngine (St.init exLog2 true) exEvs2).map (fun s => (s.pc 1, s.sendLock.waiters.head?, s.wbio)) =
    some (.wrLock (.read 4), some 1, [(.bio, 4)]) := by decide +kernel

/-- **C08, full-duplex progress: no wait-for edge from "needs ciphertext input" to the send lock's owner, unless the task
    itself has bytes to flush.**  For every engine, task count and schedule, in every reachable state:
    (1) a task of the WANT_READ branch waits for the send lock only as the first of its queue and only while the outgoing
        BIO holds bytes to flush;
    (2) hence, whenever the outgoing BIO is empty — in particular whenever the send lock's owner is parked inside
        `transport.send_all` with nothing left to flush, the configuration of the defect — every task that needs input
        (`needsInput`: the four pcs of the WANT_READ branch) is either the send lock's owner itself flushing its own bytes
        (`wrSend`), or queued on the RECEIVE lock only, or inside `transport.recv_into`;
    (3) and the receive side is live: if some task waits for input, then a task is inside `transport.recv_into` (the peer's
        `send_all` can complete), or the receive lock is free and the head of its queue is runnable.
    So the circular wait of the defect (reader → own sender → peer's reader → peer's sender → reader) cannot close through
    the send lock.  What remains unproved is named in `C08_no_deadlock_partial` (termination of whole sessions). -/
theorem C08_duplex_progress {σ : Type} (E : Engine σ) (e : σ) (compat : Bool) (evs : List Ev) (s : St σ)
    (h : run E (St.init e compat) evs = some s) :
    (∀ t m, s.pc t = .wrLock m → s.sendLock.waiters.head? = some t ∧ s.wbio ≠ []) ∧
    (s.wbio = [] → ∀ t, needsInput (s.pc t) = true →
      (∃ m, s.pc t = .wrSend m) ∨ (∃ m, s.pc t = .rdLock m) ∨ (∃ m, s.pc t = .rdInto m)) ∧
    ((∃ t, waitsInput (s.pc t) = true) → ∃ u, (∃ m, s.pc u = .rdInto m) ∨
      (s.recvLock.locked = false ∧ s.recvLock.waiters.head? = some u ∧ (resume E s u .ok).isSome = true)) := by
  have wl := run_WL evs _ s rfl (WLs_init e compat) h
  have ci := run_CI (E := E) evs _ s (CI.init e compat) h
  exact ⟨wl, fun hw t hn => needsInput_past_send_lock s wl hw t hn, fun ⟨t, ht⟩ => recv_side_live s ci t ht⟩

/-- non-vacuity: the configuration of the defect on one endpoint — owner of the send lock parked in `transport.send_all`,
    BIO empty, the reader needs input — and the reader is inside `transport.recv_into` -/
example : (run scriptEngine (St.init exLog3 true) [.call 2 (.sendAll [97, 98]), .call 1 (.recv 4)]).map
    (fun s => (s.pc 2, s.wbio, needsInput (s.pc 1), s.pc 1)) =
    some (.okSend .writeAll, [], true, .rdInto (.read 4)) := by decide +kernel
example : (run scriptEngine (St.init exLog3 true) [.call 2 (.sendAll [97, 98]), .call 1 (.recv 4)]).map
    (fun s => (s.sendLock, s.recvLock)) =
    some ({ locked := true, waiters := [] }, { locked := true, waiters := [] }) := by decide +kernel

/-! ### the negative side: the two earlier versions of the WANT_READ branch deadlock

    A closed system of two endpoints (Lemmas/Tls08Pair.lean): null cipher, two pipes of 4 bytes, `send_all` of the wrapped
    transport copies what fits and waits, `recv_into` hands out what is there.  `Pair.deadlocked E p ts`: every task of `ts`
    is inside an API call on both sides and no lock hand-over, no copy into a pipe, no completion of a `send_all` /
    `recv_into` is enabled (`pstep_idle`: events of idle tasks are never enabled). -/

/-- both sides: task 2 sends 6 bytes (the pipe holds 4), then task 1 calls `recv` -/
def dupEvs : List PEv :=
  [ .call .a 2 (.sendAll [1, 2, 3, 4, 5, 6]), .call .b 2 (.sendAll [11, 12, 13, 14, 15, 16]), .copy .a, .copy .b,
    .call .a 1 (.recv 8), .call .b 1 (.recv 8) ]

/-- **the full-duplex deadlock of the code before the fix** (`WrPolicy.always`: the WANT_READ branch takes the send lock
    even with nothing to flush).  After `dupEvs` each side's sender owns the send lock and is parked in
    `transport.send_all` with 2 bytes that do not fit into the full pipe; each side's reader hit WANT_READ with an empty
    outgoing BIO and queued on the send lock behind its own sender; nobody is in `recv_into`: the senders' completion
    depends on the peer's reader, which depends on its own sender.  Every task waits, nothing can move. -/
theorem C08_lockalways_deadlock :
    (prun (nullEngine 9) (Pair.init {} .always 4 8) dupEvs).any (fun p =>
      p.a.pc 1 == .wrLock (.read 8) && p.a.pc 2 == .okSend .writeAll && p.b.pc 1 == .wrLock (.read 8) &&
      p.b.pc 2 == .okSend .writeAll && p.a.wbio == [] && p.b.wbio == [] &&
      p.a.sendLock == { locked := true, waiters := [1] } && p.b.sendLock == { locked := true, waiters := [1] } &&
      p.a.recvLock == {} && p.b.recvLock == {} &&
      p.ab == { buf := [1, 2, 3, 4], rest := [5, 6], busy := true } &&
      p.ba == { buf := [11, 12, 13, 14], rest := [15, 16], busy := true } &&
      p.deadlocked (nullEngine 9) [1, 2]) = true := by decide +kernel

/-- the same schedule with the current code: the readers are inside `recv_into`, no deadlock — -/
example :
    (prun (nullEngine 9) (Pair.init {} .pendingNoWaiter 4 8) dupEvs).map
      (fun p => (p.a.pc 1, p.a.pc 2, p.b.pc 1, p.b.pc 2, p.deadlocked (nullEngine 9) [1, 2])) =
    some (.rdInto (.read 8), .okSend .writeAll, .rdInto (.read 8), .okSend .writeAll, false) := by decide +kernel

/-- — and the transfer can be completed: each side has read exactly what the other wrote, everything is idle and empty -/
example :
    (prun (nullEngine 9) (Pair.init {} .pendingNoWaiter 4 8)
        (dupEvs ++ [ .recv .a 1, .recv .b 1, .copy .a, .copy .b, .sent .a 2, .sent .b 2, .call .a 1 (.recv 8),
                     .call .b 1 (.recv 8), .recv .a 1, .recv .b 1 ])).any (fun p =>
      p.a.returned == [11, 12, 13, 14, 15, 16] && untag p.b.written == [11, 12, 13, 14, 15, 16] &&
      p.b.returned == [1, 2, 3, 4, 5, 6] && untag p.a.written == [1, 2, 3, 4, 5, 6] &&
      p.a.pc 1 == .idle && p.a.pc 2 == .idle && p.b.pc 1 == .idle && p.b.pc 2 == .idle && p.ab == {} && p.ba == {}) = true := by
  decide +kernel

/-- both sides: task 2 sends 6 bytes, task 3 sends 2 more (its record is written into the BIO, then it queues on the send
    lock), then task 1 calls `recv` -/
def dup2Evs : List PEv :=
  [ .call .a 2 (.sendAll [1, 2, 3, 4, 5, 6]), .call .a 3 (.sendAll [7, 8]),
    .call .b 2 (.sendAll [11, 12, 13, 14, 15, 16]), .call .b 3 (.sendAll [17, 18]), .copy .a, .copy .b,
    .call .a 1 (.recv 8), .call .b 1 (.recv 8) ]

/-- **the residual deadlock of docs/C08-fix-1.patch alone** (`WrPolicy.pending`: the send lock is taken whenever the BIO is
    not empty).  With two concurrent `send_all` tasks per side the BIO holds the record of the SECOND sender (queued on the
    send lock) when the reader hits WANT_READ: the reader queues behind it, nobody reads, both pipes are full. -/
theorem C08_fix1_residual_deadlock :
    (prun (nullEngine 9) (Pair.init {} .pending 4 8) dup2Evs).any (fun p =>
      p.a.pc 1 == .wrLock (.read 8) && p.a.pc 2 == .okSend .writeAll && p.a.pc 3 == .okLock .writeAll &&
      p.b.pc 1 == .wrLock (.read 8) && p.b.pc 2 == .okSend .writeAll && p.b.pc 3 == .okLock .writeAll &&
      untag p.a.wbio == [7, 8] && untag p.b.wbio == [17, 18] &&
      p.a.sendLock == { locked := true, waiters := [3, 1] } && p.b.sendLock == { locked := true, waiters := [3, 1] } &&
      p.ab.buf.length == 4 && p.ba.buf.length == 4 && p.deadlocked (nullEngine 9) [1, 2, 3]) = true := by decide +kernel

/-- the same schedule with the current code: somebody is already queued on the send lock (and will flush), so the readers go
    straight into `recv_into`; and the whole transfer can be completed, in order -/
example :
    (prun (nullEngine 9) (Pair.init {} .pendingNoWaiter 4 8) dup2Evs).map
      (fun p => (p.a.pc 1, p.a.pc 3, p.a.sendLock, p.deadlocked (nullEngine 9) [1, 2, 3])) =
    some (.rdInto (.read 8), .okLock .writeAll, { locked := true, waiters := [3] }, false) := by decide +kernel

example :
    (prun (nullEngine 9) (Pair.init {} .pendingNoWaiter 4 8)
        (dup2Evs ++ [ .recv .a 1, .recv .b 1, .copy .a, .copy .b, .sent .a 2, .sent .b 2, .grant .a 3, .grant .b 3, .copy .a,
                      .copy .b, .sent .a 3, .sent .b 3, .call .a 1 (.recv 8), .call .b 1 (.recv 8), .recv .a 1,
                      .recv .b 1 ])).any (fun p =>
      p.a.returned == [11, 12, 13, 14, 15, 16, 17, 18] && p.b.returned == [1, 2, 3, 4, 5, 6, 7, 8] &&
      untag p.a.written == [1, 2, 3, 4, 5, 6, 7, 8] && p.a.pc 1 == .idle && p.a.pc 2 == .idle && p.a.pc 3 == .idle &&
      p.ab == {} && p.ba == {}) = true := by
  decide +kernel

end EasyNet
