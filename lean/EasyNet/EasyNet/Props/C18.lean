/-
  C18 — Server lifecycle operations are safe in every order.
  Property theorems only (lemmas: EasyNet/Lemmas/LifeA.lean, LifeAProg.lean, LifeS.lean; models: EasyNet/Model/Life.lean —
  `A` mirrors `BaseAsyncNetworkServerImpl`, `S` mirrors `BaseStandaloneNetworkServerImpl`, both tied to
  easynetwork/servers/_base.py by the trace-admission correspondence check).

  Everything is stated for a REACHABLE state `s`: reachable from the initial state by an arbitrary list of labelled
  steps = an arbitrary family of callers (tasks / threads, `Nat → Caller`), each with an arbitrary finite program of
  serve_forever / shutdown / server_close / probe calls, under an arbitrary schedule of their atomic steps, of the
  listener task's steps, of client connections and of external `task.cancel()` requests.  No bound anywhere.
-/
import EasyNet.Lemmas.LifeA
import EasyNet.Lemmas.LifeAProg
import EasyNet.Lemmas.LifeS
import EasyNet.Lemmas.Listener
namespace EasyNet
open EasyNet.Life
set_option linter.unusedVariables false

/-- **shutdown returns only after serving has fully stopped.**
    Asynchronous server: a `shutdown()` still waiting (`dWait n`) waits on the event of the run in progress (`n` is the
    current generation, `is_shutdown` not set) and cannot return; once it has been woken (`dWoken n`, about to return)
    the run it observed is over: either a later run has been admitted since (`n < gen`), or nothing runs at all —
    `is_shutdown` is set, nobody is inside serve_forever, the listener tasks are gone and cleared, `is_serving()` is
    False (tear-down completed, `is_shutdown.set()` was its last action).  A `shutdown()` that returns at once found
    `is_shutdown` set, i.e. the same quiescent situation.
    Standalone server: the same for `self.__is_shutdown.wait()` without timeout (`dEvent`/`dWoken`): when the thread is
    woken the serve_forever thread has released everything: no embedded server, portal gone, listeners closed. -/
theorem C18_shutdown_waits :
    (∀ s : A.State, A.Reachable s → ∀ i n,
      ((s.cs i).pc = .dWait n → n = s.g.gen ∧ s.g.isShutdown = false ∧ A.advStep i 0 s.g (s.cs i) = none) ∧
      ((s.cs i).pc = .dWoken n → n ≤ s.g.gen ∧
        (n = s.g.gen → s.g.isShutdown = true ∧ s.g.runner = none ∧ s.g.tasks = .none ∧ s.g.listed = false ∧
          A.serving s.g = false ∧ ∀ j, (s.cs j).pc.inServe = false)) ∧
      (s.g.isShutdown = true → s.g.runner = none ∧ A.serving s.g = false ∧ ∀ j, (s.cs j).pc.inServe = false)) ∧
    (∀ s : S.State, S.Reachable s → ∀ i n,
      (∀ t, (s.cs i).pc = .dEvent t n → n = s.g.gen ∧ s.g.isShutdown = false ∧ S.advStep i 0 s.g (s.cs i) = none) ∧
      ((s.cs i).pc = .dWoken n → n ≤ s.g.gen ∧
        (n = s.g.gen → s.g.isShutdown = true ∧ s.g.runner = none ∧ s.g.phase = .none ∧ s.g.lsOpen = false ∧
          s.g.portalOpen = false ∧ ∀ j, (s.cs j).pc.inRun = false))) := by
  refine ⟨fun s hr i n => ?_, fun s hr i n => ?_⟩
  · have I := A.inv_reachable hr
    have quiet : s.g.isShutdown = true → s.g.runner = none ∧ s.g.tasks = .none ∧ s.g.listed = false ∧
        A.serving s.g = false ∧ ∀ j, (s.cs j).pc.inServe = false := by
      intro hsd
      have hrn := I.gi.shut.mp hsd
      obtain ⟨h1, h2, _⟩ := I.gi.idle hrn
      refine ⟨hrn, h1, h2, by simp [A.serving, h2], fun j => ?_⟩
      have := (I.ci j).1
      cases hb : (s.cs j).pc.inServe with
      | false => rfl
      | true => rw [hb] at this; have := this.mp rfl; simp_all
    obtain ⟨c1, c2, c3, c4⟩ := I.ci i
    refine ⟨fun hp => ?_, fun hp => ?_, fun hsd => ?_⟩
    · simp only [hp] at c4; exact ⟨c4.1, c4.2.1, by simp [A.advStep, hp]⟩
    · simp only [hp] at c4
      refine ⟨c4.1, fun hn => ?_⟩
      have hsd := c4.2 hn
      exact ⟨hsd, quiet hsd⟩
    · obtain ⟨h1, _, _, h4, h5⟩ := quiet hsd; exact ⟨h1, h4, h5⟩
  · have I := S.inv_reachable hr
    obtain ⟨c1, c2, c3, c4⟩ := I.ci i
    refine ⟨fun t hp => ?_, fun hp => ?_⟩
    · simp only [hp] at c4
      refine ⟨c4.1, c4.2.1, ?_⟩
      simp only [S.advStep, hp]
      -- without timeout, or with k = 0 (the timeout has not fired): not enabled
      simp
    · simp only [hp] at c4
      refine ⟨c4.1, fun hn => ?_⟩
      have hsd := c4.2 hn
      have hrn := I.gi.shut.mp hsd
      obtain ⟨h1, _, h3, h4⟩ := I.gi.idle hrn
      refine ⟨hsd, hrn, h1, h3, h4, fun j => ?_⟩
      have := (I.ci j).1
      cases hb : (s.cs j).pc.inRun with
      | false => rfl
      | true => rw [hb] at this; have := this.mp rfl; simp_all

/-- non-vacuity (asynchronous): serve_forever by caller 0 comes up, caller 1 calls shutdown and parks on the event of
    generation 1; only after the tear-down (listener task dead, cleared, `is_shutdown.set()` last) is it woken, and it
    returns `ok` after the serve_forever call. -/
example :
    ((A.run (A.State.init fun i => if i = 0 then [.serve] else if i = 1 then [.shutdown] else [])
        [.call 0, .adv 0 0, .adv 0 0, .adv 0 0, .taskRun, .adv 0 0, .call 1, .adv 0 0, .taskDie, .adv 0 0]).map
      fun s => ((s.cs 1).pc, (s.cs 0).pc, s.g.isShutdown, s.g.gen)) = some (.dWait 1, .sQuit, false, 1) ∧
    ((A.run (A.State.init fun i => if i = 0 then [.serve] else if i = 1 then [.shutdown] else [])
        [.call 0, .adv 0 0, .adv 0 0, .adv 0 0, .taskRun, .adv 0 0, .call 1, .adv 0 0, .taskDie, .adv 0 0, .adv 0 0, .adv 1 0]).map
      fun s => ((s.cs 1).results, (s.cs 0).results, s.g.isShutdown, A.serving s.g)) = some ([.ok], [.ok], true, false) := by
  decide +kernel

/-- **a stopped server can serve again unless it was closed.**  From every reachable state in which nobody is inside
    serve_forever and the server is not closed, a caller whose next call is serve_forever is admitted and there is a
    schedule that brings it to `is_serving() = True` (asynchronous: listeners re-used or created, listener task started
    and listed; standalone — when no other thread is inside serve_forever / server_close start-up, i.e. the close lock
    is free — portal open, embedded server serving, listeners open). -/
theorem C18_restartable :
    (∀ s : A.State, A.Reachable s → ∀ i rest, s.g.runner = none → s.g.factoryCb = true → (s.cs i).pc = .idle →
      (s.cs i).prog = .serve :: rest →
      ∃ ls s', A.run s ls = some s' ∧ A.serving s'.g = true ∧ (s'.cs i).pc = .sSleep ∧ s'.g.runner = some i ∧
        (s'.cs i).results = (s.cs i).results) ∧
    (∀ s : S.State, S.Reachable s → ∀ i rest, s.g.runner = none → s.g.isClosed = false → s.g.closeLock = none →
      (s.cs i).pc = .idle → (s.cs i).prog = .serve :: rest →
      ∃ ls s', S.run s ls = some s' ∧ (s'.cs i).pc = .tLoop ∧ s'.g.runner = some i ∧ s'.g.phase = .serving ∧
        s'.g.lsOpen = true ∧ s'.g.portalOpen = true ∧ s'.g.attr = true ∧ (s'.cs i).results = (s.cs i).results) :=
  ⟨fun s hr i rest h1 h2 h3 h4 => A.restart (A.inv_reachable hr) i rest h1 h2 h3 h4,
   fun s hr i rest h1 h2 h3 h4 h5 => S.restart (S.inv_reachable hr) i rest h1 h2 h3 h4 h5⟩

/-- non-vacuity: serve → shutdown → (stopped, not closed) → the hypotheses hold and a second serve_forever reaches
    serving with the same listeners. -/
example :
    ((A.run (A.State.init fun i => if i = 0 then [.serve, .serve] else if i = 1 then [.shutdown] else [])
        [.call 0, .adv 0 0, .adv 0 0, .adv 0 0, .taskRun, .adv 0 0, .call 1, .adv 0 0, .taskDie, .adv 0 0, .adv 0 0, .adv 1 0]).map
      fun s => (s.g.runner, s.g.factoryCb, (s.cs 0).pc, (s.cs 0).prog, s.g.servers)) = some (none, true, .idle, [.serve], true) ∧
    ((A.run (A.State.init fun i => if i = 0 then [.serve, .serve] else if i = 1 then [.shutdown] else [])
        [.call 0, .adv 0 0, .adv 0 0, .adv 0 0, .taskRun, .adv 0 0, .call 1, .adv 0 0, .taskDie, .adv 0 0, .adv 0 0, .adv 1 0,
         .call 0, .adv 0 0, .taskRun, .adv 0 0]).map
      fun s => (A.serving s.g, s.g.gen)) = some (true, 2) := by
  decide +kernel

/-- **a closed server refuses to serve with ServerClosedError.**  Once a `server_close()` has returned normally
    (`closeDone`), a serve_forever call ends in its very first step: with ServerClosedError — or with
    ServerAlreadyRunning while an earlier serve_forever is still being torn down (asynchronous server; the standalone
    server checks the closed flag first) — it is never admitted, never reaches serving, and leaves the listeners alone. -/
theorem C18_closed_refuses :
    (∀ s s' : A.State, A.Reachable s → s.g.closeDone = true → ∀ i rest, (s.cs i).pc = .idle → (s.cs i).prog = .serve :: rest →
      A.step s (.call i) = some s' →
      (s'.cs i).pc = .idle ∧ s'.g.lsOpen = false ∧ s'.g.closeDone = true ∧
      (s'.cs i).results = (s.cs i).results ++ [if s.g.runner = none then .closedErr else .alreadyRunning]) ∧
    (∀ s s' : S.State, S.Reachable s → s.g.closeDone = true → ∀ i k, (s.cs i).pc = .tClose →
      S.step s (.adv i k) = some s' →
      (s'.cs i).pc = .idle ∧ (s'.cs i).results = (s.cs i).results ++ [.closedErr] ∧ s'.g = s.g) := by
  refine ⟨fun s s' hr hcd i rest hpc hprog hst => ?_, fun s s' hr hcd i k hpc hst => ?_⟩
  · have I := A.inv_reachable hr
    obtain ⟨hcb, hlo⟩ := I.gi.cdone hcd
    simp only [A.step, Option.map_eq_some_iff] at hst
    obtain ⟨⟨g, c, w⟩, h1, rfl⟩ := hst
    by_cases hrn : s.g.runner = none
    · have hsd := I.gi.shut.mpr hrn
      simp [A.callStep, hpc, hprog, hsd, hcb] at h1
      obtain ⟨rfl, rfl, rfl⟩ := h1
      simp [A.upd, A.Caller.finish, A.serveEnd, hlo, hcd, hrn]
    · have hsd : s.g.isShutdown = false := by
        cases h : s.g.isShutdown with
        | false => rfl
        | true => exact absurd (I.gi.shut.mp h) hrn
      simp [A.callStep, hpc, hprog, hsd] at h1
      obtain ⟨rfl, rfl, rfl⟩ := h1
      simp [A.upd, A.Caller.finish, hlo, hcd, hrn]
  · have I := S.inv_reachable hr
    have hcl := I.gi.cdone hcd
    simp only [S.step, Option.map_eq_some_iff] at hst
    obtain ⟨⟨g, c, w⟩, h1, rfl⟩ := hst
    simp only [S.advStep, hpc] at h1
    split at h1
    · cases h1
    · simp [hcl] at h1
      obtain ⟨rfl, rfl, rfl⟩ := h1
      simp [S.upd, S.Caller.finish]

/-- non-vacuity: serve, close while serving (listener task cancelled, run stops), close returns; a later
    serve_forever gets ServerClosedError. -/
example :
    ((A.run (A.State.init fun i => if i = 0 then [.serve, .serve] else if i = 1 then [.close] else [])
        [.call 0, .adv 0 0, .adv 0 0, .adv 0 0, .taskRun, .adv 0 0, .call 1, .taskDie, .adv 1 0, .adv 1 0,
         .adv 0 0, .adv 0 0, .adv 0 0, .call 0]).map
      fun s => (s.g.closeDone, (s.cs 0).results, (s.cs 1).results, s.g.lsOpen)) = some (true, [.ok, .closedErr], [.ok], false) := by
  decide +kernel

/-- **listeners are closed after server_close.**  Asynchronous server: in every reachable state in which a
    `server_close()` has returned normally, the listeners are closed (`lsOpen = false`), `is_listening()` and
    `is_serving()` are False and the factory is gone — for ever, since `closeDone` is never reset.  A close that is
    about to return (`cLs`) has closed them already.
    Standalone server, with the embedded server's BusyResourceError propagated (`fix = true`, docs/C18-fix-1.patch):
    after a `server_close()` that returned normally the listeners are closed, or the serve_forever thread is past the
    portal exit (`portalOpen = false`, embedded run `stopped`) and closes them in its very next step, which needs no
    lock.  (With the original code, `fix = false`, this is FALSE: see the counter-example below.) -/
theorem C18_listeners_closed_after_close :
    (∀ s : A.State, A.Reachable s →
      (s.g.closeDone = true → s.g.lsOpen = false ∧ A.listening s.g = false ∧ A.serving s.g = false ∧ s.g.factoryCb = false) ∧
      (∀ i, (s.cs i).pc = .cLs → s.g.lsOpen = false ∧ s.g.factoryCb = false) ∧
      (∀ i k s', (s.cs i).pc = .cLs → A.step s (.adv i k) = some s' → s'.g.closeDone = true ∧
        (s'.cs i).results = (s.cs i).results ++ [.ok])) ∧
    (∀ s : S.State, S.Reachable s → s.g.fix = true → s.g.closeDone = true →
      s.g.isClosed = true ∧ (s.g.lsOpen = false ∨ (s.g.attr = true ∧ s.g.portalOpen = false ∧ s.g.phase = .stopped))) := by
  refine ⟨fun s hr => ?_, fun s hr hfix hcd => ?_⟩
  · have I := A.inv_reachable hr
    refine ⟨fun hcd => ?_, fun i hp => ?_, fun i k s' hp hst => ?_⟩
    · obtain ⟨hcb, hlo⟩ := I.gi.cdone hcd
      exact ⟨hlo, by simp [A.listening, hlo], by simp [A.serving, A.listening, hlo], hcb⟩
    · have := (I.ci i).2.2.2; simp only [hp] at this; exact ⟨this.2, this.1⟩
    · simp only [A.step, Option.map_eq_some_iff] at hst
      obtain ⟨⟨g, c, w⟩, h1, rfl⟩ := hst
      simp [A.advStep, hp] at h1
      obtain ⟨rfl, rfl, rfl⟩ := h1
      simp [A.upd, A.Caller.finish]
  · have I := S.inv_reachable hr
    have hcl := I.gi.cdone hcd
    refine ⟨hcl, ?_⟩
    cases hlo : s.g.lsOpen with
    | false => exact Or.inl rfl
    | true => exact Or.inr (I.gi.lsc hfix hcl hlo)

/-- non-vacuity / the defect of the unpatched code: thread 1 calls server_close while thread 0's serve_forever is in
    the set-up of the embedded server (close guard held).  With `fix = false` (BusyResourceError swallowed with the
    other RuntimeErrors) server_close returns `ok`, the closed flag is set, and the listeners are open with the server
    about to serve; with `fix = true` the same schedule ends with BusyResourceError and the server is not marked closed. -/
example :
    ((S.run (S.State.init false fun i => if i = 0 then [.serve] else if i = 1 then [.close] else [])
        [.call 0, .adv 0 0, .adv 0 0, .call 1, .adv 1 0, .adv 1 0, .adv 1 0, .adv 0 0]).map
      fun s => ((s.cs 1).results, s.g.closeDone, s.g.lsOpen, s.g.phase)) = some ([.ok], true, true, .serving) ∧
    ((S.run (S.State.init true fun i => if i = 0 then [.serve] else if i = 1 then [.close] else [])
        [.call 0, .adv 0 0, .adv 0 0, .call 1, .adv 1 0, .adv 1 0, .adv 1 0, .adv 0 0]).map
      fun s => ((s.cs 1).results, s.g.closeDone, s.g.isClosed, s.g.phase)) = some ([.busy], false, false, .serving) ∧
    ((S.run (S.State.init true fun i => if i = 0 then [.serve] else if i = 1 then [.close] else [])
        [.call 0, .adv 0 0, .adv 0 0, .adv 0 0, .call 1, .adv 1 0, .adv 1 0, .adv 1 0]).map
      fun s => ((s.cs 1).results, s.g.closeDone, s.g.lsOpen)) = some ([.ok], true, false) := by
  decide +kernel

/-- **a second concurrent serve_forever is refused with ServerAlreadyRunning; at most one runner.**
    In every reachable state at most one caller is inside serve_forever (from admission — the step that clears
    `is_shutdown` — until the step that sets it again, the last of the tear-down), and while there is one, any other
    serve_forever call ends with ServerAlreadyRunning without touching the server state (asynchronous: in its first
    step; standalone: when it gets the bootstrap lock, releasing the close lock it held). -/
theorem C18_second_serve_refused :
    (∀ s : A.State, A.Reachable s →
      (∀ i j, (s.cs i).pc.inServe = true → (s.cs j).pc.inServe = true → i = j) ∧
      (∀ r i rest s', (s.cs r).pc.inServe = true → (s.cs i).pc = .idle → (s.cs i).prog = .serve :: rest →
        A.step s (.call i) = some s' →
        s'.g = s.g ∧ (s'.cs i).pc = .idle ∧ (s'.cs i).results = (s.cs i).results ++ [.alreadyRunning] ∧
        (s'.cs r).pc = (s.cs r).pc)) ∧
    (∀ s : S.State, S.Reachable s →
      (∀ i j, (s.cs i).pc.inRun = true → (s.cs j).pc.inRun = true → i = j) ∧
      (∀ r i k s', (s.cs r).pc.inRun = true → (s.cs i).pc = .tBoot → S.step s (.adv i k) = some s' →
        (s'.cs i).pc = .idle ∧ (s'.cs i).results = (s.cs i).results ++ [.alreadyRunning] ∧
        s'.g = { s.g with closeLock := none } ∧ (s'.cs r).pc = (s.cs r).pc)) := by
  refine ⟨fun s hr => ?_, fun s hr => ?_⟩
  · have I := A.inv_reachable hr
    refine ⟨fun i j hi hj => ?_, fun r i rest s' hrs hpc hprog hst => ?_⟩
    · have h1 := (I.ci i).1.mp hi
      have h2 := (I.ci j).1.mp hj
      rw [h1] at h2; exact Option.some.inj h2
    · have hrn := (I.ci r).1.mp hrs
      have hsd : s.g.isShutdown = false := by
        cases h : s.g.isShutdown with
        | false => rfl
        | true => have := I.gi.shut.mp h; simp_all
      have hne : r ≠ i := fun h => by subst h; simp [hpc, A.Pc.inServe] at hrs
      simp only [A.step, Option.map_eq_some_iff] at hst
      obtain ⟨⟨g, c, w⟩, h1, rfl⟩ := hst
      simp [A.callStep, hpc, hprog, hsd] at h1
      obtain ⟨rfl, rfl, rfl⟩ := h1
      simp [A.upd, A.Caller.finish, hne]
  · have I := S.inv_reachable hr
    refine ⟨fun i j hi hj => ?_, fun r i k s' hrs hpc hst => ?_⟩
    · have h1 := (I.ci i).1.mp hi
      have h2 := (I.ci j).1.mp hj
      rw [h1] at h2; exact Option.some.inj h2
    · have hrn := (I.ci r).1.mp hrs
      have hsd : s.g.isShutdown = false := by
        cases h : s.g.isShutdown with
        | false => rfl
        | true => have := I.gi.shut.mp h; simp_all
      have hne : r ≠ i := fun h => by subst h; simp [hpc, S.Pc.inRun] at hrs
      simp only [S.step, Option.map_eq_some_iff] at hst
      obtain ⟨⟨g, c, w⟩, h1, rfl⟩ := hst
      simp only [S.advStep, hpc] at h1
      split at h1
      · cases h1
      · rw [if_pos hsd] at h1
        simp only [Option.some.injEq, Prod.mk.injEq] at h1
        obtain ⟨rfl, rfl, rfl⟩ := h1
        simp [S.upd, S.Caller.finish, hne]

/-- non-vacuity: two callers call serve_forever "at the same time" (caller 1 right after caller 0's first step, and
    again during caller 0's tear-down): both attempts of caller 1 get ServerAlreadyRunning, the third, after the
    tear-down, is admitted. -/
example :
    ((A.run (A.State.init fun i => if i = 0 then [.serve] else if i = 1 then [.serve, .serve, .serve] else if i = 2 then [.shutdown] else [])
        [.call 0, .call 1, .adv 0 0, .adv 0 0, .adv 0 0, .taskRun, .adv 0 0, .call 2, .adv 0 0, .call 1, .taskDie, .adv 0 0,
         .adv 0 0, .call 1]).map
      fun s => ((s.cs 1).results, (s.cs 1).pc, (s.cs 0).results, s.g.runner)) =
      some ([.alreadyRunning, .alreadyRunning], .sInit, [.ok], some 1) := by
  decide +kernel

/-- **no call deadlocks.**  In every reachable state of either machine, either some internal step is enabled
    (a caller resumes; the listener task runs its first step or finishes dying; a client task cancelled by the
    tear-down finishes), or EVERY caller is between two calls (and can issue its next call: calls are always enabled)
    or is the one inside serve_forever in its main sleep with nobody having asked it to stop.  So a `shutdown` waiting
    for the event, a `server_close` waiting for the lock or for the listener tasks, a thread waiting for the close /
    bootstrap lock or for the portal to drain are never all stuck: the wait-for relation
      shutdown-waiter → runner → (listener task | client tasks),   lock-waiter → lock holder → (listener task | runner)
    is acyclic and bottoms out in an enabled step (lemmas `runner_progress`, `holder_progress`, `boot_holder_progress`,
    `close_holder_progress`).  Parametric in the number of callers and in their programs. -/
theorem C18_no_deadlock :
    (∀ s : A.State, A.Reachable s →
      A.Progress s ∨ ∀ i, (s.cs i).pc = .idle ∨
        ((s.cs i).pc = .sSleep ∧ s.g.runner = some i ∧ s.g.runCancel = false ∧ (s.cs i).ext = false)) ∧
    (∀ s : S.State, S.Reachable s →
      S.Progress s ∨ ∀ i, (s.cs i).pc = .idle ∨
        ((s.cs i).pc = .tLoop ∧ s.g.runner = some i ∧ s.g.phase = .serving ∧ s.g.innerCancel = false)) :=
  ⟨fun s hr => A.no_deadlock (A.inv_reachable hr), fun s hr => S.no_deadlock (S.inv_reachable hr)⟩

/-- calls are always enabled: a caller between two calls with a non-empty program can issue the next one -/
theorem C18_call_enabled :
    (∀ (s : A.State) i op rest, (s.cs i).pc = .idle → (s.cs i).prog = op :: rest → (A.step s (.call i)).isSome = true) ∧
    (∀ (s : S.State) i op rest, (s.cs i).pc = .idle → (s.cs i).prog = op :: rest → (S.step s (.call i)).isSome = true) := by
  refine ⟨fun s i op rest hpc hprog => ?_, fun s i op rest hpc hprog => ?_⟩
  · cases op <;> simp [A.step, A.callStep, hpc, hprog] <;> (try split) <;> (try split) <;> (try split) <;> simp
  · cases op <;> simp [S.step, S.callStep, hpc, hprog]

/-- non-vacuity: a state where the only non-idle caller is the runner in its main sleep (no internal step enabled),
    and a state (shutdown waiting during the tear-down, close waiting for the lock) where blocked callers exist and an
    internal step is enabled. -/
example :
    ((A.run (A.State.init fun i => if i = 0 then [.serve] else [])
        [.call 0, .adv 0 0, .adv 0 0, .adv 0 0, .taskRun, .adv 0 0]).map
      fun s => ((s.cs 0).pc, s.g.tasks, (A.advStep 0 0 s.g (s.cs 0)).isSome)) = some (.sSleep, .up, false) ∧
    ((A.run (A.State.init fun i => if i = 0 then [.serve] else if i = 1 then [.close] else if i = 2 then [.close] else if i = 3 then [.shutdown] else [])
        [.call 0, .adv 0 0, .adv 0 0, .adv 0 0, .taskRun, .adv 0 0, .call 1, .call 2, .call 3]).map
      fun s => ((s.cs 1).pc, (s.cs 2).pc, (s.cs 3).pc, s.g.tasks, (A.advStep 0 0 s.g (s.cs 0)).isSome)) =
      some (.cTasks true, .cLock, .dWait 1, .dying, true) := by
  decide +kernel

/-- **C18, a stopped server can serve again: the listener's "accept in progress" marker.**  `shutdown()` does not close the
    listeners (the next `serve_forever()` reuses them): it cancels the task that sits in `ListenerSocketAdapter.raw_accept()`.
    For EVERY history of accept calls, accept results (connections, capacity errors with their 100 ms back-off, ignorable and
    other errors), external cancellations landing in `sock_accept()` or in the back-off sleep, and closes: the marker is set
    exactly while a task is inside `raw_accept()`; hence whenever none is (the server was stopped, however the accept ended),
    the next `raw_accept()` of an open listener starts a new accept — it never answers EBUSY — and the one of a closed
    listener answers EBADF. -/
theorem C18_listener_restartable (es : List Lsn.Ev) :
    ((Lsn.run Lsn.St.init es).marker = true ↔ (Lsn.run Lsn.St.init es).apc ≠ .idle) ∧
    ((Lsn.run Lsn.St.init es).apc = .idle → (Lsn.run Lsn.St.init es).sockRef = true →
      Lsn.step (Lsn.run Lsn.St.init es) .acceptCall = some ((Lsn.run Lsn.St.init es).enterScope .accept, none)) ∧
    ((Lsn.run Lsn.St.init es).apc = .idle → (Lsn.run Lsn.St.init es).sockRef = false →
      Lsn.step (Lsn.run Lsn.St.init es) .acceptCall = some (Lsn.run Lsn.St.init es, some .ebadf)) := by
  have h := Lsn.Inv.init.run es rfl
  generalize Lsn.run Lsn.St.init es = s at h
  obtain ⟨h1, _, _, _, _⟩ := h
  refine ⟨h1, ?_, ?_⟩
  · intro hi hr
    have hm : s.marker = false := by
      cases hmk : s.marker with
      | false => rfl
      | true => exact absurd hi (h1.mp hmk)
    simp [Lsn.step, hi, hm, hr]
  · intro hi hr
    have hm : s.marker = false := by
      cases hmk : s.marker with
      | false => rfl
      | true => exact absurd hi (h1.mp hmk)
    simp [Lsn.step, hi, hm, hr]

/-- non-vacuity: accept fails with a capacity error, the shutdown lands in the back-off, the next serve accepts again -/
example : Lsn.trace Lsn.St.init [.acceptCall, .acceptDone .capacity, .extCancel, .acceptCall, .acceptDone .ok] =
    [none, none, some .acceptCancelled, none, some .accepted] := by decide +kernel

end EasyNet
