/-
  C12 — Concurrent senders never interleave packets.
  Property theorems only (lemmas: EasyNet/Lemmas/Senders*.lean, model: EasyNet/Model/Senders.lean).

  The model is the interleaving transition system `EasyNet.C12.step`: any number of sender tasks, each between two
  awaits of  `async with send_lock: … with send_guard: await transport.send_all_from_iterable(chunks)`,
  the lock being a statement-level copy of `FairLock`, the guard of `ResourceGuard`, and the transport writing
  an arbitrary number of bytes (`write t n`) before suspending the sender again, as often as it likes.
  A *schedule* is any list of events; `run cfg Sys.init evs = some s` says every event was possible when it
  happened, so the theorems quantify over all interleavings, all partial-write patterns, all packet lists,
  any number of senders, and all cancellations of senders parked in the lock.
-/
import EasyNet.Lemmas.SendersLock
import EasyNet.Lemmas.TlsSend
namespace EasyNet.C12
open EasyNet

/-- a schedule used by the non-vacuity examples: three senders, sender 0 sends two packets.
    s0 takes the lock and is suspended inside its first packet after 1 byte; s1 and s2 park; s2 is cancelled while
    parked; s0 finishes (two more partial writes), the lock is handed to s1 while s0 comes back and queues behind it. -/
def exCfg : Cfg :=
  { useLock := true,
    packets := fun t => if t = 0 then [[1, 2, 3], [4]] else if t = 1 then [[5, 6]] else if t = 2 then [[7]] else [] }

def exEvs : List Ev :=
  [.send 0, .xmit 0, .write 0 1, .send 1, .send 2, .write 0 1, .cancel 2, .write 0 5, .ret 0,
   .send 0, .resume 1, .xmit 1, .write 1 1, .write 1 1, .ret 1, .resume 0, .xmit 0, .write 0 9, .ret 0]

/-- is this a step of the system itself (as opposed to a new call or a cancellation coming from outside)? -/
def Ev.internal : Ev → Bool
  | .send _ => false
  | .cancel _ => false
  | _ => true

end EasyNet.C12

namespace EasyNet
open EasyNet.C12

/-- **C12, main sentence.**  For every configuration (with or without the lock above the endpoint), every number of
    senders and every schedule: the bytes on the wire are the completed packets, whole and in completion order,
    followed by a prefix `pre` of the one packet currently being written (empty when nobody is inside the transport);
    and for every sender the packets it has on the wire are exactly its successful calls, each once, in call order
    (`okIdx` lists the indices of the calls that returned normally; it is strictly increasing). -/
theorem C12_contiguous (cfg : Cfg) (evs : List Ev) (s : Sys) (h : run cfg Sys.init evs = some s) :
    (∃ pre, s.wire = flat cfg s.order ++ pre ∧
        (∀ t r, s.pc t = .sending r → cfg.pkt t (s.idx t) = pre ++ r) ∧
        ((∀ t, (s.pc t).isSending = false) → pre = [])) ∧
    (∀ t, (s.order.filter (fun p => p.1 == t)).map (·.2) = okIdx (s.res t) 0) ∧
    (∀ t, ((s.order.filter (fun p => p.1 == t)).map (·.2)).Pairwise (· < ·)) := by
  have hw := (WireInv.init cfg).run h
  refine ⟨hw.wire, hw.ord, ?_⟩
  intro t; rw [hw.ord t]; exact okIdx_pairwise _ _

example : (run exCfg Sys.init exEvs).map (fun s => (s.wire, s.order)) =
    some ([1, 2, 3, 5, 6, 4], [(0, 0), (1, 0), (0, 1)]) := by decide +kernel

/-- the same schedule stopped in the middle of s1's packet: one byte of it is on the wire, after s0's whole packet -/
example : (run exCfg Sys.init (exEvs.take 13)).map (fun s => (s.wire, s.order)) =
    some ([1, 2, 3, 5], [(0, 0)]) := by decide +kernel

/-- **C12, quiescent form.**  When no sender is inside `send_packet` any more, the wire is exactly the concatenation
    of the successfully sent packets in an order that is a merge of the per-sender sequences. -/
theorem C12_contiguous_quiescent (cfg : Cfg) (evs : List Ev) (s : Sys) (h : run cfg Sys.init evs = some s)
    (hq : ∀ t, s.pc t = .idle) :
    s.wire = flat cfg s.order ∧ ∀ t, (s.order.filter (fun p => p.1 == t)).map (·.2) = okIdx (s.res t) 0 := by
  obtain ⟨⟨pre, hwire, _, hpre⟩, hord, _⟩ := C12_contiguous cfg evs s h
  have : pre = [] := hpre (fun t => by rw [hq t]; rfl)
  subst this
  exact ⟨by simpa using hwire, hord⟩

example : (run exCfg Sys.init exEvs).map (fun s => [s.pc 0, s.pc 1, s.pc 2]) = some [.idle, .idle, .idle] := by
  decide +kernel

/-- **Every call succeeds** (client objects: the lock is above the guard).  No `send_packet` call ever ends in
    `BusyResourceError` or in a `RuntimeError` from `release()`, in any schedule. -/
theorem C12_all_succeed (cfg : Cfg) (hul : cfg.useLock = true) (evs : List Ev) (s : Sys)
    (h : run cfg Sys.init evs = some s) : ∀ t, ∀ o ∈ s.res t, o.failed = false :=
  (inv_run hul (WireInv.init cfg) LockInv.init h).2.noFail

example : (run exCfg Sys.init exEvs).map (fun s => [s.res 0, s.res 1, s.res 2]) =
    some [[.ok, .ok], [.ok], [.cancelled]] := by decide +kernel

/-- without the lock the guard does refuse (so `C12_all_succeed` is not vacuous): second caller gets `busy`,
    and the wire still carries only the whole packet of the first one (`C12_contiguous` covers this mode too) -/
example : (run { exCfg with useLock := false } Sys.init [.send 0, .write 0 1, .send 1, .write 0 5, .ret 0]).map
    (fun s => (s.wire, s.res 0, s.res 1)) = some ([1, 2, 3], [.ok], [.busy]) := by decide +kernel

/-- **FairLock: mutual exclusion.**  At most one sender owns the lock (is between acquire and release), and
    `_locked` is true exactly then. -/
theorem C12_fairlock_mutex (cfg : Cfg) (hul : cfg.useLock = true) (evs : List Ev) (s : Sys)
    (h : run cfg Sys.init evs = some s) :
    (∀ t u, (s.pc t).crit = true → (s.pc u).crit = true → t = u) ∧
    (s.lock.locked = true ↔ ∃ t, (s.pc t).crit = true) :=
  let hl := (inv_run hul (WireInv.init cfg) LockInv.init h).2
  ⟨hl.one, hl.locked⟩

/-- **FairLock: first come, first served.**  `acquire()` calls are numbered in call order (`ticket`);
    the lock is granted in strictly increasing ticket order, and every sender still queued holds a later ticket than
    every grant so far, in queue order — also when queued senders are cancelled in between. -/
theorem C12_fairlock_fifo (cfg : Cfg) (hul : cfg.useLock = true) (evs : List Ev) (s : Sys)
    (h : run cfg Sys.init evs = some s) :
    (s.granted ++ s.lock.waiters.map (fun w => s.ticket w.1)).Pairwise (· < ·) :=
  (inv_run hul (WireInv.init cfg) LockInv.init h).2.tickets

example : (run exCfg Sys.init exEvs).map (fun s => s.granted) = some [0, 1, 3] := by decide +kernel
example : (run exCfg Sys.init (exEvs.take 10)).map (fun s => (s.granted, s.lock.waiters)) =
    some ([0], [(1, true), (0, false)]) := by decide +kernel

/-- **FairLock: no lost wake-up.**  Whenever the lock is free and somebody is queued, the head of the queue has its
    event set (so the loop will resume it), in every schedule including cancellations of waiters; only the head is
    ever set; and the queued senders are exactly the senders parked in `acquire()`. -/
theorem C12_fairlock_no_lost_wakeup (cfg : Cfg) (hul : cfg.useLock = true) (evs : List Ev) (s : Sys)
    (h : run cfg Sys.init evs = some s) :
    (s.lock.locked = false → ∀ w, s.lock.waiters.head? = some w → w.2 = true) ∧
    (∀ w ∈ s.lock.waiters.tail, w.2 = false) ∧
    (∀ t, s.pc t = .waiting ↔ t ∈ s.lock.waiters.map (·.1)) :=
  let hl := (inv_run hul (WireInv.init cfg) LockInv.init h).2
  ⟨hl.headSet, hl.tailUnset, hl.waiting⟩

/-- the cancelled waiter was the one about to be woken: the wake-up is passed on (state after `.cancel 2` in a
    schedule where s2 queues first) -/
example : (run exCfg Sys.init [.send 0, .send 2, .send 1, .rel 0, .cancel 2]).map (fun s => (s.lock.locked, s.lock.waiters)) =
    some (false, [(1, true)]) := by decide +kernel

/-- **No deadlock.**  In every reachable state in which some sender is inside `send_packet`, an internal step is
    possible (the owner can move on, or — the lock being free — the head waiter can be resumed): nobody waits for a
    wake-up that never comes.  Transport writes are assumed to be eventually offered (`write t n` with `n ≥ 1`). -/
theorem C12_no_deadlock (cfg : Cfg) (hul : cfg.useLock = true) (evs : List Ev) (s : Sys)
    (h : run cfg Sys.init evs = some s) (t : Tid) (ht : s.pc t ≠ .idle) :
    ∃ e, e.internal = true ∧ (step cfg s e).isSome = true := by
  have hl := (inv_run hul (WireInv.init cfg) LockInv.init h).2
  have owner : ∀ u, (s.pc u).crit = true → ∃ e, e.internal = true ∧ (step cfg s e).isSome = true := by
    intro u hu
    cases hpc : s.pc u with
    | idle => rw [hpc] at hu; cases hu
    | waiting => rw [hpc] at hu; cases hu
    | holding => exact ⟨.xmit u, rfl, by simp [step, hpc]⟩
    | sending r =>
      cases r with
      | nil => exact ⟨.ret u, rfl, by simp [step, hpc]⟩
      | cons b r => exact ⟨.write u 1, rfl, by simp [step, hpc]⟩
  cases hpc : s.pc t with
  | idle => exact absurd hpc ht
  | holding => exact owner t (by rw [hpc]; rfl)
  | sending r => exact owner t (by rw [hpc]; rfl)
  | waiting =>
    cases hlk : s.lock.locked with
    | true =>
      obtain ⟨u, hu⟩ := hl.locked.1 hlk
      exact owner u hu
    | false =>
      have hmem := (hl.waiting t).1 hpc
      cases hws : s.lock.waiters with
      | nil => rw [hws] at hmem; cases hmem
      | cons w rest =>
        have hset : w.2 = true := hl.headSet hlk w (by rw [hws]; rfl)
        have hwait : s.pc w.1 = .waiting := (hl.waiting w.1).2 (by rw [hws]; simp)
        refine ⟨.resume w.1, rfl, ?_⟩
        have : s.lock.isSet w.1 = true := by
          simp only [FairLock.isSet, hws, List.any_cons, beq_self_eq_true, hset, Bool.and_self, Bool.true_or]
        simp [step, hwait, this]

example : (run exCfg Sys.init (exEvs.take 10)).map (fun s => (s.pc 0, s.lock.locked, (step exCfg s (.resume 1)).isSome)) =
    some (.waiting, false, true) := by decide +kernel

/-- TLS schedule for the non-vacuity examples: s0 flushes its packet in two pieces; meanwhile s1 and s2 write theirs
    to the SSL object and park on the send lock; s1, resumed, flushes the ciphertext of both; s2 finds nothing left. -/
def C12.exTls : List TEv :=
  [.send 0, .write 0 2, .send 1, .send 2, .write 0 9, .ret 0, .resume 1, .write 1 1, .write 1 9, .ret 1, .resume 2]

/-- **TLS transport: backlog order.**  For every schedule of concurrent `send_all` / `send_all_from_iterable` callers:
    what the lower transport has written, followed by the blob being written, followed by what still waits in the
    write BIO, is the data of all calls, whole, in the order the calls were made (so each call's bytes are contiguous
    and each caller's calls keep their order); only the owner of the send lock is flushing; and once every call has
    returned everything is on the lower transport. -/
theorem C12_tls_backlog_order (cfg : Cfg) (evs : List TEv) (s : TlsSys) (h : trun cfg TlsSys.init evs = some s) :
    s.twire ++ s.inflight ++ s.bio = flat cfg s.calls ∧
    (∀ t, (s.calls.filter (fun p => p.1 == t)).map (·.2) =
        List.range (s.base.idx t + (if s.base.pc t = .idle then 0 else 1))) ∧
    (∀ t u, s.base.pc t = .holding → s.base.pc u = .holding → t = u) ∧
    ((∀ t, s.base.pc t = .idle) → s.twire = flat cfg s.calls) := by
  have hi := (TlsInv.init cfg).run h
  refine ⟨hi.data, hi.order, ?_, ?_⟩
  · intro t u ht hu
    exact hi.li.one t u (by rw [ht]; rfl) (by rw [hu]; rfl)
  · intro hq
    have h1 : s.inflight = [] := hi.quiet (fun t => by rw [hq t]; simp)
    have h2 : s.bio = [] := by
      cases hb : s.bio with
      | nil => rfl
      | cons x r =>
        obtain ⟨t, ht⟩ := hi.pending (by rw [hb]; simp)
        rw [hq t] at ht; cases ht
    have := hi.data; rw [h1, h2] at this; simpa using this

example : (trun exCfg TlsSys.init C12.exTls).map (fun s => (s.twire, s.inflight ++ s.bio, s.calls)) =
    some ([1, 2, 3, 5, 6, 7], [], [(0, 0), (1, 0), (2, 0)]) := by decide +kernel
example : (trun exCfg TlsSys.init C12.exTls).map (fun s => [s.base.pc 0, s.base.pc 1, s.base.pc 2]) =
    some [.idle, .idle, .idle] := by decide +kernel

/-- in the middle: s0's blob half written, the ciphertext of s1 and s2 waiting in the BIO in call order -/
example : (trun exCfg TlsSys.init (C12.exTls.take 4)).map (fun s => (s.twire, s.inflight, s.bio)) =
    some ([1, 2], [3], [5, 6, 7]) := by decide +kernel

end EasyNet
