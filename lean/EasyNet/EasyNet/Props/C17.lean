/-
  C17 — One client's failure (handler or connection set-up) never affects the others.  Property theorems only.

  The tables (`Gen.Iso.*`: exception classes with their live subclass relation, every per-client filter read from the AST,
  the nesting map hook position -> enclosing filters) are regenerated from the Python source on every run, so every
  theorem below that mentions them is re-checked against what the code says now.  "Exception tree" = an exception object
  of arbitrary shape (a naked exception, or (Base)ExceptionGroups nested to any depth and width) all of whose leaves are
  instances of `Exception` — what the property promises isolation for.

  Model: EasyNet/Model/Iso.lean (PEP 654 semantics of `except` / `except*` on trees; the TCP exit-stack epilogue; UDP through
  Model/DgramSrv.lean of C16).  Lemmas: EasyNet/Lemmas/Iso.lean, IsoTcp.lean, IsoUdp.lean.
-/
import EasyNet.Gen.IsoTables
import EasyNet.Lemmas.IsoTcp
import EasyNet.Lemmas.IsoUdp
namespace EasyNet
open EasyNet.Iso EasyNet.Gen.Iso

namespace C17aux

theorem all_complete : ∀ c : Cls, c ∈ allCls := by
  intro c
  cases c <;> decide

theorem eg_is_exception : K.sub K.eg K.exc = true := by decide +kernel

/-- the decidable guard check of one chain of layers -/
def guarded (ls : List (Layer Cls)) : Bool := ls.any (Layer.plainTotal K allCls)

def posGuarded (p : Position) : Bool :=
  match chainLayers filters p.filters with
  | some ls => guarded ls
  | none => false

def filterGuarded (n : String) : Bool :=
  match findFilter filters n with
  | some f => guarded f.layers
  | none => false

/-- TCP hook positions of the nesting map, by name -/
def tcpHookPositions : List String := ["oc_coro", "oc_pre", "oc_post", "oc_thrown", "h_pre", "h_post", "h_thrown", "h_gexit", "od"]

end C17aux
open C17aux

/-- **Every per-client outer filter is total on Exception trees.**  `__suppress_and_log_remaining_exception` (TCP),
    `_ClientContext.__aexit__` (UDP), the listener's `client_connection_task` handler (accepted-socket set-up) and the TLS
    listener's handshake wrapper each swallow every exception tree, of any shape, whose leaves are all `Exception`s:
    nothing escapes them. -/
theorem C17_filter_total :
    ∀ f ∈ filters, f.outer = true → ∀ t : Tree Cls, t.allExc K = true → (runLayers K f.layers t).1 = none := by
  have h : ∀ f ∈ filters, f.outer = true → guarded f.layers = true := by decide +kernel
  intro f hf ho t ht
  exact guarded_swallows K allCls all_complete eg_is_exception f.layers (h f hf ho) t ht

/-- non-vacuity: the four outer filters exist, and the check can fail (a filter narrowed to `except OSError` lets a
    `ValueError` through) -/
example : (filters.filter (·.outer)).map (·.name) =
    ["tcp.suppress_and_log", "listener.client_connection_task", "tls.handler_wrapper", "udp.client_context_aexit"] := by
  decide +kernel

example : (runLayers K [⟨false, [⟨[.cOSError], .silent, .swallow⟩]⟩] (.group [.leaf .cValueError])).1.isSome = true ∧
    guarded [⟨false, [⟨[.cOSError], .silent, .swallow⟩]⟩] = false := by decide +kernel

example : (Tree.group [.leaf .cValueError, .group [.leaf .cClientClosedError, .leaf .cOSError]]).allExc K = true := by
  decide +kernel

/-- **Every hook position is guarded.**  For every position of the generated nesting map (TCP / TCP+TLS: `on_connection`
    as coroutine, before / after its yield, on a thrown error; `handle` before its first yield, after any yield, while
    handling a thrown error, on generator close; `on_disconnection`; accepted-socket set-up; TLS handshake — UDP: `handle`
    before its first yield, after a yield, on a thrown error) the composition of the enclosing filters swallows every
    Exception tree: nothing reaches the server's task group. -/
theorem C17_every_position_guarded :
    ∀ p ∈ nesting, ∃ ls, chainLayers filters p.filters = some ls ∧
      ∀ t : Tree Cls, t.allExc K = true → (runLayers K ls t).1 = none := by
  have h : ∀ p ∈ nesting, posGuarded p = true := by decide +kernel
  intro p hp
  have hg := h p hp
  unfold posGuarded at hg
  split at hg
  · rename_i ls hls
    exact ⟨ls, hls, guarded_swallows K allCls all_complete eg_is_exception ls hg⟩
  · simp at hg

/-- non-vacuity: the map has the positions of all three server kinds, and a concrete nested tree is swallowed at one -/
example : nesting.length ≥ 24 ∧ (nesting.map (·.kind)).eraseDups = ["tcp", "tcp-tls", "udp"] := by decide +kernel

example : nesting.any (fun p => p.kind == "tcp" && p.pos == "od" &&
    match chainLayers filters p.filters with
    | some ls => (runLayers K ls (.group [.leaf .cConnectionResetError, .group [.leaf .cValueError]])).1.isNone
    | none => false) = true := by decide +kernel

/-- **The boundary (converse).**  If something does escape the filters of a position and reaches the task group, the
    exception raised contained a leaf that is not an `Exception` (`CancelledError`, `KeyboardInterrupt`, `SystemExit`,
    another `BaseException`); and what escapes is made of leaves of what was raised. -/
theorem C17_taskgroup_unaffected :
    ∀ p ∈ nesting, ∀ ls, chainLayers filters p.filters = some ls → ∀ t r : Tree Cls,
      (runLayers K ls t).1 = some r →
      (∃ c ∈ t.leaves, K.sub c K.exc = false) ∧ ∀ c ∈ r.leaves, c ∈ t.leaves := by
  have h : ∀ p ∈ nesting, posGuarded p = true := by decide +kernel
  intro p hp ls hls t r hr
  have hg := h p hp
  unfold posGuarded at hg
  rw [hls] at hg
  exact escape_has_nonexc K allCls all_complete eg_is_exception ls hg t r hr

/-- non-vacuity: escapes exist — a `KeyboardInterrupt` inside a group goes through the UDP chain -/
example : nesting.any (fun p => p.kind == "udp" && p.pos == "h_post" &&
    match chainLayers filters p.filters with
    | some ls => (runLayers K ls (.group [.leaf .cValueError, .leaf .cKeyboardInterrupt])).1.isSome
    | none => false) = true := by decide +kernel

/-- **TCP: the faulty connection is closed and `on_disconnection` runs as documented.**  On the exit-stack machine of the
    client task, for every TCP / TCP+TLS hook position of the generated map, every generator index / request index and every
    Exception tree: the transport ends closed, nothing is left in flight, every started `handle` generator was closed, and
    `on_disconnection` ran exactly once if `on_connection` had completed and not at all otherwise — never twice.
    (`p.odRegistered` / `p.ocCompleted` are read from the statement order in misc.py; that they coincide is part of
    the statement: it is the documented contract "not called if on_connection raises / is still running".) -/
theorem C17_tcp_closes_and_disconnects :
    ∀ p ∈ nesting, p.kind ≠ "udp" → p.pos ∈ tcpHookPositions →
      p.odRegistered = p.ocCompleted ∧
      ∀ tp : TcpPos, tp.name = p.pos → ∀ t : Tree Cls, t.allExc K = true →
        let s := tcpRun K filters p.odRegistered tp t
        s.closed = true ∧ s.inflight = none ∧ s.gensStarted = s.gensClosed ∧
        s.ocDone = p.ocCompleted ∧ s.odCount = (if s.ocDone then 1 else 0) ∧ s.odCount ≤ 1 := by
  have htab : ∀ p ∈ nesting, p.kind ≠ "udp" → p.pos ∈ tcpHookPositions →
      p.odRegistered = p.ocCompleted ∧ p.ocCompleted = !(p.pos ∈ ["oc_coro", "oc_pre", "oc_post", "oc_thrown"]) := by
    decide +kernel
  have hF : filterGuarded "tcp.suppress_and_log" = true := by decide +kernel
  unfold filterGuarded at hF
  split at hF
  case h_2 => simp at hF
  rename_i F hFind
  intro p hp hk hpos
  obtain ⟨h1, h2⟩ := htab p hp hk hpos
  refine ⟨h1, ?_⟩
  intro tp hname t ht
  have hspec := tcpRun_spec K filters allCls all_complete eg_is_exception F hFind hF p.odRegistered tp t ht
  have hoc : p.ocCompleted = !tp.ocFault := by
    rw [h2, ← hname]
    cases tp <;> simp [TcpPos.name, TcpPos.ocFault]
  obtain ⟨c1, c2, c3, c4, c5⟩ := hspec
  refine ⟨c1, c2, c5, ?_, ?_, ?_⟩
  · rw [c3, hoc]
  · rw [c4, c3, h1, hoc]
    cases tp.ocFault <;> simp
  · rw [c4]
    split <;> omega

/-- non-vacuity: the TCP hook positions are in the map with both values of the flag, and the machine does run
    `on_disconnection` once for a fault in `handle` and not at all for a fault in `on_connection` -/
example : (nesting.filter (fun p => p.kind == "tcp" && tcpHookPositions.contains p.pos)).map (fun p => (p.pos, p.ocCompleted)) =
    [("oc_coro", false), ("oc_pre", false), ("oc_post", false), ("oc_thrown", false), ("h_pre", true), ("h_post", true),
     ("h_thrown", true), ("h_gexit", true), ("od", true)] := by decide +kernel

example : (tcpRun K filters true (.hPost 2 1) (.group [.leaf .cValueError])).odCount = 1 ∧
    (tcpRun K filters false .ocPost (.group [.leaf .cValueError])).odCount = 0 ∧
    (tcpRun K filters true (.hPost 2 1) (.group [.leaf .cValueError])).hooks.reverse =
      ["on_connection:start", "on_connection:done", "handle:start_g1", "handle:closed_g1", "handle:start_g2",
       "handle:closed_g2", "on_disconnection"] := by decide +kernel

/-- **UDP: the faulty client restarts, the others are untouched.**  In any reachable state of the datagram server model
    (any number of addresses, any interleaving — the model of C16), when the request handler generator of address `a`
    fails with an Exception tree at any UDP position of the generated map: the filter chain swallows it (nothing reaches
    the task group); the state of every other address is unchanged; `a`'s `_ClientData` is consistent with no generator
    alive; if nothing was queued it is back to "no task" and the next datagram from `a` starts a fresh generator that
    receives it; if datagrams were queued, the re-spawned client coroutine starts a fresh generator. -/
theorem C17_udp_restarts {α : Type} (evs : List (Nat × DgramSrv.Label α)) (s : DgramSrv.Sys α)
    (hreach : DgramSrv.srun DgramSrv.Sys.init evs = some s) (a : Nat) (hrun : (s a).inHandler)
    (p : Position) (hp : p ∈ nesting) (_hk : p.kind = "udp") (t : Tree Cls) (ht : t.allExc K = true) :
    ∃ ls s', chainLayers filters p.filters = some ls ∧ udpFault K ls s a t = (some s', none) ∧
      (∀ b, b ≠ a → s' b = s b) ∧ (s' a).bad = false ∧ (s' a).active = 0 ∧
      ((s a).queue = [] → (s' a).state = .idle ∧ (s' a).r = .none ∧
        ((s a).inflight = [] → ∀ d, ∃ s'', DgramSrv.srun s' [(a, .arrive d), (a, .h)] = some s'' ∧
            (s'' a).r = .first d ∧ (s'' a).state = .running ∧ (s'' a).active = 1 ∧ (s'' a).bad = false ∧
            ∀ b, b ≠ a → s'' b = s b)) ∧
      ((s a).queue ≠ [] → (s' a).state = .pending ∧ (s' a).r = .scheduled ∧
        ∃ s'' d, DgramSrv.sstep s' a .rs = some s'' ∧ (s'' a).r = .first d ∧ (s'' a).state = .running ∧
            (s'' a).active = 1 ∧ (s'' a).bad = false ∧ ∀ b, b ≠ a → s'' b = s b) := by
  obtain ⟨ls, hls, hsw⟩ := C17_every_position_guarded p hp
  have I := DgramSrv.sys_inv_run evs DgramSrv.sys_inv_init hreach a
  obtain ⟨c', hstep, hbad, hact, hinf, hq, hE, hN⟩ := DgramSrv.ge_resets (s a) I hrun
  refine ⟨ls, fun b => if b = a then c' else s b, hls, ?_, ?_, by simpa using hbad, by simpa using hact, ?_, ?_⟩
  · simp [udpFault, DgramSrv.sstep, hstep, hsw t ht]
  · intro b hb; simp [hb]
  · intro hqe
    obtain ⟨hs, hr⟩ := hE hqe
    refine ⟨by simpa using hs, by simpa using hr, ?_⟩
    intro hie d
    obtain ⟨c'', hrun2, h1, h2, h3, h4⟩ :=
      DgramSrv.fresh_after_reset c' hbad hact hs (by rw [hq]; exact hqe) (by rw [hinf]; exact hie) d
    simp only [DgramSrv.run] at hrun2
    cases hs1 : DgramSrv.step c' (.arrive d) with
    | none => rw [hs1] at hrun2; simp at hrun2
    | some c1 =>
      rw [hs1] at hrun2
      simp only at hrun2
      cases hs2 : DgramSrv.step c1 .h with
      | none => rw [hs2] at hrun2; simp at hrun2
      | some c2 =>
        rw [hs2] at hrun2
        simp only [Option.some.injEq] at hrun2
        subst hrun2
        refine ⟨fun b => if b = a then c2 else s b, ?_, by simpa using h1, by simpa using h2, by simpa using h3,
          by simpa using h4, ?_⟩
        · simp only [DgramSrv.srun, DgramSrv.sstep, if_true, hs1, Option.map_some]
          simp only [hs2, Option.map_some]
          congr 1
          funext b
          by_cases hb : b = a <;> simp [hb]
        · intro b hb; simp [hb]
  · intro hqn
    obtain ⟨hs, hr⟩ := hN hqn
    refine ⟨by simpa using hs, by simpa using hr, ?_⟩
    obtain ⟨c'', d, hst, h1, h2, h3, h4⟩ := DgramSrv.fresh_after_respawn c' hbad hact hs hr (by rw [hq]; exact hqn)
    refine ⟨fun b => if b = a then c'' else s b, d, ?_, by simpa using h1, by simpa using h2, by simpa using h3,
      by simpa using h4, ?_⟩
    · simp only [DgramSrv.sstep, if_true, hst, Option.map_some]
      congr 1
      funext b
      by_cases hb : b = a <;> simp [hb]
    · intro b hb; simp [hb]

/-- non-vacuity: a reachable state with a generator inside its handler (one datagram arrived at address 3 and its
    generator received it), and the UDP positions of the map -/
example : ∃ s : DgramSrv.Sys Nat, DgramSrv.srun DgramSrv.Sys.init [(3, .arrive 7), (3, .h), (3, .gy false)] = some s ∧
    (s 3).r = .handling := by
  refine ⟨_, rfl, rfl⟩

example : (nesting.filter (·.kind == "udp")).map (·.pos) = ["h_pre", "h_post", "h_thrown"] := by decide +kernel

end EasyNet
