/-
  C03 — Receive endpoints: every complete packet once, then a sticky end-of-stream.  Property theorems only.

  Model: `C03.EP` (EasyNet/Model/Endpoint.lean) = `_DataReceiverImpl.receive` / `_BufferedReceiverImpl.receive` of the
  blocking and of the asynchronous stream endpoints, over any consumer interface and any transport script.
  `refRun spec [] reads` is the frame-by-frame decoding of the bytes read so far (Model/Spec.lean).
-/
import EasyNet.Lemmas.Endpoint
import EasyNet.Lemmas.BufIface
import EasyNet.Props.C02
namespace EasyNet
open EasyNet.C03 EasyNet.C15

/-- **Delivery.**  For every consumer that simulates a byte-level spec (copying or buffered, any refining framer), every
    transport script (data in any chunking, would-block, errors, end of stream anywhere) and every history of
    `recv_packet` calls with any timeouts: what has been delivered so far, followed by what is still complete inside the
    consumer, is exactly the frame-by-frame decoding of the bytes read so far — every complete packet once, in order;
    and the bytes read are a prefix of the bytes the peer sent. -/
theorem C03_delivery {κ : Type} {I : Iface κ} {spec : Bytes → SRes} {Rel : κ → Bytes → Prop}
    (Sim : IfaceSim I spec Rel) {ok : Bytes → Prop} (L : SpecLaws spec ok) (hwant : ∀ k h, Rel k h → decodeW spec h = (h, []) → 0 < (I.want k).2)
    (k0 : κ) (hk0 : Rel k0 []) (script : List TEv) (calls : List Bool) :
    (∃ h, Rel (EP.calls I ⟨k0, false, script, [], 0⟩ calls).1.k h ∧
        refRun spec [] (EP.calls I ⟨k0, false, script, [], 0⟩ calls).1.reads
          = ((decodeW spec h).1, items (EP.calls I ⟨k0, false, script, [], 0⟩ calls).2 ++ (decodeW spec h).2)) ∧
    (EP.calls I ⟨k0, false, script, [], 0⟩ calls).1.reads.flatten
        ++ pending (EP.calls I ⟨k0, false, script, [], 0⟩ calls).1.script = pending script := by
  have h0 : EInv spec Rel (⟨k0, false, script, [], 0⟩ : EP κ) [] := by
    refine ⟨[], hk0, ?_⟩
    simp only [refRun, List.nil_append]
    rw [decodeW_nil L]
  have := calls_full Sim L hwant calls _ [] h0
  exact ⟨by simpa [EInv] using this.1, by simpa [pending] using this.2⟩

/-- **End-of-stream is reported only after every complete packet was delivered**, and a trailing incomplete frame is
    never delivered: when a call ends with ConnectionAbortedError, the items delivered so far are *all* of the
    frame-by-frame decoding of the bytes read, and what the consumer still holds decodes to nothing. -/
theorem C03_eos_after_everything {κ : Type} {I : Iface κ} {spec : Bytes → SRes} {Rel : κ → Bytes → Prop}
    (Sim : IfaceSim I spec Rel) {ok : Bytes → Prop} (L : SpecLaws spec ok) (hwant : ∀ k h, Rel k h → decodeW spec h = (h, []) → 0 < (I.want k).2)
    (s : EP κ) (zero : Bool) (D : List Item) (hinv : EInv spec Rel s D)
    (heos : (EP.receive I s zero).2 = .eos) :
    (EP.receive I s zero).1.eofReached = true ∧
    ∃ h, Rel (EP.receive I s zero).1.k h ∧ decodeW spec h = (h, []) ∧
         refRun spec [] (EP.receive I s zero).1.reads = (h, D) := by
  have := receive_full Sim L hwant s zero D hinv
  refine ⟨this.2.2.1 heos, ?_⟩
  exact this.2.1 (fun it hc => by rw [heos] at hc; cases hc)

/-- **Sticky end-of-stream.**  After a call reported end-of-stream, every later call — whatever its timeout — reports it
    again, performs no transport read (so it cannot block) and delivers nothing. -/
theorem C03_sticky {κ : Type} {I : Iface κ} {spec : Bytes → SRes} {Rel : κ → Bytes → Prop}
    (Sim : IfaceSim I spec Rel) {ok : Bytes → Prop} (L : SpecLaws spec ok) (hwant : ∀ k h, Rel k h → decodeW spec h = (h, []) → 0 < (I.want k).2)
    (s : EP κ) (zero : Bool) (D : List Item) (hinv : EInv spec Rel s D)
    (heos : (EP.receive I s zero).2 = .eos) (later : List Bool) :
    (EP.calls I (EP.receive I s zero).1 later).2 = later.map (fun _ => ROut.eos) ∧
    (EP.calls I (EP.receive I s zero).1 later).1.nreads = (EP.receive I s zero).1.nreads := by
  have h := C03_eos_after_everything Sim L hwant s zero D hinv heos
  obtain ⟨he, b, hrel, hdec, hrun⟩ := h
  have := calls_sticky Sim later (EP.receive I s zero).1 D ⟨b, hrel, hdec, hrun⟩ he
  exact ⟨this.1, this.2.1⟩

/-- **Whole connection, separator-framed serializers, copying path.**  The peer sends `stream` in any chunking and then
    closes; reads may be refused with would-block any number of times.  Whatever the history of calls and timeouts:
    the packets delivered are a prefix of the frame-by-frame decoding of the bytes read, and as soon as a call reports
    end-of-stream they are all of it. -/
theorem C03_connection_sep_copy (sep : Bytes) (limit : Nat) (ke : Bool) (hsep : sep ≠ []) (maxRecv : Nat) (hmax : 0 < maxRecv)
    (script : List TEv) (calls : List Bool) :
    items (EP.calls (copyIface RU.init (RU.feed sep limit ke) maxRecv) ⟨Consumer.new, false, script, [], 0⟩ calls).2
      <+: (refRun (RU.spec sep limit ke) []
            (EP.calls (copyIface RU.init (RU.feed sep limit ke) maxRecv) ⟨Consumer.new, false, script, [], 0⟩ calls).1.reads).2 := by
  have R : Refines RU.init (RU.feed sep limit ke) (RU.spec sep limit ke) (RU.Inv sep limit) := RU.refines sep limit ke hsep
  have L := RU.spec_laws sep limit ke hsep
  have Sim := copyIface_sim R L maxRecv
  have := C03_delivery Sim L (fun _ _ _ _ => hmax) Consumer.new (Or.inl ⟨rfl, rfl⟩) script calls
  obtain ⟨⟨h, _, hrun⟩, _⟩ := this
  rw [hrun]
  exact ⟨_, rfl⟩

/-- the buffered consumer over `_buffered_readuntil` always offers at least one byte while nothing complete is held -/
theorem BRU.room_pos (sep : Bytes) (cap : Nat) (ke : Bool) (hsep : sep ≠ []) (hcap : sep.length ≤ cap)
    (c : BufConsumer BRUState) (h : Bytes)
    (hrel : BufConsumer.Rel (·.buflen) (BRU.spec sep cap ke) (BRU.Inv sep cap) cap c h)
    (hdec : decodeW (BRU.spec sep cap ke) h = (h, [])) :
    0 < ((bufIface BRU.init 0 cap (BRU.feed true sep ke)).want c).2 := by
  have hpos : 0 < sep.length := List.length_pos_iff.mpr hsep
  have hcap0 : 0 < cap := by omega
  have R := BRU.refines sep cap ke hsep
  have L := BRU.spec_laws sep cap ke hsep
  obtain ⟨s, pfr, plen, pst, pw, pcr, pfit, ptake, pinv, _⟩ := BufConsumer.prepare_active cap R hcap0 c h hrel
  show 0 < (BufConsumer.prepare BRU.init 0 cap c).room
  have hroom : (BufConsumer.prepare BRU.init 0 cap c).room = cap - (s.buflen + c.written) := by
    simp [BufConsumer.room, plen, pst, pw]
  rw [hroom]
  have hlen : h.length = s.buflen + c.written := by
    rw [← ptake]; simp only [List.length_take]; omega
  -- nothing complete is held: `h` is empty or incomplete-and-acceptable, hence shorter than the buffer
  have hneed : h = [] ∨ BRU.spec sep cap ke h = .need := by
    by_cases he : h.isEmpty
    · left; simpa using he
    · right
      have hunf := decodeW_unfold L h
      simp only [he, Bool.false_eq_true, if_false] at hunf
      cases hs : BRU.spec sep cap ke h with
      | need => rfl
      | done d r => rw [hs, hdec] at hunf; have := congrArg Prod.snd hunf; simp at this
      | fail r => rw [hs, hdec] at hunf; have := congrArg Prod.snd hunf; simp at this
  rcases hneed with hnil | hn
  · subst hnil; simp at hlen; omega
  · unfold BRU.spec at hn
    cases hf : firstOcc sep h with
    | some i => rw [hf] at hn; cases hn
    | none =>
      rw [hf] at hn; simp only at hn
      split at hn
      · cases hn
      · rename_i hl
        omega

/-- **Whole connection, separator-framed serializers, buffered path** (`|separator| ≤ limit`): same statement as
    `C03_connection_sep_copy` for the buffer-filling consumer, whatever sizes the transport fills. -/
theorem C03_connection_sep_buffered (sep : Bytes) (cap : Nat) (ke : Bool) (hsep : sep ≠ []) (hcap : sep.length ≤ cap)
    (script : List TEv) (calls : List Bool) :
    items (EP.calls (bufIface BRU.init 0 cap (BRU.feed true sep ke)) ⟨BufConsumer.new, false, script, [], 0⟩ calls).2
      <+: (refRun (BRU.spec sep cap ke) []
            (EP.calls (bufIface BRU.init 0 cap (BRU.feed true sep ke)) ⟨BufConsumer.new, false, script, [], 0⟩ calls).1.reads).2 := by
  have hpos : 0 < sep.length := List.length_pos_iff.mpr hsep
  have R := BRU.refines sep cap ke hsep
  have L := BRU.spec_laws sep cap ke hsep
  have Sim := bufIface_sim cap R L (by omega)
  have hnew : BufConsumer.Rel (·.buflen) (BRU.spec sep cap ke) (BRU.Inv sep cap) cap
      (BufConsumer.new : BufConsumer BRUState) [] := ⟨rfl, Or.inl ⟨rfl, rfl, rfl, Or.inl rfl⟩⟩
  have := C03_delivery Sim L (fun k h hr hd => BRU.room_pos sep cap ke hsep hcap k h hr hd) BufConsumer.new hnew script calls
  obtain ⟨⟨h, _, hrun⟩, _⟩ := this
  rw [hrun]
  exact ⟨_, rfl⟩

/-- non-vacuity: CRLF stream cut inside a separator, a would-block in the middle, peer closes inside the third frame;
    five calls: a timeout, two packets, end-of-stream twice (the trailing `c` is never delivered) -/
example :
    (EP.calls (copyIface RU.init (RU.feed [13, 10] 16 false) 4) ⟨Consumer.new, false,
        [.data [97, 13], .block, .data [10, 98, 13, 10, 99], .eof], [], 0⟩ [false, false, false, false, false]).2
      = [.timeout, .item (.frame [97]), .item (.frame [98]), .eos, .eos] := by
  decide +kernel

end EasyNet
