/-
  C13 — Cancel scopes interrupt on time, swallow only their own cancel, honour shields.
  Property theorems only (models in EasyNet/Model/CancelScope.lean, lemmas in EasyNet/Lemmas/CS*.lean).

  The model: CancelScope / cancel_shielded_await / _timeout_scope of EasyNetwork on a mini-asyncio kernel
  (one host task, futures, call_soon / call_at, loop turns), programs = trees of `CS.Stmt`, run by
  `CS.run prog ext extLast fix maxTurns` (ext = ticks of external task.cancel(), extLast = their tie position,
  fix = model of docs/C13-fix-1.patch).  Tied to the Python source by the correspondence check of harness/props/c13.py.

  Quantification: every theorem below is for ALL programs / states named in it, ALL external-cancel schedules and
  ALL run lengths.  `C13_interrupt` is for the programs without shielded sections and without user-level
  `except CancelledError` (the fragment `Stmt.sfList`); what is proved about shields is local (`C13_shield_*`),
  see `C13_interrupt_partial`.
-/
import EasyNet.Lemmas.CSIntFinal
set_option linter.unusedSimpArgs false
set_option linter.unusedVariables false
namespace EasyNet
open CS

/-! ## the main sentence: a cancelled scope interrupts -/

/-- **C13, interruption.**  For every program built from nested move_on / timeout scopes with arbitrary deadlines,
    sleeps, checkpoints, explicit `scope.cancel()` and `reschedule` (no shielded section), for every list of ticks
    at which an external `task.cancel()` arrives, either tie position, with or without the repair, and every number
    of loop turns: no blocking operation that started while one of its enclosing scopes had `cancel_called()`
    ever completes normally (the ghost monitor `bad` of the model is never raised) — the operation raises
    `CancelledError` at its wake-up, so the body is abandoned at that checkpoint. -/
theorem C13_interrupt (prog : List Stmt) (ext : List Nat) (extLast fix : Bool) (maxTurns : Nat)
    (hsf : Stmt.sfList prog = true) : (run prog ext extLast fix maxTurns).1.bad = false :=
  run_not_bad prog ext extLast fix maxTurns hsf

/-- non-vacuity: `with move_on_after(0): sleep(5)` — the sleep starts under the already cancelled scope
    (`blk 1 0 [true]`), is flagged by the monitor, and is interrupted (`exc 1 2`); the scope catches -/
example :
    Stmt.sfList [.scope 0 false (some 0) false [.sleep 1 5], .yield_ 3] = true ∧
    Ev.blk 1 0 [true] ∈ (run [.scope 0 false (some 0) false [.sleep 1 5], .yield_ 3] [] false false 20).1.out ∧
    Ev.exc 1 2 ∈ (run [.scope 0 false (some 0) false [.sleep 1 5], .yield_ 3] [] false false 20).1.out ∧
    (run [.scope 0 false (some 0) false [.sleep 1 5], .yield_ 3] [] false false 20).1.done = some .ok := by
  decide +kernel

/-- the mechanism behind it, in any state (shields included): when the loop runs a scope's re-delivery callback
    while the task is suspended and no delayed cancel is pending, a cancellation is in flight afterwards
    (`_must_cancel`, or the awaited future is cancelled) and the callback has re-armed itself for the next turn -/
theorem C13_redelivery_requests_cancel (k : K) (s : Nat) (hact : (k.scope s).active = true)
    (hdel : k.delayed = none) (hnd : k.done = none) :
    inflight (k.deliver s false) ∧ Handle.deliver s ∈ (k.deliver s false).ready := by
  rw [deliver_nodelay _ _ _ hdel]
  simp only [hact, Bool.not_true, Bool.false_eq_true, if_false, Bool.not_false, Bool.and_true]
  split
  · refine ⟨?_, by simp [K.callSoon]⟩
    have : inflight (k.taskCancel (some s)) := taskCancel_inflight k (some s) hnd
    exact inflight_congr (k := k.taskCancel (some s)) (by simp) (by simp) (fun f m hm => by simpa using hm) this
  · rename_i hmc
    exact ⟨Or.inl (by simpa using hmc), by simp [K.callSoon]⟩

example : ((K.init [.sleep 0 3] [] false false).scopeEnter 7 false none true).delayed = none ∧
    (((K.init [.sleep 0 3] [] false false).scopeEnter 7 false none true).scope 0).active = true := by
  decide +kernel

/-- what is *not* proved for all programs: the interruption theorem for programs with shielded sections
    (`ignore_cancellation`, `cancel_shielded_coro_yield`).  Missing: the invariant has to follow the delayed
    cancel (`__delayed_task_cancel_dict`) through the shield drivers (`safe` with the pending-entry bit, the
    adjacency of `delayedCancel`/`delayedPop` in the queue, the futures of `asyncio.shield`).  The statement below
    is the proved fragment restated; the monitor is compared with the real code on every generated program
    (shields included) by the correspondence check, and `C13_shield_*` are the local facts. -/
theorem C13_interrupt_partial (prog : List Stmt) (ext : List Nat) (extLast fix : Bool) (maxTurns : Nat)
    (hsf : Stmt.sfList prog = true) : (run prog ext extLast fix maxTurns).1.bad = false :=
  C13_interrupt prog ext extLast fix maxTurns hsf

/-! ## a scope that was not cancelled never swallows; timeout() raises TimeoutError exactly when it caught -/

theorem deliver_cur_numCancels (k : K) (s : Nat) : (k.deliver s true).numCancels = k.numCancels := by
  unfold K.deliver
  (repeat' split) <;> simp_all

theorem deliver_caught (k : K) (s : Nat) (cur : Bool) (s' : Nat) :
    (scopeOf (k.deliver s cur).scopes s').caught = (scopeOf k.scopes s').caught := by
  unfold K.deliver
  (repeat' split) <;> simp [scopeOf_updAt_proj (·.caught)]

theorem checkPendingFrom_keeps (l : List Nat) : ∀ k : K,
    (k.checkPendingFrom l).numCancels = k.numCancels ∧
    ∀ s', (scopeOf (k.checkPendingFrom l).scopes s').caught = (scopeOf k.scopes s').caught ∧
          (scopeOf (k.checkPendingFrom l).scopes s').cancelCalled = (scopeOf k.scopes s').cancelCalled := by
  induction l with
  | nil => intro k; exact ⟨rfl, fun s' => ⟨rfl, rfl⟩⟩
  | cons p ps ih =>
    intro k
    unfold K.checkPendingFrom
    split
    · split
      · exact ⟨deliver_cur_numCancels k p, fun s' => ⟨deliver_caught k p true s', deliver_cancelCalled k p true s'⟩⟩
      · exact ⟨rfl, fun s' => ⟨rfl, rfl⟩⟩
    · exact ih k

/-- **C13, never swallow.**  In any state, `__exit__` of a scope whose `cancel_called()` is false (and which, like
    every such scope, has not caught anything) lets whatever reached it leave unchanged — a CancelledError of an
    outer scope or of an external `task.cancel()` propagates through it —, reports `cancelled_caught() = False`,
    and leaves `task.cancelling()` alone. -/
theorem C13_never_swallow (k : K) (s : Nat) (to : Bool) (e : Option Exc)
    (hcc : (k.pop.scope s).cancelCalled = false) (hcaught : (k.pop.scope s).caught = false) :
    (k.endScope s to e).2 = nextOf e ∧
    ((k.pop.scopeExit s e).scope s).caught = false ∧
    (k.pop.scopeExit s e).numCancels = k.numCancels := by
  have hexit : k.pop.scopeExit s e =
      (((k.pop.cancelHandle (.timeoutCancel s)).cancelHandle (.deliver s)).updScope s
        (fun x => { x with active := false, timeoutH := false, cancelH := false })).checkPending := by
    unfold K.scopeExit; simp [hcc]
  have hkeep := checkPendingFrom_keeps
    ((((k.pop.cancelHandle (.timeoutCancel s)).cancelHandle (.deliver s)).updScope s
        (fun x => { x with active := false, timeoutH := false, cancelH := false })).stack)
    (((k.pop.cancelHandle (.timeoutCancel s)).cancelHandle (.deliver s)).updScope s
        (fun x => { x with active := false, timeoutH := false, cancelH := false }))
  have hc : ((k.pop.scopeExit s e).scope s).caught = false := by
    rw [hexit, scope_eq]
    unfold K.checkPending
    rw [(hkeep.2 s).1]
    simp only [updScope_scopes_eq, cancelHandle_scopes]
    rw [scopeOf_updAt_proj (·.caught) _ _ _ _ (by intro x; rfl)]
    simpa [scope_eq] using hcaught
  refine ⟨?_, hc, ?_⟩
  · unfold K.endScope exitOut
    simp [hc]
  · rw [hexit]
    unfold K.checkPending
    rw [hkeep.1]
    simp

example : ((K.init [] [] false false).scopeEnter 0 false none false).pop.frames.length = 1 ∧
    ((((K.init [] [] false false).scopeEnter 0 false none false).pop).scope 0).cancelCalled = false ∧
    ((((K.init [] [] false false).scopeEnter 0 false none false).pop).scope 0).caught = false := by
  decide +kernel

/-- **C13, timeout ⇔ caught.**  What leaves a `with` block is decided by `cancelled_caught()` alone:
    `timeout()` raises TimeoutError exactly when its scope caught (or a TimeoutError was already travelling),
    a move-on scope swallows exactly when it caught, and a scope that did not catch passes everything through. -/
theorem C13_timeout_iff_caught (k : K) (s : Nat) (to : Bool) (e : Option Exc) :
    (k.endScope s to e).2 = nextOf (exitOut ((k.pop.scopeExit s e).scope s).caught to e) ∧
    (∀ caught, exitOut caught true e = some .timeout ↔ (caught = true ∨ e = some .timeout)) ∧
    (∀ caught, exitOut caught false e = none ↔ (caught = true ∨ e = none)) ∧
    (∀ to', exitOut false to' e = e) := by
  refine ⟨rfl, fun caught => ?_, fun caught => ?_, fun to' => rfl⟩
  · cases caught <;> simp [exitOut]
  · cases caught <;> simp [exitOut]

example : exitOut true true (some (.cancelled (some 3))) = some .timeout ∧
    exitOut false true (some (.cancelled none)) = some (.cancelled none) := by decide

/-! ## no leftover cancellation request -/

/-- **C13, accounting.**  In the state reached by ANY program (shields, try/except, everything) under ANY schedule
    of external cancels after ANY number of turns — unless the model crashed (fuel / AssertionError artefacts,
    never observed) —

        task.cancelling() = external cancel() calls + Σ over all scopes of `__host_task_cancel_calls` + phantom

    so the only way `cancelling()` can exceed the number of external requests after the scopes are gone is a scope
    that left with `__host_task_cancel_calls > 0` (see `C13_exit_undoes_own_calls`: exactly the exits without a
    CancelledError, the defect repaired by docs/C13-fix-1.patch) or a `phantom` re-issue. -/
theorem C13_no_leftover (prog : List Stmt) (ext : List Nat) (extLast fix : Bool) (maxTurns : Nat)
    (hnc : (run prog ext extLast fix maxTurns).1.done ≠ some .crash) :
    (run prog ext extLast fix maxTurns).1.numCancels =
      (run prog ext extLast fix maxTurns).1.extCount + sumCalls (run prog ext extLast fix maxTurns).1.scopes +
        (run prog ext extLast fix maxTurns).1.phantom := by
  rcases run_Good prog ext extLast fix maxTurns with h | h
  · exact absurd h hnc
  · exact h.acct

/-- non-vacuity, and the defect itself: `with move_on_after(0): await ignore_cancellation(sleep(3))` ends normally
    with cancelling() = 3 on the unrepaired model (3 own calls never undone) and 0 with the repair -/
example :
    (run [.scope 0 false (some 0) false [.shield 1 [.sleep 2 3]]] [] false false 30).1.done = some .ok ∧
    (run [.scope 0 false (some 0) false [.shield 1 [.sleep 2 3]]] [] false false 30).1.numCancels = 3 ∧
    sumCalls (run [.scope 0 false (some 0) false [.shield 1 [.sleep 2 3]]] [] false false 30).1.scopes = 3 ∧
    (run [.scope 0 false (some 0) false [.shield 1 [.sleep 2 3]]] [] false true 30).1.numCancels = 0 := by
  decide +kernel

/-- **C13, `__exit__` uncancels exactly its own requests.**  When a CancelledError reaches `__exit__`, the loop of
    `__uncancel_task` (started with the scope's own call count, in a balanced state) keeps the balance and ends
    with no own request left, or stops early reporting "caught" with `cancelling()` back at the level of entry. -/
theorem C13_exit_undoes_own_calls (k : K) (s : Nat) (m : Msg) (hA : AInv k) :
    AInv (k.uncancelLoop s m (scopeOf k.scopes s).calls).1 ∧
    ((scopeOf (k.uncancelLoop s m (scopeOf k.scopes s).calls).1.scopes s).calls = 0 ∨
      ((k.uncancelLoop s m (scopeOf k.scopes s).calls).2 = true ∧
        (k.uncancelLoop s m (scopeOf k.scopes s).calls).1.numCancels ≤ (scopeOf k.scopes s).base)) :=
  uncancelLoop_AInv s m _ k hA rfl

example : AInv (K.init [] [] false false) := by
  rcases init_Good [] [] false false with h | h
  · simp [Crashed, K.init, addExt, K.callSoon] at h
  · exact h

/-! ## shields -/

/-- **C13, shield (bare yield).**  A CancelledError thrown at a `yield None` of the driver of
    `cancel_shielded_await` never reaches the shielded coroutine: the frames below are resumed normally, in the
    state where the swallowed cancellation has been handed to `_reschedule_delayed_task_cancel`. -/
theorem C13_shield_swallows_at_yield (id : Nat) (yl : Bool) (lastC : Option Msg) (rest : List Frame) (m : Msg) (k : K) :
    (resumeOuter (.shieldF id yl none lastC :: rest) (.cancelled m) k).2.2 =
      (match (resumeOuter rest .ok (k.reschedDelayed m)).2.1 with
       | .go _ => (resumeOuter rest .ok (k.reschedDelayed m)).2.2
       | .susp y => (shieldWrap id y (resumeOuter rest .ok (k.reschedDelayed m)).2.2).2.2) := by
  simp only [resumeOuter, K.reschedOpt]
  split <;> (rename_i h; simp [h])

/-- **C13, shield (awaited future).**  While the future awaited inside the shielded coroutine is pending, a
    CancelledError only makes the driver shield it again (`asyncio.shield` on a fresh outer future): the frames
    below are not touched and the message is remembered for later. -/
theorem C13_shield_keeps_waiting (id : Nat) (yl : Bool) (lastC : Option Msg) (rest : List Frame) (m : Msg) (k : K) (f : Nat)
    (hp : k.futState f = .pending) :
    (resumeOuter (.shieldF id yl (some f) lastC :: rest) (.cancelled m) k).1 = .shieldF id yl (some f) (some m) :: rest ∧
    (resumeOuter (.shieldF id yl (some f) lastC :: rest) (.cancelled m) k).2.1 = .susp (.fut k.futs.length) := by
  simp [resumeOuter, hp]

/-- non-vacuity: a freshly created future is pending -/
example : ((K.init [] [] false false).newFut).futState 0 = .pending := by decide +kernel

/-- **C13, the swallowed cancellation is delivered at the next checkpoint.**  `_reschedule_delayed_task_cancel`
    queues `__cancel_task_unless_done` for the next turn, and when the loop runs it on a live task a cancellation
    is in flight: the next unshielded checkpoint raises. -/
theorem C13_swallowed_cancel_redelivered (k : K) (m : Msg) (hd : k.delayed = none) (hnd : k.done = none) :
    (k.reschedDelayed m).delayed = some m ∧ Handle.delayedCancel m ∈ (k.reschedDelayed m).ready ∧
    (∀ k' : K, k'.done = none → inflight (k'.runHandleCore (.delayedCancel m))) := by
  refine ⟨by simp [K.reschedDelayed, hd, K.callSoon], by simp [K.reschedDelayed, hd, K.callSoon], fun k' hnd' => ?_⟩
  simp only [K.runHandleCore]
  split
  · rename_i hd; rw [hnd'] at hd; simp at hd
  · exact taskCancel_inflight _ m hnd'

/-- non-vacuity: the initial state has no delayed cancel and a live task; after the swallow the entry is there -/
example : (K.init [] [] false false).delayed = none ∧ (K.init [] [] false false).done = none ∧
    ((K.init [] [] false false).reschedDelayed (some 4)).delayed = some (some 4) := by decide +kernel

end EasyNet
