/-
  C01 — Stream round-trip: packets survive any chunking of the byte stream.
  Property theorems only (helper lemmas live in EasyNet/Lemmas).

  What is proved here is about the framing/consumer logic of EasyNetwork (models in EasyNet/Model,
  tied to the Python source by the correspondence check).  Payload codecs (str/json/struct/base64/…)
  sit on top of the delivered frames and are parameters: a valid packet `p` is represented by its
  encoded payload bytes, `ValidPayload` is the explicit well-formedness predicate.
-/
import EasyNet.Lemmas.RU
import EasyNet.Lemmas.RUSpec
import EasyNet.Lemmas.ConsumerSim
namespace EasyNet

theorem RU.refines (sep : Bytes) (limit : Nat) (ke : Bool) (hsep : sep ≠ []) :
    Refines RU.init (RU.feed sep limit ke) (RU.spec sep limit ke) (RU.Inv sep limit) :=
  ⟨RU.inv_init sep limit, fun s b c h => RU.feed_spec sep limit ke hsep s b c h⟩

/-- **C01, separator-framed serializers, copying consumer.**
    For every list of valid payloads and *every* way of cutting the produced byte stream into reads
    (empty reads allowed), the consumer delivers exactly those frames, in order, once each, reports no
    error, and retains nothing. -/
theorem C01_sep_copy_roundtrip (sep : Bytes) (limit : Nat) (ke : Bool) (hsep : sep ≠ [])
    (ps : List Bytes) (hvalid : ∀ p ∈ ps, ValidPayload sep limit p)
    (chunks : List Bytes) (hcut : chunks.flatten = encodeFrames sep ps) :
    (Consumer.run RU.init (RU.feed sep limit ke) Consumer.new chunks).2 = ps.map (frameOf sep ke) ∧
    Consumer.held (·.buf) (Consumer.run RU.init (RU.feed sep limit ke) Consumer.new chunks).1 = [] := by
  have R := RU.refines sep limit ke hsep
  have L := RU.spec_laws sep limit ke hsep
  have hsim := Consumer.run_ref R chunks Consumer.new [] (Or.inl ⟨rfl, rfl⟩)
  have hdec := RU.decode_frames sep limit ke hsep ps hvalid
  have hind := refRun_chunk_independent L chunks [] (Or.inl rfl)
    (by
      simp only [List.nil_append, hcut, hdec]
      intro it hit
      simp [frameOf] at hit
      rcases hit with ⟨p, _, rfl⟩
      simp)
  simp only [List.nil_append, hcut, hdec] at hind
  rw [hind] at hsim
  refine ⟨hsim.1, ?_⟩
  rcases hsim.2 with ⟨hfr, hbuf⟩ | ⟨s, hfr, hbuf, hinv, _⟩
  · simp [Consumer.held, hfr, hbuf]
  · simp only [Consumer.held, hfr]
    exact RU.inv_buf sep limit s [] hinv

/-- non-vacuity: a two-packet CRLF stream cut inside the separator meets the hypotheses -/
example : (∀ p ∈ ([[97, 98], [99]] : List Bytes), ValidPayload [13, 10] 10 p) ∧
    ([[97, 98, 13], [10, 99, 13, 10]] : List Bytes).flatten = encodeFrames [13, 10] [[97, 98], [99]] := by
  decide +kernel

end EasyNet
