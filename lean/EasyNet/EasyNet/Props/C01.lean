/-
  C01 — Stream round-trip: packets survive any chunking of the byte stream.
  Property theorems only (helper lemmas live in EasyNet/Lemmas).

  What is proved here is about the framing/consumer logic of EasyNetwork (models in EasyNet/Model,
  tied to the Python source by the correspondence check).  Payload codecs (str/json/struct/base64/…)
  sit on top of the delivered frames and are parameters: a valid packet `p` is represented by its
  encoded payload bytes, `ValidPayload` is the explicit well-formedness predicate.
-/
import EasyNet.Lemmas.RU
import EasyNet.Lemmas.RUSpec
import EasyNet.Lemmas.ConsumerSim
import EasyNet.Lemmas.BRUSpec
import EasyNet.Lemmas.Fixed
import EasyNet.Lemmas.Producer
import EasyNet.Lemmas.JRawWs  -- raw JSON framer
import EasyNet.Lemmas.GenericFrToy
namespace EasyNet

theorem RU.refines (sep : Bytes) (limit : Nat) (ke : Bool) (hsep : sep ≠ []) :
    Refines RU.init (RU.feed sep limit ke) (RU.spec sep limit ke) (RU.Inv sep limit) :=
  ⟨RU.inv_init sep limit, fun s b c h => RU.feed_spec sep limit ke hsep s b c h⟩

/-- **C01, separator-framed serializers, copying consumer.**
    For every list of valid payloads and *every* way of cutting the produced byte stream into reads
    (empty reads allowed), the consumer delivers exactly those frames, in order, once each, reports no
    error, and retains nothing. -/
theorem C01_sep_copy_roundtrip (sep : Bytes) (limit : Nat) (ke : Bool) (hsep : sep ≠ [])
    (ps : List Bytes) (hvalid : ∀ p ∈ ps, ValidPayload sep limit p)
    (chunks : List Bytes) (hcut : chunks.flatten = encodeFrames sep ps) :
    (Consumer.run RU.init (RU.feed sep limit ke) Consumer.new chunks).2 = ps.map (frameOf sep ke) ∧
    Consumer.held (·.buf) (Consumer.run RU.init (RU.feed sep limit ke) Consumer.new chunks).1 = [] := by
  have R := RU.refines sep limit ke hsep
  have L := RU.spec_laws sep limit ke hsep
  have hsim := Consumer.run_ref R chunks Consumer.new [] (Or.inl ⟨rfl, rfl⟩)
  have hdec := RU.decode_frames sep limit ke hsep ps hvalid
  have hind := refRun_chunk_independent L chunks [] (Or.inl rfl)
    (by
      apply AllOk_of_NoLimit
      simp only [List.nil_append, hcut, hdec]
      intro it hit
      simp [frameOf] at hit
      rcases hit with ⟨p, _, rfl⟩
      simp)
  simp only [List.nil_append, hcut, hdec] at hind
  rw [hind] at hsim
  refine ⟨hsim.1, ?_⟩
  rcases hsim.2 with ⟨hfr, hbuf⟩ | ⟨s, hfr, hbuf, hinv, _⟩
  · simp [Consumer.held, hfr, hbuf]
  · simp only [Consumer.held, hfr]
    exact RU.inv_buf sep limit s [] hinv

/-- non-vacuity: a two-packet CRLF stream cut inside the separator meets the hypotheses -/
example : (∀ p ∈ ([[97, 98], [99]] : List Bytes), ValidPayload [13, 10] 10 p) ∧
    ([[97, 98, 13], [10, 99, 13, 10]] : List Bytes).flatten = encodeFrames [13, 10] [[97, 98], [99]] := by
  decide +kernel

/-- **C01, separator-framed serializers, buffer-filling consumer** (buffer capacity `cap` = the serializer's limit).
    For every list of payloads safely inside the capacity and *every* history of non-empty fills that fit the write
    buffer offered at that moment (any fill sizes) and whose concatenation is the produced stream, the consumer
    delivers exactly those frames, in order, once each, reports no error, and retains nothing. -/
theorem C01_sep_buffered_roundtrip (sep : Bytes) (cap : Nat) (ke : Bool) (hsep : sep ≠ []) (hcap : 0 < cap)
    (ps : List Bytes) (hvalid : ∀ p ∈ ps, ValidPayloadB sep cap p)
    (fills : List Bytes) (hcut : fills.flatten = encodeFrames sep ps)
    (r : BufConsumer BRUState × List Item)
    (hrun : BufConsumer.runFills BRU.init 0 cap (BRU.feed true sep ke) BufConsumer.new fills = some r) :
    r.2 = ps.map (frameOf sep ke) ∧
    BufConsumer.Rel (·.buflen) (BRU.spec sep cap ke) (BRU.Inv sep cap) cap r.1 [] := by
  have R := BRU.refines sep cap ke hsep
  have L := BRU.spec_laws sep cap ke hsep
  have hnew : BufConsumer.Rel (·.buflen) (BRU.spec sep cap ke) (BRU.Inv sep cap) cap
      (BufConsumer.new : BufConsumer BRUState) [] :=
    ⟨rfl, Or.inl ⟨rfl, rfl, rfl, Or.inl rfl⟩⟩
  have hsim := BufConsumer.runFills_ref cap R hcap fills BufConsumer.new [] hnew r hrun
  have hdec := BRU.decode_frames sep cap ke hsep ps hvalid
  have hind := refRun_chunk_independent L fills [] (Or.inl rfl)
    (by simp only [List.nil_append, hcut, hdec]; exact BRU.frames_allOk sep cap ke ps hvalid)
  simp only [List.nil_append, hcut, hdec] at hind
  rw [hind] at hsim
  exact hsim

/-- the buffered consumer can always accept at least one more byte between reads (it never reaches the
    "start position is set to the end of the buffer" crash), provided the separator fits the buffer -/
theorem C01_sep_buffered_room (sep : Bytes) (cap : Nat) (ke : Bool) (hsep : sep ≠ []) (hcap : sep.length ≤ cap)
    (c : BufConsumer BRUState) (h : Bytes)
    (hrel : BufConsumer.Rel (·.buflen) (BRU.spec sep cap ke) (BRU.Inv sep cap) cap c h) (hw : c.written = 0) :
    0 < (BufConsumer.prepare BRU.init 0 cap c).room := by
  have hpos : 0 < sep.length := List.length_pos_iff.mpr hsep
  rcases hrel with ⟨_, ⟨hfr, _, _, hbuf⟩ | ⟨s, hfr, hlen, hst, hfit, htake, hinv, hw0⟩⟩
  · simp only [BufConsumer.prepare, hfr, BufConsumer.room, hw]
    rcases hbuf with hb | hb
    · simp [hb]; omega
    · have : c.buffer.isEmpty = false := by
        cases hc : c.buffer with
        | nil => rw [hc] at hb; simp at hb; omega
        | cons x xs => rfl
      simp [this, hb]; omega
  · have hne : c.buffer.isEmpty = false := by
      cases hc : c.buffer with
      | nil => rw [hc] at hlen; simp at hlen; omega
      | cons x xs => rfl
    have hfit' : s.buflen ≤ cap := by simpa [hw] using hfit
    have hhl : h.length = s.buflen := by
      rw [← htake, hw]; simp only [Nat.add_zero, List.length_take]; omega
    simp only [BufConsumer.prepare, hfr, hne, BufConsumer.room, hw, hst, Bool.false_eq_true, if_false, hlen, Nat.add_zero]
    rcases hw0 hw with hnil | hneed
    · subst hnil; simp at hhl; simp [← hhl]; omega
    · unfold BRU.spec at hneed
      cases hf : firstOcc sep h with
      | some i => rw [hf] at hneed; cases hneed
      | none =>
        rw [hf] at hneed; simp only at hneed
        split at hneed
        · cases hneed
        · rename_i hl
          simp; omega

example : (∀ p ∈ ([[97, 98], [99]] : List Bytes), ValidPayloadB [13, 10] 8 p) := by decide +kernel

/-- **C01, fixed-size serializers (struct, named-tuple struct, FixedSizePacketSerializer), copying consumer.**
    Every chunking of a stream of `n`-byte packets is delivered as exactly those packets; nothing is left over. -/
theorem C01_fixed_copy_roundtrip (n : Nat) (hn : 0 < n) (ps : List Bytes) (hvalid : ∀ p ∈ ps, p.length = n)
    (chunks : List Bytes) (hcut : chunks.flatten = ps.flatten) :
    (Consumer.run RE.init (RE.feed n) Consumer.new chunks).2 = ps.map Item.frame ∧
    Consumer.held (·.buf) (Consumer.run RE.init (RE.feed n) Consumer.new chunks).1 = [] := by
  have R := RE.refines n
  have L := RE.spec_laws n hn
  have hsim := Consumer.run_ref R chunks Consumer.new [] (Or.inl ⟨rfl, rfl⟩)
  have hdec := RE.decode_packets n hn ps hvalid
  have hind := refRun_chunk_independent L chunks [] (Or.inl rfl)
    (by
      simp only [List.nil_append, hcut, hdec]
      intro it hit
      simp only [List.mem_map] at hit
      obtain ⟨p, _, rfl⟩ := hit
      trivial)
  simp only [List.nil_append, hcut, hdec] at hind
  rw [hind] at hsim
  refine ⟨hsim.1, ?_⟩
  rcases hsim.2 with ⟨hfr, hbuf⟩ | ⟨s, hfr, hbuf, hinv, _⟩
  · simp [Consumer.held, hfr, hbuf]
  · simp only [Consumer.held, hfr]; exact hinv

/-- **C01, fixed-size serializers, buffer-filling consumer** (capacity `cap = max n hint`), any fitting fills. -/
theorem C01_fixed_buffered_roundtrip (n cap : Nat) (hn : 0 < n) (hcap : 0 < cap)
    (ps : List Bytes) (hvalid : ∀ p ∈ ps, p.length = n)
    (fills : List Bytes) (hcut : fills.flatten = ps.flatten)
    (r : BufConsumer BFXState × List Item)
    (hrun : BufConsumer.runFills BFX.init 0 cap (BFX.feed n) BufConsumer.new fills = some r) :
    r.2 = ps.map Item.frame ∧ BufConsumer.Rel (·.nread) (RE.spec n) BFX.Inv cap r.1 [] := by
  have R := BFX.refines n cap hn
  have L := RE.spec_laws n hn
  have hnew : BufConsumer.Rel (·.nread) (RE.spec n) BFX.Inv cap (BufConsumer.new : BufConsumer BFXState) [] :=
    ⟨rfl, Or.inl ⟨rfl, rfl, rfl, Or.inl rfl⟩⟩
  have hsim := BufConsumer.runFills_ref cap R hcap fills BufConsumer.new [] hnew r hrun
  have hdec := RE.decode_packets n hn ps hvalid
  have hind := refRun_chunk_independent L fills [] (Or.inl rfl)
    (by
      simp only [List.nil_append, hcut, hdec]
      intro it hit
      simp only [List.mem_map] at hit
      obtain ⟨p, _, rfl⟩ := hit
      trivial)
  simp only [List.nil_append, hcut, hdec] at hind
  rw [hind] at hsim
  exact hsim

example : (∀ p ∈ ([[1, 2, 3], [4, 5, 6]] : List Bytes), p.length = 3) ∧
    ([[1], [2, 3, 4, 5], [6]] : List Bytes).flatten = ([[1, 2, 3], [4, 5, 6]] : List Bytes).flatten := by decide

/-- **C01, producer and consumer together (separator-framed serializers).**  Take any chunks `bs` that the real
    producer logic (`AutoSep.produce`: strip trailing separators, refuse data containing the separator — also across the
    junction with the appended one) emits, each within the limit; cut their concatenation anywhere.  The copying consumer
    delivers, for each chunk, exactly its payload (the chunk without its separator), in order, once, and retains nothing.
    So "valid packet" = "packet the producer accepts and that is not longer than the limit". -/
theorem C01_sep_producer_roundtrip (sep : Bytes) (limit : Nat) (hsep : sep ≠ [])
    (bs : List Bytes) (hprod : ∀ b ∈ bs, ∃ data, AutoSep.produce sep data = .chunk b)
    (hlim : ∀ b ∈ bs, b.length ≤ limit + sep.length)
    (chunks : List Bytes) (hcut : chunks.flatten = bs.flatten) :
    (Consumer.run RU.init (RU.feed sep limit false) Consumer.new chunks).2
      = bs.map (fun b => Item.frame (b.take (b.length - sep.length))) ∧
    Consumer.held (·.buf) (Consumer.run RU.init (RU.feed sep limit false) Consumer.new chunks).1 = [] := by
  have hval : ∀ b ∈ bs, b = b.take (b.length - sep.length) ++ sep ∧
      ValidPayload sep limit (b.take (b.length - sep.length)) := by
    intro b hb
    obtain ⟨data, hd⟩ := hprod b hb
    obtain ⟨p, hbp, _, hfo⟩ := AutoSep.produce_valid sep data b hsep hd
    have hl := hlim b hb
    have htake : b.take (b.length - sep.length) = p := by
      rw [hbp]; simp
    rw [htake]
    refine ⟨hbp, hfo, ?_⟩
    rw [hbp] at hl; simp at hl; omega
  have henc : encodeFrames sep (bs.map (fun b => b.take (b.length - sep.length))) = bs.flatten := by
    unfold encodeFrames
    rw [List.map_map]
    congr 1
    have : bs.map ((fun x => x ++ sep) ∘ fun b => b.take (b.length - sep.length)) = bs.map id := by
      apply List.map_congr_left
      intro b hb
      exact (hval b hb).1.symm
    rw [this, List.map_id]
  have := C01_sep_copy_roundtrip sep limit false hsep (bs.map (fun b => b.take (b.length - sep.length)))
    (by
      intro p hp
      simp only [List.mem_map] at hp
      obtain ⟨b, hb, rfl⟩ := hp
      exact (hval b hb).2)
    chunks (by rw [hcut, henc])
  refine ⟨?_, this.2⟩
  rw [this.1, List.map_map]
  apply List.map_congr_left
  intro b _
  simp [frameOf]

example : AutoSep.produce [124, 124] [97, 124] = .refused ∧ AutoSep.produce [124, 124] [97, 124, 98] = .chunk [97, 124, 98, 124, 124] := by
  decide +kernel

-- ==== BEGIN generic framers ====
/-! Generic framers (`FileBasedPacketSerializer`, `AbstractCompressorSerializer`; models in Model/GenericFr.lean).
    The file loader is a parameter `load` subject to the laws `GenericFr.Stable` (+ `Progress`); a *frame* is a byte string
    on which the loader decides (packet or expected error) exactly when all of it is there (`IsFrame`). -/
section GenericFramers
open GenericFr

/-- **C01, file-based framers, copying consumer.**  For every loader satisfying the laws, every list of frames each of
    which loads as a packet exactly at its own end, and *every* way of cutting the stream into reads of at most `m` bytes
    (empty reads allowed) with `|frame| + m ≤ limit + 1` (exact; the safe zone `|frame| + m ≤ limit` of the C07 table is
    the slightly stronger round form), the consumer delivers exactly
    those frames, in order, once each, reports no error, and retains nothing. -/
theorem C01_generic_copy_roundtrip (load : Bytes → LoadRes) (S : Stable load) (P : Progress load) (limit m : Nat)
    (fs : List Bytes) (hfs : ∀ f ∈ fs, IsFrame load f) (hok : ∀ f ∈ fs, load f = .ok f.length)
    (hsafe : ∀ f ∈ fs, f.length + m ≤ limit + 1)
    (chunks : List Bytes) (hm : ∀ c ∈ chunks, c.length ≤ m) (hcut : chunks.flatten = fs.flatten) :
    (Consumer.run GenericFr.init (feed load limit) Consumer.new chunks).2 = fs.map (fun f => Item.frame (okTag :: f)) ∧
    Consumer.held (·.buf) (Consumer.run GenericFr.init (feed load limit) Consumer.new chunks).1 = [] := by
  have R := feed_refines load limit
  have hsim := Consumer.run_ref R chunks Consumer.new [] (Or.inl ⟨rfl, rfl⟩)
  have href := refRun_frames load S P limit m chunks hm fs hfs hsafe [] (Or.inl rfl) (by simpa using hcut)
  rw [href] at hsim
  constructor
  · rw [hsim.1]
    apply List.map_congr_left
    intro f hf
    simp [frameItem, hok f hf]
  · rcases hsim.2 with ⟨hfr, hbuf⟩ | ⟨s, hfr, hbuf, hinv, _⟩
    · simp [Consumer.held, hfr, hbuf]
    · simp only [Consumer.held, hfr]
      exact hinv.1

/-- **C01, file-based framers, buffer-filling consumer** (buffer of `min(sizehint, limit)` bytes as allocated by
    `create_deserializer_buffer`).  Same statement for every history of non-empty fills that fit the write buffer offered
    at that moment, under the safe-zone condition `|frame| + min(sizehint, limit) ≤ limit + 1`; nothing is retained: no
    re-injected remainder is pending and a suspended framer, if any, holds no byte. -/
theorem C01_generic_buffered_roundtrip (load : Bytes → LoadRes) (S : Stable load) (P : Progress load)
    (limit hint : Nat) (hlimit : 0 < limit) (hhint : 0 < hint)
    (fs : List Bytes) (hfs : ∀ f ∈ fs, IsFrame load f) (hok : ∀ f ∈ fs, load f = .ok f.length)
    (hsafe : ∀ f ∈ fs, f.length + bufCap limit hint ≤ limit + 1)
    (fills : List Bytes) (hcut : fills.flatten = fs.flatten)
    (r : BufConsumer GenericFr.State × List Item)
    (hrun : BufConsumer.runFills GenericFr.init 0 (bufCap limit hint) (bfeed load limit) BufConsumer.new fills = some r) :
    r.2 = fs.map (fun f => Item.frame (okTag :: f)) ∧ r.1.crashed = false ∧ r.1.written = 0 ∧
    (∀ s, r.1.fr = some s → s.buf = []) := by
  have hcap : 0 < bufCap limit hint := by unfold bufCap; omega
  have F := feed_fits load S limit
  rw [bfeed_eq] at hrun
  have hsim := runFills_sim (bufCap limit hint) hcap F fills BufConsumer.new Consumer.new
    (sim_new _ _ _) r hrun
  have hlen := runFills_len (bufCap limit hint) hcap F fills BufConsumer.new Consumer.new (sim_new _ _ _) r hrun
  have hcopy := C01_generic_copy_roundtrip load S P limit (bufCap limit hint) fs hfs hok hsafe fills hlen hcut
  refine ⟨by rw [hsim.1, hcopy.1], hsim.2.1, ?_, ?_⟩
  · -- nothing re-injected: the copying consumer's buffer is empty
    obtain ⟨_, _, hwle, hcb, hcase⟩ := hsim.2
    have hheld := hcopy.2
    rcases hcase with ⟨_, hw, _⟩ | ⟨s, _, _, _, _, hc⟩
    · exact hw
    · rcases hc with ⟨_, hw⟩ | ⟨hcfr, _⟩
      · exact hw
      · simp only [Consumer.held, hcfr] at hheld
        rw [hheld] at hcb
        have : (List.take r.1.written r.1.buffer).length = 0 := by rw [← hcb]; rfl
        simp only [List.length_take] at this
        omega
  · intro s hs
    obtain ⟨_, _, _, _, hcase⟩ := hsim.2
    have hheld := hcopy.2
    rcases hcase with ⟨hfr, _, _⟩ | ⟨s', hfr, _, _, hg, hc⟩
    · rw [hfr] at hs; cases hs
    · rw [hfr] at hs; injection hs with hs; subst hs
      rcases hc with ⟨hcfr, _⟩ | ⟨_, hinit⟩
      · simpa [Consumer.held, hcfr] using hheld
      · rw [hinit]; rfl

/-- non-vacuity, on the exact edge of the zone (toy length-prefixed loader, limit 8, reads of at most 3 bytes, two frames
    of 6 bytes: `6 + 3 = limit + 1`), cut so that reads carry the tail of one frame and the head of the next; the third
    read brings the accumulated bytes to exactly 8 -/
example : Stable toyLoad ∧ Progress toyLoad ∧
    (∀ f ∈ ([[5, 1, 2, 3, 4, 5], [5, 6, 7, 8, 9, 10]] : List Bytes),
      IsFrameD toyLoad f ∧ toyLoad f = .ok f.length ∧ f.length + 3 ≤ 8 + 1) ∧
    (∀ c ∈ ([[5, 1], [2, 3, 4], [5, 5, 6], [7, 8, 9], [10]] : List Bytes), c.length ≤ 3) ∧
    ([[5, 1], [2, 3, 4], [5, 5, 6], [7, 8, 9], [10]] : List Bytes).flatten
      = ([[5, 1, 2, 3, 4, 5], [5, 6, 7, 8, 9, 10]] : List Bytes).flatten ∧
    (Consumer.run GenericFr.init (feed toyLoad 8) Consumer.new [[5, 1], [2, 3, 4], [5, 5, 6], [7, 8, 9], [10]]).2
      = [.frame (okTag :: [5, 1, 2, 3, 4, 5]), .frame (okTag :: [5, 6, 7, 8, 9, 10])] ∧
    (BufConsumer.runFills GenericFr.init 0 (bufCap 8 3) (bfeed toyLoad 8) BufConsumer.new
        [[5, 1], [2, 3, 4], [5, 5, 6], [7, 8, 9], [10]]).map (·.2)
      = some [.frame (okTag :: [5, 1, 2, 3, 4, 5]), .frame (okTag :: [5, 6, 7, 8, 9, 10])] :=
  ⟨toyLoad_stable, toyLoad_progress, by decide +kernel, by decide +kernel, by decide +kernel, by decide +kernel,
   by decide +kernel⟩

/-- **C01, producer side of the file-based serializers.**  `incremental_serialize` yields nothing at all for an empty
    dump — the documented exclusion ("packets the producer encodes to nothing are outside `Valid`") — and exactly the
    dump otherwise, so the stream of packets with non-empty dumps is the concatenation of the dumps (which is what the
    round-trip theorems take as frames), and `serialize` is the join of the chunks. -/
theorem C01_generic_producer_nothing_when_empty :
    produce [] = [] ∧
    (∀ dump : Bytes, dump ≠ [] → produce dump = [dump]) ∧
    (∀ dump : Bytes, (produce dump).flatten = serialize dump) ∧
    (∀ dumps : List Bytes, (dumps.flatMap produce).flatten = dumps.flatten) := by
  have h2 : ∀ dump : Bytes, dump ≠ [] → produce dump = [dump] := by
    intro dump hd
    have : dump.length ≠ 0 := by
      intro h; exact hd (List.eq_nil_of_length_eq_zero h)
    simp [produce, this]
  have h3 : ∀ dump : Bytes, (produce dump).flatten = serialize dump := by
    intro dump
    by_cases hd : dump = []
    · subst hd; simp [produce, serialize]
    · rw [h2 dump hd]; simp [serialize]
  refine ⟨by simp [produce], h2, h3, ?_⟩
  intro dumps
  induction dumps with
  | nil => rfl
  | cons d ds ih =>
    simp only [List.flatMap_cons, List.flatten_append, List.flatten_cons, ih, h3 d, serialize]

/-- the compressor's producer: two chunks (the first possibly empty) whose join is `serialize` -/
theorem C01_generic_compressor_producer (comp : Bytes → Bytes × Bytes) (data : Bytes) :
    (cproduce comp data).length = 2 ∧ (cproduce comp data).flatten = cserialize comp data := by
  simp [cproduce, cserialize]

/-- **C01, compressor framers — partial.**  Proved for a decompressor whose view as a loader (`loadOf dec`) satisfies
    the laws on ALL byte strings, which excludes decompressors that can report an error (`DecRes.corrupt` drops
    everything received, which is not extension-stable).  Missing: the same statement with the laws relativised to the
    prefixes of the stream at hand (then real zlib/bz2 qualify).  Both receive paths. -/
theorem C01_generic_compressor_roundtrip_partial (dec : Bytes → DecRes) (S : Stable (loadOf dec)) (P : Progress (loadOf dec))
    (fs : List Bytes) (hfs : ∀ f ∈ fs, IsFrame (loadOf dec) f) (hok : ∀ f ∈ fs, loadOf dec f = .ok f.length)
    (chunks : List Bytes) (hcut : chunks.flatten = fs.flatten) :
    (Consumer.run cinit (cfeed dec) Consumer.new chunks).2 = fs.map (fun f => Item.frame (okTag :: f)) := by
  have R := cfeed_refines dec
  have L := specU_laws (loadOf dec) S P
  have hsim := Consumer.run_ref R chunks Consumer.new [] (Or.inl ⟨rfl, rfl⟩)
  obtain ⟨fs1, fs2, h', hsplit, hp, hheld, hdec⟩ :=
    decode_prefix (loadOf dec) S P fs hfs fs.flatten [] (by simp)
  have hind := refRun_chunk_independent L chunks [] (Or.inl rfl)
    (by
      apply AllOk_of_NoLimit
      simp only [List.nil_append, hcut, hdec]
      intro it hit
      simp [frameItem] at hit
      rcases hit with ⟨f, _, rfl⟩
      simp)
  simp only [List.nil_append, hcut] at hind
  rw [hsim.1, hind, hdec]
  -- all of `fs` is decoded: nothing can be held back at the end of the stream
  have hfs2 : fs2 = [] := by
    have hlen : fs.flatten.length = fs1.flatten.length + h'.length := by rw [hp]; simp
    rw [hsplit] at hlen
    simp only [List.flatten_append, List.length_append] at hlen
    have hl2 : fs2.flatten.length = h'.length := by omega
    rcases hheld with hh | ⟨f, fs', hf', hlt⟩
    · subst hh
      apply flatten_nil_of_pos fs2 (fun f hf => (hfs f (by simp [hsplit, hf])).pos)
      exact List.eq_nil_of_length_eq_zero hl2
    · rw [hf'] at hl2; simp at hl2; omega
  subst hfs2
  simp only [List.append_nil] at hsplit
  subst hsplit
  apply List.map_congr_left
  intro f hf
  simp [frameItem, hok f hf]

/-- **C01, compressor framers, buffer-filling consumer — partial** (same gap as `C01_generic_compressor_roundtrip_partial`):
    buffer of `sizehint` bytes, every accepted history of non-empty fitting fills. -/
theorem C01_generic_compressor_buffered_partial (dec : Bytes → DecRes) (S : Stable (loadOf dec)) (P : Progress (loadOf dec))
    (hint : Nat) (hhint : 0 < hint)
    (fs : List Bytes) (hfs : ∀ f ∈ fs, IsFrame (loadOf dec) f) (hok : ∀ f ∈ fs, loadOf dec f = .ok f.length)
    (fills : List Bytes) (hcut : fills.flatten = fs.flatten) (r : BufConsumer CState × List Item)
    (hrun : BufConsumer.runFills cinit 0 (cbufCap hint) (cbfeed dec) BufConsumer.new fills = some r) :
    r.2 = fs.map (fun f => Item.frame (okTag :: f)) ∧ r.1.crashed = false := by
  have F := cfeed_fits dec S
  rw [cbfeed_eq] at hrun
  have hsim := runFills_sim (cbufCap hint) hhint F fills BufConsumer.new Consumer.new (sim_new _ _ _) r hrun
  exact ⟨by rw [hsim.1, C01_generic_compressor_roundtrip_partial dec S P fs hfs hok fills hcut], hsim.2.1⟩

end GenericFramers
-- ==== END generic framers ====

end EasyNet

-- ==== BEGIN raw JSON framer ====
namespace EasyNet

/-- **C01, raw JSON (`JSONSerializer(use_lines=False)`): producer and consumer together.**
    `JRaw.JText` is the grammar of the texts the encoder emits (Lemmas/JRawGrammar.lean; a superset: objects / arrays of
    arbitrary nesting depth whose members are separated by any bytes other than quotes, brackets, braces and backslashes;
    strings of any bytes with backslash escapes, in particular runs of backslashes before a quote; plain values = non-empty
    runs of value bytes not starting with a quote, bracket or brace).  `JRaw.produce` appends "\n" iff the text does not
    start with `{`, `[` or `"`.
    For every list of such texts, each at most `limit` bytes long, and EVERY way of cutting the produced stream into reads
    (empty reads allowed), the copying consumer over `JRaw.feed` delivers exactly one frame per text, in order, reports no
    error and retains nothing.  Each frame is exactly what the producer emitted for the text: the text itself for objects,
    arrays and strings, and the text plus its terminating newline for plain values — the trailing-whitespace rule of
    `_split_partial_document`: whitespace that follows a complete document in the same buffer is attached to the frame
    (here that is only ever the producer's newline, because the next text does not start with whitespace); the JSON decoder
    ignores it. -/
theorem C01_jraw_roundtrip (limit : Nat) (ps : List Bytes) (hvalid : ∀ p ∈ ps, JRaw.JText p ∧ p.length ≤ limit)
    (chunks : List Bytes) (hcut : chunks.flatten = (ps.map JRaw.produce).flatten) :
    (Consumer.run JRaw.init (JRaw.feed limit) Consumer.new chunks).2 = ps.map (fun p => Item.frame (JRaw.produce p)) ∧
    Consumer.held (·.doc) (Consumer.run JRaw.init (JRaw.feed limit) Consumer.new chunks).1 = [] := by
  -- choose, for every text, the syntactic document the producer emits
  have hdocs : ∀ qs : List Bytes, (∀ p ∈ qs, JRaw.JText p ∧ p.length ≤ limit) →
      ∃ docs : List JRaw.Doc, (∀ d ∈ docs, d.ok limit) ∧ docs.map JRaw.Doc.bytes = qs.map JRaw.produce := by
    intro qs
    induction qs with
    | nil => intro _; exact ⟨[], by simp, rfl⟩
    | cons p qs ih =>
      intro hv
      obtain ⟨docs, h1, h2⟩ := ih (fun q hq => hv q (by simp [hq]))
      obtain ⟨d, hd1, hd2⟩ := JRaw.jtext_doc limit (hv p (by simp)).1 (hv p (by simp)).2
      refine ⟨d :: docs, ?_, by simp [hd2, h2]⟩
      intro e he
      simp only [List.mem_cons] at he
      rcases he with rfl | he
      · exact hd1
      · exact h1 e he
  obtain ⟨docs, hok, hmap⟩ := hdocs ps hvalid
  have hrun := JRaw.run_docs limit docs hok [] (JRaw.isTail_nil limit) chunks (by rw [hmap]; simpa using hcut)
  refine ⟨?_, hrun.2 rfl⟩
  rw [hrun.1]
  have : docs.map (fun d => Item.frame d.bytes) = (docs.map JRaw.Doc.bytes).map Item.frame := by rw [List.map_map]; rfl
  rw [this, hmap, List.map_map]
  rfl

/-- non-vacuity: `{"a":"}\\\""}` (a string holding a brace, an escaped backslash and an escaped quote), `12`, `[[],{}]`
    are texts of the grammar; the second one gets a newline -/
example : JRaw.JText [123, 34, 97, 34, 58, 34, 125, 92, 92, 92, 34, 34, 125] ∧ JRaw.JText [49, 50] ∧
    JRaw.JText [91, 91, 93, 44, 123, 125, 93] ∧ JRaw.produce [49, 50] = [49, 50, 10] := by
  refine ⟨?_, ?_, ?_, rfl⟩
  · exact .obj [34, 97, 34, 58, 34, 125, 92, 92, 92, 34, 34] (.str [97] _ (.char _ _ (by decide) (by decide) .nil)
      (.filler 58 _ (by decide) (.str [125, 92, 92, 92, 34] _
        (.char _ _ (by decide) (by decide) (.esc _ _ (.esc _ _ .nil))) .nil)))
  · exact .plain _ (by decide) (by decide)
  · exact .arr [91, 93, 44, 123, 125] (.arr [] _ .nil (.filler 44 _ (by decide) (.obj [] _ .nil .nil)))

/-- the theorem applied: that stream cut in the middle of the backslash run and between value and newline -/
example : (Consumer.run JRaw.init (JRaw.feed 13) Consumer.new
      [[123, 34, 97, 34, 58, 34, 125, 92, 92], [92, 34, 34, 125, 49, 50], [10, 91, 91, 93, 44, 123], [125, 93]]).2
    = [.frame [123, 34, 97, 34, 58, 34, 125, 92, 92, 92, 34, 34, 125], .frame [49, 50, 10], .frame [91, 91, 93, 44, 123, 125, 93]] := by
  decide +kernel

end EasyNet
-- ==== END raw JSON framer ====
