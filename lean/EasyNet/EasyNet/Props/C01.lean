/-
  C01 — Stream round-trip: packets survive any chunking of the byte stream.
  Property theorems only (helper lemmas live in EasyNet/Lemmas).

  What is proved here is about the framing/consumer logic of EasyNetwork (models in EasyNet/Model,
  tied to the Python source by the correspondence check).  Payload codecs (str/json/struct/base64/…)
  sit on top of the delivered frames and are parameters: a valid packet `p` is represented by its
  encoded payload bytes, `ValidPayload` is the explicit well-formedness predicate.
-/
import EasyNet.Lemmas.RU
import EasyNet.Lemmas.RUSpec
import EasyNet.Lemmas.ConsumerSim
import EasyNet.Lemmas.BRUSpec
import EasyNet.Lemmas.Fixed
import EasyNet.Lemmas.Producer
import EasyNet.Lemmas.JRawWs  -- raw JSON framer
namespace EasyNet

theorem RU.refines (sep : Bytes) (limit : Nat) (ke : Bool) (hsep : sep ≠ []) :
    Refines RU.init (RU.feed sep limit ke) (RU.spec sep limit ke) (RU.Inv sep limit) :=
  ⟨RU.inv_init sep limit, fun s b c h => RU.feed_spec sep limit ke hsep s b c h⟩

/-- **C01, separator-framed serializers, copying consumer.**
    For every list of valid payloads and *every* way of cutting the produced byte stream into reads
    (empty reads allowed), the consumer delivers exactly those frames, in order, once each, reports no
    error, and retains nothing. -/
theorem C01_sep_copy_roundtrip (sep : Bytes) (limit : Nat) (ke : Bool) (hsep : sep ≠ [])
    (ps : List Bytes) (hvalid : ∀ p ∈ ps, ValidPayload sep limit p)
    (chunks : List Bytes) (hcut : chunks.flatten = encodeFrames sep ps) :
    (Consumer.run RU.init (RU.feed sep limit ke) Consumer.new chunks).2 = ps.map (frameOf sep ke) ∧
    Consumer.held (·.buf) (Consumer.run RU.init (RU.feed sep limit ke) Consumer.new chunks).1 = [] := by
  have R := RU.refines sep limit ke hsep
  have L := RU.spec_laws sep limit ke hsep
  have hsim := Consumer.run_ref R chunks Consumer.new [] (Or.inl ⟨rfl, rfl⟩)
  have hdec := RU.decode_frames sep limit ke hsep ps hvalid
  have hind := refRun_chunk_independent L chunks [] (Or.inl rfl)
    (by
      apply AllOk_of_NoLimit
      simp only [List.nil_append, hcut, hdec]
      intro it hit
      simp [frameOf] at hit
      rcases hit with ⟨p, _, rfl⟩
      simp)
  simp only [List.nil_append, hcut, hdec] at hind
  rw [hind] at hsim
  refine ⟨hsim.1, ?_⟩
  rcases hsim.2 with ⟨hfr, hbuf⟩ | ⟨s, hfr, hbuf, hinv, _⟩
  · simp [Consumer.held, hfr, hbuf]
  · simp only [Consumer.held, hfr]
    exact RU.inv_buf sep limit s [] hinv

/-- non-vacuity: a two-packet CRLF stream cut inside the separator meets the hypotheses -/
example : (∀ p ∈ ([[97, 98], [99]] : List Bytes), ValidPayload [13, 10] 10 p) ∧
    ([[97, 98, 13], [10, 99, 13, 10]] : List Bytes).flatten = encodeFrames [13, 10] [[97, 98], [99]] := by
  decide +kernel

/-- **C01, separator-framed serializers, buffer-filling consumer** (buffer capacity `cap` = the serializer's limit).
    For every list of payloads safely inside the capacity and *every* history of non-empty fills that fit the write
    buffer offered at that moment (any fill sizes) and whose concatenation is the produced stream, the consumer
    delivers exactly those frames, in order, once each, reports no error, and retains nothing. -/
theorem C01_sep_buffered_roundtrip (sep : Bytes) (cap : Nat) (ke : Bool) (hsep : sep ≠ []) (hcap : 0 < cap)
    (ps : List Bytes) (hvalid : ∀ p ∈ ps, ValidPayloadB sep cap p)
    (fills : List Bytes) (hcut : fills.flatten = encodeFrames sep ps)
    (r : BufConsumer BRUState × List Item)
    (hrun : BufConsumer.runFills BRU.init 0 cap (BRU.feed true sep ke) BufConsumer.new fills = some r) :
    r.2 = ps.map (frameOf sep ke) ∧
    BufConsumer.Rel (·.buflen) (BRU.spec sep cap ke) (BRU.Inv sep cap) cap r.1 [] := by
  have R := BRU.refines sep cap ke hsep
  have L := BRU.spec_laws sep cap ke hsep
  have hnew : BufConsumer.Rel (·.buflen) (BRU.spec sep cap ke) (BRU.Inv sep cap) cap
      (BufConsumer.new : BufConsumer BRUState) [] :=
    ⟨rfl, Or.inl ⟨rfl, rfl, rfl, Or.inl rfl⟩⟩
  have hsim := BufConsumer.runFills_ref cap R hcap fills BufConsumer.new [] hnew r hrun
  have hdec := BRU.decode_frames sep cap ke hsep ps hvalid
  have hind := refRun_chunk_independent L fills [] (Or.inl rfl)
    (by simp only [List.nil_append, hcut, hdec]; exact BRU.frames_allOk sep cap ke ps hvalid)
  simp only [List.nil_append, hcut, hdec] at hind
  rw [hind] at hsim
  exact hsim

/-- the buffered consumer can always accept at least one more byte between reads (it never reaches the
    "start position is set to the end of the buffer" crash), provided the separator fits the buffer -/
theorem C01_sep_buffered_room (sep : Bytes) (cap : Nat) (ke : Bool) (hsep : sep ≠ []) (hcap : sep.length ≤ cap)
    (c : BufConsumer BRUState) (h : Bytes)
    (hrel : BufConsumer.Rel (·.buflen) (BRU.spec sep cap ke) (BRU.Inv sep cap) cap c h) (hw : c.written = 0) :
    0 < (BufConsumer.prepare BRU.init 0 cap c).room := by
  have hpos : 0 < sep.length := List.length_pos_iff.mpr hsep
  rcases hrel with ⟨_, ⟨hfr, _, _, hbuf⟩ | ⟨s, hfr, hlen, hst, hfit, htake, hinv, hw0⟩⟩
  · simp only [BufConsumer.prepare, hfr, BufConsumer.room, hw]
    rcases hbuf with hb | hb
    · simp [hb]; omega
    · have : c.buffer.isEmpty = false := by
        cases hc : c.buffer with
        | nil => rw [hc] at hb; simp at hb; omega
        | cons x xs => rfl
      simp [this, hb]; omega
  · have hne : c.buffer.isEmpty = false := by
      cases hc : c.buffer with
      | nil => rw [hc] at hlen; simp at hlen; omega
      | cons x xs => rfl
    have hfit' : s.buflen ≤ cap := by simpa [hw] using hfit
    have hhl : h.length = s.buflen := by
      rw [← htake, hw]; simp only [Nat.add_zero, List.length_take]; omega
    simp only [BufConsumer.prepare, hfr, hne, BufConsumer.room, hw, hst, Bool.false_eq_true, if_false, hlen, Nat.add_zero]
    rcases hw0 hw with hnil | hneed
    · subst hnil; simp at hhl; simp [← hhl]; omega
    · unfold BRU.spec at hneed
      cases hf : firstOcc sep h with
      | some i => rw [hf] at hneed; cases hneed
      | none =>
        rw [hf] at hneed; simp only at hneed
        split at hneed
        · cases hneed
        · rename_i hl
          simp; omega

example : (∀ p ∈ ([[97, 98], [99]] : List Bytes), ValidPayloadB [13, 10] 8 p) := by decide +kernel

/-- **C01, fixed-size serializers (struct, named-tuple struct, FixedSizePacketSerializer), copying consumer.**
    Every chunking of a stream of `n`-byte packets is delivered as exactly those packets; nothing is left over. -/
theorem C01_fixed_copy_roundtrip (n : Nat) (hn : 0 < n) (ps : List Bytes) (hvalid : ∀ p ∈ ps, p.length = n)
    (chunks : List Bytes) (hcut : chunks.flatten = ps.flatten) :
    (Consumer.run RE.init (RE.feed n) Consumer.new chunks).2 = ps.map Item.frame ∧
    Consumer.held (·.buf) (Consumer.run RE.init (RE.feed n) Consumer.new chunks).1 = [] := by
  have R := RE.refines n
  have L := RE.spec_laws n hn
  have hsim := Consumer.run_ref R chunks Consumer.new [] (Or.inl ⟨rfl, rfl⟩)
  have hdec := RE.decode_packets n hn ps hvalid
  have hind := refRun_chunk_independent L chunks [] (Or.inl rfl)
    (by
      simp only [List.nil_append, hcut, hdec]
      intro it hit
      simp only [List.mem_map] at hit
      obtain ⟨p, _, rfl⟩ := hit
      trivial)
  simp only [List.nil_append, hcut, hdec] at hind
  rw [hind] at hsim
  refine ⟨hsim.1, ?_⟩
  rcases hsim.2 with ⟨hfr, hbuf⟩ | ⟨s, hfr, hbuf, hinv, _⟩
  · simp [Consumer.held, hfr, hbuf]
  · simp only [Consumer.held, hfr]; exact hinv

/-- **C01, fixed-size serializers, buffer-filling consumer** (capacity `cap = max n hint`), any fitting fills. -/
theorem C01_fixed_buffered_roundtrip (n cap : Nat) (hn : 0 < n) (hcap : 0 < cap)
    (ps : List Bytes) (hvalid : ∀ p ∈ ps, p.length = n)
    (fills : List Bytes) (hcut : fills.flatten = ps.flatten)
    (r : BufConsumer BFXState × List Item)
    (hrun : BufConsumer.runFills BFX.init 0 cap (BFX.feed n) BufConsumer.new fills = some r) :
    r.2 = ps.map Item.frame ∧ BufConsumer.Rel (·.nread) (RE.spec n) BFX.Inv cap r.1 [] := by
  have R := BFX.refines n cap hn
  have L := RE.spec_laws n hn
  have hnew : BufConsumer.Rel (·.nread) (RE.spec n) BFX.Inv cap (BufConsumer.new : BufConsumer BFXState) [] :=
    ⟨rfl, Or.inl ⟨rfl, rfl, rfl, Or.inl rfl⟩⟩
  have hsim := BufConsumer.runFills_ref cap R hcap fills BufConsumer.new [] hnew r hrun
  have hdec := RE.decode_packets n hn ps hvalid
  have hind := refRun_chunk_independent L fills [] (Or.inl rfl)
    (by
      simp only [List.nil_append, hcut, hdec]
      intro it hit
      simp only [List.mem_map] at hit
      obtain ⟨p, _, rfl⟩ := hit
      trivial)
  simp only [List.nil_append, hcut, hdec] at hind
  rw [hind] at hsim
  exact hsim

example : (∀ p ∈ ([[1, 2, 3], [4, 5, 6]] : List Bytes), p.length = 3) ∧
    ([[1], [2, 3, 4, 5], [6]] : List Bytes).flatten = ([[1, 2, 3], [4, 5, 6]] : List Bytes).flatten := by decide

/-- **C01, producer and consumer together (separator-framed serializers).**  Take any chunks `bs` that the real
    producer logic (`AutoSep.produce`: strip trailing separators, refuse data containing the separator — also across the
    junction with the appended one) emits, each within the limit; cut their concatenation anywhere.  The copying consumer
    delivers, for each chunk, exactly its payload (the chunk without its separator), in order, once, and retains nothing.
    So "valid packet" = "packet the producer accepts and that is not longer than the limit". -/
theorem C01_sep_producer_roundtrip (sep : Bytes) (limit : Nat) (hsep : sep ≠ [])
    (bs : List Bytes) (hprod : ∀ b ∈ bs, ∃ data, AutoSep.produce sep data = .chunk b)
    (hlim : ∀ b ∈ bs, b.length ≤ limit + sep.length)
    (chunks : List Bytes) (hcut : chunks.flatten = bs.flatten) :
    (Consumer.run RU.init (RU.feed sep limit false) Consumer.new chunks).2
      = bs.map (fun b => Item.frame (b.take (b.length - sep.length))) ∧
    Consumer.held (·.buf) (Consumer.run RU.init (RU.feed sep limit false) Consumer.new chunks).1 = [] := by
  have hval : ∀ b ∈ bs, b = b.take (b.length - sep.length) ++ sep ∧
      ValidPayload sep limit (b.take (b.length - sep.length)) := by
    intro b hb
    obtain ⟨data, hd⟩ := hprod b hb
    obtain ⟨p, hbp, _, hfo⟩ := AutoSep.produce_valid sep data b hsep hd
    have hl := hlim b hb
    have htake : b.take (b.length - sep.length) = p := by
      rw [hbp]; simp
    rw [htake]
    refine ⟨hbp, hfo, ?_⟩
    rw [hbp] at hl; simp at hl; omega
  have henc : encodeFrames sep (bs.map (fun b => b.take (b.length - sep.length))) = bs.flatten := by
    unfold encodeFrames
    rw [List.map_map]
    congr 1
    have : bs.map ((fun x => x ++ sep) ∘ fun b => b.take (b.length - sep.length)) = bs.map id := by
      apply List.map_congr_left
      intro b hb
      exact (hval b hb).1.symm
    rw [this, List.map_id]
  have := C01_sep_copy_roundtrip sep limit false hsep (bs.map (fun b => b.take (b.length - sep.length)))
    (by
      intro p hp
      simp only [List.mem_map] at hp
      obtain ⟨b, hb, rfl⟩ := hp
      exact (hval b hb).2)
    chunks (by rw [hcut, henc])
  refine ⟨?_, this.2⟩
  rw [this.1, List.map_map]
  apply List.map_congr_left
  intro b _
  simp [frameOf]

example : AutoSep.produce [124, 124] [97, 124] = .refused ∧ AutoSep.produce [124, 124] [97, 124, 98] = .chunk [97, 124, 98, 124, 124] := by
  decide +kernel

end EasyNet

-- ==== BEGIN raw JSON framer ====
namespace EasyNet

/-- **C01, raw JSON (`JSONSerializer(use_lines=False)`): producer and consumer together.**
    `JRaw.JText` is the grammar of the texts the encoder emits (Lemmas/JRawGrammar.lean; a superset: objects / arrays of
    arbitrary nesting depth whose members are separated by any bytes other than quotes, brackets, braces and backslashes;
    strings of any bytes with backslash escapes, in particular runs of backslashes before a quote; plain values = non-empty
    runs of value bytes not starting with a quote, bracket or brace).  `JRaw.produce` appends "\n" iff the text does not
    start with `{`, `[` or `"`.
    For every list of such texts, each at most `limit` bytes long, and EVERY way of cutting the produced stream into reads
    (empty reads allowed), the copying consumer over `JRaw.feed` delivers exactly one frame per text, in order, reports no
    error and retains nothing.  Each frame is exactly what the producer emitted for the text: the text itself for objects,
    arrays and strings, and the text plus its terminating newline for plain values — the trailing-whitespace rule of
    `_split_partial_document`: whitespace that follows a complete document in the same buffer is attached to the frame
    (here that is only ever the producer's newline, because the next text does not start with whitespace); the JSON decoder
    ignores it. -/
theorem C01_jraw_roundtrip (limit : Nat) (ps : List Bytes) (hvalid : ∀ p ∈ ps, JRaw.JText p ∧ p.length ≤ limit)
    (chunks : List Bytes) (hcut : chunks.flatten = (ps.map JRaw.produce).flatten) :
    (Consumer.run JRaw.init (JRaw.feed limit) Consumer.new chunks).2 = ps.map (fun p => Item.frame (JRaw.produce p)) ∧
    Consumer.held (·.doc) (Consumer.run JRaw.init (JRaw.feed limit) Consumer.new chunks).1 = [] := by
  -- choose, for every text, the syntactic document the producer emits
  have hdocs : ∀ qs : List Bytes, (∀ p ∈ qs, JRaw.JText p ∧ p.length ≤ limit) →
      ∃ docs : List JRaw.Doc, (∀ d ∈ docs, d.ok limit) ∧ docs.map JRaw.Doc.bytes = qs.map JRaw.produce := by
    intro qs
    induction qs with
    | nil => intro _; exact ⟨[], by simp, rfl⟩
    | cons p qs ih =>
      intro hv
      obtain ⟨docs, h1, h2⟩ := ih (fun q hq => hv q (by simp [hq]))
      obtain ⟨d, hd1, hd2⟩ := JRaw.jtext_doc limit (hv p (by simp)).1 (hv p (by simp)).2
      refine ⟨d :: docs, ?_, by simp [hd2, h2]⟩
      intro e he
      simp only [List.mem_cons] at he
      rcases he with rfl | he
      · exact hd1
      · exact h1 e he
  obtain ⟨docs, hok, hmap⟩ := hdocs ps hvalid
  have hrun := JRaw.run_docs limit docs hok [] (JRaw.isTail_nil limit) chunks (by rw [hmap]; simpa using hcut)
  refine ⟨?_, hrun.2 rfl⟩
  rw [hrun.1]
  have : docs.map (fun d => Item.frame d.bytes) = (docs.map JRaw.Doc.bytes).map Item.frame := by rw [List.map_map]; rfl
  rw [this, hmap, List.map_map]
  rfl

/-- non-vacuity: `{"a":"}\\\""}` (a string holding a brace, an escaped backslash and an escaped quote), `12`, `[[],{}]`
    are texts of the grammar; the second one gets a newline -/
example : JRaw.JText [123, 34, 97, 34, 58, 34, 125, 92, 92, 92, 34, 34, 125] ∧ JRaw.JText [49, 50] ∧
    JRaw.JText [91, 91, 93, 44, 123, 125, 93] ∧ JRaw.produce [49, 50] = [49, 50, 10] := by
  refine ⟨?_, ?_, ?_, rfl⟩
  · exact .obj [34, 97, 34, 58, 34, 125, 92, 92, 92, 34, 34] (.str [97] _ (.char _ _ (by decide) (by decide) .nil)
      (.filler 58 _ (by decide) (.str [125, 92, 92, 92, 34] _
        (.char _ _ (by decide) (by decide) (.esc _ _ (.esc _ _ .nil))) .nil)))
  · exact .plain _ (by decide) (by decide)
  · exact .arr [91, 93, 44, 123, 125] (.arr [] _ .nil (.filler 44 _ (by decide) (.obj [] _ .nil .nil)))

/-- the theorem applied: that stream cut in the middle of the backslash run and between value and newline -/
example : (Consumer.run JRaw.init (JRaw.feed 13) Consumer.new
      [[123, 34, 97, 34, 58, 34, 125, 92, 92], [92, 34, 34, 125, 49, 50], [10, 91, 91, 93, 44, 123], [125, 93]]).2
    = [.frame [123, 34, 97, 34, 58, 34, 125, 92, 92, 92, 34, 34, 125], .frame [49, 50, 10], .frame [91, 91, 93, 44, 123, 125, 93]] := by
  decide +kernel

end EasyNet
-- ==== END raw JSON framer ====
