/-
  C05 — Datagrams: one packet per datagram, boundaries preserved, errors isolated.  Property theorems only.
-/
import EasyNet.Lemmas.Datagram
import EasyNet.Props.C01
namespace EasyNet
open EasyNet.C05

/-- **Pointwise.**  The result for the i-th datagram depends on the i-th datagram only: the receive function carries no
    state (it is a `map`), so datagrams are never merged, split or carried over and a malformed one affects no other. -/
theorem C05_pointwise {σ} (init : σ) (feed : σ → Bytes → Res σ) (ds₁ ds₂ : List Bytes) (d : Bytes) :
    dgRecv init feed (ds₁ ++ d :: ds₂) = dgRecv init feed ds₁ ++ oneShot init feed d :: dgRecv init feed ds₂ ∧
    (dgRecv init feed (ds₁ ++ d :: ds₂)).length = (ds₁ ++ d :: ds₂).length := by
  constructor
  · simp [dgRecv]
  · simp [dgRecv]

/-- **Errors isolated, stated as a replacement law.**  Replace the i-th datagram by *any* other byte string (a malformed
    one, an empty one, two frames glued together): every other position of the result list is unchanged, and the
    replaced position is decided by the replacement alone.  So a malformed datagram costs exactly one error at its own
    position and can neither swallow nor duplicate a neighbour. -/
theorem C05_replace_isolated {σ} (init : σ) (feed : σ → Bytes → Res σ) (ds₁ ds₂ : List Bytes) (d d' : Bytes) :
    dgRecv init feed (ds₁ ++ d' :: ds₂) = (dgRecv init feed (ds₁ ++ d :: ds₂)).set ds₁.length (oneShot init feed d') ∧
    (∀ i, i ≠ ds₁.length → (dgRecv init feed (ds₁ ++ d' :: ds₂))[i]? = (dgRecv init feed (ds₁ ++ d :: ds₂))[i]?) := by
  have hset : dgRecv init feed (ds₁ ++ d' :: ds₂)
      = (dgRecv init feed (ds₁ ++ d :: ds₂)).set ds₁.length (oneShot init feed d') := by
    have hl : ds₁.length = (List.map (oneShot init feed) ds₁).length := by simp
    simp only [dgRecv, List.map_append, List.map_cons]
    rw [hl, List.set_append_right _ _ (Nat.le_refl _)]
    simp
  refine ⟨hset, ?_⟩
  intro i hi
  rw [hset, List.getElem?_set_ne (Ne.symm hi)]

/-- non-vacuity of the replacement law on the separator framer: the middle datagram is replaced by a truncated frame -/
example : dgRecv RU.init (RU.feed [10] 8 false) [[97, 10], [98], [99, 10]] = [.ok [97], .missing, .ok [99]] ∧
    dgRecv RU.init (RU.feed [10] 8 false) [[97, 10], [98, 10], [99, 10]] = [.ok [97], .ok [98], .ok [99]] := by
  decide +kernel

/-- **One-shot interface derived from the incremental one** (the default `deserialize` of incremental serializers):
    a datagram is accepted exactly when it is one complete frame and nothing else; a frame and a half, or two frames,
    is *one* error, never two packets. -/
theorem C05_oneshot_of_incremental {σ} {init : σ} {feed : σ → Bytes → Res σ} {spec : Bytes → SRes}
    {Inv : σ → Bytes → Prop} (R : Refines init feed spec Inv) (data d : Bytes) :
    oneShot init feed data = .ok d ↔ spec data = .done d [] := by
  have h := (R.step init [] data R.init).1
  simp only [List.nil_append] at h
  unfold oneShot
  cases hf : feed init data with
  | need s => rw [hf] at h; simp only [Res.erase] at h; rw [← h]; simp
  | fail r => rw [hf] at h; simp only [Res.erase] at h; rw [← h]; simp
  | done d' r =>
    rw [hf] at h; simp only [Res.erase] at h; rw [← h]
    by_cases hr : r.isEmpty
    · have : r = [] := by simpa using hr
      subst this
      simp
    · have hne : r ≠ [] := by intro e; apply hr; simp [e]
      simp only [hr, Bool.false_eq_true, if_false]
      constructor
      · intro hc; cases hc
      · intro hc; injection hc with _ h2; exact absurd h2 hne

/-- **Round trip** through the default one-shot interface of a separator-framed serializer: the datagram produced for a
    valid payload (`payload ++ separator`, the join of the incremental chunks) deserializes to that payload;
    two frames in one datagram, or a truncated frame, are rejected. -/
theorem C05_default_oneshot_roundtrip (sep : Bytes) (limit : Nat) (ke : Bool) (hsep : sep ≠ []) (p q : Bytes)
    (hp : ValidPayload sep limit p) (hq : ValidPayload sep limit q) :
    oneShot RU.init (RU.feed sep limit ke) (p ++ sep) = .ok (if ke then p ++ sep else p) ∧
    oneShot RU.init (RU.feed sep limit ke) (p ++ sep ++ (q ++ sep)) = .extra ∧
    oneShot RU.init (RU.feed sep limit ke) p = .missing := by
  have R := RU.refines sep limit ke hsep
  have hpos : 0 < sep.length := List.length_pos_iff.mpr hsep
  refine ⟨?_, ?_, ?_⟩
  · rw [C05_oneshot_of_incremental R]
    have := RU.spec_frame sep limit ke hsep p [] hp
    simpa using this
  · have hspec := RU.spec_frame sep limit ke hsep p (q ++ sep) hp
    have h := (R.step RU.init [] (p ++ sep ++ (q ++ sep)) R.init).1
    simp only [List.nil_append] at h
    rw [hspec] at h
    unfold oneShot
    cases hf : RU.feed sep limit ke RU.init (p ++ sep ++ (q ++ sep)) with
    | need s => rw [hf] at h; cases h
    | fail r => rw [hf] at h; cases h
    | done d r =>
      rw [hf] at h; simp only [Res.erase] at h
      injection h with _ hr
      have : r.isEmpty = false := by
        rw [hr]
        cases sep with
        | nil => exact absurd rfl hsep
        | cons x xs => simp
      simp [this]
  · -- a payload alone contains no separator (its first occurrence in `p ++ sep` is the appended one)
    have hnone : firstOcc sep p = none := by
      cases hf : firstOcc sep p with
      | none => rfl
      | some i =>
        have := firstOcc_append_some sep p sep i hsep hf
        rw [hp.1] at this
        injection this with this
        have hs := findIn_some _ _ _ _ _ (by unfold firstOcc findFrom at hf; exact hf)
        omega
    have h := (R.step RU.init [] p R.init).1
    simp only [List.nil_append] at h
    have hspec : RU.spec sep limit ke p = .need := by
      unfold RU.spec; rw [hnone]
      have : ¬ (p.length + 1 - sep.length > limit) := by have := hp.2; omega
      simp [this]
    rw [hspec] at h
    unfold oneShot
    cases hf : RU.feed sep limit ke RU.init p with
    | need s => rfl
    | fail r => rw [hf] at h; cases h
    | done d r => rw [hf] at h; cases h

/-- **Asyncio datagram endpoint queue: FIFO, nothing lost, nothing duplicated.**  For every interleaving of
    `datagram_received`, `error_received`, `connection_lost`, `close` and `recvfrom` calls: the datagrams returned so far,
    followed by those still queued, are exactly the datagrams the protocol accepted, in arrival order —
    error wake-ups in between consume no datagram. -/
theorem C05_queue_fifo (evs : List DEv) :
    gots (DQ.run {} evs).2 ++ queued (DQ.run {} evs).1 = accepted {} evs := by
  have := run_conserve evs {}
  simpa [queued] using this

example : (DQ.run {} [.dgram [1], .error 7, .dgram [2], .recv, .recv, .recv, .recv]).2
    = [.none, .none, .none, .got [1], .exc 7, .got [2], .wait] := by decide

example : ValidPayload [10] 8 [97, 98] := by decide +kernel

-- ==== BEGIN generic framers ====
section GenericFramers
open GenericFr

/-- **C05, one-shot `deserialize` of the file-based serializers.**  A datagram is accepted exactly when the loader
    returns a packet having read the datagram up to its last byte; so a datagram holding a frame and a half, or two
    frames, is *one* error (`extra`), a truncated frame is one error (`missing`), a rejected frame is one error
    (`invalid`) — never two packets, never a carried-over remainder (the result type has no remainder). -/
theorem C05_generic_oneshot (load : Bytes → LoadRes) (S : Stable load) (d : Bytes) :
    (GenericFr.deserialize load d = .pkt ↔ load d = .ok d.length) ∧
    (∀ f g : Bytes, IsFrame load f → load f = .ok f.length → g ≠ [] → GenericFr.deserialize load (f ++ g) = .extra) ∧
    (∀ (f : Bytes) (n : Nat), IsFrame load f → n < f.length → GenericFr.deserialize load (f.take n) = .missing) ∧
    (∀ f : Bytes, load f = .bad f.length → GenericFr.deserialize load f = .invalid) := by
  refine ⟨?_, ?_, ?_, ?_⟩
  · unfold GenericFr.deserialize
    cases hl : load d with
    | eof => simp
    | bad k => simp
    | ok k =>
      have hk := S.ok_le d k hl
      by_cases he : k = d.length
      · subst he; simp
      · have hlt : k < d.length := by omega
        have hne : (d.drop k).isEmpty = false := by
          have : (d.drop k).length ≠ 0 := by simp; omega
          cases hd : d.drop k with
          | nil => rw [hd] at this; simp at this
          | cons x xs => rfl
        simp only [hne, Bool.false_eq_true, if_false]
        constructor
        · intro hc; cases hc
        · intro hc; injection hc with hc; exact absurd hc he
  · intro f g hf hok hg
    unfold GenericFr.deserialize
    rw [S.ok_ext f g _ hok]
    have : ((f ++ g).drop f.length).isEmpty = false := by
      simp only [List.drop_left]
      cases g with
      | nil => exact absurd rfl hg
      | cons x xs => rfl
    simp only [this, Bool.false_eq_true, if_false]
  · intro f n hf hn
    unfold GenericFr.deserialize
    rw [hf.prefix_eof n hn]
  · intro f hbad
    unfold GenericFr.deserialize
    rw [hbad]

/-- the compressor's one-shot `deserialize`: a packet exactly when the decompressor reaches end-of-stream on the last
    byte of the datagram and the wrapped serializer accepts the decompressed data -/
theorem C05_generic_compressor_oneshot (dec : Bytes → DecRes) (d : Bytes)
    (hle : ∀ k ok, dec d = .fin k ok → k ≤ d.length) :
    cdeserialize dec d = .pkt ↔ dec d = .fin d.length true := by
  unfold cdeserialize
  cases hd : dec d with
  | more => simp
  | corrupt => simp
  | fin k ok =>
    have hk := hle k ok hd
    by_cases he : k = d.length
    · subst he
      cases ok <;> simp
    · have hne : (d.drop k).isEmpty = false := by
        have : (d.drop k).length ≠ 0 := by simp; omega
        cases hdk : d.drop k with
        | nil => rw [hdk] at this; simp at this
        | cons x xs => rfl
      simp only [hne, Bool.false_eq_true, if_false]
      constructor
      · intro hc; cases hc
      · intro hc; injection hc with hc _; exact absurd hc he

/-- non-vacuity (toy loader): one frame / a frame and a half / two frames / a truncated frame / a bad header -/
example : GenericFr.deserialize toyLoad [2, 7, 7] = .pkt ∧ GenericFr.deserialize toyLoad [2, 7, 7, 2, 7] = .extra ∧
    GenericFr.deserialize toyLoad [2, 7, 7, 1, 9] = .extra ∧ GenericFr.deserialize toyLoad [2, 7] = .missing ∧
    GenericFr.deserialize toyLoad [255] = .invalid ∧ IsFrameD toyLoad [2, 7, 7] := by
  decide +kernel

end GenericFramers
-- ==== END generic framers ====

end EasyNet
