/-
  C04 — send_packet writes exactly the packet's bytes and always terminates.
  Property theorems only (helper lemmas live in EasyNet/Lemmas/{Time,TimeMachines,SendData}.lean).

  The model (EasyNet/Model/{Retry,Send}.lean) is tied to the Python source by the correspondence check.
  `sendPacket tr fix iov ri chunks t sock w` is `endpoint.send_packet(packet, timeout=t)` on transport kind `tr`
  (socket with sendmsg / without sendmsg / TLS socket), `chunks` = what the serializer produces for the packet,
  `sock` = what the socket answers call after call (partial writes `sent n`, EAGAIN/EINTR/SSL want-read or want-write,
  errors), `w.sel` = what select() answers, `fix = true` = `adjust_leftover_buffer` with docs/C04-fix-1.patch.
  Every theorem quantifies over ALL chunk lists (empty chunks anywhere), scripts, timeouts and retry intervals.
  A run on a prefix of a script is the state of the longer run at that step, so "for every script" includes
  "at every step".
-/
import EasyNet.Lemmas.SendData
import EasyNet.Lemmas.TimeMachines
namespace EasyNet

/-- the three ways `send_all_from_iterable` reaches the socket, with what each puts on the wire -/
theorem sendAllFromIterable_wire (tr : Transport) (fix : Bool) (iov : Int) (ri : Tmo) (chunks : List Bytes) (t : Tmo)
    (sock : List SockCall) (w : World) :
    ∃ X Y, chunks.flatten = X ++ Y ∧ (sendAllFromIterable tr fix iov ri chunks t sock w).2.wire = w.wire ++ X ∧
      ((sendAllFromIterable tr fix iov ri chunks t sock w).1 = .ok → Y = []) := by
  have hall : ∀ fl, ∃ X Y, chunks.flatten = X ++ Y ∧ (sendAll fl ri chunks.flatten t sock w).2.wire = w.wire ++ X ∧
      ((sendAll fl ri chunks.flatten t sock w).1 = .ok → Y = []) := by
    intro fl
    have := sendAllLoop_wire fl ri chunks.flatten sock ⟨0, t, t, w.now⟩ w
    simpa [sendAll] using this
  unfold sendAllFromIterable
  cases tr with
  | sendmsg =>
    simp only []
    by_cases hiov : iov ≤ 0
    · simp only [hiov, if_true]; exact hall .plain
    · simp only [hiov, if_false]; exact sendmsgLoop_wire fix ri iov.toNat sock chunks t w
  | nosendmsg => exact hall .plain
  | tls => exact hall .tls

/-- **C04, never duplicates, reorders or invents bytes.**  Whatever the socket does (any pattern of partial writes,
    would-block results, errors), with or without the fix, the bytes on the wire are a prefix of the concatenation
    of the chunks — at every step. -/
theorem C04_prefix (tr : Transport) (fix : Bool) (iov : Int) (ri : Tmo) (chunks : List Bytes) (t : Tmo)
    (sock : List SockCall) (w : World) :
    ∃ X, X <+: chunks.flatten ∧ (sendPacket tr fix iov ri chunks t sock w).2.wire = w.wire ++ X := by
  obtain ⟨X, Y, h1, h2, _⟩ := sendAllFromIterable_wire tr fix iov ri chunks t sock w
  exact ⟨X, ⟨Y, h1.symm⟩, h2⟩

/-- **C04, exactly the packet's bytes.**  If the call returns normally the wire holds exactly the concatenation of
    the chunks, in order and once. -/
theorem C04_exact (tr : Transport) (fix : Bool) (iov : Int) (ri : Tmo) (chunks : List Bytes) (t : Tmo)
    (sock : List SockCall) (w : World)
    (hok : (sendPacket tr fix iov ri chunks t sock w).1 = .ok) :
    (sendPacket tr fix iov ri chunks t sock w).2.wire = w.wire ++ chunks.flatten := by
  obtain ⟨X, Y, h1, h2, h3⟩ := sendAllFromIterable_wire tr fix iov ri chunks t sock w
  have hY := h3 hok
  subst hY
  simp only [sendPacket, h1, h2, List.append_nil]

/-- non-vacuity: three chunks with an empty one in the middle and one at the end, a partial write that stops at a
    chunk boundary, a would-block, a select — the call returns and the wire is the concatenation -/
example : (sendPacket .sendmsg true 1024 (some 2) [[1, 2], [], [3], []] (some 5)
    [⟨.sent 2, 0⟩, ⟨.eagain, 1⟩, ⟨.sent 7, 0⟩] { sel := [.ready 1] }).1 = .ok ∧
    (sendPacket .sendmsg true 1024 (some 2) [[1, 2], [], [3], []] (some 5)
    [⟨.sent 2, 0⟩, ⟨.eagain, 1⟩, ⟨.sent 7, 0⟩] { sel := [.ready 1] }).2.wire = [1, 2, 3] := by
  decide +kernel

/-- counting lemma behind progress: socket calls vs bytes and waits -/
theorem sendAllFromIterable_counts (tr : Transport) (iov : Int) (ri : Tmo) (chunks : List Bytes) (t : Tmo)
    (sock : List SockCall) (w : World) (hlaw : SentPos sock) :
    (sendAllFromIterable tr true iov ri chunks t sock w).2.ncall + w.nsel ≤
        w.ncall + (sendAllFromIterable tr true iov ri chunks t sock w).2.nsel + chunks.flatten.length + 2 ∧
    ((sendAllFromIterable tr true iov ri chunks t sock w).1 = .exhaustedSock →
        (sendAllFromIterable tr true iov ri chunks t sock w).2.ncall = w.ncall + sock.length) ∧
    (sendAllFromIterable tr true iov ri chunks t sock w).2.nsel ≤ w.nsel + w.sel.length := by
  have hall : ∀ fl,
      (sendAll fl ri chunks.flatten t sock w).2.ncall + w.nsel ≤
        w.ncall + (sendAll fl ri chunks.flatten t sock w).2.nsel + chunks.flatten.length + 2 ∧
      ((sendAll fl ri chunks.flatten t sock w).1 = .exhaustedSock →
        (sendAll fl ri chunks.flatten t sock w).2.ncall = w.ncall + sock.length) ∧
      (sendAll fl ri chunks.flatten t sock w).2.nsel ≤ w.nsel + w.sel.length := by
    intro fl
    obtain ⟨h1, h2, h3, _⟩ := sendAllLoop_counts fl ri chunks.flatten sock ⟨0, t, t, w.now⟩ w hlaw
    simp only [sendAll]
    simp only [Nat.sub_zero] at h1
    exact ⟨by omega, h2, by omega⟩
  unfold sendAllFromIterable
  cases tr with
  | sendmsg =>
    simp only []
    by_cases hiov : iov ≤ 0
    · simp only [hiov, if_true]; exact hall .plain
    · simp only [hiov, if_false]
      have hpos : 1 ≤ iov.toNat := by omega
      obtain ⟨h1, h2, h3, _⟩ := sendmsgLoop_counts ri iov.toNat hpos sock chunks t w hlaw
      have hmu : mu chunks ≤ chunks.flatten.length + 1 := by unfold mu; split <;> omega
      exact ⟨by omega, h2, by omega⟩
  | nosendmsg => exact hall .plain
  | tls => exact hall .tls

/-- **C04, progress: the call cannot spin.**  With the repaired `adjust_leftover_buffer`, for every chunk list
    (empty chunks anywhere), every transport kind, every `SC_IOV_MAX` and every script in which a successful send of
    at least one offered byte reports at least one byte: the number of socket calls the operation makes is at most
    |data| + (number of select() waits) + 2.  Every call beyond the first either puts a byte on the wire or is
    followed by a wait. -/
theorem C04_progress (tr : Transport) (iov : Int) (ri : Tmo) (chunks : List Bytes) (t : Tmo)
    (sock : List SockCall) (w : World) (hlaw : SentPos sock) :
    (sendPacket tr true iov ri chunks t sock w).2.ncall + w.nsel ≤
      w.ncall + (sendPacket tr true iov ri chunks t sock w).2.nsel + chunks.flatten.length + 2 :=
  (sendAllFromIterable_counts tr iov ri chunks t sock w hlaw).1

/-- non-vacuity of the law + the bound is tight up to the constant: two chunks, one would-block -/
example : SentPos [⟨.sent 1, 0⟩, ⟨.eagain, 0⟩, ⟨.sent 5, 2⟩] := by
  intro c hc n hn
  simp only [List.mem_cons, List.mem_nil_iff, or_false] at hc
  rcases hc with rfl | rfl | rfl <;> simp_all <;> omega

/-- the shipped code (`fix = false`) does NOT have this property: `[b"abc", b""]` makes it use up any number of
    socket answers (here 40) without ever ending — finding F2 -/
example : (sendPacket .sendmsg false 1024 none [[97, 98, 99], []] (some 1)
    (List.replicate 40 ⟨.sent 100000, 0⟩) { sel := [] }).1 = .exhaustedSock ∧
    (sendPacket .sendmsg true 1024 none [[97, 98, 99], []] (some 1)
    (List.replicate 40 ⟨.sent 100000, 0⟩) { sel := [] }).1 = .ok := by
  decide +kernel

/-- **C04, termination.**  The operation ends by itself — returns, or raises TimeoutError / a connection error:
    it never uses up an environment that still has |data| + (number of select answers) + 3 socket answers to give. -/
theorem C04_terminates (tr : Transport) (iov : Int) (ri : Tmo) (chunks : List Bytes) (t : Tmo)
    (sock : List SockCall) (w : World) (hlaw : SentPos sock)
    (hlen : chunks.flatten.length + w.sel.length + 2 < sock.length) :
    (sendPacket tr true iov ri chunks t sock w).1 ≠ .exhaustedSock := by
  intro hex
  obtain ⟨h1, h2, h3⟩ := sendAllFromIterable_counts tr iov ri chunks t sock w hlaw
  have := h2 hex
  simp only [sendPacket] at *
  omega

example : ([[1, 2], [], [3]] : List Bytes).flatten.length + ({ sel := [.ready 1] } : World).sel.length + 2 <
    (List.replicate 7 (⟨.sent 1, 0⟩ : SockCall)).length := by decide

/-- time facts shared with C11: every send path keeps the time invariant -/
theorem sendAllFromIterable_good (tr : Transport) (fix : Bool) (iov : Int) (ri : Tmo) (chunks : List Bytes) (tv : Nat)
    (sock : List SockCall) (w : World) :
    GoodFin (w.waited + tv) (w.now + tv) w (sendAllFromIterable tr fix iov ri chunks (some tv) sock w).2
      (sendAllFromIterable tr fix iov ri chunks (some tv) sock w).1.isTimeout := by
  have hall : ∀ fl, GoodFin (w.waited + tv) (w.now + tv) w (sendAll fl ri chunks.flatten (some tv) sock w).2
      (sendAll fl ri chunks.flatten (some tv) sock w).1.isTimeout := by
    intro fl
    exact sendAllLoop_good fl ri chunks.flatten sock ⟨0, some tv, some tv, w.now⟩ w (Good.init w tv)
  unfold sendAllFromIterable
  cases tr with
  | sendmsg =>
    simp only []
    by_cases hiov : iov ≤ 0
    · simp only [hiov, if_true]; exact hall .plain
    · simp only [hiov, if_false]
      exact sendmsgLoop_good fix ri iov.toNat (some tv) w.now sock chunks (some tv) w (Good.init w tv)
  | nosendmsg => exact hall .plain
  | tls => exact hall .tls

/-- **C04, within the time budget.**  With a finite timeout `tv`: the time spent waiting in select() is at most `tv`;
    the virtual time the call takes is exactly waiting + select over-sleep + processing time of the socket calls,
    hence at most `tv` + over-sleep + processing; a zero timeout never waits; and TimeoutError is only raised once
    `tv` ticks have elapsed. -/
theorem C04_terminates_within_budget (tr : Transport) (fix : Bool) (iov : Int) (ri : Tmo) (chunks : List Bytes)
    (tv : Nat) (sock : List SockCall) (w : World) :
    (sendPacket tr fix iov ri chunks (some tv) sock w).2.waited ≤ w.waited + tv ∧
    (sendPacket tr fix iov ri chunks (some tv) sock w).2.now + (w.waited + w.over + w.proc) =
      w.now + ((sendPacket tr fix iov ri chunks (some tv) sock w).2.waited +
               (sendPacket tr fix iov ri chunks (some tv) sock w).2.over +
               (sendPacket tr fix iov ri chunks (some tv) sock w).2.proc) ∧
    (tv = 0 → (sendPacket tr fix iov ri chunks (some tv) sock w).2.nsel = w.nsel) ∧
    ((sendPacket tr fix iov ri chunks (some tv) sock w).1 = .timeout →
      w.now + tv ≤ (sendPacket tr fix iov ri chunks (some tv) sock w).2.now) := by
  have h := sendAllFromIterable_good tr fix iov ri chunks tv sock w
  simp only [sendPacket]
  refine ⟨h.budget, ?_, ?_, ?_⟩
  · have := h.acct; have := h.unb; have := h.lockw
    simp only [World.acct] at *; omega
  · intro h0; exact h.zero (by omega)
  · intro ht; exact h.spent (by simp [ht, Outcome.isTimeout])

/-- non-vacuity: a send that runs out of budget after two retry-interval wake-ups and one expiry -/
example : (sendPacket .tls true 1024 (some 2) [[1, 2, 3, 4]] (some 5)
    [⟨.sent 2, 1⟩, ⟨.wantW, 0⟩, ⟨.wantR, 0⟩, ⟨.wantW, 0⟩] { sel := [.expired 0, .expired 0, .expired 0] }).1 = .timeout := by
  decide +kernel

end EasyNet
