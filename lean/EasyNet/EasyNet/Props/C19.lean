/-
  C19 — Connection racing returns one socket and leaks none.
  Property theorems only (lemmas: EasyNet/Lemmas/Race*.lean; model: EasyNet/Model/Race.lean, tied to
  easynetwork/lowlevel/api_async/backend/_common/dns_resolver.py by the trace-replay correspondence check).

  Everything is stated for an arbitrary configuration `cfg` (any address list of mixed families, any
  socket()/bind()/connect outcome per address, any local address list, finite or infinite stagger delay)
  and an arbitrary list of labels `ls` = an arbitrary schedule: which task takes its next atomic step,
  when the stagger timer expires, what each `connect_socket` answers and when, when (and how often) the
  caller is cancelled.  `run cfg St.init ls = some s` says that the model accepts that schedule.
-/
import EasyNet.Lemmas.Race
import EasyNet.Lemmas.RaceMore
import EasyNet.Lemmas.RaceReorder
namespace EasyNet
open EasyNet.Race

/-- **Invariant.** At every moment of every schedule the open sockets are exactly those of the attempts
    currently suspended in `connect_socket`, plus the elected winner as long as no exception left the race. -/
theorem C19_open_inv (cfg : Cfg) (ls : List Label) (s : St) (h : run cfg St.init ls = some s) (k : Nat) :
    (s.ch k).sock = .opened ↔
      ((s.ch k).pc = .connecting ∨ (s.winner = some k ∧ ∀ r, s.fin ≠ some (.raised r))) :=
  (inv_reachable ⟨ls, h⟩).opn k

/-- **Exactly one socket is returned and nothing else stays open**: if the race returns the socket of
    attempt `w`, then after the return a socket is open iff it is that one. -/
theorem C19_one_returned (cfg : Cfg) (ls : List Label) (s : St) (h : run cfg St.init ls = some s)
    (w : Nat) (hret : s.fin = some (.ret w)) (k : Nat) :
    (s.ch k).sock = .opened ↔ k = w := by
  have I := inv_reachable ⟨ls, h⟩
  have hw := I.ret w hret
  have hnc := I.fin (by simp [hret]) k
  rw [I.opn k]
  constructor
  · rintro (hc | ⟨hk, _⟩)
    · exact absurd hc hnc
    · rw [hw] at hk; cases hk; rfl
  · intro e; subst e
    exact Or.inr ⟨hw, by intro r; simp [hret]⟩

/-- **Nothing leaks on failure**: if the race ends with an exception (all attempts failed, the caller was
    cancelled at any step — including after the winner connected —, or an attempt crashed), no socket
    created during the race is open. -/
theorem C19_none_on_failure (cfg : Cfg) (ls : List Label) (s : St) (h : run cfg St.init ls = some s)
    (r : RaiseKind) (hraise : s.fin = some (.raised r)) (k : Nat) :
    (s.ch k).sock ≠ .opened := by
  have I := inv_reachable ⟨ls, h⟩
  have hnc := I.fin (by simp [hraise]) k
  intro ho
  rcases (I.opn k).mp ho with hc | ⟨_, hnr⟩
  · exact hnc hc
  · exact hnr r hraise

/-- **Once the race is over, at most one socket created during it is open** — whichever way it ended (return or any
    exception) and whatever the schedule was: two open sockets `j`, `k` after the end are the same socket, and an open one
    exists only when it is the value returned. -/
theorem C19_at_most_one_open_after_end (cfg : Cfg) (ls : List Label) (s : St) (h : run cfg St.init ls = some s)
    (hf : s.fin ≠ none) (j k : Nat) (hj : (s.ch j).sock = .opened) (hk : (s.ch k).sock = .opened) :
    j = k ∧ s.fin = some (.ret j) := by
  cases hfin : s.fin with
  | none => exact absurd hfin hf
  | some f =>
    cases f with
    | ret w =>
      have h1 := (C19_one_returned cfg ls s h w hfin j).mp hj
      have h2 := (C19_one_returned cfg ls s h w hfin k).mp hk
      subst h1; subst h2; exact ⟨rfl, rfl⟩
    | raised r => exact absurd hj (C19_none_on_failure cfg ls s h r hfin j)

/-- non-vacuity: three addresses (IPv4 ok, IPv6 ok, IPv4 refused), finite stagger delay.  The loop walks them
    as IPv6, IPv4 (refused), IPv4: all three attempts overlap, both successes arrive, the second one closes
    its own socket, the third attempt is cancelled; the schedule is accepted and returns child 2. -/
example :
    let cfg : Cfg := ⟨[⟨0, 4, true, .ok⟩, ⟨1, 6, true, .ok⟩, ⟨2, 4, true, .err⟩], none, true⟩
    ((run cfg St.init [.spawn, .begin 0, .spawn, .begin 1, .spawn, .begin 2, .res 2 .ok, .res 0 .ok,
        .res 1 .cancelled, .fin .ret]).map
      fun s => (s.fin, cfg.ordered.map (·.id), (s.ch 0).sock, (s.ch 1).sock, (s.ch 2).sock))
      = some (some (.ret 2), [1, 2, 0], .closed, .closed, .opened) := by
  decide +kernel

/-- non-vacuity of the failure theorem: the winner connects, then the caller is cancelled before the
    coroutine returns: the winner is closed and the cancellation is raised. -/
example :
    let cfg : Cfg := ⟨[⟨0, 4, true, .ok⟩, ⟨1, 4, true, .hang⟩], some [⟨4, false⟩, ⟨4, true⟩], true⟩
    ((run cfg St.init [.spawn, .begin 0, .spawn, .begin 1, .res 0 .ok, .cancel, .res 1 .cancelled,
        .fin .cancelled]).map
      fun s => (s.fin, (s.ch 0).sock, (s.ch 1).sock))
      = some (some (.raised .cancelled), .closed, .closed) := by
  decide +kernel


/-- **A reported total failure is never empty**: when the race raises
    `BaseExceptionGroup("create_connection() failed", errors)` for a non-empty address list, `errors` holds at
    least one exception (an empty list would make the constructor itself fail and hide the failure). -/
theorem C19_failure_nonempty (cfg : Cfg) (ls : List Label) (s : St) (h : run cfg St.init ls = some s)
    (m : Nat) (hfin : s.fin = some (.raised (.allfailed m))) (hn : 0 < cfg.n) : 1 ≤ m :=
  allfailed_errors cfg ls h m hfin hn

/-- non-vacuity: two addresses, the first one cannot bind (two bind errors), the second is refused -/
example :
    let cfg : Cfg := ⟨[⟨0, 4, true, .ok⟩, ⟨1, 6, true, .err⟩], some [⟨4, false⟩, ⟨6, true⟩, ⟨4, false⟩], false⟩
    ((run cfg St.init [.spawn, .begin 0, .res 0 .err, .spawn, .begin 1, .fin .allfailed]).map (·.fin))
      = some (some (.raised (.allfailed 3))) := by
  decide +kernel

/-- **Every schedule is finite**: apart from repeated `task.cancel()` calls, a race over `n` addresses takes at
    most `3n + 1` atomic steps (spawn, first step, resumption per attempt, and the end of the coroutine). -/
theorem C19_terminates (cfg : Cfg) (ls : List Label) (s : St) (h : run cfg St.init ls = some s) :
    (ls.filter fun l => l ≠ .cancel).length ≤ 3 * cfg.n + 1 := by
  have := measure_run ls (inv_init cfg) h
  rw [measure_init] at this
  unfold nonCancel at this
  omega

/-- **The race never gets stuck by itself**: in every reachable unfinished state some step other than a caller
    cancellation is enabled, unless an attempt hangs in `connect_socket` while nobody has a reason to cancel it. -/
theorem C19_progress (cfg : Cfg) (ls : List Label) (s : St) (h : run cfg St.init ls = some s) (hf : s.fin = none) :
    (∃ l, l ≠ Label.cancel ∧ (step cfg s l).isSome = true) ∨
    (∃ k, (s.ch k).pc = .connecting ∧ (cfg.addr k).out = .hang ∧ s.abortable = false) :=
  progress (inv_reachable ⟨ls, h⟩) (inv2_run ls (inv_init cfg) (inv2_init cfg) h) hf

/-- **The addresses are tried in an order that is a permutation of the resolver's list, IPv6 first**
    (`_interleave_addrinfos(_prioritize_ipv6_over_ipv4(remote_addrinfo))`, families as numbers, 6 = AF_INET6). -/
theorem C19_reorder_perm {α} (fam : α → Nat) (l : List α) :
    (reorder fam l).Perm l ∧
    ((∃ x ∈ l, fam x = 6) → ∃ b t, reorder fam l = b :: t ∧ fam b = 6) := by
  refine ⟨reorder_perm fam l, ?_⟩
  rintro ⟨x, hx, hv⟩
  obtain ⟨b, t, hb, hbv⟩ := reorder_head fam l ⟨x, hx, by simp [isV6, hv]⟩
  exact ⟨b, t, hb, by simpa [isV6] using hbv⟩

example : reorder (fun p : Nat × Nat => p.2) [(0, 4), (1, 4), (2, 6), (3, 7), (4, 6), (5, 4)]
    = [(2, 6), (5, 4), (3, 7), (4, 6), (0, 4), (1, 4)] := by decide +kernel

/-- **Sequential attempts (`_create_connection_impl` over a whole list, used by `create_datagram_connection`)**:
    for every outcome of the attempts and every cancellation point, a returned socket is the only open one and a
    raised failure leaves none open. -/
theorem C19_seq_one_or_none (cfg : Cfg) (ls : List SeqLabel) (s : SeqSt) (h : seqRun cfg SeqSt.init ls = some s) :
    (∀ k, s.fin = some (.ret k) → ∀ j, s.sock j = .opened ↔ j = k) ∧
    (∀ r, s.fin = some (.raised r) → ∀ j, s.sock j ≠ .opened) := by
  have I := seqInv_run ls seqInv_init h
  constructor
  · intro k hk j
    rw [I.opn j, hk]
    constructor
    · rintro (hc | hr)
      · have := (I.excl j hc).1; rw [hk] at this; cases this
      · cases hr; rfl
    · intro e; subst e; exact Or.inr rfl
  · intro r hr j ho
    rcases (I.opn j).mp ho with hc | hret
    · have := (I.excl j hc).1; rw [hr] at this; cases this
    · rw [hr] at hret; cases hret

example :
    let cfg : Cfg := ⟨[⟨0, 4, true, .err⟩, ⟨1, 6, false, .ok⟩, ⟨2, 6, true, .ok⟩], none, false⟩
    ((seqRun cfg SeqSt.init [.start, .res .err, .cancel, .res .ok]).map
      fun s => (s.fin, s.sock 0, s.sock 1, s.sock 2, s.errors))
      = some (some (.ret 2), .closed, .none, .opened, 2) := by
  decide +kernel

end EasyNet
