/-
  C06 — Malformed network input only ever surfaces as a parse error.  Property theorems only.

  Two parts:
   (1) framing: the modelled framers/consumers are total functions (every byte string, every chunking gives a result),
       and every delivered frame or size error consumes at least one byte — hence a receive loop that skips errors
       performs at most |stream| iterations;
   (2) classification: for every codec call site of every shipped serializer and every entry point (one-shot,
       incremental, buffered), every exception class of the declared alphabet leaves the outermost layer
       (protocol object / stream consumer) as a protocol parse error.  The tables are regenerated from the Python
       source on every run (Gen/ExcTables.lean), so this theorem is re-checked against what the code says now.
-/
import EasyNet.Props.C07
import EasyNet.Gen.ExcTables
namespace EasyNet

/-- **Progress** for the three byte-level specs: a delivered frame or a size error leaves strictly fewer bytes. -/
theorem C06_progress (sep : Bytes) (limit : Nat) (ke : Bool) (hsep : sep ≠ []) (n : Nat) (hn : 0 < n) (b : Bytes) :
    (∀ d r, RU.spec sep limit ke b = .done d r → r.length < b.length) ∧
    (∀ r, RU.spec sep limit ke b = .fail r → r.length < b.length) ∧
    (∀ d r, BRU.spec sep limit ke b = .done d r → r.length < b.length) ∧
    (∀ r, BRU.spec sep limit ke b = .fail r → r.length < b.length) ∧
    (∀ d r, RE.spec n b = .done d r → r.length < b.length) := by
  have L1 := RU.spec_laws sep limit ke hsep
  have L2 := BRU.spec_laws sep limit ke hsep
  have L3 := RE.spec_laws n hn
  exact ⟨L1.progress_done b, L1.progress_fail b, L2.progress_done b, L2.progress_fail b, L3.progress_done b⟩

/-- **A skip-errors receive loop terminates**: decoding any byte string (valid or not) yields at most as many items
    (frames and size errors together) as there are bytes. -/
theorem C06_items_bounded {spec : Bytes → SRes} {ok : Bytes → Prop} (L : SpecLaws spec ok) (b : Bytes) :
    (decodeW spec b).2.length ≤ b.length := by
  suffices H : ∀ n (b : Bytes), b.length ≤ n → (decodeW spec b).2.length ≤ b.length from H b.length b (Nat.le_refl _)
  intro n
  induction n with
  | zero =>
    intro b hb
    have : b = [] := List.eq_nil_of_length_eq_zero (by omega)
    subst this
    rw [decodeW_unfold L]; simp
  | succ n ih =>
    intro b hb
    rw [decodeW_unfold L]
    by_cases he : b.isEmpty
    · simp [he]
    · simp only [he, Bool.false_eq_true, if_false]
      cases hs : spec b with
      | need => simp
      | done d r =>
        have hp := L.progress_done b d r hs
        have := ih r (by omega)
        simp only [List.length_cons]; omega
      | fail r =>
        have hp := L.progress_fail b r hs
        have := ih r (by omega)
        simp only [List.length_cons]; omega

/-- the same bound on the real consumer model, for every chunking of every byte string (separator framer, copy path) -/
theorem C06_consumer_items_bounded (sep : Bytes) (limit : Nat) (ke : Bool) (hsep : sep ≠ []) (data : Bytes) :
    (Consumer.run RU.init (RU.feed sep limit ke) Consumer.new [data]).2.length ≤ data.length := by
  have R := RU.refines sep limit ke hsep
  have L := RU.spec_laws sep limit ke hsep
  have hsim := Consumer.run_ref R [data] Consumer.new [] (Or.inl ⟨rfl, rfl⟩)
  rw [hsim.1]
  simp only [refRun, List.nil_append, List.append_nil]
  rw [refRecv_eq_decodeW L]
  simpa using C06_items_bounded L data

/-- **Only parse errors.**  For every generated pipeline (codec call site × entry point) and every exception class of
    its declared alphabet, what leaves the outermost layer is `StreamProtocolParseError` / `DatagramProtocolParseError`. -/
theorem C06_only_parse_errors :
    ∀ p ∈ Gen.pipelines, p.ok Gen.sub Gen.parseErrors = true := by
  decide +kernel

/-- non-vacuity: there are pipelines, none has an empty alphabet, and the check can fail (a pipeline whose innermost
    handler is missing lets the raw exception through) -/
example : Gen.pipelines.length ≥ 30 ∧ (Gen.pipelines.all (fun p => !p.alphabet.isEmpty)) = true := by decide +kernel

example : (⟨"broken", [Gen.Exc.builtins_RecursionError],
    [[⟨[Gen.Exc.json_decoder_JSONDecodeError], .convert Gen.Exc.easynetwork_exceptions_DeserializeError⟩],
     [⟨[Gen.Exc.easynetwork_exceptions_DeserializeError], .convert Gen.Exc.easynetwork_exceptions_DatagramProtocolParseError⟩]]⟩
    : Pipeline Gen.Exc).ok Gen.sub Gen.parseErrors = false := by decide +kernel

-- ==== BEGIN generic framers ====
section GenericFramers
open GenericFr

/-- **C06, generic framers: progress.**  For a loader each of whose verdicts consumes at least one byte (`Progress`)
    and only bytes that were there (`ok_le`/`bad_le`), every delivered packet, parse error and size error leaves strictly
    fewer bytes than were looked at — file-based framer (with its size check) and compressor framer alike (a
    decompressor error drops everything) — hence a receive loop that skips errors performs at most |stream|
    iterations (`C06_items_bounded` applied to the limit-free spec). -/
theorem C06_generic_progress (load : Bytes → LoadRes) (S : Stable load) (P : Progress load) (limit : Nat) (b : Bytes) :
    (∀ d r, spec load limit b = .done d r → r.length < b.length) ∧
    (∀ r, spec load limit b = .fail r → r.length < b.length) ∧
    (∀ d r, specU load b = .done d r → r.length < b.length) ∧
    (decodeW (specU load) b).2.length ≤ b.length := by
  have L := specU_laws load S P
  refine ⟨?_, ?_, L.progress_done b, C06_items_bounded L b⟩
  · intro d r h
    unfold spec at h
    split at h
    · cases h
    · exact L.progress_done b d r h
  · intro r h
    unfold spec at h
    split at h
    · rename_i hl
      injection h with h; subst h; simp; omega
    · exact absurd h (by
        unfold specU
        cases load b <;> intro hc <;> cases hc)

/-- the compressor framer: a decompressor error leaves nothing behind (progress whenever `b` is not empty), and an
    end-of-stream after `k ≥ 1` bytes leaves `|b| - k` -/
theorem C06_generic_compressor_progress (dec : Bytes → DecRes) (b : Bytes) :
    (dec b = .corrupt → specU (loadOf dec) b = .done (badTag :: b) []) ∧
    (∀ k ok, dec b = .fin k ok → 0 < k → k ≤ b.length →
      ∃ d r, specU (loadOf dec) b = .done d r ∧ r.length < b.length) := by
  constructor
  · intro h
    unfold specU loadOf
    simp [h]
  · intro k ok h hk hle
    unfold specU loadOf
    cases ok with
    | true => rw [h]; exact ⟨_, _, rfl, by simp; omega⟩
    | false => rw [h]; exact ⟨_, _, rfl, by simp; omega⟩

/-- **What happens without `Progress`**: a loader that reports an expected error (or a packet) having consumed NOTHING
    makes the framer hand back the whole buffer as remainder — the same error (packet) is then delivered again on every
    `next(None)`, forever.  The real code does exactly this (docs/GENERICFR.md, "zero consumption"): `Progress` is a
    genuine requirement on `load_from_file`, not a proof artefact. -/
theorem C06_generic_zero_consumption_stalls (load : Bytes → LoadRes) (limit : Nat) (b : Bytes) (hb : b.length ≤ limit) :
    (load b = .bad 0 → spec load limit b = .done [badTag] b) ∧
    (load b = .ok 0 → spec load limit b = .done [okTag] b) := by
  rw [spec_eq_specU load limit b hb]
  constructor <;> intro h <;> unfold specU <;> rw [h] <;> simp

/-- non-vacuity: the toy loader meets the hypotheses; a bad header costs one byte, a size error drops everything -/
example : Stable toyLoad ∧ Progress toyLoad ∧
    spec toyLoad 8 [255, 1, 9] = .done [badTag, 255] [1, 9] ∧
    spec toyLoad 4 [200, 1, 2, 3, 4] = .fail [] :=
  ⟨toyLoad_stable, toyLoad_progress, by decide +kernel, by decide +kernel⟩

end GenericFramers
-- ==== END generic framers ====

end EasyNet

-- ==== BEGIN raw JSON framer ====
namespace EasyNet

/-- **C06, raw JSON framer: progress.**  For EVERY accumulated byte string (malformed soup included) and every way it was
    received: whenever `generator.send` ends with a document (`done`) or a size error (`fail`), the remainder it hands back
    is strictly shorter than everything it was sent — so a receive loop that skips errors terminates: the number of items
    delivered never exceeds the number of bytes received, under any chunking. -/
theorem C06_jraw_progress (limit : Nat) :
    (∀ (s : JRaw.State) (b c : Bytes), JRaw.Inv limit s b →
      (∀ d r, JRaw.feed limit s c = .done d r → r.length < (b ++ c).length) ∧
      (∀ r, JRaw.feed limit s c = .fail r → r.length < (b ++ c).length)) ∧
    (∀ chunks : List Bytes,
      (Consumer.run JRaw.init (JRaw.feed limit) Consumer.new chunks).2.length ≤ chunks.flatten.length) := by
  have L := JRaw.spec_prog limit
  constructor
  · intro s b c hinv
    have h := (JRaw.feed_spec limit s b c hinv).1
    constructor
    · intro d r hf
      rw [hf] at h
      exact L.progress_done _ d r h.symm
    · intro r hf
      rw [hf] at h
      exact L.progress_fail _ r h.symm
  · intro chunks
    have hsim := Consumer.run_ref (JRaw.refines limit) chunks Consumer.new [] (Or.inl ⟨rfl, rfl⟩)
    rw [hsim.1]
    have := (Prog.refRun_held L chunks [] (Or.inl rfl)).2
    simp only [List.length_nil, Nat.zero_add] at this
    omega

/-- non-vacuity: soup starting with a closer; the generator ends at once and hands back the rest -/
example : (JRaw.feed 8 JRaw.init [125, 93, 0, 34]).erase = .done [125] [93, 0, 34] ∧ JRaw.Inv 8 JRaw.init [] :=
  ⟨by decide +kernel, JRaw.inv_init 8⟩

end EasyNet
-- ==== END raw JSON framer ====
