/-
  C02 — Parsing depends only on the bytes; a bad frame costs exactly one error.
  Property theorems only.  (Framing level: an item `.frame d` is what the payload codec then turns into exactly
  one packet or exactly one parse error — the codec is applied per delivered frame and cannot affect framing.)
-/
import EasyNet.Props.C01
import EasyNet.Lemmas.Resume
namespace EasyNet

/-- **C02 sentence 1, separator framers, copying consumer.**  For every byte stream whose one-go decoding reports
    no size error (all frames and the unterminated tail within the limit; payloads may be undecodable), and for
    every way of cutting it into reads, the consumer delivers exactly the frame-by-frame decoding `decodeW` of the
    stream and retains exactly the undecoded suffix. -/
theorem C02_sep_copy_chunking_independent (sep : Bytes) (limit : Nat) (ke : Bool) (hsep : sep ≠ [])
    (chunks : List Bytes)
    (hsafe : NoLimit (decodeW (RU.spec sep limit ke) chunks.flatten).2) :
    (Consumer.run RU.init (RU.feed sep limit ke) Consumer.new chunks).2
      = (decodeW (RU.spec sep limit ke) chunks.flatten).2 ∧
    Consumer.held (·.buf) (Consumer.run RU.init (RU.feed sep limit ke) Consumer.new chunks).1
      = (decodeW (RU.spec sep limit ke) chunks.flatten).1 := by
  have R := RU.refines sep limit ke hsep
  have L := RU.spec_laws sep limit ke hsep
  have hsim := Consumer.run_ref R chunks Consumer.new [] (Or.inl ⟨rfl, rfl⟩)
  have hind := refRun_chunk_independent L chunks [] (Or.inl rfl) (AllOk_of_NoLimit _ (by simpa using hsafe))
  simp only [List.nil_append] at hind
  rw [hind] at hsim
  refine ⟨hsim.1, ?_⟩
  rcases hsim.2 with ⟨hfr, hbuf⟩ | ⟨s, hfr, hbuf, hinv, _⟩
  · simp [Consumer.held, hfr, hbuf]
  · simp only [Consumer.held, hfr]
    exact RU.inv_buf sep limit s _ hinv

/-- two chunkings of the same stream are indistinguishable -/
theorem C02_sep_copy_two_chunkings (sep : Bytes) (limit : Nat) (ke : Bool) (hsep : sep ≠ [])
    (cs₁ cs₂ : List Bytes) (hsame : cs₁.flatten = cs₂.flatten)
    (hsafe : NoLimit (decodeW (RU.spec sep limit ke) cs₁.flatten).2) :
    (Consumer.run RU.init (RU.feed sep limit ke) Consumer.new cs₁).2
      = (Consumer.run RU.init (RU.feed sep limit ke) Consumer.new cs₂).2 := by
  rw [(C02_sep_copy_chunking_independent sep limit ke hsep cs₁ hsafe).1,
      (C02_sep_copy_chunking_independent sep limit ke hsep cs₂ (by rw [← hsame]; exact hsafe)).1, hsame]

/-- **One frame, one item, exactly that frame consumed** — whatever the payload bytes are (decodable or not):
    a well-delimited frame at the head of the accumulated bytes is cut out as one item and the remainder is
    exactly what follows its terminator. -/
theorem C02_one_item_per_frame (sep : Bytes) (limit : Nat) (ke : Bool) (hsep : sep ≠ []) (p rest : Bytes)
    (hv : ValidPayload sep limit p) :
    RU.spec sep limit ke (p ++ sep ++ rest) = .done (if ke then p ++ sep else p) rest :=
  RU.spec_frame sep limit ke hsep p rest hv

/-- non-vacuity: an undecodable payload (0xff) followed by a good one, cut inside the separator -/
example : NoLimit (decodeW (RU.spec [13, 10] 8 false) ([[255, 13], [10, 97, 13, 10]] : List Bytes).flatten).2 := by
  decide +kernel

/-- **C02 sentence 1, buffered path.**  For every byte stream whose one-go decoding reports no size error and whose
    frames are safely inside the buffer (`|payload| + |sep| < cap`; payloads may be undecodable), every history of
    fitting fills yields exactly the frame-by-frame decoding of the stream. -/
theorem C02_sep_buffered_chunking_independent (sep : Bytes) (cap : Nat) (ke : Bool) (hsep : sep ≠ []) (hcap : 0 < cap)
    (fills : List Bytes)
    (hsafe : AllOk (BRU.okFrame sep cap ke) (decodeW (BRU.spec sep cap ke) fills.flatten).2)
    (r : BufConsumer BRUState × List Item)
    (hrun : BufConsumer.runFills BRU.init 0 cap (BRU.feed true sep ke) BufConsumer.new fills = some r) :
    r.2 = (decodeW (BRU.spec sep cap ke) fills.flatten).2 ∧
    BufConsumer.Rel (·.buflen) (BRU.spec sep cap ke) (BRU.Inv sep cap) cap r.1
      (decodeW (BRU.spec sep cap ke) fills.flatten).1 := by
  have R := BRU.refines sep cap ke hsep
  have L := BRU.spec_laws sep cap ke hsep
  have hnew : BufConsumer.Rel (·.buflen) (BRU.spec sep cap ke) (BRU.Inv sep cap) cap
      (BufConsumer.new : BufConsumer BRUState) [] :=
    ⟨rfl, Or.inl ⟨rfl, rfl, rfl, Or.inl rfl⟩⟩
  have hsim := BufConsumer.runFills_ref cap R hcap fills BufConsumer.new [] hnew r hrun
  have hind := refRun_chunk_independent L fills [] (Or.inl rfl) (by simpa using hsafe)
  simp only [List.nil_append] at hind
  rw [hind] at hsim
  exact hsim

/-- the two byte-level specs agree on streams that are safe for the buffered path (limit = capacity) -/
theorem decodeW_paths_agree (sep : Bytes) (limit : Nat) (ke : Bool) (hsep : sep ≠ []) (S : Bytes)
    (hsafe : AllOk (BRU.okFrame sep limit ke) (decodeW (BRU.spec sep limit ke) S).2) :
    decodeW (RU.spec sep limit ke) S = decodeW (BRU.spec sep limit ke) S := by
  have hpos : 0 < sep.length := List.length_pos_iff.mpr hsep
  have LR := RU.spec_laws sep limit ke hsep
  have LB := BRU.spec_laws sep limit ke hsep
  suffices H : ∀ n (S : Bytes), S.length ≤ n →
      AllOk (BRU.okFrame sep limit ke) (decodeW (BRU.spec sep limit ke) S).2 →
      decodeW (RU.spec sep limit ke) S = decodeW (BRU.spec sep limit ke) S from H S.length S (Nat.le_refl _) hsafe
  intro n
  induction n with
  | zero =>
    intro S hS _
    have : S = [] := List.eq_nil_of_length_eq_zero (by omega)
    subst this
    rw [decodeW_unfold LR, decodeW_unfold LB]; simp
  | succ n ih =>
    intro S hS hok
    rw [decodeW_unfold LR, decodeW_unfold LB]
    by_cases hb : S.isEmpty
    · simp [hb]
    · simp only [hb, Bool.false_eq_true, if_false]
      have hunf := decodeW_unfold LB S
      simp only [hb, Bool.false_eq_true, if_false] at hunf
      cases hf : firstOcc sep S with
      | some i =>
        have hs := findIn_some _ _ _ _ _ (by unfold firstOcc findFrom at hf; exact hf)
        have hB : BRU.spec sep limit ke S
            = .done (S.take (if ke then i + sep.length else i)) (S.drop (i + sep.length)) := by
          unfold BRU.spec; rw [hf]
        rw [hB] at hunf
        have hokd := hok (Item.frame (S.take (if ke then i + sep.length else i))) (by rw [hunf]; simp)
        simp only [BRU.okFrame] at hokd
        have hi : ¬ (i > limit) := by
          cases ke
          · simp only [Bool.false_eq_true, if_false, List.length_take] at hokd; omega
          · simp only [if_true, List.length_take] at hokd; omega
        have hR : RU.spec sep limit ke S
            = .done (S.take (if ke then i + sep.length else i)) (S.drop (i + sep.length)) := by
          unfold RU.spec; rw [hf]; simp only [hi, if_false]
        rw [hR, hB]
        simp only
        have hrl : (S.drop (i + sep.length)).length ≤ n := by simp; omega
        have hok' : AllOk (BRU.okFrame sep limit ke) (decodeW (BRU.spec sep limit ke) (S.drop (i + sep.length))).2 := by
          intro it hit; apply hok; rw [hunf]; simp [hit]
        rw [ih _ hrl hok']
      | none =>
        have hB : BRU.spec sep limit ke S = .need := by
          cases hBs : BRU.spec sep limit ke S with
          | need => rfl
          | done d r => unfold BRU.spec at hBs; rw [hf] at hBs; simp only at hBs; split at hBs <;> cases hBs
          | fail r =>
            rw [hBs] at hunf
            exact absurd (hok Item.limit (by rw [hunf]; simp)) (by simp)
        have hR : RU.spec sep limit ke S = .need := by
          unfold BRU.spec at hB; rw [hf] at hB; simp only at hB
          unfold RU.spec; rw [hf]; simp only
          split at hB
          · cases hB
          · rename_i hl
            have : ¬ (S.length + 1 - sep.length > limit) := by omega
            simp [this]
        rw [hR, hB]

/-- **C02 sentence 1, both receive paths.**  On a stream that is safe for the buffered path, the copying consumer
    (any chunking) and the buffer-filling consumer (any fitting fills) deliver the same items: the frame-by-frame
    decoding of the stream. -/
theorem C02_sep_paths_agree (sep : Bytes) (limit : Nat) (ke : Bool) (hsep : sep ≠ []) (hlim : 0 < limit)
    (chunks fills : List Bytes) (hsame : chunks.flatten = fills.flatten)
    (hsafe : AllOk (BRU.okFrame sep limit ke) (decodeW (BRU.spec sep limit ke) fills.flatten).2)
    (r : BufConsumer BRUState × List Item)
    (hrun : BufConsumer.runFills BRU.init 0 limit (BRU.feed true sep ke) BufConsumer.new fills = some r) :
    (Consumer.run RU.init (RU.feed sep limit ke) Consumer.new chunks).2 = r.2 := by
  have hagree := decodeW_paths_agree sep limit ke hsep fills.flatten hsafe
  have hnl : NoLimit (decodeW (RU.spec sep limit ke) chunks.flatten).2 := by
    rw [hsame, hagree]
    intro it hit heq
    subst heq
    exact absurd (hsafe Item.limit hit) (by simp)
  rw [(C02_sep_copy_chunking_independent sep limit ke hsep chunks hnl).1,
      (C02_sep_buffered_chunking_independent sep limit ke hsep hlim fills hsafe r hrun).1, hsame, hagree]

/-- **C02 sentence 2, copying path: delivery resumes intact after a size rejection.**
    The stream is `big ++ sep ++ tail`, `big` of any length (far over the limit, right at it, or under it) with no earlier
    occurrence of the separator.  For *every* chunking: the items delivered are a non-empty group belonging to `big`
    (size errors and/or fragments) followed by exactly what a fresh consumer delivers for `tail` — the first frame that
    starts after the rejected frame's terminator, and all later ones, arrive intact, once, in order. -/
theorem C02_sep_copy_resume_after_limit (sep : Bytes) (limit : Nat) (ke : Bool) (hsep : sep ≠ [])
    (big tail : Bytes) (hbig : firstOcc sep (big ++ sep) = some big.length)
    (chunks : List Bytes) (hcut : chunks.flatten = big ++ sep ++ tail) :
    ∃ junk chunks', junk ≠ [] ∧ chunks'.flatten = tail ∧
      (Consumer.run RU.init (RU.feed sep limit ke) Consumer.new chunks).2
        = junk ++ (Consumer.run RU.init (RU.feed sep limit ke) Consumer.new chunks').2 := by
  have R := RU.refines sep limit ke hsep
  have L := RU.spec_laws sep limit ke hsep
  have SS := RU.sepSpec sep limit ke hsep
  obtain ⟨junk, cs', hj, hfl, h1, _⟩ := refRun_resume hsep SS L big tail hbig chunks [] 0 (Or.inl rfl) (Nat.zero_le _)
    (by simpa using hcut)
  refine ⟨junk, cs', hj, hfl, ?_⟩
  rw [(Consumer.run_ref R chunks Consumer.new [] (Or.inl ⟨rfl, rfl⟩)).1,
      (Consumer.run_ref R cs' Consumer.new [] (Or.inl ⟨rfl, rfl⟩)).1, h1]

/-- … and when `tail` itself decodes without size error, what follows the junk is its frame-by-frame decoding. -/
theorem C02_sep_copy_resume_then_decode (sep : Bytes) (limit : Nat) (ke : Bool) (hsep : sep ≠ [])
    (big tail : Bytes) (hbig : firstOcc sep (big ++ sep) = some big.length)
    (htail : NoLimit (decodeW (RU.spec sep limit ke) tail).2)
    (chunks : List Bytes) (hcut : chunks.flatten = big ++ sep ++ tail) :
    ∃ junk, junk ≠ [] ∧
      (Consumer.run RU.init (RU.feed sep limit ke) Consumer.new chunks).2
        = junk ++ (decodeW (RU.spec sep limit ke) tail).2 := by
  obtain ⟨junk, cs', hj, hfl, h1⟩ := C02_sep_copy_resume_after_limit sep limit ke hsep big tail hbig chunks hcut
  refine ⟨junk, hj, ?_⟩
  rw [h1, (C02_sep_copy_chunking_independent sep limit ke hsep cs' (by rw [hfl]; exact htail)).1, hfl]

/-- **C02 sentence 2, buffered path** (repaired `_buffered_readuntil`): same statement for every history of fitting fills. -/
theorem C02_sep_buffered_resume_after_limit (sep : Bytes) (cap : Nat) (ke : Bool) (hsep : sep ≠ []) (hcap : 0 < cap)
    (big tail : Bytes) (hbig : firstOcc sep (big ++ sep) = some big.length)
    (htail : AllOk (BRU.okFrame sep cap ke) (decodeW (BRU.spec sep cap ke) tail).2)
    (fills : List Bytes) (hcut : fills.flatten = big ++ sep ++ tail)
    (r : BufConsumer BRUState × List Item)
    (hrun : BufConsumer.runFills BRU.init 0 cap (BRU.feed true sep ke) BufConsumer.new fills = some r) :
    ∃ junk, junk ≠ [] ∧ r.2 = junk ++ (decodeW (BRU.spec sep cap ke) tail).2 := by
  have R := BRU.refines sep cap ke hsep
  have L := BRU.spec_laws sep cap ke hsep
  have SS := BRU.sepSpec sep cap ke
  have hnew : BufConsumer.Rel (·.buflen) (BRU.spec sep cap ke) (BRU.Inv sep cap) cap
      (BufConsumer.new : BufConsumer BRUState) [] := ⟨rfl, Or.inl ⟨rfl, rfl, rfl, Or.inl rfl⟩⟩
  have hsim := BufConsumer.runFills_ref cap R hcap fills BufConsumer.new [] hnew r hrun
  obtain ⟨junk, cs', hj, hfl, h1, _⟩ := refRun_resume hsep SS L big tail hbig fills [] 0 (Or.inl rfl) (Nat.zero_le _)
    (by simpa using hcut)
  refine ⟨junk, hj, ?_⟩
  rw [hsim.1, h1]
  have hind := refRun_chunk_independent L cs' [] (Or.inl rfl) (by simpa [hfl] using htail)
  simp only [List.nil_append, hfl] at hind
  rw [hind]

/-- non-vacuity: limit 4, frame `aaaaaaaa` (8 bytes) + CRLF + `ok` + CRLF, cut so that the CR arrives with the overrun -/
example : firstOcc [13, 10] (([97, 97, 97, 97, 97, 97, 97, 97] : Bytes) ++ [13, 10]) = some 8 ∧
    (Consumer.run RU.init (RU.feed [13, 10] 4 false) Consumer.new
      [[97, 97, 97, 97, 97, 97, 97, 97, 13], [10, 111, 107, 13, 10]]).2 = [.limit, .frame [], .frame [111, 107]] := by
  decide +kernel

-- ==== BEGIN generic framers ====
section GenericFramers
open GenericFr

/-- one-go, limit-free frame-by-frame decoding of a stream of frames: one item per frame, nothing left -/
theorem GenericFr.decode_frames (load : Bytes → LoadRes) (S : Stable load) (P : Progress load)
    (fs : List Bytes) (hfs : ∀ f ∈ fs, IsFrame load f) :
    decodeW (specU load) fs.flatten = ([], fs.map (frameItem load)) := by
  obtain ⟨fs1, fs2, h', hsplit, hp, hheld, hdec⟩ := decode_prefix load S P fs hfs fs.flatten [] (by simp)
  have hlen : fs.flatten.length = fs1.flatten.length + h'.length := by rw [hp]; simp
  rw [hsplit] at hlen
  simp only [List.flatten_append, List.length_append] at hlen
  have hl2 : fs2.flatten.length = h'.length := by omega
  have hfs2 : fs2 = [] ∧ h' = [] := by
    rcases hheld with hh | ⟨f, fs', hf', hlt⟩
    · subst hh
      exact ⟨flatten_nil_of_pos fs2 (fun f hf => (hfs f (by simp [hsplit, hf])).pos)
        (List.eq_nil_of_length_eq_zero hl2), rfl⟩
    · rw [hf'] at hl2; simp at hl2; omega
  rw [hdec, hfs2.2, hsplit, hfs2.1]; simp

/-- copying consumer over a stream of frames (packets and bad frames mixed) inside the safe zone -/
theorem GenericFr.copy_run_frames (load : Bytes → LoadRes) (S : Stable load) (P : Progress load) (limit m : Nat)
    (fs : List Bytes) (hfs : ∀ f ∈ fs, IsFrame load f) (hsafe : ∀ f ∈ fs, f.length + m ≤ limit + 1)
    (chunks : List Bytes) (hm : ∀ c ∈ chunks, c.length ≤ m) (hcut : chunks.flatten = fs.flatten) :
    (Consumer.run GenericFr.init (feed load limit) Consumer.new chunks).2 = fs.map (frameItem load) ∧
    Consumer.held (·.buf) (Consumer.run GenericFr.init (feed load limit) Consumer.new chunks).1 = [] := by
  have R := feed_refines load limit
  have hsim := Consumer.run_ref R chunks Consumer.new [] (Or.inl ⟨rfl, rfl⟩)
  have href := refRun_frames load S P limit m chunks hm fs hfs hsafe [] (Or.inl rfl) (by simpa using hcut)
  rw [href] at hsim
  refine ⟨hsim.1, ?_⟩
  rcases hsim.2 with ⟨hfr, hbuf⟩ | ⟨s, hfr, hbuf, hinv, _⟩
  · simp [Consumer.held, hfr, hbuf]
  · simp only [Consumer.held, hfr]
    exact hinv.1

/-- buffer-filling consumer over the same kind of stream -/
theorem GenericFr.buffered_run_frames (load : Bytes → LoadRes) (S : Stable load) (P : Progress load)
    (limit hint : Nat) (hlimit : 0 < limit) (hhint : 0 < hint)
    (fs : List Bytes) (hfs : ∀ f ∈ fs, IsFrame load f) (hsafe : ∀ f ∈ fs, f.length + bufCap limit hint ≤ limit + 1)
    (fills : List Bytes) (hcut : fills.flatten = fs.flatten) (r : BufConsumer GenericFr.State × List Item)
    (hrun : BufConsumer.runFills GenericFr.init 0 (bufCap limit hint) (bfeed load limit) BufConsumer.new fills = some r) :
    r.2 = fs.map (frameItem load) ∧ r.1.crashed = false := by
  have hcap : 0 < bufCap limit hint := by unfold bufCap; omega
  have F := feed_fits load S limit
  rw [bfeed_eq] at hrun
  have hsim := runFills_sim (bufCap limit hint) hcap F fills BufConsumer.new Consumer.new (sim_new _ _ _) r hrun
  have hlen := runFills_len (bufCap limit hint) hcap F fills BufConsumer.new Consumer.new (sim_new _ _ _) r hrun
  have hcopy := GenericFr.copy_run_frames load S P limit (bufCap limit hint) fs hfs hsafe fills hlen hcut
  exact ⟨by rw [hsim.1, hcopy.1], hsim.2.1⟩

/-- **C02 sentence 1, file-based framers.**  For every stream of frames (packets and well-delimited bad frames in any
    order) safely within the limit — `|frame| + largest read ≤ limit + 1` on each path — any cutting into reads on the
    copying path and any history of fitting fills on the buffered path deliver the same items: the limit-free
    frame-by-frame decoding `decodeW (specU load)` of the stream, one item per frame, nothing retained.
    (Deviation from DESIGN.md: the reference is the limit-free decoder, not `decodeAll spec` — the size check of this
    framer looks at everything accumulated, so decoding the whole stream in one go is itself outside the safe zone.) -/
theorem C02_generic_chunking_independent (load : Bytes → LoadRes) (S : Stable load) (P : Progress load)
    (limit m hint : Nat) (hlimit : 0 < limit) (hhint : 0 < hint)
    (fs : List Bytes) (hfs : ∀ f ∈ fs, IsFrame load f)
    (hsafe : ∀ f ∈ fs, f.length + m ≤ limit + 1) (hsafeB : ∀ f ∈ fs, f.length + bufCap limit hint ≤ limit + 1)
    (chunks : List Bytes) (hm : ∀ c ∈ chunks, c.length ≤ m) (hcut : chunks.flatten = fs.flatten)
    (fills : List Bytes) (hcutB : fills.flatten = fs.flatten) (r : BufConsumer GenericFr.State × List Item)
    (hrun : BufConsumer.runFills GenericFr.init 0 (bufCap limit hint) (bfeed load limit) BufConsumer.new fills = some r) :
    (Consumer.run GenericFr.init (feed load limit) Consumer.new chunks).2 = (decodeW (specU load) fs.flatten).2 ∧
    r.2 = (decodeW (specU load) fs.flatten).2 ∧
    decodeW (specU load) fs.flatten = ([], fs.map (frameItem load)) := by
  have hd := GenericFr.decode_frames load S P fs hfs
  have h1 := GenericFr.copy_run_frames load S P limit m fs hfs hsafe chunks hm hcut
  have h2 := GenericFr.buffered_run_frames load S P limit hint hlimit hhint fs hfs hsafeB fills hcutB r hrun
  rw [hd]
  exact ⟨h1.1, h2.1, rfl⟩

/-- a parse error item (the tag byte of a delivered frame says so) -/
def GenericFr.isParseError : Item → Bool
  | .frame (t :: _) => t == badTag
  | _ => false

/-- **C02, one error per bad frame.**  A well-delimited frame the loader rejects, followed by anything: exactly one
    parse-error item, which consumes exactly that frame — the remainder is exactly what follows it; and in every stream
    of frames the number of parse errors delivered (any safe chunking) is the number of bad frames, every other frame
    being delivered intact. -/
theorem C02_generic_one_error_per_bad_frame (load : Bytes → LoadRes) (S : Stable load) (P : Progress load)
    (limit m : Nat) :
    (∀ f rest : Bytes, IsFrame load f → load f = .bad f.length →
        specU load (f ++ rest) = .done (badTag :: f) rest ∧
        ((f ++ rest).length ≤ limit → spec load limit (f ++ rest) = .done (badTag :: f) rest)) ∧
    (∀ fs chunks : List Bytes, (∀ f ∈ fs, IsFrame load f) → (∀ f ∈ fs, f.length + m ≤ limit + 1) → (∀ c ∈ chunks, c.length ≤ m) →
        chunks.flatten = fs.flatten →
        (Consumer.run GenericFr.init (feed load limit) Consumer.new chunks).2 = fs.map (frameItem load) ∧
        ((Consumer.run GenericFr.init (feed load limit) Consumer.new chunks).2.filter GenericFr.isParseError).length
          = (fs.filter (fun f => decide (load f = .bad f.length))).length) := by
  constructor
  · intro f rest hf hbad
    have h1 := specU_frame load S f rest hf
    have hne : load f ≠ .ok f.length := by rw [hbad]; intro hc; cases hc
    simp only [hne, if_false] at h1
    exact ⟨h1, fun hle => by rw [spec_eq_specU load limit _ hle]; exact h1⟩
  · intro fs chunks hfs hsafe hm hcut
    have h1 := GenericFr.copy_run_frames load S P limit m fs hfs hsafe chunks hm hcut
    refine ⟨h1.1, ?_⟩
    rw [h1.1]
    clear h1 hcut hm hsafe
    induction fs with
    | nil => rfl
    | cons f fs ih =>
      have hf := hfs f (by simp)
      have ih' := ih (fun g hg => hfs g (by simp [hg]))
      rcases hf.whole with hok | hbad
      · have hnb : load f ≠ .bad f.length := by rw [hok]; intro hc; cases hc
        simp only [List.map_cons, frameItem, hok, if_true, List.filter_cons, GenericFr.isParseError]
        simpa [okTag, badTag] using ih'
      · have hno : load f ≠ .ok f.length := by rw [hbad]; intro hc; cases hc
        simp only [List.map_cons, frameItem, List.filter_cons, GenericFr.isParseError, hbad, decide_true]
        simpa [badTag] using ih'

/-- non-vacuity: a toy stream packet / bad frame (header 0xff) / packet, limit 8, reads of 2 bytes -/
example : (∀ f ∈ ([[2, 7, 7], [255], [1, 9]] : List Bytes), IsFrameD toyLoad f ∧ f.length + 2 ≤ 8) ∧
    toyLoad [255] = .bad 1 ∧
    (Consumer.run GenericFr.init (feed toyLoad 8) Consumer.new [[2, 7], [7, 255], [1, 9]]).2
      = [.frame (okTag :: [2, 7, 7]), .frame (badTag :: [255]), .frame (okTag :: [1, 9])] ∧
    (BufConsumer.runFills GenericFr.init 0 (bufCap 8 1) (bfeed toyLoad 8) BufConsumer.new
        [[2], [7], [7], [255], [1], [9]]).map (·.2)
      = some [.frame (okTag :: [2, 7, 7]), .frame (badTag :: [255]), .frame (okTag :: [1, 9])] := by
  decide +kernel

end GenericFramers
-- ==== END generic framers ====

end EasyNet

-- ==== BEGIN raw JSON framer ====
namespace EasyNet

/-- **C02 sentence 1, raw JSON framer, copying consumer — proved for streams without optional whitespace between documents.**
    Take any stream made of well-delimited documents (`JRaw.Doc.ok`: an object / array / string that the scanner closes
    exactly on its last byte and that is at most `limit` bytes long, or a run of at most `limit` value bytes followed by one
    whitespace byte; the documents need NOT be valid JSON — `{]}` is well delimited and costs exactly one parse error),
    followed by an incomplete tail within the limit.  Then every two chunkings of the same bytes deliver the same items:
    exactly one frame per document, exactly that document's bytes, in order — which is also the one-go decoding
    `decodeW (JRaw.spec limit)` of the stream.

    PARTIAL with respect to the property's sentence in one respect, which the proof forced: documents must follow each other
    without *optional* whitespace (the single terminator of a plain value is part of its document).  With optional whitespace
    the statement about frames is false — see the `example` below: `_split_partial_document` attaches to a document whatever
    whitespace has already arrived behind it, so the same bytes cut differently give `{}·` `[]` or `{}` `·[]`.  The packets
    after JSON decoding are the same (the decoder ignores surrounding whitespace; exercised by the C02 harness cases with
    gaps, not proved), but acceptance is not: whitespace that arrives after its document was delivered counts towards the
    next document's limit.  Missing for the full statement: the same theorem modulo whitespace attribution, for streams
    where each gap plus the following document is within the limit. -/
theorem C02_jraw_chunking_independent_partial (limit : Nat) (docs : List JRaw.Doc) (hok : ∀ d ∈ docs, d.ok limit)
    (tail : Bytes) (htail : JRaw.TailOk limit tail ∨ tail = [])
    (cs₁ cs₂ : List Bytes) (h₁ : cs₁.flatten = (docs.map JRaw.Doc.bytes).flatten ++ tail) (h₂ : cs₂.flatten = cs₁.flatten) :
    (Consumer.run JRaw.init (JRaw.feed limit) Consumer.new cs₁).2
      = (Consumer.run JRaw.init (JRaw.feed limit) Consumer.new cs₂).2 ∧
    (Consumer.run JRaw.init (JRaw.feed limit) Consumer.new cs₁).2 = docs.map (fun d => Item.frame d.bytes) ∧
    (Consumer.run JRaw.init (JRaw.feed limit) Consumer.new cs₁).2 = (decodeW (JRaw.spec limit) cs₁.flatten).2 := by
  have ht : JRaw.IsTail limit tail := by
    rcases htail with h | h
    · exact h.isTail
    · subst h; exact JRaw.isTail_nil limit
  have r1 := (JRaw.run_docs limit docs hok tail ht cs₁ h₁).1
  have r2 := (JRaw.run_docs limit docs hok tail ht cs₂ (by rw [h₂, h₁])).1
  refine ⟨by rw [r1, r2], r1, ?_⟩
  rw [r1]
  have := JRaw.refRun_docs limit docs hok tail ht [cs₁.flatten] (by simpa using h₁)
  unfold decodeW
  have h3 : refRun (JRaw.spec limit) [] [cs₁.flatten] = refRecv (JRaw.spec limit) [] cs₁.flatten := by
    simp [refRun]
  rw [h3, Prog.refRecv_eq_decodeW (JRaw.spec_prog limit)] at this
  simp only [List.nil_append] at this
  unfold decodeW at this
  rw [this]

/-- **The whitespace rule, exactly** (what the partial theorem above excludes between documents): whitespace `w` that follows
    a well-delimited document in the same buffer, up to the next non-whitespace byte (`goodRest x`) or the end of the buffer,
    is attached to the frame; nothing else is.  One document, one item, exactly `document ++ w` consumed — whether or not the
    document is valid JSON. -/
theorem C02_jraw_one_item_per_document (limit : Nat) (d : JRaw.Doc) (hd : d.ok limit) (w x : Bytes)
    (hw : w.all JRaw.isWs = true) (hx : JRaw.goodRest x = true) :
    JRaw.spec limit (d.bytes ++ w ++ x) = .done (d.bytes ++ w) x :=
  JRaw.Doc.ws_attach limit d hd w x hw hx

example : (JRaw.Doc.encl [123, 93, 125]).ok 8 ∧ ([32, 10] : Bytes).all JRaw.isWs = true ∧ JRaw.goodRest [91] = true := by
  decide +kernel

/-- non-vacuity: `{]}` (malformed, well delimited), `12\n`, `"a\\"`, then the unfinished `[1,` -/
example : (∀ d ∈ [JRaw.Doc.encl [123, 93, 125], .plain [49, 50] 10, .encl [34, 97, 92, 92, 34]], d.ok 8) ∧
    JRaw.TailOk 8 [91, 49, 44] := by decide +kernel

/-- the excluded point: with optional whitespace between documents the frames depend on the chunking
    (`{} []` cut after the space vs before it) -/
example : (Consumer.run JRaw.init (JRaw.feed 8) Consumer.new [[123, 125, 32], [91, 93]]).2
      = [.frame [123, 125, 32], .frame [91, 93]] ∧
    (Consumer.run JRaw.init (JRaw.feed 8) Consumer.new [[123, 125], [32, 91, 93]]).2
      = [.frame [123, 125], .frame [32, 91, 93]] := by decide +kernel

end EasyNet
-- ==== END raw JSON framer ====
