/-
  C02 — Parsing depends only on the bytes; a bad frame costs exactly one error.
  Property theorems only.  (Framing level: an item `.frame d` is what the payload codec then turns into exactly
  one packet or exactly one parse error — the codec is applied per delivered frame and cannot affect framing.)
-/
import EasyNet.Props.C01
namespace EasyNet

/-- **C02 sentence 1, separator framers, copying consumer.**  For every byte stream whose one-go decoding reports
    no size error (all frames and the unterminated tail within the limit; payloads may be undecodable), and for
    every way of cutting it into reads, the consumer delivers exactly the frame-by-frame decoding `decodeW` of the
    stream and retains exactly the undecoded suffix. -/
theorem C02_sep_copy_chunking_independent (sep : Bytes) (limit : Nat) (ke : Bool) (hsep : sep ≠ [])
    (chunks : List Bytes)
    (hsafe : NoLimit (decodeW (RU.spec sep limit ke) chunks.flatten).2) :
    (Consumer.run RU.init (RU.feed sep limit ke) Consumer.new chunks).2
      = (decodeW (RU.spec sep limit ke) chunks.flatten).2 ∧
    Consumer.held (·.buf) (Consumer.run RU.init (RU.feed sep limit ke) Consumer.new chunks).1
      = (decodeW (RU.spec sep limit ke) chunks.flatten).1 := by
  have R := RU.refines sep limit ke hsep
  have L := RU.spec_laws sep limit ke hsep
  have hsim := Consumer.run_ref R chunks Consumer.new [] (Or.inl ⟨rfl, rfl⟩)
  have hind := refRun_chunk_independent L chunks [] (Or.inl rfl) (by simpa using hsafe)
  simp only [List.nil_append] at hind
  rw [hind] at hsim
  refine ⟨hsim.1, ?_⟩
  rcases hsim.2 with ⟨hfr, hbuf⟩ | ⟨s, hfr, hbuf, hinv, _⟩
  · simp [Consumer.held, hfr, hbuf]
  · simp only [Consumer.held, hfr]
    exact RU.inv_buf sep limit s _ hinv

/-- two chunkings of the same stream are indistinguishable -/
theorem C02_sep_copy_two_chunkings (sep : Bytes) (limit : Nat) (ke : Bool) (hsep : sep ≠ [])
    (cs₁ cs₂ : List Bytes) (hsame : cs₁.flatten = cs₂.flatten)
    (hsafe : NoLimit (decodeW (RU.spec sep limit ke) cs₁.flatten).2) :
    (Consumer.run RU.init (RU.feed sep limit ke) Consumer.new cs₁).2
      = (Consumer.run RU.init (RU.feed sep limit ke) Consumer.new cs₂).2 := by
  rw [(C02_sep_copy_chunking_independent sep limit ke hsep cs₁ hsafe).1,
      (C02_sep_copy_chunking_independent sep limit ke hsep cs₂ (by rw [← hsame]; exact hsafe)).1, hsame]

/-- **One frame, one item, exactly that frame consumed** — whatever the payload bytes are (decodable or not):
    a well-delimited frame at the head of the accumulated bytes is cut out as one item and the remainder is
    exactly what follows its terminator. -/
theorem C02_one_item_per_frame (sep : Bytes) (limit : Nat) (ke : Bool) (hsep : sep ≠ []) (p rest : Bytes)
    (hv : ValidPayload sep limit p) :
    RU.spec sep limit ke (p ++ sep ++ rest) = .done (if ke then p ++ sep else p) rest :=
  RU.spec_frame sep limit ke hsep p rest hv

/-- non-vacuity: an undecodable payload (0xff) followed by a good one, cut inside the separator -/
example : NoLimit (decodeW (RU.spec [13, 10] 8 false) ([[255, 13], [10, 97, 13, 10]] : List Bytes).flatten).2 := by
  decide +kernel

end EasyNet
