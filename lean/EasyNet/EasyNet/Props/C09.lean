/-
  C09 — TLS truncation is never reported as a clean end-of-stream.  Property theorems only.

  Model: EasyNet/Model/TlsEof.lean (statement-level transcription of `_retry_ssl_method`, `recv`, `recv_into`, `wrap`,
  `aclose`, `is_ssl_eof_error`, the blocking `SSLStreamTransport`, the client constructors' context set-up) over the tables
  `Gen.TlsEof.tables`, REGENERATED from the Python AST on every run (Gen/TlsEofTables.lean) — every theorem below is
  re-checked against what the source says now.

  The SSL object and the wrapped transport are an arbitrary *script* of answers (`Resp`), constrained only by `TlsEofLaws`
  (Lemmas/TlsEof.lean, Lemmas/TlsEofGen.lean):
     lawClean need fed script   a clean answer of `read` (returns b"" / raises SSLZeroReturnError) only after `need` bytes were fed
                                into the read BIO, `need` = stream offset where the peer's close_notify record ENDS; the wrapped
                                transport raises no SSL exception of its own
     Ragged ph script           at the ragged end (transport at EOF, no complete close_notify): buffered plaintext, WANT_READ
                                until `read_bio.write_eof()`, then the EOF error for ever
     UnwrapAns / out > 0        the first `unwrap()` appends the alert record to the write BIO
  "Wherever the cut fell" = for every number of delivered bytes `s.fed + totalFed script < need`: inside the handshake, between
  records, inside a record, inside the close_notify record.
-/
import EasyNet.Lemmas.TlsEofClose
namespace EasyNet
open EasyNet.TlsEof EasyNet.Gen.TlsEof

/-- the translator understood everything it read -/
theorem C09_tables_wellformed : tables.problems = [] := by decide

/-- **Truncation is an error** (standard-compatible mode).
    (1) Safety, for every script obeying `lawClean`, every start state, every sequence of `recv` / `recv_into` calls of any
        length: if fewer than `need` bytes are ever delivered (the stream was cut before the END of the peer's close_notify
        record — wherever), NO call reports end-of-stream: not the first one after the cut, not any later one.
    (2) Progress and stickiness at the ragged end (`Ragged`): every call completes, with buffered plaintext or with the EOF
        error raised by the SSL object; once the error has been answered every later call raises it again. -/
theorem C09_truncation_is_error :
    (∀ (need : Nat) (ws : List Which) (s : St) (script : List (Resp TExc)),
      lawClean tables need s.fed script = true → s.fed + totalFed script < need →
      ∀ p ∈ recvSeq tables true ws s script, p.1.isEof = false) ∧
    (∀ (w : Which) (ph : Phase) (s : St) (script : List (Resp TExc)), phaseOK ph s → Ragged ph script → script ≠ [] →
      ∃ o s' rest calls ph', recv tables true w s script = some (o, s', rest, calls) ∧ phaseOK ph' s' ∧ Ragged ph' rest ∧
        rest.length < script.length ∧ (ph = .failed → ph' = .failed) ∧
        ((∃ n, o = .data (n + 1) ∧ ph' ≠ .failed) ∨ (ph' = .failed ∧ ∃ e p, EofCls e p ∧ o = .exc (.cls e p)))) := by
  refine ⟨?_, ?_⟩
  · intro need ws s script hl hcut p hp
    cases he : p.1.isEof with
    | false => rfl
    | true =>
      have := recvSeq_clean need ws s script hl p hp he
      omega
  · intro w ph s script hph hr hne
    obtain ⟨o, s', rest, calls, ph', h1, h2, h3, h4, h5, h6⟩ := recv_ragged true w ph s script hph hr hne
    refine ⟨o, s', rest, calls, ph', h1, h2, h3, h4, h5, ?_⟩
    cases h6 with
    | inl h => exact Or.inl h
    | inr h => obtain ⟨hf, e, p, hc, ho⟩ := h; exact Or.inr ⟨hf, e, p, hc, by simpa using ho⟩

/-- **Exact mapping** of `recv` / `recv_into` over the whole generated exception alphabet: an exception leaving the retry loop
    becomes an end-of-stream iff it is a `SSLZeroReturnError`, or standard-compatible mode is off and it is the EOF error
    (`SSLEOFError`, or any `SSLError` whose strerror carries OpenSSL's UNEXPECTED_EOF_WHILE_READING reason); everything else
    is re-raised unchanged (`is_ssl_eof_error` recognises neither more nor less). -/
theorem C09_recv_mapping_exact (sc : Bool) (w : Which) (e : TExc) (p : Bool) :
    (recvMap tables sc w (.exn (.cls e p))).isEof =
      (tables.sub e tables.zeroReturn || (!sc && (tables.sub e tables.eofError || (tables.sub e tables.sslError && p)))) ∧
    ((recvMap tables sc w (.exn (.cls e p))).isEof = false → (recvMap tables sc w (.exn (.cls e p))).isExc = true) := by
  cases sc <;> cases w <;> cases e <;> cases p <;> decide

example : (recvMap tables true .recv (.exn (.cls .ssl_SSLEOFError true))).isExc = true ∧
    (recvMap tables false .recv (.exn (.cls .ssl_SSLError false))).isExc = true ∧
    (recvMap tables false .recvInto (.exn (.cls .ssl_SSLError true))).isEof = true := by decide

/-- non-vacuity: 40 bytes delivered, the close_notify would end at 64; the transport reports EOF, OpenSSL raises
    SSLEOFError; the second and third calls still fail (and the hypotheses of (1) hold for this script) -/
example :
    let script : List (Resp TExc) := [.ssl (.raise .ssl_SSLWantReadError false) 0 false, .tr (.n 39),
      .ssl (.raise .ssl_SSLWantReadError false) 0 false, .tr .eof, .ssl (.raise .ssl_SSLEOFError true) 0 false,
      .ssl (.raise .ssl_SSLEOFError false) 0 false, .ssl (.raise .ssl_SSLEOFError false) 0 false]
    lawClean tables 64 0 script = true ∧ totalFed script = 40 ∧
    (recvSeq tables true [.recv, .recvInto, .recv] {} script).map (fun p => p.1.isExc) = [true, true, true] := by
  decide +kernel

example : Ragged .open_ [.ssl (.ret 5) 0 false, .ssl (.raise tables.wantReadCls false) 0 false, .tr .eof,
    .ssl (.raise .ssl_SSLEOFError true) 0 false, .ssl (.raise .ssl_SSLError true) 0 false] :=
  .data _ 4 _ (by decide) (.want _ _ (by simp) (.err _ _ _ _ (by decide) (Or.inl rfl)
    (.err _ _ _ _ (by decide) (Or.inr ⟨rfl, rfl⟩) (.nil _))))

/-- **With standard-compatible mode off the same situation is an end-of-stream**: at the ragged end every call completes,
    with buffered plaintext or — as soon as the SSL object answers the EOF error, and for every later call — with `b""` / 0. -/
theorem C09_compat_off_is_eof (w : Which) (ph : Phase) (s : St) (script : List (Resp TExc))
    (hph : phaseOK ph s) (hr : Ragged ph script) (hne : script ≠ []) :
    ∃ o s' rest calls ph', recv tables false w s script = some (o, s', rest, calls) ∧ phaseOK ph' s' ∧ Ragged ph' rest ∧
      rest.length < script.length ∧ (ph = .failed → ph' = .failed) ∧
      ((∃ n, o = .data (n + 1) ∧ ph' ≠ .failed) ∨ (ph' = .failed ∧ o = .eof)) := by
  obtain ⟨o, s', rest, calls, ph', h1, h2, h3, h4, h5, h6⟩ := recv_ragged false w ph s script hph hr hne
  refine ⟨o, s', rest, calls, ph', h1, h2, h3, h4, h5, ?_⟩
  cases h6 with
  | inl h => exact Or.inl h
  | inr h => obtain ⟨hf, e, p, _, ho⟩ := h; exact Or.inr ⟨hf, by simpa using ho⟩

example :
    let script : List (Resp TExc) := [.ssl (.raise .ssl_SSLWantReadError false) 0 false, .tr .eof,
      .ssl (.raise .ssl_SSLEOFError true) 0 false, .ssl (.raise .ssl_SSLEOFError false) 0 false]
    (recvSeq tables false [.recv, .recvInto] {} script).map (fun p => p.1.isEof) = [true, true] ∧
    (recvSeq tables true [.recv, .recvInto] {} script).map (fun p => p.1.isEof) = [false, false] := by
  decide +kernel

/-- **A clean end-of-stream only after the peer's close notification**: in standard-compatible mode, for every script obeying
    `lawClean` and every sequence of receive calls, a call that reports end-of-stream happened when at least `need` bytes —
    the whole stream up to the end of the close_notify record — had been written into the read BIO. -/
theorem C09_clean_only_after_notify (need : Nat) (ws : List Which) (s : St) (script : List (Resp TExc))
    (hl : lawClean tables need s.fed script = true) :
    ∀ p ∈ recvSeq tables true ws s script, p.1.isEof = true → need ≤ p.2.fed :=
  fun p hp he => (recvSeq_clean need ws s script hl p hp he).1

/-- non-vacuity: the complete stream (64 bytes) is delivered, `read` answers SSLZeroReturnError: end-of-stream, 64 bytes fed -/
example :
    let script : List (Resp TExc) := [.ssl (.raise .ssl_SSLWantReadError false) 0 false, .tr (.n 63), .ssl (.ret 5) 0 false,
      .ssl (.raise .ssl_SSLZeroReturnError false) 0 false]
    lawClean tables 64 0 script = true ∧
    (recvSeq tables true [.recv, .recv] {} script).map (fun p => (p.1.isEof, p.2.fed)) = [(false, 64), (true, 64)] := by
  decide +kernel

/-! ### close -/

theorem innerClose_spec (s : St) (script : List (Resp TExc)) (o : COut TExc) (s3 : St) (rest3 : List (Resp TExc)) (calls3 : List Call)
    (h : innerClose s script = some (o, s3, rest3, calls3)) :
    s3.innerClosing = true ∧ s3.closing = s.closing ∧ calls3 = [.innerClose] := by
  unfold innerClose at h
  split at h
  all_goals first
    | (simp only [Option.some.injEq, Prod.mk.injEq] at h
       obtain ⟨_, hs, _, hc⟩ := h
       subst hs; subst hc
       exact ⟨rfl, rfl, rfl⟩)
    | (simp at h)

/-- **Closing sends the close notification, and always closes the wrapped transport.**
    (1) every exit path: whatever the SSL object and the wrapped transport answer (errors, cancellation, the shutdown
        timeout firing at any await), after a first `aclose()` the closing flag and the closed event are set and the wrapped
        transport's close was requested;
    (2) standard-compatible mode, wrapped transport not closing, for EVERY engine script whose first `unwrap()` call left
        `out > 0` bytes ending with the alert record in the outgoing BIO (UnwrapLaw) — whether that call then returned, wanted
        I/O (`UnwrapAns`), or FAILED with an SSL error (`UnwrapFail`: e.g. OpenSSL's "application data after close notify" when
        data received from the peer is still unread): the call list is `ssl.unwrap`, at most the two BIO eof marks (of the
        retry loop's `except SSLError`), then `transport.send_all(<all pending output, ending with the alert>)` — the alert is
        handed to the wrapped transport before ANY close call of it (which can only come later in the call list).
        This needs the clause `except SSLError: with suppress(OSError): await self.__flush_pending_writes()` in `aclose`:
        the generated table must say `acloseFlushesOnSslError = true` (first conjunct of (2); on a tree without the clause
        this theorem does not check, and `C09_close_notify_lost_without_flush_clause` below shows what happens instead);
    (3) when that `aclose()` meets no failure (the peer answers, nothing raises) it ends normally with the graceful
        `transport.aclose()` as its last call;
    (4) the failing-unwrap exchange, exactly: `unwrap()` writes the alert and raises `SSLError`; the alert is sent, the BIOs
        are marked, the wrapped transport is closed gracefully, `aclose()` returns normally. -/
theorem C09_close_sends_notify :
    (∀ (sc : Bool) (s : St) (script : List (Resp TExc)) (o : COut TExc) (s' : St) (rest : List (Resp TExc)) (calls : List Call),
      aclose tables sc s script = some (o, s', rest, calls) → s.closing = false →
      s'.closing = true ∧ s'.closedEv = true ∧ s'.innerClosing = true) ∧
    (tables.acloseFlushesOnSslError = true ∧
     ∀ (s : St) (a : SslAns TExc) (out : Nat) (rest0 : List (Resp TExc)) (o : COut TExc) (s' : St) (rest : List (Resp TExc))
      (calls : List Call), s.closing = false → s.innerClosing = false → 0 < out → (UnwrapAns a ∨ UnwrapFail a) →
      aclose tables true s (.ssl a out true :: rest0) = some (o, s', rest, calls) →
      ∃ pre tail, calls = .ssl .unwrap :: (pre ++ .send (s.wpend + out) true :: tail) ∧ (pre = [] ∨ pre = [.rbioEof, .wbioEof])) ∧
    (∀ (s : St) (k : Nat), s.closing = false → s.innerClosing = false → s.wpend = 0 →
      aclose tables true s [.ssl (.raise tables.wantReadCls false) (k + 1) true, .tr .ok, .tr (.n k), .ssl (.ret 0) 0 false, .tr .ok]
        = some (.ok, { wpend := 0, walert := false, rEof := true, wEof := true, fed := s.fed + (k + 1), closing := true,
                       closedEv := true, innerClosing := true }, [],
            [.ssl .unwrap, .send (k + 1) true, .recvInto, .rbioWrite (k + 1), .ssl .unwrap, .rbioEof, .wbioEof, .innerClose])) ∧
    (∀ (s : St) (k : Nat) (p : Bool), s.closing = false → s.innerClosing = false →
      aclose tables true s [.ssl (.raise tables.sslError p) (k + 1) true, .tr .ok, .tr .ok]
        = some (.ok, { wpend := 0, walert := false, rEof := true, wEof := true, fed := s.fed, closing := true,
                       closedEv := true, innerClosing := true }, [],
            [.ssl .unwrap, .rbioEof, .wbioEof, .send (s.wpend + (k + 1)) true, .rbioEof, .wbioEof, .innerClose])) := by
  have g1 : tables.acloseGuardSC = true := by decide
  have g2 : tables.acloseUnwraps = true := by decide
  have g3 : tables.acloseMarksEof = true := by decide
  have g4 : tables.acloseForceOnFail = true := by decide
  have g5 : tables.acloseFinalClose = true := by decide
  refine ⟨?_, ⟨by decide, ?_⟩, ?_, ?_⟩
  · intro sc s script o s' rest calls h hc
    unfold aclose at h
    simp only [hc, Bool.false_eq_true, if_false] at h
    simp only [g1, g2, g3, g4, g5, Bool.not_true, Bool.or_false, Bool.and_true, if_true] at h
    split at h
    · -- unwrap path
      split at h
      · simp at h
      · rename_i s2 rest2 calls2 hr
        have F := acloseUnwrap_frame tables _ _ _ _ _ _ _ hr
        have hcl : s2.closing = true := by
          have := congrArg (·.1) F; simpa [St.ctl] using this
        split at h
        · simp at h
        · rename_i o3 s3 rest3 calls3 hi
          have I := innerClose_spec _ _ _ _ _ _ hi
          simp only [Option.some.injEq, Prod.mk.injEq] at h
          obtain ⟨_, hs, _, _⟩ := h
          subst hs
          refine ⟨?_, rfl, I.1⟩
          show s3.closing = true
          rw [I.2.1]; simpa [markBoth] using hcl
      · rename_i x s2 rest2 calls2 hr
        have F := acloseUnwrap_frame tables _ _ _ _ _ _ _ hr
        have hcl : s2.closing = true := by
          have := congrArg (·.1) F; simpa [St.ctl] using this
        simp only [Option.some.injEq, Prod.mk.injEq] at h
        obtain ⟨_, hs, _, _⟩ := h
        subst hs
        exact ⟨by simpa [force] using hcl, rfl, rfl⟩
    · split at h
      · simp at h
      · rename_i o3 s3 rest3 calls3 hi
        have I := innerClose_spec _ _ _ _ _ _ hi
        simp only [Option.some.injEq, Prod.mk.injEq] at h
        obtain ⟨_, hs, _, _⟩ := h
        subst hs
        exact ⟨by show s3.closing = true; rw [I.2.1], rfl, I.1⟩
  · intro s a out rest0 o s' rest calls hc hi hout ha h
    unfold aclose at h
    simp only [hc, hi, g1, g2, g3, g4, g5, Bool.false_eq_true, if_false, Bool.not_true, Bool.or_false, Bool.not_false, Bool.and_true,
      if_true, List.length_cons] at h
    split at h
    · simp at h
    · rename_i s2 rest2 calls2 hr
      obtain ⟨pre, tail, ht, hp⟩ := acloseUnwrap_alert_sent _ _ a out hout rest0 ha _ _ _ _ hr
      subst ht
      split at h
      · simp at h
      · rename_i o3 s3 rest3 calls3 hi3
        simp only [Option.some.injEq, Prod.mk.injEq] at h
        obtain ⟨_, _, _, hcalls⟩ := h
        subst hcalls
        exact ⟨pre, tail ++ ([Call.rbioEof, Call.wbioEof] ++ calls3), by simp, hp⟩
    · rename_i x s2 rest2 calls2 hr
      obtain ⟨pre, tail, ht, hp⟩ := acloseUnwrap_alert_sent _ _ a out hout rest0 ha _ _ _ _ hr
      subst ht
      simp only [Option.some.injEq, Prod.mk.injEq] at h
      obtain ⟨_, _, _, hcalls⟩ := h
      subst hcalls
      exact ⟨pre, tail ++ (force s2).2, by simp, hp⟩
  · intro s k hc hi hp
    simp [aclose, acloseUnwrap, hc, hi, hp, g1, g2, g3, g5, retry, fact_want, fact_wantflush, flush, sendPending, addOut,
      innerClose, markBoth]
  · intro s k p hc hi
    have ha : retryAct tables tables.retryClauses tables.sslError = some .markEofReraise := by decide
    have hf : ∀ q, sslFlushCaught tables (.cls tables.sslError q) = true := by intro q; rfl
    simp [aclose, acloseUnwrap, hc, hi, g1, g2, g3, g5, retry, ha, hf, flush, sendPending, addOut, innerClose, markBoth]

/-- non-vacuity of (1): the shutdown timeout fires while waiting for the peer's close_notify — `aclose()` returns normally,
    the alert had been handed over, the wrapped transport was closed forcefully -/
example : (aclose tables true {} [.ssl (.raise .ssl_SSLWantReadError false) 24 true, .tr .ok, .tr .timeout]).map
    (fun r => (r.2.2.2, r.2.1.innerClosing, r.2.1.closedEv)) =
    some ([.ssl .unwrap, .send 24 true, .recvInto, .innerForce], true, true) := by decide +kernel

/-- non-vacuity of (2), failing case: every SSL error class other than WANT_READ / WANT_WRITE is an `UnwrapFail` answer;
    application data is unread, `unwrap()` writes the 24-byte alert and raises: the alert is sent before the close; the same
    when the flush itself fails (`OSError` suppressed) or is cancelled (forced close, after the send was attempted) -/
example : UnwrapFail (.raise .ssl_SSLError false) ∧ UnwrapFail (.raise .ssl_SSLEOFError true) ∧
    UnwrapFail (.raise .ssl_SSLZeroReturnError false) ∧ UnwrapFail (.raise .ssl_SSLSyscallError false) :=
  ⟨⟨_, _, rfl, by decide⟩, ⟨_, _, rfl, by decide⟩, ⟨_, _, rfl, by decide⟩, ⟨_, _, rfl, by decide⟩⟩

example : (aclose tables true {} [.ssl (.raise .ssl_SSLError false) 24 true, .tr .ok, .tr .ok]).map (fun r => (r.1.isOk, r.2.2.2)) =
      some (true, [.ssl .unwrap, .rbioEof, .wbioEof, .send 24 true, .rbioEof, .wbioEof, .innerClose]) ∧
    (aclose tables true {} [.ssl (.raise .ssl_SSLEOFError true) 31 true, .tr (.raise .builtins_BrokenPipeError), .tr .ok]).map
      (fun r => (r.1.isOk, r.2.2.2)) =
      some (true, [.ssl .unwrap, .rbioEof, .wbioEof, .send 31 true, .rbioEof, .wbioEof, .innerClose]) ∧
    (aclose tables true {} [.ssl (.raise .ssl_SSLZeroReturnError false) 24 true, .tr .cancel]).map (fun r => (r.1.isOk, r.2.2.2)) =
      some (false, [.ssl .unwrap, .rbioEof, .wbioEof, .send 24 true, .innerForce]) := by decide +kernel

/-- the table the translator emits for a tree whose `aclose()` has only `except OSError: pass` around the unwrap -/
def tablesNoFlush : Tables TExc :=
  { tables with acloseFlushesOnSslError := false, acloseFlushOn := [], acloseFlushSuppress := [] }

/-- **The defect without the flush clause** (negative result; `tablesNoFlush` = the generated table of a tree whose `aclose()`
    lacks `except SSLError: … __flush_pending_writes()`): data received from the peer is unread, `unwrap()` writes the alert
    (`k + 1` bytes) into the outgoing BIO and raises `SSLError`; the retry loop marks the BIOs and re-raises, `except OSError:
    pass` drops the error, the wrapped transport is closed — `aclose()` returns normally, NO `send_all` call was made, and the
    alert is still in the outgoing BIO (`wpend`, `walert`): the close notification is produced but never sent. -/
theorem C09_close_notify_lost_without_flush_clause (s : St) (k : Nat) (p : Bool) (hc : s.closing = false)
    (hi : s.innerClosing = false) :
    ∃ s', aclose tablesNoFlush true s [.ssl (.raise .ssl_SSLError p) (k + 1) true, .tr .ok] =
        some (.ok, s', [], [.ssl .unwrap, .rbioEof, .wbioEof, .rbioEof, .wbioEof, .innerClose]) ∧
      s'.wpend = s.wpend + (k + 1) ∧ s'.walert = true ∧ s'.innerClosing = true := by
  have ha : retryAct tablesNoFlush tablesNoFlush.retryClauses .ssl_SSLError = some .markEofReraise := by decide
  have hs : ∀ q, swallowed tablesNoFlush (.cls .ssl_SSLError q) = true := by intro q; rfl
  have hf : ∀ q, sslFlushCaught tablesNoFlush (.cls .ssl_SSLError q) = false := by intro q; rfl
  have g1 : tablesNoFlush.acloseGuardSC = true := by decide
  have g2 : tablesNoFlush.acloseUnwraps = true := by decide
  have g3 : tablesNoFlush.acloseMarksEof = true := by decide
  have g5 : tablesNoFlush.acloseFinalClose = true := by decide
  refine ⟨{ wpend := s.wpend + (k + 1), walert := true, rEof := true, wEof := true, fed := s.fed, closing := true,
            closedEv := true, innerClosing := true }, ?_, rfl, rfl, rfl⟩
  simp [aclose, acloseUnwrap, hc, hi, g1, g2, g3, g5, retry, ha, hs, hf, innerClose, markBoth, addOut]

example : (aclose tablesNoFlush true {} [.ssl (.raise .ssl_SSLError false) 24 true, .tr .ok]).map
    (fun r => (r.1.isOk, r.2.1.wpend, r.2.1.walert, r.2.2.2)) =
    some (true, 24, true, [.ssl .unwrap, .rbioEof, .wbioEof, .rbioEof, .wbioEof, .innerClose]) := by decide +kernel

/-! ### blocking transport -/

/-- **Blocking transport**: `wrap_socket(suppress_ragged_eofs = not standard_compatible)`; `recv` / `recv_into` turn
    `SSLZeroReturnError` (every subclass) and a 0-byte read into end-of-stream, a ragged EOF (`SSLEOFError`) into an error
    iff standard-compatible (else end-of-stream, through the stdlib's suppression), and never turn any other exception
    into an end-of-stream; `close()` calls `unwrap()` first when standard-compatible and the socket is open, and always ends
    by closing the socket. -/
theorem C09_sync_mapping (sc : Bool) (w : Which) :
    tables.suppressRagged.eval sc = some (!sc) ∧
    (∀ e p, tables.sub e tables.zeroReturn = true → syncRecv tables sc w (.raise e p) = .eof) ∧
    (∀ p, syncRecv tables sc w (.raise tables.eofError p) = if sc then .exc tables.eofError else .eof) ∧
    syncRecv tables sc w (.ret 0) = .eof ∧ (∀ n, syncRecv tables sc w (.ret (n + 1)) = .data (n + 1)) ∧
    (∀ e p, tables.sub e tables.zeroReturn = false → (sc = true ∨ tables.sub e tables.eofError = false) →
      syncRecv tables sc w (.raise e p) ≠ .eof) ∧
    (∀ (open_ : Bool) (script : List (UAns TExc)),
      (syncClose tables sc open_ script).1.getLast? = some .closeSocket ∧
      (sc = true → open_ = true → (syncClose tables sc open_ script).1.head? = some .unwrap)) := by
  refine ⟨by cases sc <;> rfl, ?_, ?_, by cases sc <;> cases w <;> rfl, ?_, ?_, ?_⟩
  · intro e p; cases sc <;> cases w <;> cases e <;> cases p <;> decide
  · intro p; cases sc <;> cases w <;> cases p <;> rfl
  · intro n; cases sc <;> cases w <;> rfl
  · intro e p; cases sc <;> cases w <;> cases e <;> cases p <;> decide
  · intro open_ script
    have gf : tables.syncCloseFinally = true := by decide
    have gu : tables.syncCloseUnwraps = true := by decide
    refine ⟨by simp [syncClose, gf], ?_⟩
    intro hsc hop
    subst hsc; subst hop
    simp only [syncClose, gf, gu, Bool.and_self, if_true]
    cases script with
    | nil => simp [syncCloseLoop]
    | cons a rest =>
      cases a with
      | ok => simp [syncCloseLoop]
      | timeout => simp [syncCloseLoop]
      | raise e =>
        simp only [syncCloseLoop]
        split
        · split <;> simp
        · split <;> simp
        · simp

example : syncRecv tables true .recv (.raise .ssl_SSLEOFError true) = .exc .ssl_SSLEOFError ∧
    syncRecv tables false .recvInto (.raise .ssl_SSLEOFError true) = .eof ∧
    syncRecv tables true .recv (.raise .ssl_SSLSyscallError false) = .wouldBlockRead ∧
    (syncClose tables true true [.raise .ssl_SSLWantReadError, .timeout]).1 = [.unwrap, .closeSocket] := by decide +kernel

/-! ### default client contexts -/

theorem clearBit_testBit (o b : Nat) : (clearBit o b).testBit b = false := by
  simp [clearBit, Nat.testBit_xor, Nat.testBit_and, Nat.one_shiftLeft, Nat.testBit_two_pow_self]

/-- **Default client contexts** (`ssl=True`): both client constructors, under the guards `ssl` and `isinstance(ssl, bool)` only
    (nothing else — in particular not conditioned on `ssl_standard_compatible`), build the context with
    `create_default_context()` and leave it with the OP_IGNORE_UNEXPECTED_EOF bit CLEARED whatever the default option word was
    (Python ≥ 3.10 sets the bit on every new context). -/
theorem C09_client_default_context :
    tables.clientCtx.map (·.client) = ["tcp", "async_tcp"] ∧
    ∀ c ∈ tables.clientCtx, c.guards = ["ssl", "isinstance(ssl, bool)"] ∧
      ∃ bit, tables.optIgnoreEofBit = some bit ∧ ∀ d : Nat, (ctxAfter optBit d c.stmts d).testBit bit = false := by
  refine ⟨by decide, ?_⟩
  intro c hc
  have h7 : tables.optIgnoreEofBit = some 7 := by decide
  simp only [tables, List.mem_cons, List.not_mem_nil, or_false] at hc
  rcases hc with rfl | rfl
  · exact ⟨rfl, 7, h7, fun d => by simp [ctxAfter, optBit, clearBit_testBit]⟩
  · exact ⟨rfl, 7, h7, fun d => by simp [ctxAfter, optBit, clearBit_testBit]⟩

/-- non-vacuity: the default option word of this interpreter's `create_default_context()` has the bit set before -/
example : (0x82520050 : Nat).testBit 7 = false ∧ (0x825200D0 : Nat).testBit 7 = true ∧
    (ctxAfter optBit 0x825200D0 [.createDefault, .checkHostnameOff, .clearOption "OP_IGNORE_UNEXPECTED_EOF"] 0).testBit 7 = false := by
  decide +kernel

end EasyNet
