/-
  C10 — Cancelling or timing out a receive never loses data.
  Property theorems only (helper lemmas: EasyNet/Lemmas/RecvProto.lean; model: EasyNet/Model/RecvProto.lean).

  The model is `StreamReaderBufferedProtocol` (get_buffer / buffer_updated / eof_received / receive_data /
  receive_data_into / _wait_for_data) together with the CPython 3.12 semantics of the task that awaits it
  (`Task.cancel`, `_must_cancel`, wake-up in a later loop turn).  An event list is any interleaving of
  receive starts, data arrivals, end-of-stream, `task.cancel()` and loop turns — in particular a cancel and a
  data arrival between the same two turns, in either order.

  The theorems are about the protocol *with* the guard in `get_buffer` and the salvage on a cancelled wake-up
  (`Cfg.guard = Cfg.salvage = true`, docs/C10-fix-1.patch).  `C10_unguarded_loses_data` and
  `C10_unsalvaged_loses_data` show that each of the two is necessary: without it the statement is false of the
  faithful model of the code before the patch.
-/
import EasyNet.Lemmas.RecvProto
import EasyNet.Lemmas.RecvLayers
namespace EasyNet
open EasyNet.C10.RP

/-- **C10, main statement.**  For every event list without connection loss: the bytes returned by receives so
    far, followed by the bytes whose count is held by a completed-but-not-yet-resumed read waiter, followed by the
    protocol's internal buffer, are exactly the bytes the transport delivered — nothing lost, duplicated or
    reordered, whatever the relative order of data arrival, cancellation request and task wake-up. -/
theorem C10_conservation (c : Cfg) (hg : c.guard = true) (hs : c.salvage = true) (evs : List Ev)
    (hnl : ∀ e ∈ evs, e.isLost = false) :
    deliveredOf (run c (St.init c) evs).2 ++ inflight (run c (St.init c) evs).1 ++ (run c (St.init c) evs).1.buf
      = arrivedOf (run c (St.init c) evs).2 := by
  have h := (run_ok c hg hs evs (St.init c) hnl (inv_init c)).2
  simpa [inflight, St.init] using h

/-- non-vacuity: cancel and data in the same loop turn, in both orders, then a later receive -/
example :
    let c : Cfg := { maxSize := 4096, guard := true, salvage := true }
    let evs : List Ev := [.start (.into 8), .turn, .cancel, .io [97, 98, 99], .turn,
                          .start (.into 8), .turn, .io [100], .cancel, .turn, .start (.recv 9), .turn, .turn]
    (∀ e ∈ evs, e.isLost = false) ∧ (run c (St.init c) evs).2.getLast? = some (.ret [97, 98, 99, 100]) := by
  decide +kernel

/-- **Whenever no receive is in progress, everything not yet returned is parked in the internal buffer**
    (so the next receive finds it): `delivered ++ buffer = arrived`. -/
theorem C10_quiescent_all_parked (c : Cfg) (hg : c.guard = true) (hs : c.salvage = true) (evs : List Ev)
    (hnl : ∀ e ∈ evs, e.isLost = false) (hidle : (run c (St.init c) evs).1.pc = .idle) :
    deliveredOf (run c (St.init c) evs).2 ++ (run c (St.init c) evs).1.buf = arrivedOf (run c (St.init c) evs).2 := by
  have h := C10_conservation c hg hs evs hnl
  simpa [inflight, hidle] using h

example :
    let c : Cfg := { maxSize := 4096, guard := true, salvage := true }
    let evs : List Ev := [.start (.into 8), .turn, .io [97, 98, 99], .cancel, .turn]
    (∀ e ∈ evs, e.isLost = false) ∧ (run c (St.init c) evs).1.pc = .idle ∧
      (run c (St.init c) evs).1.buf = [97, 98, 99] ∧ (run c (St.init c) evs).2.getLast? = some .cancelled := by
  decide +kernel

/-- **A cancelled receive returns nothing and leaves everything it had been handed in front of the internal
    buffer.**  If a loop turn ends the receive with `CancelledError`, no byte is returned, no receive is in progress
    afterwards, and the internal buffer is what was in flight followed by what was already buffered. -/
theorem C10_cancelled_receive_returns_nothing (c : Cfg) (hg : c.guard = true) (hs : c.salvage = true) (evs : List Ev)
    (hnl : ∀ e ∈ evs, e.isLost = false)
    (hc : (step c (run c (St.init c) evs).1 .turn).2 = .cancelled) :
    (step c (run c (St.init c) evs).1 .turn).1.pc = .idle ∧
    (step c (run c (St.init c) evs).1 .turn).1.buf
      = inflight (run c (St.init c) evs).1 ++ (run c (St.init c) evs).1.buf := by
  have hinv := (run_ok c hg hs evs (St.init c) hnl (inv_init c)).1
  generalize (run c (St.init c) evs).1 = s at hinv hc ⊢
  have hk := (turn_ok c hs s hinv).2
  have hi' := (turn_ok c hs s hinv).1
  unfold Cons at hk
  rw [hc] at hk
  have hidle : (step c s .turn).1.pc = .idle := by
    rcases turn_pc c s with h | h
    · rw [hc] at h; exact absurd h (by simp)
    · exact h
  refine ⟨hidle, ?_⟩
  simpa [inflight, hidle, deliveredOf, arrivedOf] using hk

example :
    let c : Cfg := { maxSize := 4096, guard := true, salvage := true }
    let evs : List Ev := [.start (.into 2), .turn, .io [97, 98, 99], .io [99, 100], .cancel]
    (∀ e ∈ evs, e.isLost = false) ∧ (step c (run c (St.init c) evs).1 .turn).2 = .cancelled ∧
      inflight (run c (St.init c) evs).1 = [97, 98] ∧ (step c (run c (St.init c) evs).1 .turn).1.buf = [97, 98, 99, 100] := by
  decide +kernel

/-- **Later receives deliver exactly the rest of the stream.**  From any reachable state with no receive in
    progress and a non-empty internal buffer, a `receive_data(k)` (k > 0) that is left alone returns the first `k`
    parked bytes and keeps the others, in order. -/
theorem C10_later_receive_delivers_rest (c : Cfg) (hg : c.guard = true) (hs : c.salvage = true) (evs : List Ev)
    (hnl : ∀ e ∈ evs, e.isLost = false) (hidle : (run c (St.init c) evs).1.pc = .idle)
    (hne : (run c (St.init c) evs).1.buf ≠ []) (k : Nat) (hk : k ≠ 0) :
    (run c (run c (St.init c) evs).1 [.start (.recv k), .turn, .turn]).2
      = [.started, .parked, .ret ((run c (St.init c) evs).1.buf.take k)] ∧
    (run c (run c (St.init c) evs).1 [.start (.recv k), .turn, .turn]).1.buf = (run c (St.init c) evs).1.buf.drop k := by
  have hinv := (run_ok c hg hs evs (St.init c) hnl (inv_init c)).1
  generalize (run c (St.init c) evs).1 = s at hinv hidle hne ⊢
  unfold C10.RP.Inv at hinv
  simp_all [run, step, turnStep, runHead, afterWait, finishFromBuffer]

example :
    let c : Cfg := { maxSize := 4096, guard := true, salvage := true }
    let evs : List Ev := [.start (.into 2), .turn, .io [97, 98, 99], .io [99, 100], .cancel, .turn]
    (∀ e ∈ evs, e.isLost = false) ∧ (run c (St.init c) evs).1.pc = .idle ∧ (run c (St.init c) evs).1.buf ≠ [] ∧
      (run c (run c (St.init c) evs).1 [.start (.recv 3), .turn, .turn]).2 = [.started, .parked, .ret [97, 98, 99]] := by
  decide +kernel

/-- **The guard is necessary.**  In the model of the code before the patch (`guard = false`), a cancel followed by
    a data arrival in the same loop turn loses the bytes: the account of `C10_conservation` is violated. -/
theorem C10_unguarded_loses_data :
    ∃ evs : List Ev, (∀ e ∈ evs, e.isLost = false) ∧
      let c : Cfg := { maxSize := 4096, guard := false, salvage := true }
      (run c (St.init c) evs).1.pc = .idle ∧
      deliveredOf (run c (St.init c) evs).2 ++ (run c (St.init c) evs).1.buf ≠ arrivedOf (run c (St.init c) evs).2 :=
  ⟨[.start (.into 8), .turn, .cancel, .io [97, 98, 99], .turn], by decide +kernel⟩

/-- **The salvage is necessary.**  In the model without it (`salvage = false`), a data arrival followed by a cancel
    in the same loop turn loses the bytes. -/
theorem C10_unsalvaged_loses_data :
    ∃ evs : List Ev, (∀ e ∈ evs, e.isLost = false) ∧
      let c : Cfg := { maxSize := 4096, guard := true, salvage := false }
      (run c (St.init c) evs).1.pc = .idle ∧
      deliveredOf (run c (St.init c) evs).2 ++ (run c (St.init c) evs).1.buf ≠ arrivedOf (run c (St.init c) evs).2 :=
  ⟨[.start (.into 8), .turn, .io [97, 98, 99], .cancel, .turn], by decide +kernel⟩

/-! ### the layers above the transport receive -/

/-- **Endpoint / server-receiver / TLS-ciphertext-reader / blocking-endpoint receive loops hand the consumer exactly
    what they took from the transport**, whatever the sequence of returns, raises (cancellation, timeout, error) of the
    lower receive and cancellations at the server receiver's shielded yield: there is no suspension point between the
    return of the lower receive and the hand-over, and a lower receive that raises returned nothing
    (`C10_cancelled_receive_returns_nothing`). -/
theorem C10_layer_feeds_what_it_takes (evs : List C10.RL.LEv) :
    (C10.RL.lrun C10.RL.LSt.init evs).fed = (C10.RL.lrun C10.RL.LSt.init evs).taken :=
  C10.RL.lrun_fed evs C10.RL.LSt.init rfl

example :
    (C10.RL.lrun C10.RL.LSt.init [.call false false, .lowerRet [97] false, .lowerRaise, .call false false,
                           .lowerRet [98, 10] true, .call true true, .cancelAtYield]).fed = [97, 98, 10] := by
  decide +kernel

/-- **TLS read loop (`_retry_ssl_method(ssl_object.read, …)` without a flush after a successful read).**  For every
    sequence of calls, completions of the awaited lock / send / `recv_into` operations, environment answers (pending
    output, lock contention) and cancellations at any await: the plaintext returned, followed by what is still in the read
    BIO, is exactly what the wrapped transport's `recv_into` returned, and no suspended call ever holds plaintext. -/
theorem C10_tls_reader (c : C10.RL.TCfg) (hc : c.flushAfterRead = false) (evs : List C10.RL.TEv) :
    (C10.RL.trun c C10.RL.TSt.init evs).returned ++ (C10.RL.trun c C10.RL.TSt.init evs).bio = (C10.RL.trun c C10.RL.TSt.init evs).taken ∧
    C10.RL.held (C10.RL.trun c C10.RL.TSt.init evs) = [] := by
  have h := C10.RL.trun_ok c hc evs C10.RL.TSt.init (by simp [C10.RL.NoHold, C10.RL.TSt.init]) (by simp [C10.RL.TSt.init])
  refine ⟨h.2, ?_⟩
  have hn := h.1
  unfold C10.RL.held
  split
  · rename_i r hpc; exact absurd hpc (hn r).1
  · rename_i r hpc; exact absurd hpc (hn r).2
  · rfl

example :
    let c : C10.RL.TCfg := { flushAfterRead := false }
    let busy : C10.RL.TEnv := { pending := false, sendLockFree := false, recvLockFree := true }
    let free : C10.RL.TEnv := { pending := false, sendLockFree := true, recvLockFree := true }
    (C10.RL.trun c C10.RL.TSt.init [.call free, .resume busy [97, 98, 99], .cancel, .call free]).returned = [97, 98, 99] := by
  decide +kernel

/-- **The flush after a read loses data** (the code before docs/C10-fix-2.patch): the receive is parked in `recv_into`,
    a sender then takes the send lock, ciphertext arrives and is decrypted, the receive waits for the send lock and is
    cancelled there — the plaintext is neither returned nor anywhere in the transport. -/
theorem C10_tls_flush_after_read_loses_data :
    ∃ evs : List C10.RL.TEv,
      let c : C10.RL.TCfg := { flushAfterRead := true }
      (C10.RL.trun c C10.RL.TSt.init evs).pc = .idle ∧
      (C10.RL.trun c C10.RL.TSt.init evs).returned ++ (C10.RL.trun c C10.RL.TSt.init evs).bio ≠ (C10.RL.trun c C10.RL.TSt.init evs).taken :=
  ⟨[.call { pending := false, sendLockFree := true, recvLockFree := true },
    .resume { pending := false, sendLockFree := false, recvLockFree := true } [97, 98, 99], .cancel], by decide +kernel⟩

end EasyNet
