/-
  C15 — Stream server: each request reaches the handler exactly once, in order.
  Property theorems only (helper lemmas live in EasyNet/Lemmas/StreamServer.lean).

  The model (EasyNet/Model/StreamServer.lean) mirrors `AsyncStreamServer.__client_coroutine`, the two request
  receivers and `build_lowlevel_stream_server_handler`; it is tied to the Python source by the correspondence check.
  All theorems hold for every handler shape (requests per generator, yielded timeouts, sleeps, on_connection as
  coroutine or generator, closing the client at any request), every chunking / arrival schedule of the request
  stream, every end of stream (EOF, connection error filtered or not), both layers.

  Payload codecs are parameters: a request is its frame (`Item.frame`), a malformed request is a frame the codec
  rejects (thrown into the generator as a parse error *at that position* by the harness-side `model_post`); a frame
  over the size limit is `Item.limit` (thrown as `StreamProtocolParseError(LimitOverrunError)`).
-/
import EasyNet.Lemmas.StreamServer
import EasyNet.Lemmas.RU
import EasyNet.Lemmas.RUSpec
import EasyNet.Lemmas.BufIface
import EasyNet.Lemmas.BRUSpec
namespace EasyNet
open EasyNet.C15

/-- **C15, delivery relative to the reads made** (any consumer satisfying the interface laws, size errors included).
    The values / parse errors that entered handler generators — across generator restarts, timeouts and the
    on_connection generator — are, in order and once each, a prefix of what the byte-level reference decoder cuts
    out of the reads the receiver made; those reads are a prefix of the request stream; and if the end of the stream
    was reached (peer disconnected), *every* request was delivered and the whole stream was read. -/
theorem C15_delivery_reads {κ : Type} (I : Iface κ) (spec : Bytes → SRes) (Rel : κ → Bytes → Prop)
    (Sim : IfaceSim I spec Rel) {ok : Bytes → Prop} (L : SpecLaws spec ok) (k0 : κ) (hk0 : Rel k0 []) (sh : Shape) (tr : Transport) :
    delivered (session I k0 sh tr) <+: (refRun spec [] (sessionFull I k0 sh tr).2.reads).2 ∧
    (sessionFull I k0 sh tr).2.reads.flatten <+: streamOf tr ∧
    ((sessionFull I k0 sh tr).2.sawEnd = true →
      delivered (session I k0 sh tr) = (refRun spec [] (sessionFull I k0 sh tr).2.reads).2 ∧
      (sessionFull I k0 sh tr).2.reads.flatten = streamOf tr) := by
  have F := session_full Sim L k0 hk0 sh tr
  obtain ⟨h, _, hrun⟩ := F.inv
  refine ⟨?_, ?_, ?_⟩
  · show delivered (sessionFull I k0 sh tr).1 <+: _
    rw [hrun]
    exact List.prefix_append _ _
  · rw [← F.pre]
    exact List.prefix_append _ _
  · intro hs
    obtain ⟨⟨h', _, _, hrun'⟩, hch⟩ := F.fin hs
    refine ⟨?_, ?_⟩
    · show delivered (sessionFull I k0 sh tr).1 = _
      rw [hrun']
    · have := F.pre
      simp only [streamOf, hch, List.map_nil, List.flatten_nil, List.append_nil] at this
      exact this

/-- **C15, main sentence** (copying consumer over any framer that refines a byte-level spec; stream without size error).
    For every request stream, every chunking and arrival schedule, every handler shape: the sequence of requests
    seen by the handler generators is a prefix of `decodeAll stream` — each request once, in order, whatever the
    generator restarts — and it is the *whole* of it when the peer's disconnection ended the session. -/
theorem C15_delivery {σ : Type} {init : σ} {feed : σ → Bytes → Res σ} {spec : Bytes → SRes} {FInv : σ → Bytes → Prop}
    (R : Refines init feed spec FInv) (L : SpecLaws spec) (maxRecv : Nat) (sh : Shape) (tr : Transport)
    (hno : NoLimit (decodeW spec (streamOf tr)).2) :
    delivered (session (copyIface init feed maxRecv) Consumer.new sh tr) <+: (decodeW spec (streamOf tr)).2 ∧
    ((sessionFull (copyIface init feed maxRecv) Consumer.new sh tr).2.sawEnd = true →
      delivered (session (copyIface init feed maxRecv) Consumer.new sh tr) = (decodeW spec (streamOf tr)).2) := by
  have H := C15_delivery_reads (copyIface init feed maxRecv) spec (Consumer.Rel spec FInv)
    (copyIface_sim R L maxRecv) L Consumer.new (Or.inl ⟨rfl, rfl⟩) sh tr
  obtain ⟨hpre, ⟨rest, hrest⟩, hfin⟩ := H
  -- decoding is compositional along the cut  reads ++ rest  of a stream without size error
  have hno' : NoLimit (decodeW spec ((sessionFull (copyIface init feed maxRecv) Consumer.new sh tr).2.reads.flatten ++ rest)).2 := by
    rw [hrest]; exact hno
  have hcomp := decodeW_append L _ rest (AllOk_of_NoLimit _ hno')
  have hnoR : NoLimit (decodeW spec ([] ++ (sessionFull (copyIface init feed maxRecv) Consumer.new sh tr).2.reads.flatten)).2 := by
    intro it hit
    apply hno'
    rw [hcomp]
    simp only [List.nil_append] at hit
    simp [hit]
  have hind := refRun_chunk_independent L (sessionFull (copyIface init feed maxRecv) Consumer.new sh tr).2.reads [] (Or.inl rfl) (AllOk_of_NoLimit _ hnoR)
  simp only [List.nil_append] at hind
  refine ⟨?_, ?_⟩
  · rw [hind] at hpre
    refine List.IsPrefix.trans hpre ?_
    rw [← hrest, hcomp]
    exact List.prefix_append _ _
  · intro hs
    obtain ⟨h1, h2⟩ := hfin hs
    rw [h1, hind, h2]

/-- instance of the main sentence for the separator framer (`read_until`: line, JSON-lines, base64, auto-separated
    serializers) -/
theorem C15_delivery_sep (sep : Bytes) (limit : Nat) (ke : Bool) (hsep : sep ≠ []) (maxRecv : Nat) (sh : Shape) (tr : Transport)
    (hno : NoLimit (decodeW (RU.spec sep limit ke) (streamOf tr)).2) :
    delivered (session (copyIface RU.init (RU.feed sep limit ke) maxRecv) Consumer.new sh tr)
      <+: (decodeW (RU.spec sep limit ke) (streamOf tr)).2 ∧
    ((sessionFull (copyIface RU.init (RU.feed sep limit ke) maxRecv) Consumer.new sh tr).2.sawEnd = true →
      delivered (session (copyIface RU.init (RU.feed sep limit ke) maxRecv) Consumer.new sh tr)
        = (decodeW (RU.spec sep limit ke) (streamOf tr)).2) :=
  C15_delivery ⟨RU.inv_init sep limit, fun s b c h => RU.feed_spec sep limit ke hsep s b c h⟩
    (RU.spec_laws sep limit ke hsep) maxRecv sh tr hno

/-- **C15, main sentence, buffered receive path** (`_BufferedRequestReceiver` over `BufferedStreamDataConsumer` and
    `_buffered_readuntil`; request stream whose frames are safely inside the buffer, `|payload| + |sep| < cap`):
    the requests seen by the handler generators are a prefix of the frame-by-frame decoding of the stream, and all of it
    when the peer's disconnection ended the session — whatever sizes the transport fills. -/
theorem C15_delivery_sep_buffered (sep : Bytes) (cap : Nat) (ke : Bool) (hsep : sep ≠ []) (hcap : 0 < cap)
    (sh : Shape) (tr : Transport)
    (hsafe : AllOk (BRU.okFrame sep cap ke) (decodeW (BRU.spec sep cap ke) (streamOf tr)).2) :
    delivered (session (bufIface BRU.init 0 cap (BRU.feed true sep ke)) BufConsumer.new sh tr)
      <+: (decodeW (BRU.spec sep cap ke) (streamOf tr)).2 ∧
    ((sessionFull (bufIface BRU.init 0 cap (BRU.feed true sep ke)) BufConsumer.new sh tr).2.sawEnd = true →
      delivered (session (bufIface BRU.init 0 cap (BRU.feed true sep ke)) BufConsumer.new sh tr)
        = (decodeW (BRU.spec sep cap ke) (streamOf tr)).2) := by
  have R := BRU.refines sep cap ke hsep
  have L := BRU.spec_laws sep cap ke hsep
  have hnew : BufConsumer.Rel (·.buflen) (BRU.spec sep cap ke) (BRU.Inv sep cap) cap
      (BufConsumer.new : BufConsumer BRUState) [] := ⟨rfl, Or.inl ⟨rfl, rfl, rfl, Or.inl rfl⟩⟩
  have H := C15_delivery_reads (bufIface BRU.init 0 cap (BRU.feed true sep ke)) (BRU.spec sep cap ke) _
    (bufIface_sim cap R L hcap) L BufConsumer.new hnew sh tr
  obtain ⟨hpre, ⟨rest, hrest⟩, hfin⟩ := H
  have hsafe' : AllOk (BRU.okFrame sep cap ke) (decodeW (BRU.spec sep cap ke)
      ((sessionFull (bufIface BRU.init 0 cap (BRU.feed true sep ke)) BufConsumer.new sh tr).2.reads.flatten ++ rest)).2 := by
    rw [hrest]; exact hsafe
  have hcomp := decodeW_append L _ rest hsafe'
  have hsafeR : AllOk (BRU.okFrame sep cap ke) (decodeW (BRU.spec sep cap ke)
      ([] ++ (sessionFull (bufIface BRU.init 0 cap (BRU.feed true sep ke)) BufConsumer.new sh tr).2.reads.flatten)).2 := by
    intro it hit
    apply hsafe'
    rw [hcomp]
    simp only [List.nil_append] at hit
    simp [hit]
  have hind := refRun_chunk_independent L
    (sessionFull (bufIface BRU.init 0 cap (BRU.feed true sep ke)) BufConsumer.new sh tr).2.reads [] (Or.inl rfl) hsafeR
  simp only [List.nil_append] at hind
  refine ⟨?_, ?_⟩
  · rw [hind] at hpre
    refine List.IsPrefix.trans hpre ?_
    rw [← hrest, hcomp]
    exact List.prefix_append _ _
  · intro hs
    obtain ⟨h1, h2⟩ := hfin hs
    rw [h1, hind, h2]

/-- non-vacuity: CRLF requests cut inside the separator, one byte per read, three generators (restart in the middle
    of the stream), a yielded timeout that expires before the second chunk: every request is delivered once, in order,
    and the hypotheses of `C15_delivery_sep` hold -/
private abbrev exSh1 : Shape :=
  ⟨.high, none, [[⟨0, some 3, false, false⟩, ⟨0, none, true, false⟩], [⟨2, none, false, false⟩], [⟨0, none, false, false⟩, ⟨0, none, false, false⟩]]⟩
private abbrev exTr1 : Transport := ⟨[(0, [97, 13]), (5, [10, 98, 13, 10, 99]), (9, [13, 10])], 9, .eof, true⟩

example : NoLimit (decodeW (RU.spec [13, 10] 16 false) (streamOf exTr1)).2 := by
  have h : (decodeW (RU.spec [13, 10] 16 false) (streamOf exTr1)).2 = [.frame [97], .frame [98], .frame [99]] := by
    decide +kernel
  intro it hit
  rw [h] at hit
  simp only [List.mem_cons, List.not_mem_nil, or_false] at hit
  rcases hit with rfl | rfl | rfl <;> simp

example :
    delivered (session (copyIface RU.init (RU.feed [13, 10] 16 false) 1) Consumer.new exSh1 exTr1)
      = [.frame [97], .frame [98], .frame [99]] ∧
    (sessionFull (copyIface RU.init (RU.feed [13, 10] 16 false) 1) Consumer.new exSh1 exTr1).2.sawEnd = true := by
  decide +kernel

/-- **C15, a yielded timeout raises TimeoutError only if no complete request arrived in time.**
    If `request_receiver.next(timeout)` (timeout > 0, no arrival exactly at the deadline) ends in `TimeoutError`, then
    the consumer holds nothing complete (`Exact`: everything the reference decoder finds in the reads made has been
    delivered before), the clock stands at the deadline, and whatever the transport would deliver next — data or the
    end of the stream — arrives strictly after the deadline. -/
theorem C15_timeout_only_when_idle {κ : Type} (I : Iface κ) (spec : Bytes → SRes) (Rel : κ → Bytes → Prop)
    (Sim : IfaceSim I spec Rel) {ok : Bytes → Prop} (L : SpecLaws spec ok) (S : Bytes) (s : RState κ) (D : List Item)
    (hF : Full spec Rel S s D) (to : Nat) (hto : 0 < to) (hne : ∀ c ∈ s.tr.chunks, c.1 ≠ s.now + to)
    (ht : (recvNext I s (some to)).2 = .timeout) :
    Exact spec Rel (recvNext I s (some to)).1 D ∧
    (recvNext I s (some to)).1.now = s.now + to ∧
    (∀ c rest, (recvNext I s (some to)).1.tr.chunks = c :: rest → s.now + to < c.1) ∧
    ((recvNext I s (some to)).1.tr.chunks = [] → s.now + to < (recvNext I s (some to)).1.tr.endT) := by
  refine ⟨(recvNext_full Sim L S s (some to) D hF).2 (Or.inl ht), ?_⟩
  unfold recvNext at ht ⊢
  cases hd : I.drainNext s.k with
  | mk k' r =>
    rw [hd] at ht
    cases r with
    | some it => cases ht
    | none =>
      simp only [Option.map_some] at ht ⊢
      exact recvLoop_timeout I _ { s with k := k' } (s.now + to) (by show s.now < s.now + to; omega) hne ht

/-- non-vacuity: a first chunk holding half a request, the rest arriving at time 9; `yield 4` times out at 4 -/
private abbrev exI : Iface (Consumer RUState) := copyIface RU.init (RU.feed [10] 16 false) 64
private abbrev exS2 : RState (Consumer RUState) := (initCtx Consumer.new ⟨[(0, [97]), (9, [10])], 9, .eof, true⟩).s

example :
    (recvNext exI exS2 (some 4)).2 = .timeout ∧ (∀ c ∈ exS2.tr.chunks, c.1 ≠ exS2.now + 4) ∧
    (recvNext exI exS2 (some 4)).1.now = 4 := by
  decide +kernel

/-- **C15, generators.** In every session the events are well bracketed: a generator is started only when none is
    active, every value / exception is delivered to the active generator, every started generator is ended exactly
    once (returned or closed by `aclose()`), and none is open when the client task finishes. -/
theorem C15_generator_closed_once {κ : Type} (I : Iface κ) (k0 : κ) (sh : Shape) (tr : Transport) :
    balanced none (session I k0 sh tr) = true := by
  show balanced none (connObs sh ++ (run I sh.layer sh.flatten (initCtx k0 tr)).1) = true
  exact balanced_conn sh _ (run_balanced I sh.layer sh.flatten none (initCtx k0 tr) (wf_flatten sh))

/-- **C15, the connection is closed.** Every session — peer disconnect, handler-initiated close, handler script
    exhausted — ends with the transport closed (`aclose_forcefully` of the client task's exit stack). -/
theorem C15_connection_closed {κ : Type} (I : Iface κ) (k0 : κ) (sh : Shape) (tr : Transport) :
    ∃ pre a n, session I k0 sh tr = pre ++ [Obs.final true a n] := by
  obtain ⟨pre, a, n, h⟩ := run_final I sh.layer sh.flatten (initCtx k0 tr)
  exact ⟨connObs sh ++ pre, a, n, by
    show connObs sh ++ (run I sh.layer sh.flatten (initCtx k0 tr)).1 = _
    rw [h]; simp⟩

/-- non-vacuity of the two statements above on a session where the handler closes the client at the second request
    while a third one is already buffered: generator 0 is closed by `aclose()`, nothing more is delivered -/
private abbrev exSh3 : Shape := ⟨.high, some [⟨0, none, false, false⟩], [[⟨0, none, false, true⟩, ⟨0, none, false, false⟩]]⟩
private abbrev exTr3 : Transport := ⟨[(0, [97, 10, 98, 10, 99, 10])], 3, .eof, true⟩

example :
    session exI Consumer.new exSh3 exTr3 =
      [.genStart "oc" 0, .req "oc" (.frame [97]) 0, .genEnd "oc" false 0,
       .genStart "0" 0, .req "0" (.frame [98]) 0, .closedBy "0" 0, .genEnd "0" true 0, .disc true 0,
       .taskDone 0, .final true 2 0] := by
  decide +kernel

end EasyNet
