/-
  C07 — Receive buffering is bounded by the configured limit.  Property theorems only.
-/
import EasyNet.Props.C02
namespace EasyNet

/-- what the reference retains after any sequence of reads is empty or "incomplete and acceptable" -/
theorem refRun_held {spec : Bytes → SRes} (L : SpecLaws spec) (cs : List Bytes) (h : Bytes)
    (hh : h = [] ∨ spec h = .need) : (refRun spec h cs).1 = [] ∨ spec (refRun spec h cs).1 = .need := by
  induction cs generalizing h with
  | nil => exact hh
  | cons c cs ih =>
    simp only [refRun]
    apply ih
    rw [refRecv_eq_decodeW L]
    exact decodeW_held L _

/-- **C07, separator framers, copying path: bound.**  After every read — for every chunking of every byte stream,
    terminated or not — the bytes retained by the consumer number at most `limit + |sep| - 1`
    (so at most `limit + |sep| - 1 +` one read while a read is being processed). -/
theorem C07_sep_copy_bound (sep : Bytes) (limit : Nat) (ke : Bool) (hsep : sep ≠ []) (chunks : List Bytes) :
    (Consumer.held (·.buf) (Consumer.run RU.init (RU.feed sep limit ke) Consumer.new chunks).1).length
      ≤ limit + sep.length - 1 := by
  have hpos : 0 < sep.length := List.length_pos_iff.mpr hsep
  have R := RU.refines sep limit ke hsep
  have L := RU.spec_laws sep limit ke hsep
  have hsim := Consumer.run_ref R chunks Consumer.new [] (Or.inl ⟨rfl, rfl⟩)
  have hheld := refRun_held L chunks [] (Or.inl rfl)
  have hbound : ∀ h : Bytes, (h = [] ∨ RU.spec sep limit ke h = .need) → h.length ≤ limit + sep.length - 1 := by
    intro h hh
    rcases hh with rfl | hn
    · simp
    · unfold RU.spec at hn
      cases hf : firstOcc sep h with
      | some i => rw [hf] at hn; simp only at hn; split at hn <;> cases hn
      | none =>
        rw [hf] at hn; simp only at hn
        split at hn
        · cases hn
        · omega
  have heq : Consumer.held (·.buf) (Consumer.run RU.init (RU.feed sep limit ke) Consumer.new chunks).1
      = (refRun (RU.spec sep limit ke) [] chunks).1 := by
    rcases hsim.2 with ⟨hfr, hbuf⟩ | ⟨s, hfr, hbuf, hinv, _⟩
    · simp [Consumer.held, hfr, hbuf]
    · simp only [Consumer.held, hfr]
      exact RU.inv_buf sep limit s _ hinv
  rw [heq]
  exact hbound _ hheld

/-- **C07, copying path: the error is raised.**  Unterminated data of `limit + |sep|` bytes or more is never
    silently accumulated: looking at it yields a size error. -/
theorem C07_sep_copy_overrun_raises (sep : Bytes) (limit : Nat) (ke : Bool) (b : Bytes)
    (hnone : firstOcc sep b = none) (hlen : limit + sep.length ≤ b.length) :
    ∃ r, RU.spec sep limit ke b = .fail r := by
  unfold RU.spec
  rw [hnone]
  have : b.length + 1 - sep.length > limit := by omega
  simp only [this, if_true]
  exact ⟨_, rfl⟩

/-- **C07, copying path: no false rejection.**  A well-delimited frame whose payload is at most `limit` bytes is
    delivered, never rejected for its size (exact: rejected iff `|payload| > limit`). -/
theorem C07_sep_copy_no_false_reject (sep : Bytes) (limit : Nat) (ke : Bool) (hsep : sep ≠ []) (p rest : Bytes)
    (hfirst : firstOcc sep (p ++ sep) = some p.length) :
    (p.length ≤ limit → RU.spec sep limit ke (p ++ sep ++ rest) = .done (if ke then p ++ sep else p) rest) ∧
    (p.length > limit → ∃ r, RU.spec sep limit ke (p ++ sep ++ rest) = .fail r) := by
  constructor
  · intro hle
    exact RU.spec_frame sep limit ke hsep p rest ⟨hfirst, hle⟩
  · intro hgt
    unfold RU.spec
    rw [firstOcc_append_some sep (p ++ sep) rest p.length hsep hfirst]
    simp only [hgt, if_true]
    exact ⟨_, rfl⟩

example : firstOcc [13, 10] (([97, 98, 99] : Bytes) ++ [13, 10]) = some 3 := by decide +kernel

/-- **C07, buffered path: bound.**  After any history of fitting fills the buffer-filling consumer owns a buffer of
    exactly `cap` bytes (or none yet) and retains at most `cap` bytes — whatever the peer sends. -/
theorem C07_sep_buffered_bound (sep : Bytes) (cap : Nat) (ke : Bool) (hsep : sep ≠ []) (hcap : 0 < cap)
    (fills : List Bytes) (r : BufConsumer BRUState × List Item)
    (hrun : BufConsumer.runFills BRU.init 0 cap (BRU.feed true sep ke) BufConsumer.new fills = some r) :
    (r.1.buffer.length = 0 ∨ r.1.buffer.length = cap) ∧
    ∃ h : Bytes, BufConsumer.Rel (·.buflen) (BRU.spec sep cap ke) (BRU.Inv sep cap) cap r.1 h ∧ h.length ≤ cap := by
  have R := BRU.refines sep cap ke hsep
  have hnew : BufConsumer.Rel (·.buflen) (BRU.spec sep cap ke) (BRU.Inv sep cap) cap
      (BufConsumer.new : BufConsumer BRUState) [] :=
    ⟨rfl, Or.inl ⟨rfl, rfl, rfl, Or.inl rfl⟩⟩
  have hsim := BufConsumer.runFills_ref cap R hcap fills BufConsumer.new [] hnew r hrun
  have hrel := hsim.2
  refine ⟨?_, _, hrel, ?_⟩
  · rcases hrel with ⟨_, ⟨_, _, _, hb⟩ | ⟨s, _, hlen, _⟩⟩
    · rcases hb with hb | hb
      · left; simp [hb]
      · right; exact hb
    · right; exact hlen
  · rcases hrel with ⟨_, ⟨_, _, hh, _⟩ | ⟨s, _, hlen, _, hfit, htake, _⟩⟩
    · rw [hh]; simp
    · rw [← htake]; simp only [List.length_take]; omega

/-- **C07, buffered path: the error is raised** no later than when unterminated data fills the buffer up to its
    last byte but one. -/
theorem C07_sep_buffered_overrun_raises (sep : Bytes) (cap : Nat) (ke : Bool) (b : Bytes)
    (hnone : firstOcc sep b = none) (hsl : sep.length ≤ b.length) (hlen : cap ≤ b.length + 1) :
    ∃ r, BRU.spec sep cap ke b = .fail r := by
  unfold BRU.spec
  rw [hnone]
  have : b.length + 2 > cap ∧ sep.length ≤ b.length := ⟨by omega, hsl⟩
  simp only [this, and_self, if_true]
  exact ⟨_, rfl⟩

/-- **C07, buffered path: no false rejection** — frames with `|payload| + |sep| < cap` are delivered under every
    fill history (this is `C01_sep_buffered_roundtrip`; restated here for one frame followed by anything). -/
theorem C07_sep_buffered_no_false_reject (sep : Bytes) (cap : Nat) (ke : Bool) (hsep : sep ≠ []) (p rest : Bytes)
    (hfirst : firstOcc sep (p ++ sep) = some p.length) :
    BRU.spec sep cap ke (p ++ sep ++ rest) = .done (if ke then p ++ sep else p) rest :=
  BRU.spec_frame sep cap ke hsep p rest hfirst

end EasyNet
