/-
  C07 — Receive buffering is bounded by the configured limit.  Property theorems only.
-/
import EasyNet.Props.C02
namespace EasyNet

/-- what the reference retains after any sequence of reads is empty or "incomplete and acceptable" -/
theorem refRun_held {spec : Bytes → SRes} (L : SpecLaws spec) (cs : List Bytes) (h : Bytes)
    (hh : h = [] ∨ spec h = .need) : (refRun spec h cs).1 = [] ∨ spec (refRun spec h cs).1 = .need := by
  induction cs generalizing h with
  | nil => exact hh
  | cons c cs ih =>
    simp only [refRun]
    apply ih
    rw [refRecv_eq_decodeW L]
    exact decodeW_held L _

/-- **C07, separator framers, copying path: bound.**  After every read — for every chunking of every byte stream,
    terminated or not — the bytes retained by the consumer number at most `limit + |sep| - 1`
    (so at most `limit + |sep| - 1 +` one read while a read is being processed). -/
theorem C07_sep_copy_bound (sep : Bytes) (limit : Nat) (ke : Bool) (hsep : sep ≠ []) (chunks : List Bytes) :
    (Consumer.held (·.buf) (Consumer.run RU.init (RU.feed sep limit ke) Consumer.new chunks).1).length
      ≤ limit + sep.length - 1 := by
  have hpos : 0 < sep.length := List.length_pos_iff.mpr hsep
  have R := RU.refines sep limit ke hsep
  have L := RU.spec_laws sep limit ke hsep
  have hsim := Consumer.run_ref R chunks Consumer.new [] (Or.inl ⟨rfl, rfl⟩)
  have hheld := refRun_held L chunks [] (Or.inl rfl)
  have hbound : ∀ h : Bytes, (h = [] ∨ RU.spec sep limit ke h = .need) → h.length ≤ limit + sep.length - 1 := by
    intro h hh
    rcases hh with rfl | hn
    · simp
    · unfold RU.spec at hn
      cases hf : firstOcc sep h with
      | some i => rw [hf] at hn; simp only at hn; split at hn <;> cases hn
      | none =>
        rw [hf] at hn; simp only at hn
        split at hn
        · cases hn
        · omega
  have heq : Consumer.held (·.buf) (Consumer.run RU.init (RU.feed sep limit ke) Consumer.new chunks).1
      = (refRun (RU.spec sep limit ke) [] chunks).1 := by
    rcases hsim.2 with ⟨hfr, hbuf⟩ | ⟨s, hfr, hbuf, hinv, _⟩
    · simp [Consumer.held, hfr, hbuf]
    · simp only [Consumer.held, hfr]
      exact RU.inv_buf sep limit s _ hinv
  rw [heq]
  exact hbound _ hheld

/-- **C07, copying path: the error is raised.**  Unterminated data of `limit + |sep|` bytes or more is never
    silently accumulated: looking at it yields a size error. -/
theorem C07_sep_copy_overrun_raises (sep : Bytes) (limit : Nat) (ke : Bool) (b : Bytes)
    (hnone : firstOcc sep b = none) (hlen : limit + sep.length ≤ b.length) :
    ∃ r, RU.spec sep limit ke b = .fail r := by
  unfold RU.spec
  rw [hnone]
  have : b.length + 1 - sep.length > limit := by omega
  simp only [this, if_true]
  exact ⟨_, rfl⟩

/-- **C07, copying path: no false rejection.**  A well-delimited frame whose payload is at most `limit` bytes is
    delivered, never rejected for its size (exact: rejected iff `|payload| > limit`). -/
theorem C07_sep_copy_no_false_reject (sep : Bytes) (limit : Nat) (ke : Bool) (hsep : sep ≠ []) (p rest : Bytes)
    (hfirst : firstOcc sep (p ++ sep) = some p.length) :
    (p.length ≤ limit → RU.spec sep limit ke (p ++ sep ++ rest) = .done (if ke then p ++ sep else p) rest) ∧
    (p.length > limit → ∃ r, RU.spec sep limit ke (p ++ sep ++ rest) = .fail r) := by
  constructor
  · intro hle
    exact RU.spec_frame sep limit ke hsep p rest ⟨hfirst, hle⟩
  · intro hgt
    unfold RU.spec
    rw [firstOcc_append_some sep (p ++ sep) rest p.length hsep hfirst]
    simp only [hgt, if_true]
    exact ⟨_, rfl⟩

example : firstOcc [13, 10] (([97, 98, 99] : Bytes) ++ [13, 10]) = some 3 := by decide +kernel

/-- **C07, buffered path: bound.**  After any history of fitting fills the buffer-filling consumer owns a buffer of
    exactly `cap` bytes (or none yet) and retains at most `cap` bytes — whatever the peer sends. -/
theorem C07_sep_buffered_bound (sep : Bytes) (cap : Nat) (ke : Bool) (hsep : sep ≠ []) (hcap : 0 < cap)
    (fills : List Bytes) (r : BufConsumer BRUState × List Item)
    (hrun : BufConsumer.runFills BRU.init 0 cap (BRU.feed true sep ke) BufConsumer.new fills = some r) :
    (r.1.buffer.length = 0 ∨ r.1.buffer.length = cap) ∧
    ∃ h : Bytes, BufConsumer.Rel (·.buflen) (BRU.spec sep cap ke) (BRU.Inv sep cap) cap r.1 h ∧ h.length ≤ cap := by
  have R := BRU.refines sep cap ke hsep
  have hnew : BufConsumer.Rel (·.buflen) (BRU.spec sep cap ke) (BRU.Inv sep cap) cap
      (BufConsumer.new : BufConsumer BRUState) [] :=
    ⟨rfl, Or.inl ⟨rfl, rfl, rfl, Or.inl rfl⟩⟩
  have hsim := BufConsumer.runFills_ref cap R hcap fills BufConsumer.new [] hnew r hrun
  have hrel := hsim.2
  refine ⟨?_, _, hrel, ?_⟩
  · rcases hrel with ⟨_, ⟨_, _, _, hb⟩ | ⟨s, _, hlen, _⟩⟩
    · rcases hb with hb | hb
      · left; simp [hb]
      · right; exact hb
    · right; exact hlen
  · rcases hrel with ⟨_, ⟨_, _, hh, _⟩ | ⟨s, _, hlen, _, hfit, htake, _⟩⟩
    · rw [hh]; simp
    · rw [← htake]; simp only [List.length_take]; omega

/-- **C07, buffered path: the error is raised** no later than when unterminated data fills the buffer up to its
    last byte but one. -/
theorem C07_sep_buffered_overrun_raises (sep : Bytes) (cap : Nat) (ke : Bool) (b : Bytes)
    (hnone : firstOcc sep b = none) (hsl : sep.length ≤ b.length) (hlen : cap ≤ b.length + 1) :
    ∃ r, BRU.spec sep cap ke b = .fail r := by
  unfold BRU.spec
  rw [hnone]
  have : b.length + 2 > cap ∧ sep.length ≤ b.length := ⟨by omega, hsl⟩
  simp only [this, and_self, if_true]
  exact ⟨_, rfl⟩

/-- **C07, buffered path: no false rejection** — frames with `|payload| + |sep| < cap` are delivered under every
    fill history (this is `C01_sep_buffered_roundtrip`; restated here for one frame followed by anything). -/
theorem C07_sep_buffered_no_false_reject (sep : Bytes) (cap : Nat) (ke : Bool) (hsep : sep ≠ []) (p rest : Bytes)
    (hfirst : firstOcc sep (p ++ sep) = some p.length) :
    BRU.spec sep cap ke (p ++ sep ++ rest) = .done (if ke then p ++ sep else p) rest :=
  BRU.spec_frame sep cap ke hsep p rest hfirst

-- ==== BEGIN generic framers ====
section GenericFramers
open GenericFr

theorem GenericFr.refDrain_held_le (load : Bytes → LoadRes) (limit : Nat) (fuel : Nat) (b : Bytes)
    (hb : b.length ≤ limit) : (refDrain (spec load limit) fuel b).1.length ≤ limit := by
  induction fuel generalizing b with
  | zero => exact hb
  | succ fuel ih =>
    unfold refDrain
    by_cases he : b.isEmpty
    · simp [he]
    · simp only [he, Bool.false_eq_true, if_false]
      cases hs : spec load limit b with
      | need => exact hb
      | done d r =>
        rw [spec_eq_specU load limit b hb] at hs
        have := specU_rest_le load b d r hs
        exact ih r (by omega)
      | fail r =>
        unfold spec at hs
        have : ¬ b.length > limit := by omega
        simp only [this, if_false] at hs
        unfold specU at hs
        cases hl : load b <;> rw [hl] at hs <;> cases hs

theorem GenericFr.refRecv_held_le (load : Bytes → LoadRes) (limit : Nat) (h c : Bytes) :
    (refRecv (spec load limit) h c).1.length ≤ limit := by
  unfold refRecv
  by_cases he : (h ++ c).isEmpty
  · simp [he]
  · simp only [he, Bool.false_eq_true, if_false]
    by_cases hl : (h ++ c).length > limit
    · have : spec load limit (h ++ c) = .fail [] := by unfold spec; rw [if_pos hl]
      rw [this]
      exact GenericFr.refDrain_held_le load limit _ [] (by simp)
    · have hle : (h ++ c).length ≤ limit := by omega
      cases hs : spec load limit (h ++ c) with
      | need => exact hle
      | done d r =>
        have hs' := hs
        rw [spec_eq_specU load limit _ hle] at hs'
        have := specU_rest_le load _ d r hs'
        exact GenericFr.refDrain_held_le load limit _ r (by omega)
      | fail r =>
        unfold spec at hs
        simp only [hl, if_false] at hs
        unfold specU at hs
        cases hl2 : load (h ++ c) <;> rw [hl2] at hs <;> cases hs

theorem GenericFr.refRun_held_le (load : Bytes → LoadRes) (limit : Nat) (cs : List Bytes) (h : Bytes)
    (hh : h.length ≤ limit) : (refRun (spec load limit) h cs).1.length ≤ limit := by
  induction cs generalizing h with
  | nil => exact hh
  | cons c cs ih =>
    simp only [refRun]
    exact ih _ (GenericFr.refRecv_held_le load limit h c)

/-- **C07, file-based framers: bound** — for EVERY loader (no law needed), every peer and every chunking:
    (1) looking at more than `limit` accumulated bytes raises the size error, at that very read, and drops them all;
    (2) between reads the copying consumer retains at most `limit` bytes — hence at most `limit` + the read in progress
        while a read is processed;
    (3) the buffered path allocates `min(sizehint, limit) ≤ limit` bytes, never more. -/
theorem C07_generic_bound (load : Bytes → LoadRes) (limit : Nat) :
    (∀ b : Bytes, b.length > limit → spec load limit b = .fail []) ∧
    (∀ s c, GenericFr.Inv s c → ∀ chunk : Bytes, (c ++ chunk).length > limit → feed load limit s chunk = .fail []) ∧
    (∀ chunks : List Bytes,
      (Consumer.held (·.buf) (Consumer.run GenericFr.init (feed load limit) Consumer.new chunks).1).length ≤ limit) ∧
    (∀ hint, bufCap limit hint ≤ limit ∧ bufCap limit hint ≤ hint) := by
  refine ⟨?_, ?_, ?_, ?_⟩
  · intro b hb; unfold spec; rw [if_pos hb]
  · intro s c hinv chunk hlen
    unfold feed gfeed
    rw [appended_inv s c chunk hinv]
    unfold attempt checkLimit
    rw [if_pos hlen]
    simp only [GRes.toRes, limitRemainder_all]
  · intro chunks
    have R := feed_refines load limit
    have hsim := Consumer.run_ref R chunks Consumer.new [] (Or.inl ⟨rfl, rfl⟩)
    have hle := GenericFr.refRun_held_le load limit chunks [] (by simp)
    have heq : Consumer.held (·.buf) (Consumer.run GenericFr.init (feed load limit) Consumer.new chunks).1
        = (refRun (spec load limit) [] chunks).1 := by
      rcases hsim.2 with ⟨hfr, hbuf⟩ | ⟨s, hfr, hbuf, hinv, _⟩
      · simp [Consumer.held, hfr, hbuf]
      · simp only [Consumer.held, hfr]
        exact hinv.1
    rw [heq]; exact hle
  · intro hint; unfold bufCap; omega

/-- **C07, file-based framers: no false rejection.**  Frames with `|frame| + largest read ≤ limit + 1` — in particular
    those of the table row "file-based / generic: `|frame| + largest read ≤ limit`" — are never rejected for their size,
    whatever the chunking, on both receive paths.  The bound is exact: with `|frame| + read = limit + 2` a read arriving
    when all but the last byte of the frame is held accumulates `limit + 1` bytes. -/
theorem C07_generic_no_false_reject (load : Bytes → LoadRes) (S : Stable load) (P : Progress load)
    (limit m hint : Nat) (hlimit : 0 < limit) (hhint : 0 < hint)
    (fs : List Bytes) (hfs : ∀ f ∈ fs, IsFrame load f) :
    (∀ chunks : List Bytes, (∀ f ∈ fs, f.length + m ≤ limit + 1) → (∀ c ∈ chunks, c.length ≤ m) → chunks.flatten = fs.flatten →
      NoLimit (Consumer.run GenericFr.init (feed load limit) Consumer.new chunks).2) ∧
    (∀ (fills : List Bytes) (r : BufConsumer GenericFr.State × List Item),
      (∀ f ∈ fs, f.length + bufCap limit hint ≤ limit + 1) → fills.flatten = fs.flatten →
      BufConsumer.runFills GenericFr.init 0 (bufCap limit hint) (bfeed load limit) BufConsumer.new fills = some r →
      NoLimit r.2) := by
  have hno : NoLimit (fs.map (frameItem load)) := by
    intro it hit
    simp only [List.mem_map, frameItem] at hit
    rcases hit with ⟨f, _, rfl⟩
    intro hc; cases hc
  constructor
  · intro chunks hsafe hm hcut
    rw [(GenericFr.copy_run_frames load S P limit m fs hfs hsafe chunks hm hcut).1]
    exact hno
  · intro fills r hsafe hcut hrun
    rw [(GenericFr.buffered_run_frames load S P limit hint hlimit hhint fs hfs hsafe fills hcut r hrun).1]
    exact hno

/-- **The table row is tight, and acceptance just outside depends on the chunking** (toy loader, limit 8): a complete
    frame of 8 bytes ≤ limit followed by a 2-byte frame.  Read frame by frame, both are delivered; when the first read
    also carries the first byte of the next frame (9 bytes accumulated > 8) the complete frame IS rejected — the check is
    on everything accumulated — and everything received so far is dropped (third line: the same on the buffered path, where
    one fill cannot exceed the 8-byte buffer but held bytes + a fill can). -/
example : IsFrameD toyLoad [7, 1, 2, 3, 4, 5, 6, 7] ∧ IsFrameD toyLoad [1, 9] ∧
    (Consumer.run GenericFr.init (feed toyLoad 8) Consumer.new [[7, 1, 2, 3, 4, 5, 6, 7], [1, 9]]).2
      = [.frame (okTag :: [7, 1, 2, 3, 4, 5, 6, 7]), .frame (okTag :: [1, 9])] ∧
    (Consumer.run GenericFr.init (feed toyLoad 8) Consumer.new [[7, 1, 2, 3, 4, 5, 6, 7, 1], [9]]).2 = [.limit] ∧
    (BufConsumer.runFills GenericFr.init 0 (bufCap 8 16) (bfeed toyLoad 8) BufConsumer.new
        [[7, 1, 2, 3], [4, 5, 6, 7, 1], [9]]).map (·.2) = some [.limit] := by
  decide +kernel

end GenericFramers
-- ==== END generic framers ====

end EasyNet

-- ==== BEGIN raw JSON framer ====
namespace EasyNet

/-- **C07, raw JSON framer: bound.**  After every read — for every byte stream and every chunking, complete documents or
    not — the copying consumer retains at most `limit` bytes (so at most `limit` + one read while a read is being
    processed); and the error is raised at the first read boundary at which the accumulated bytes of an incomplete document
    (leading whitespace included) exceed `limit`: the generator then ends with `LimitOverrunError` and an empty remainder. -/
theorem C07_jraw_bound (limit : Nat) :
    (∀ chunks : List Bytes,
      (Consumer.held (·.doc) (Consumer.run JRaw.init (JRaw.feed limit) Consumer.new chunks).1).length ≤ limit) ∧
    (∀ (s : JRaw.State) (b c : Bytes) (st : JRaw.SSt), JRaw.Inv limit s b →
      JRaw.sscan .lead 0 (b ++ c) = .opened st → limit < (b ++ c).length → JRaw.feed limit s c = .fail []) := by
  refine ⟨JRaw.run_held_le limit, ?_⟩
  intro s b c st hinv hopen hlen
  have h := (JRaw.feed_spec limit s b c hinv).1
  unfold JRaw.spec at h
  rw [hopen] at h
  simp only [hlen, if_true] at h
  cases hf : JRaw.feed limit s c with
  | need s' => rw [hf] at h; cases h
  | done d r => rw [hf] at h; cases h
  | fail r => rw [hf] at h; simp only [Res.erase] at h; injection h with h; rw [h]

/-- non-vacuity of the second part: a string that never closes, limit 4, five bytes received -/
example : JRaw.Inv 4 JRaw.init [] ∧ JRaw.sscan .lead 0 ([] ++ [34, 97, 97, 97, 97]) = .opened (.encl 34 true 0 0 false) := by
  exact ⟨JRaw.inv_init 4, by decide +kernel⟩

/-- **C07, raw JSON framer: no false rejection, exact threshold.**  A stream of well-delimited documents each at most
    `limit` bytes long (plain values: the value without its terminator) followed by an incomplete tail within the limit never
    yields a size error, under any chunking; and a document that the scanner closes on its last byte is rejected, wherever
    it ends up in a buffer, as soon as it is longer than `limit` (`|document| ≤ limit` is exact). -/
theorem C07_jraw_no_false_reject (limit : Nat) :
    (∀ (docs : List JRaw.Doc) (tail : Bytes) (chunks : List Bytes), (∀ d ∈ docs, d.ok limit) →
      (JRaw.TailOk limit tail ∨ tail = []) → chunks.flatten = (docs.map JRaw.Doc.bytes).flatten ++ tail →
      NoLimit (Consumer.run JRaw.init (JRaw.feed limit) Consumer.new chunks).2) ∧
    (∀ (f x : Bytes), JRaw.sscan .lead 0 f = .closed f.length → limit < f.length →
      ∃ r, JRaw.spec limit (f ++ x) = .fail r) := by
  constructor
  · intro docs tail chunks hok htail hcut
    have ht : JRaw.IsTail limit tail := by
      rcases htail with h | h
      · exact h.isTail
      · subst h; exact JRaw.isTail_nil limit
    rw [(JRaw.run_docs limit docs hok tail ht chunks hcut).1]
    intro it hit
    simp only [List.mem_map] at hit
    obtain ⟨d, _, rfl⟩ := hit
    simp
  · intro f x hscan hlen
    have happ := JRaw.sscan_append f x .lead 0
    rw [hscan] at happ
    simp only at happ
    unfold JRaw.spec
    rw [happ]
    exact (JRaw.splitS_fail_iff _ _ _).mpr hlen

/-- non-vacuity: a 6-byte array at limit 6 is accepted, at limit 5 it is a document the second part rejects -/
example : (JRaw.Doc.encl [91, 49, 44, 32, 50, 93]).ok 6 ∧ JRaw.sscan .lead 0 [91, 49, 44, 32, 50, 93] = .closed 6 := by
  decide +kernel

end EasyNet
-- ==== END raw JSON framer ====
