/-
  C16 — Datagram server: per-client FIFO, one active handler, nothing dropped.
  Property theorems only (lemmas: EasyNet/Lemmas/DgramSrv.lean; model: EasyNet/Model/DgramSrv.lean, tied to
  easynetwork/lowlevel/api_async/servers/datagram.py by the trace-replay correspondence check).

  Everything is stated for an arbitrary number of client addresses and an arbitrary list `ls` of
  (address, label) pairs = an arbitrary interleaving of datagram arrivals from all addresses with the atomic
  steps of every task (handler first step, lock acquisition, client coroutine start / wake-up / timeout) and
  with an arbitrary behaviour of every request handler generator (yield with or without timeout, finish after
  any number of requests, finish before the first yield).  `srun Sys.init ls = some s`: the model accepts it.
-/
import EasyNet.Lemmas.DgramSrv
namespace EasyNet
open EasyNet.DgramSrv

/-- **Exactly once, in arrival order, nothing dropped.**  For every address, what the generators have
    consumed so far, followed by the datagram the client coroutine holds, the queue, and the datagrams whose
    handler task has not started yet, is exactly the arrival sequence.  In particular the consumed sequence is
    a prefix of the arrival sequence (order, no duplicate, no gap) and nothing that arrived is ever lost. -/
theorem C16_fifo_once {α} (ls : List (Nat × Label α)) (s : Sys α) (h : srun Sys.init ls = some s) (a : Nat) :
    (s a).consumed ++ held (s a).r ++ (s a).queue ++ (s a).inflight = (s a).arrived ∧
    (s a).consumed <+: (s a).arrived := by
  have I := sys_inv_run ls sys_inv_init h a
  refine ⟨I.fifo, ⟨held (s a).r ++ (s a).queue ++ (s a).inflight, ?_⟩⟩
  simpa [List.append_assoc] using I.fifo

/-- **At most one generator is alive per address**, and one is alive exactly when the client coroutine is
    past `mark_running()` (state TASK_RUNNING). -/
theorem C16_single_runner {α} (ls : List (Nat × Label α)) (s : Sys α) (h : srun Sys.init ls = some s) (a : Nat) :
    (s a).active ≤ 1 ∧ ((s a).active = 1 ↔ (s a).state = .running) := by
  have I := (sys_inv_run ls sys_inv_init h a).coh
  unfold Coherent at I
  cases hr : (s a).r <;> simp [hr] at I <;> simp [I]

/-- **A queued datagram always has a consumer.**  Whenever the queue of an address is non-empty, its state
    is not `None`, and the consumer can move: a pending coroutine can start, a running generator is the one
    to move (its next yield takes the datagram at once), and a coroutine waiting on the condition is either
    already notified or a handler task is still on its way to `notify()` — no lost wake-up. -/
theorem C16_not_stuck {α} (ls : List (Nat × Label α)) (s : Sys α) (h : srun Sys.init ls = some s) (a : Nat)
    (hq : (s a).queue ≠ []) :
    (s a).state ≠ .idle ∧
    (match (s a).r with
     | .none => False
     | .scheduled => (step (s a) .rs).isSome
     | .first _ => (step (s a) (.gy false)).isSome
     | .handling => ∃ c', step (s a) (.gy false) = some c' ∧ c'.consumed.length = (s a).consumed.length + 1
     | .waiting _ n => (n = true ∧ ∃ c', step (s a) .wk = some c' ∧ c'.consumed.length = (s a).consumed.length + 1)
                        ∨ (step (s a) .hl).isSome) := by
  have I := (sys_inv_run ls sys_inv_init h a).coh
  unfold Coherent at I
  cases hr : (s a).r with
  | none => simp [hr] at I; exact absurd I.2.2 hq
  | scheduled => simp [hr] at I; simp [I, step, hr]
  | first d => simp [hr] at I; simp [I, step, hr]
  | handling =>
    simp [hr] at I
    cases hqq : (s a).queue with
    | nil => exact absurd hqq hq
    | cons d q => simp [I, step, hr, hqq, deliver]
  | waiting t n =>
    simp [hr] at I
    refine ⟨by simp [I], ?_⟩
    cases n with
    | true =>
      left
      cases hqq : (s a).queue with
      | nil => exact absurd hqq hq
      | cons d q => simp [step, hr, hqq, deliver]
    | false =>
      right
      have := I.2.2 rfl hq
      have hp : (s a).pushing ≠ 0 := by omega
      simp only [step, hp, if_false]
      split <;> simp

/-- **The inconsistent-state branches are unreachable**: `mark_pending`, `mark_running`, `mark_done` always
    find the state they expect, and `pop_datagram_no_wait()` never finds the queue empty. -/
theorem C16_no_inconsistent_state {α} (ls : List (Nat × Label α)) (s : Sys α) (h : srun Sys.init ls = some s)
    (a : Nat) : (s a).bad = false :=
  (sys_inv_run ls sys_inv_init h a).good

/-- **Isolation**: a step of address `a` — however slow its handler is — leaves the state of every other
    address untouched (one `_ClientData`, one queue, one condition per address). -/
theorem C16_isolation {α} (s s' : Sys α) (a b : Nat) (l : Label α) (h : sstep s a l = some s') (hb : b ≠ a) :
    s' b = s b := by
  unfold sstep at h
  cases hst : step (s a) l with
  | none => rw [hst] at h; cases h
  | some c =>
    rw [hst] at h
    simp only [Option.map_some, Option.some.injEq] at h
    subst h
    simp [hb]

/-- **Isolation over whole histories (projection).**  The state of address `b` after *any* accepted interleaving is
    the state a server talking to `b` alone reaches on `b`'s own labels, in their own order: what the other clients
    send, how slow their handlers are and where their steps fall between `b`'s steps cannot be observed at `b`.
    With `C16_fifo_once` this gives per-client FIFO for every arrival order of the *other* clients. -/
theorem C16_projection {α} (ls : List (Nat × Label α)) (s₀ s : Sys α) (h : srun s₀ ls = some s) (b : Nat) :
    run (s₀ b) ((ls.filter (fun p => p.1 = b)).map (·.2)) = some (s b) := by
  induction ls generalizing s₀ with
  | nil =>
    simp only [srun, Option.some.injEq] at h
    subst h
    simp [run]
  | cons p ls ih =>
    obtain ⟨a, l⟩ := p
    simp only [srun] at h
    cases hs : sstep s₀ a l with
    | none => rw [hs] at h; cases h
    | some s₁ =>
      rw [hs] at h
      have ih' := ih s₁ h
      by_cases hab : a = b
      · subst hab
        have hst : step (s₀ a) l = some (s₁ a) := by
          unfold sstep at hs
          cases hst : step (s₀ a) l with
          | none => rw [hst] at hs; cases hs
          | some c =>
            rw [hst] at hs
            simp only [Option.map_some, Option.some.injEq] at hs
            subst hs
            simp
        simp only [List.filter_cons, decide_true, if_true, List.map_cons, run, hst]
        exact ih'
      · have hba : b ≠ a := fun e => hab e.symm
        have := C16_isolation s₀ s₁ a b l hs hba
        rw [this] at ih'
        simp only [List.filter_cons, hab, decide_false, Bool.false_eq_true, if_false]
        exact ih'

/-- **Everything that arrived can still be handled** (no deadlock, nothing stranded): from every reachable state
    of an address there is a continuation — using only steps of the server's own tasks and of a generator that
    keeps yielding, no further arrival — after which every datagram received so far has been consumed, in order,
    and nothing is queued or in flight. -/
theorem C16_can_drain {α} (ls : List (Nat × Label α)) (s : Sys α) (h : srun Sys.init ls = some s) (a : Nat) :
    ∃ more c', (∀ l ∈ more, ∀ d, l ≠ Label.arrive d) ∧ run (s a) more = some c' ∧
      c'.consumed = (s a).arrived ∧ c'.queue = [] ∧ c'.inflight = [] := by
  obtain ⟨more, c', h1, h2, h3, h4, h5, h6⟩ := can_drain (work (s a)) (s a) (sys_inv_run ls sys_inv_init h a) (Nat.le_refl _)
  exact ⟨more, c', h1, h2, by rw [h3, h4], h5, h6⟩

/-- non-vacuity: two addresses; address 0 gets three datagrams while its generator is busy, the generator
    finishes after one request, the task-done hook restarts a coroutine, which discards one datagram (ends
    before its first yield) and is restarted again; address 1 is served in between.  The schedule is accepted;
    at the end address 0 has consumed 1,2,3 in order with nothing left and no generator alive. -/
example :
    ((srun (Sys.init : Sys Nat)
        [(0, .arrive 1), (0, .h), (0, .arrive 2), (0, .arrive 3), (0, .h), (1, .arrive 7), (0, .gy false), (0, .h),
         (1, .h), (0, .hl), (0, .ge), (1, .gy true), (0, .hl), (0, .rs), (0, .ge), (1, .gy true), (0, .rs),
         (0, .gy false), (1, .to), (0, .gy false)]).map
      fun s => ((s 0).consumed, (s 0).queue, (s 0).active, (s 0).bad, (s 1).consumed, (s 1).active))
      = some ([1, 2, 3], [], 1, false, [7], 1) := by
  decide +kernel

/-- non-vacuity of the projection: address 1's own labels of the schedule below, run alone, give its final state -/
example : ((run (Client.init : Client Nat) [.arrive 7, .h, .gy true, .gy true, .to]).map
    fun c => (c.consumed, c.active, c.bad)) = some ([7], 1, false) := by
  decide +kernel

end EasyNet
