/-
  C14 — Closing releases the underlying resource at every cancellation point.
  Property theorems only (the analysis and its soundness proof live in EasyNet/Lemmas/ClosePaths.lean).

  Each close path is a program of Model/ClosePaths.lean (tied to the Python source by the correspondence check).
  "For every injection" = for every decision list `ds`, of any length: at each suspension the awaited operation may
  complete, fail with OSError, be cancelled from outside, or be hit by the enclosing scope's deadline; the SSL retry
  loop may run any number of iterations and may end with an SSL error.  The wrapped transport is a parameter
  (`steps` suspensions inside its own aclose, which may end with an error) with the contract
  "aclose() marks closing before its first suspension" — `Tgt.inner i` is that mark.
-/
import EasyNet.Lemmas.ClosePaths
import EasyNet.Lemmas.Listener
namespace EasyNet
open EasyNet.C14

/-- **Soundness of the close-path analysis** (the engine of the theorems below): for every program, every environment
    of enclosing scopes, every decision list and start state — a flag that is set stays set, and whenever the
    analysis says "set on this kind of outcome" the flag is set when the program ends with that outcome. -/
theorem C14_analysis_sound (p : Prog) (env : Env) (ds : List Dec) (st : St) (t : Tgt)
    (h : st.has t = true ∨ guar t p (exec p env ds st).out = true) : (exec p env ds st).st.has t = true :=
  sound p env ds st t h

theorem C14_innerClose_all (i s : Nat) (e : Bool) : CAll (.inner i) (innerClose i s e) = true := by
  simp [CAll, innerClose, CN, CRc, CRe]

/-- **Both halves of a stapled transport are closed** whatever happens while closing either of them: the first close
    failing, being cancelled at any of its suspensions, the forceful close of the second being cancelled too, … -/
theorem C14_stapled_both (s0 : Nat) (e0 : Bool) (s1 : Nat) (e1 : Bool) (ds : List Dec) :
    (run (stapledProg s0 e0 s1 e1) ds).st.has (.inner 0) = true ∧
    (run (stapledProg s0 e0 s1 e1) ds).st.has (.inner 1) = true := by
  constructor
  · apply closes_always
    simp [CAll, stapledProg, innerClose, CN, CRc, CRe]
  · apply closes_always
    simp [CAll, stapledProg, innerClose, CN, CRc, CRe]

/-- non-vacuity: closing the send half fails after one suspension, the forceful close of the receive half is itself
    cancelled from outside: both are closed and the cancellation propagates -/
example : (run (stapledProg 1 true 1 false) [.ok, .cancel]).out = .raised .cancel ∧
    (run (stapledProg 1 true 1 false) [.ok, .cancel]).st.has (.inner 1) = true := by decide +kernel

/-- **AsyncStreamEndpoint.aclose** closes its transport on every schedule. -/
theorem C14_endpoint_closes (s : Nat) (e : Bool) (ds : List Dec) :
    (run (endpointProg s e) ds).st.has (.inner 0) = true := by
  apply closes_always
  simp [CAll, endpointProg, innerClose, CN, CRc, CRe]

example : (run (endpointProg 2 false) [.ok, .cancel]).out = .raised .cancel := by decide +kernel

/-- **A second `AsyncStreamEndpoint.aclose()` returns promptly and touches nothing**: after a first close that ended in any
    way (returned, failed, cancelled at any suspension) the second one finds the transport closed, goes through at most
    one suspension point (the checkpoint of the already-closed transport's `aclose()`; it consumes at most one scheduling
    decision) and leaves every flag as it was. -/
theorem C14_endpoint_second_close_prompt (s : Nat) (e : Bool) (ds ds2 : List Dec) (env : Env) :
    (exec (endpointProg s e) env ds2 (run (endpointProg s e) ds).st).st = (run (endpointProg s e) ds).st ∧
    ds2.length ≤ (exec (endpointProg s e) env ds2 (run (endpointProg s e) ds).st).ds.length + 1 := by
  have hc := C14_endpoint_closes s e ds
  generalize (run (endpointProg s e) ds).st = st1 at hc ⊢
  have hs : ∀ (b : Bool), (suspend b env ds2 st1).st = st1 ∧ ds2.length ≤ (suspend b env ds2 st1).ds.length + 1 := by
    intro b
    unfold suspend
    repeat' split
    all_goals simp
  simpa [endpointProg, innerClose, exec, hc] using hs true

example : (exec (endpointProg 2 false) {} [.cancel, .ok] (run (endpointProg 2 false) [.ok, .cancel]).st).ds = [.ok] := by
  decide +kernel

/-- **TLS aclose** (first close, `standard_compatible` or not): the wrapped transport is closed and the closed event is
    set whether the close-notify exchange completes, fails, runs into the shutdown timeout or is cancelled at any
    suspension — of the exchange, of the forceful close, or of the final `transport.aclose()`. -/
theorem C14_tls_closes (sc : Bool) (s : Nat) (e : Bool) (ds : List Dec) :
    (run (tlsCloseProg sc s e) ds).st.has (.inner 0) = true ∧
    (run (tlsCloseProg sc s e) ds).st.has .closing = true ∧
    (run (tlsCloseProg sc s e) ds).st.has .event = true := by
  have h0 : run (tlsCloseProg sc s e) ds = exec (tlsFirstProg sc s e) {} ds {} := by
    simp [run, tlsCloseProg, exec, St.has]
  rw [h0]
  refine ⟨?_, ?_, ?_⟩ <;> apply closes_always <;> cases sc <;>
    simp [CAll, tlsFirstProg, innerClose, CN, CRc, CRe]

/-- non-vacuity: the peer never answers; the shutdown timeout fires while waiting for its close_notify (second
    suspension of the exchange); the transport is force-closed and `aclose()` returns normally -/
example : (run (tlsCloseProg true 1 false) [.ok, .timeout, .ok]).out = .ok ∧
    (run (tlsCloseProg true 1 false) [.ok, .timeout, .ok]).st.has (.inner 0) = true := by decide +kernel

/-- **A second TLS close returns promptly**: after a first close that ended in any way, `aclose()` completes normally
    without a single suspension (it consumes no decision) and changes nothing. -/
theorem C14_second_close_prompt (sc : Bool) (s : Nat) (e : Bool) (ds ds2 : List Dec) (env : Env) :
    (exec (tlsCloseProg sc s e) env ds2 (run (tlsCloseProg sc s e) ds).st).out = .ok ∧
    (exec (tlsCloseProg sc s e) env ds2 (run (tlsCloseProg sc s e) ds).st).ds = ds2 ∧
    (exec (tlsCloseProg sc s e) env ds2 (run (tlsCloseProg sc s e) ds).st).st = (run (tlsCloseProg sc s e) ds).st := by
  obtain ⟨_, hc, he⟩ := C14_tls_closes sc s e ds
  generalize (run (tlsCloseProg sc s e) ds).st = st1 at hc he ⊢
  simp [tlsCloseProg, exec, hc, he]

example : (run (tlsCloseProg true 0 false) [.cancel]).out = .raised .cancel := by decide +kernel

/-- **A failed or cancelled TLS handshake closes the wrapped transport**: if `wrap()` does not return normally —
    handshake error from the SSL object, OSError from the transport, handshake timeout, cancellation at any
    suspension, including during the forceful close — the transport is closed and marked closing. -/
theorem C14_wrap_failure_closes (s : Nat) (e : Bool) (ds : List Dec)
    (hfail : (run (tlsWrapProg s e) ds).out ≠ .ok) :
    (run (tlsWrapProg s e) ds).st.has (.inner 0) = true ∧ (run (tlsWrapProg s e) ds).st.has .closing = true := by
  constructor
  all_goals
    apply sound (tlsWrapProg s e) {} ds {}
    right
    cases ho : (exec (tlsWrapProg s e) {} ds {}).out with
    | ok => exact absurd ho hfail
    | raised x =>
      simp only [guar]
      by_cases hc : isCancel x <;> simp [hc, tlsWrapProg, innerClose, CN, CRc, CRe]

/-- non-vacuity: the SSL object rejects the peer's answer after two suspensions (`fail`) -/
example : (run (tlsWrapProg 1 false) [.ok, .ok, .fail, .ok]).out = .raised .err := by decide +kernel

/-- **AsyncTCPNetworkClient.aclose, as found — partial.**  Proved only for `busy = false` (no other task holds the send
    lock).  What is missing: with `busy = true` the statement is FALSE for the code as found — a cancellation while
    `async with self.__send_lock` is parked leaves the transport open (`tcpClientProg false true`, decisions
    `[cancel]`; reproduced on the real code, finding F7, docs/C14-fix-1.patch).  `C14_tcpclient_fixed_closes` below
    is the full statement for the patched code. -/
theorem C14_tcpclient_closes_partial (s : Nat) (e : Bool) (ds : List Dec) :
    (run (tcpClientProg false false s e) ds).st.has (.inner 0) = true := by
  apply closes_always
  simp [CAll, tcpClientProg, endpointProg, innerClose, CN, CRc, CRe]

/-- the counter-example that makes the statement above partial (model of the code as found) -/
example : (run (tcpClientProg false true 0 false) [.cancel]).st.has (.inner 0) = false := by decide +kernel

/-- **AsyncTCPNetworkClient.aclose with docs/C14-fix-1.patch**: closed on every schedule, busy or not. -/
theorem C14_tcpclient_fixed_closes (busy : Bool) (s : Nat) (e : Bool) (ds : List Dec) :
    (run (tcpClientProg true busy s e) ds).st.has (.inner 0) = true := by
  apply closes_always
  cases busy <;> simp [CAll, tcpClientProg, endpointProg, innerClose, CN, CRc, CRe]

example : (run (tcpClientProg true true 0 false) [.cancel]).st.has (.inner 0) = true := by decide +kernel

/-- **C14, the TCP listener of the asyncio backend** (`ListenerSocketAdapter.aclose()`; `AsyncStreamServer.aclose()` and
    `AsyncTLSListener.aclose()` delegate to it).  For EVERY history of accept calls, accept results (a connection, capacity
    errors with their back-off, ignorable errors, other errors), external cancellations of the accepting task, close calls and
    cancellations of a close at its only await:
    * once a close has started and its task is over — it returned, or it was cancelled at its await — the listening socket is
      closed (and while the close is still parked at its await the listener already reports `is_closing()`);
    * cancelling the parked close is a step that is always possible and it closes the socket (`aclose_forcefully`);
    * a second close returns at once without touching anything;
    * an accept in progress when the close starts cannot hang: the step that ends it with EBADF is enabled. -/
theorem C14_listener_close_releases (es : List Lsn.Ev) :
    ((Lsn.run Lsn.St.init es).sockRef = false → (Lsn.run Lsn.St.init es).cpc = .idle → (Lsn.run Lsn.St.init es).osOpen = false) ∧
    ((Lsn.run Lsn.St.init es).cpc = .yielded →
      (Lsn.run Lsn.St.init es).sockRef = false ∧
      Lsn.step (Lsn.run Lsn.St.init es) .closeCancel =
        some ({ (Lsn.run Lsn.St.init es) with osOpen := false, cpc := .idle }, some .closeCancelled) ∧
      Lsn.step (Lsn.run Lsn.St.init es) .closeResume =
        some ({ (Lsn.run Lsn.St.init es) with osOpen := false, cpc := .idle }, some .closeReturned)) ∧
    ((Lsn.run Lsn.St.init es).sockRef = false →
      Lsn.step (Lsn.run Lsn.St.init es) .closeCall = some (Lsn.run Lsn.St.init es, some .closeReturned)) ∧
    ((Lsn.run Lsn.St.init es).scopeCancelled = true →
      Lsn.step (Lsn.run Lsn.St.init es) .scopeDelivered = some ((Lsn.run Lsn.St.init es).leave, some .ebadf)) := by
  have h := Lsn.Inv.init.run es rfl
  generalize Lsn.run Lsn.St.init es = s at h
  obtain ⟨h1, h2, h3, h4, h5⟩ := h
  refine ⟨?_, ?_, ?_, ?_⟩
  · intro hr hc
    cases h4 hr with
    | inl hy => rw [hc] at hy; cases hy
    | inr ho => exact ho
  · intro hy
    exact ⟨h3 hy, by simp [Lsn.step, hy], by simp [Lsn.step, hy]⟩
  · intro hr; simp [Lsn.step, hr]
  · intro hc
    have hm := (h2 hc).1
    have : s.apc ≠ .idle := h1.mp hm
    simp [Lsn.step, hc, this]

/-- non-vacuity: serving, close requested while the accept is parked, the close cancelled at its yield: socket closed, the
    accept ends with EBADF, a second close returns at once -/
example : Lsn.trace Lsn.St.init [.acceptCall, .closeCall, .closeCancel, .scopeDelivered, .closeCall] =
    [none, none, some .closeCancelled, some .ebadf, some .closeReturned] ∧
    (Lsn.run Lsn.St.init [.acceptCall, .closeCall, .closeCancel]).osOpen = false := by decide +kernel

end EasyNet
