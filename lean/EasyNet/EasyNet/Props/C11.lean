/-
  C11 — A timeout is a budget for the whole blocking operation.
  Property theorems only (helper lemmas: EasyNet/Lemmas/{Time,TimeMachines,Client,RetryFacts}.lean).

  Model: EasyNet/Model/{Retry,Send,Timeout}.lean, tied to the Python source by the correspondence check.
  Time is in virtual ticks.  A `World` records where the clock went:
     waited     time spent in select() up to the requested wait        over   over-sleep of select() beyond the request
     lockw      time spent in lock.acquire(True, timeout)              proc   time the socket calls themselves took
     unbounded  time spent in select()/`with lock:` WITHOUT timeout
  and the exact accounting `elapsed = Δwaited + Δover + Δlockw + Δproc + Δunbounded` is part of every statement, so
  "returns or raises after at most T of waiting in total (plus bounded processing time)" reads
     Δwaited + Δlockw ≤ T      and      elapsed = Δwaited + Δlockw + Δover + Δproc ≤ T + Δover + Δproc.
  All theorems hold for every socket script (arrival schedule: drip-feed, bursts, spurious readiness, errors), every
  selector script (ready after d, expired, over-sleep), every retry interval, both socket flavours and — for the
  receive side — every stream consumer (`next` is a parameter).
-/
import EasyNet.Lemmas.Client
import EasyNet.Lemmas.RetryFacts
namespace EasyNet

/-- toy stream consumer used by the non-vacuity examples only (the theorems hold for EVERY consumer): the state is the
    buffered bytes, a packet is everything before the first byte 10 -/
def toyNext (buf chunk : Bytes) : Bytes × Option Item :=
  match (buf ++ chunk).span (· != 10) with
  | (a, _ :: rest) => (rest, some (.frame a))
  | (a, []) => (a, none)

/-- **C11, `_retry`.**  One `_retry(callback, T)`: the time spent in select() is at most `T`, nothing is spent in an
    unbounded wait, and the elapsed time is exactly waiting + over-sleep + processing. -/
theorem C11_retry_budget (cls : SockEv → Cls) (o : Obs) (ho : o.isSelect = false) (hl : o.isLockWait = false) (ri : Tmo)
    (sock : List SockCall) (tv : Nat) (w : World) :
    (retry cls o ri sock (some tv) w).w.waited ≤ w.waited + tv ∧
    (retry cls o ri sock (some tv) w).w.unbounded = w.unbounded ∧
    (retry cls o ri sock (some tv) w).w.now + (w.waited + w.over + w.proc) =
      w.now + ((retry cls o ri sock (some tv) w).w.waited + (retry cls o ri sock (some tv) w).w.over +
               (retry cls o ri sock (some tv) w).w.proc) := by
  have h := retry_good cls o ho hl ri (some tv) w.now sock (some tv) w (Good.init w tv)
  refine ⟨h.budget, h.unb, ?_⟩
  have := h.acct; have := h.unb; have := h.lockw
  simp only [World.acct] at *; omega

/-- non-vacuity: two retry-interval wake-ups, a spurious readiness, then the datagram -/
example : (dgramRecv (some 2) 64 (some 5) [⟨.eagain, 0⟩, ⟨.eintr, 1⟩, ⟨.eagain, 0⟩, ⟨.data [7], 0⟩]
    { sel := [.expired 0, .ready 1, .ready 0] }).out = .ok ∧
    (dgramRecv (some 2) 64 (some 5) [⟨.eagain, 0⟩, ⟨.eintr, 1⟩, ⟨.eagain, 0⟩, ⟨.data [7], 0⟩]
    { sel := [.expired 0, .ready 1, .ready 0] }).w.waited = 3 := by decide +kernel

/-- **C11, a zero timeout never blocks.**  With `timeout = 0`, `recv_packet`, `send_packet` (endpoint or client, with
    or without lock contention) and a bare `_retry` perform no select() and no blocking lock acquisition at all. -/
theorem C11_zero_never_waits {κ : Type} (fl : Flavour) (ri : Tmo) (room : κ → Nat) (next : κ → Bytes → κ × Option Item)
    (lk : Option LockEv) (cons : κ) (eof : Bool) (sock : List SockCall) (w : World)
    (tr : Transport) (fix : Bool) (iov : Int) (chunks : List Bytes)
    (cls : SockEv → Cls) (o : Obs) (ho : o.isSelect = false) (hl : o.isLockWait = false) :
    ((clientRecv fl ri room next lk cons eof (some 0) sock w).w.nsel = w.nsel ∧
     (clientRecv fl ri room next lk cons eof (some 0) sock w).w.nlockw = w.nlockw) ∧
    ((clientSend tr fix iov ri lk chunks (some 0) sock w).2.nsel = w.nsel ∧
     (clientSend tr fix iov ri lk chunks (some 0) sock w).2.nlockw = w.nlockw) ∧
    ((retry cls o ri sock (some 0) w).w.nsel = w.nsel) := by
  refine ⟨(clientRecv_fin fl ri room next lk cons eof 0 sock w).zero rfl,
          (clientSend_fin tr fix iov ri lk chunks 0 sock w).zero rfl, ?_⟩
  exact (retry_good cls o ho hl ri (some 0) w.now sock (some 0) w (Good.init w 0)).zero (by omega)

/-- non-vacuity: zero timeout, data not there: TimeoutError at once, clock untouched -/
example : (clientRecv .plain none (fun _ => 4) toyNext (some (.busy 3)) [] false
    (some 0) [⟨.data [1, 10], 0⟩] { sel := [] }).out = .timeout := by decide +kernel

/-- **C11, TimeoutError only if the operation really blocked for the whole budget.**  If `_retry` raises TimeoutError
    then the timeout was finite, at least `T` ticks have elapsed since the call, and the last attempt of the callback
    blocked (so whatever was available before the budget ran out has been returned instead). -/
theorem C11_timeout_only_if_blocked (cls : SockEv → Cls) (o : Obs) (ho : o.isSelect = false) (hl : o.isLockWait = false)
    (ri : Tmo) (sock : List SockCall) (t : Tmo) (w : World)
    (hto : (retry cls o ri sock t w).out = .timeout) :
    (∃ tv, t = some tv ∧ w.now + tv ≤ (retry cls o ri sock t w).w.now) ∧
    (∃ pre c blk, sock = pre ++ c :: (retry cls o ri sock t w).rest ∧ cls c.ev = .block blk) := by
  refine ⟨?_, retry_timeout_blocked cls o ri sock t w hto⟩
  cases t with
  | none => exact absurd hto (retry_none_no_timeout cls o ri sock w)
  | some tv =>
    refine ⟨tv, rfl, ?_⟩
    exact (retry_good cls o ho hl ri (some tv) w.now sock (some tv) w (Good.init w tv)).spent
      (by simp [hto, Outcome.isTimeout])

example : (dgramRecv none 64 (some 3) [⟨.eagain, 0⟩, ⟨.eintr, 0⟩] { sel := [.ready 1, .expired 0] }).out = .timeout := by
  decide +kernel

/-- **C11, `recv_packet`.**  `endpoint.recv_packet(timeout=T)` with finite `T`, for every arrival schedule and every
    consumer: time spent waiting ≤ `T`; elapsed = waiting + over-sleep + processing; TimeoutError only once `T` has
    elapsed.  Without timeout (`None`) TimeoutError is never raised. -/
theorem C11_receive_budget {κ : Type} (fl : Flavour) (ri : Tmo) (room : κ → Nat) (next : κ → Bytes → κ × Option Item)
    (cons : κ) (eof : Bool) (sock : List SockCall) (w : World) :
    (∀ tv,
      (receive fl ri room next cons eof (some tv) sock w).w.waited ≤ w.waited + tv ∧
      (receive fl ri room next cons eof (some tv) sock w).w.now + (w.waited + w.over + w.proc) =
        w.now + ((receive fl ri room next cons eof (some tv) sock w).w.waited +
                 (receive fl ri room next cons eof (some tv) sock w).w.over +
                 (receive fl ri room next cons eof (some tv) sock w).w.proc) ∧
      ((receive fl ri room next cons eof (some tv) sock w).out = .timeout →
        w.now + tv ≤ (receive fl ri room next cons eof (some tv) sock w).w.now)) ∧
    (receive fl ri room next cons eof none sock w).out ≠ .timeout := by
  refine ⟨fun tv => ?_, receive_none_no_timeout fl ri room next cons eof sock w⟩
  have h := clientRecv_fin fl ri room next none cons eof tv sock w
  simp only [clientRecv] at h
  have hl : (receive fl ri room next cons eof (some tv) sock w).w.lockw = w.lockw := by
    unfold receive
    cases hn : next cons [] with
    | mk cons' oit =>
      cases oit with
      | some it => rfl
      | none =>
        simp only []
        by_cases he : eof = true
        · simp [he]
        · simp only [he, Bool.false_eq_true, if_false]
          exact (recvLoop_good fl ri room next sock cons' (some tv) (some tv) w.now w (Good.init w tv)).lockw
  refine ⟨by have := h.budget; omega, ?_, fun ht => h.spent (by simp [ht, RecvOut.isTimeout])⟩
  have := h.acct; have := h.unb
  simp only [World.acct] at *; omega

/-- non-vacuity: a 3-byte line drip-fed one byte per wake-up, 2 ticks each; with budget 4 nothing is left for the
    third wake-up, with budget 5 it is still tried (and the packet is returned) -/
example : (receive .plain none (fun _ => 4) toyNext [] false (some 4)
    [⟨.eagain, 0⟩, ⟨.data [97], 0⟩, ⟨.eagain, 0⟩, ⟨.data [98], 0⟩, ⟨.eagain, 0⟩, ⟨.data [10], 0⟩]
    { sel := [.ready 2, .ready 2, .ready 2] }).out = .timeout ∧
    (receive .plain none (fun _ => 4) toyNext [] false (some 5)
    [⟨.eagain, 0⟩, ⟨.data [97], 0⟩, ⟨.eagain, 0⟩, ⟨.data [98], 0⟩, ⟨.eagain, 0⟩, ⟨.data [10], 0⟩]
    { sel := [.ready 2, .ready 1, .ready 1] }).out = .pkt (.frame [97, 98]) := by decide +kernel

/-- **C11, `send_packet`.**  Same budget statement for the send paths (send_all, sendmsg loop, TLS), with or without
    the C04 fix. -/
theorem C11_send_budget (tr : Transport) (fix : Bool) (iov : Int) (ri : Tmo) (chunks : List Bytes) (tv : Nat)
    (sock : List SockCall) (w : World) :
    (sendPacket tr fix iov ri chunks (some tv) sock w).2.waited ≤ w.waited + tv ∧
    (sendPacket tr fix iov ri chunks (some tv) sock w).2.now + (w.waited + w.over + w.proc) =
      w.now + ((sendPacket tr fix iov ri chunks (some tv) sock w).2.waited +
               (sendPacket tr fix iov ri chunks (some tv) sock w).2.over +
               (sendPacket tr fix iov ri chunks (some tv) sock w).2.proc) ∧
    ((sendPacket tr fix iov ri chunks (some tv) sock w).1 = .timeout →
      w.now + tv ≤ (sendPacket tr fix iov ri chunks (some tv) sock w).2.now) := by
  have h := sendPacket_fin tr fix iov ri chunks tv sock w
  have hg : (sendPacket tr fix iov ri chunks (some tv) sock w).2.lockw = w.lockw := by
    have hall : ∀ fl, (sendAll fl ri chunks.flatten (some tv) sock w).2.lockw = w.lockw := fun fl =>
      (sendAllLoop_good fl ri chunks.flatten sock ⟨0, some tv, some tv, w.now⟩ w (Good.init w tv)).lockw
    unfold sendPacket sendAllFromIterable
    cases tr with
    | sendmsg =>
      simp only []
      by_cases hiov : iov ≤ 0
      · simp only [hiov, if_true]; exact hall .plain
      · simp only [hiov, if_false]
        exact (sendmsgLoop_good fix ri iov.toNat (some tv) w.now sock chunks (some tv) w (Good.init w tv)).lockw
    | nosendmsg => exact hall .plain
    | tls => exact hall .tls
  refine ⟨by have := h.budget; omega, ?_, fun ht => h.spent (by simp [ht, Outcome.isTimeout])⟩
  have := h.acct; have := h.unb
  simp only [World.acct] at *; omega

example : (sendPacket .sendmsg true 1024 none [[1, 2, 3]] (some 2) [⟨.sent 1, 0⟩, ⟨.eagain, 0⟩, ⟨.sent 1, 0⟩, ⟨.eintr, 0⟩]
    { sel := [.ready 2] }).1 = .timeout := by decide +kernel

/-- **C11, the lock acquisition is part of the budget.**  `client.recv_packet(timeout=T)` / `client.send_packet(…, timeout=T)`
    of the TCP client, whatever the contention on the lock: lock waiting + select waiting ≤ `T`; elapsed = lock
    waiting + select waiting + over-sleep + processing; TimeoutError only once `T` has elapsed. -/
theorem C11_lock_included {κ : Type} (fl : Flavour) (ri : Tmo) (room : κ → Nat) (next : κ → Bytes → κ × Option Item)
    (ev : LockEv) (cons : κ) (eof : Bool) (tv : Nat) (sock : List SockCall) (w : World)
    (tr : Transport) (fix : Bool) (iov : Int) (chunks : List Bytes) :
    ((clientRecv fl ri room next (some ev) cons eof (some tv) sock w).w.waited +
       (clientRecv fl ri room next (some ev) cons eof (some tv) sock w).w.lockw ≤ w.waited + w.lockw + tv ∧
     (clientRecv fl ri room next (some ev) cons eof (some tv) sock w).w.now + (w.waited + w.lockw + w.over + w.proc) =
       w.now + ((clientRecv fl ri room next (some ev) cons eof (some tv) sock w).w.waited +
                (clientRecv fl ri room next (some ev) cons eof (some tv) sock w).w.lockw +
                (clientRecv fl ri room next (some ev) cons eof (some tv) sock w).w.over +
                (clientRecv fl ri room next (some ev) cons eof (some tv) sock w).w.proc) ∧
     ((clientRecv fl ri room next (some ev) cons eof (some tv) sock w).out = .timeout →
       w.now + tv ≤ (clientRecv fl ri room next (some ev) cons eof (some tv) sock w).w.now)) ∧
    ((clientSend tr fix iov ri (some ev) chunks (some tv) sock w).2.waited +
       (clientSend tr fix iov ri (some ev) chunks (some tv) sock w).2.lockw ≤ w.waited + w.lockw + tv ∧
     ((clientSend tr fix iov ri (some ev) chunks (some tv) sock w).1 = .timeout →
       w.now + tv ≤ (clientSend tr fix iov ri (some ev) chunks (some tv) sock w).2.now)) := by
  have h := clientRecv_fin fl ri room next (some ev) cons eof tv sock w
  have hs := clientSend_fin tr fix iov ri (some ev) chunks tv sock w
  refine ⟨⟨h.budget, ?_, fun ht => h.spent (by simp [ht, RecvOut.isTimeout])⟩,
          hs.budget, fun ht => hs.spent (by simp [ht, Outcome.isTimeout])⟩
  have := h.acct; have := h.unb
  simp only [World.acct] at *; omega

/-- non-vacuity: the lock is released after 3 of the 5 ticks; the remaining 2 are exactly enough for the select;
    if the data only comes after those 2 ticks the call times out -/
example : (clientRecv .plain none (fun _ => 4) toyNext (some (.busy 3)) [] false
    (some 5) [⟨.eagain, 0⟩, ⟨.data [97, 10], 0⟩] { sel := [.ready 2] }).out = .pkt (.frame [97]) ∧
    (clientRecv .plain none (fun _ => 4) toyNext (some (.busy 3)) [] false
    (some 5) [⟨.eagain, 0⟩, ⟨.data [97, 10], 0⟩] { sel := [.expired 0] }).out = .timeout := by decide +kernel

/-- **C11, the iterator carries the remaining budget across packets.**  A `for` loop over
    `client.iter_received_packets(timeout=T)` (any number of `next()` calls, any application time between them, any
    lock contention and arrival schedule per call): the time spent waiting in select() and on the lock, summed over
    ALL the calls, is at most `T`; nothing is spent in unbounded waits. -/
theorem C11_iter_budget {κ : Type} (fl : Flavour) (ri : Tmo) (room : κ → Nat) (next : κ → Bytes → κ × Option Item)
    (ns : List NextCall) (cons : κ) (eof : Bool) (tv : Nat) (w : World) :
    (iterRun fl ri room next ns cons eof (some tv) w).2.waited +
      (iterRun fl ri room next ns cons eof (some tv) w).2.lockw ≤ w.waited + w.lockw + tv ∧
    (iterRun fl ri room next ns cons eof (some tv) w).2.unbounded = w.unbounded :=
  iterRun_budget fl ri room next ns cons eof tv w

/-- non-vacuity: budget 6; the first packet costs 3 ticks, 5 ticks of application time pass (not deducted), the second
    costs 2, for the third only 1 tick is left and nothing arrives within it: the loop ends -/
example : (iterRun .plain none (fun _ => 4) toyNext
    [⟨0, .free, [⟨.eagain, 0⟩, ⟨.data [97, 10], 0⟩], [.ready 3]⟩,
     ⟨5, .free, [⟨.eagain, 0⟩, ⟨.data [98, 10], 0⟩], [.ready 2]⟩,
     ⟨0, .free, [⟨.eagain, 0⟩, ⟨.data [99, 10], 0⟩], [.expired 0]⟩]
    [] false (some 6) { sel := [] }).1 = [.pkt (.frame [97]), .pkt (.frame [98]), .timeout] := by
  decide +kernel

/-- **C11, the datagram client.**  `UDPNetworkClient.recv_packet(timeout=T)` / `send_packet(…, timeout=T)` whatever the
    contention on the client's lock (free, busy for `d` ticks, or no lock = the bare datagram transport), for every
    socket / selector script and retry interval: lock waiting + select waiting ≤ `T`, nothing is spent in an unbounded
    wait, the elapsed time is exactly lock waiting + select waiting + over-sleep + processing, `T = 0` performs no
    select() and no blocking lock acquisition, TimeoutError only once `T` has elapsed, and a call that could not get the
    lock within the budget never touches the socket. -/
theorem C11_udp_client_budget (ri : Tmo) (bufsize : Nat) (data : Bytes) (lk : Option LockEv) (tv : Nat)
    (sock : List SockCall) (w : World) :
    ((udpClientRecv ri bufsize lk (some tv) sock w).w.waited + (udpClientRecv ri bufsize lk (some tv) sock w).w.lockw
        ≤ w.waited + w.lockw + tv ∧
     (udpClientRecv ri bufsize lk (some tv) sock w).w.unbounded = w.unbounded ∧
     (udpClientRecv ri bufsize lk (some tv) sock w).w.now + (w.waited + w.lockw + w.over + w.proc) =
       w.now + ((udpClientRecv ri bufsize lk (some tv) sock w).w.waited + (udpClientRecv ri bufsize lk (some tv) sock w).w.lockw +
                (udpClientRecv ri bufsize lk (some tv) sock w).w.over + (udpClientRecv ri bufsize lk (some tv) sock w).w.proc) ∧
     (tv = 0 → (udpClientRecv ri bufsize lk (some tv) sock w).w.nsel = w.nsel ∧
               (udpClientRecv ri bufsize lk (some tv) sock w).w.nlockw = w.nlockw) ∧
     ((udpClientRecv ri bufsize lk (some tv) sock w).out = .timeout →
       w.now + tv ≤ (udpClientRecv ri bufsize lk (some tv) sock w).w.now)) ∧
    ((udpClientSend ri data lk (some tv) sock w).w.waited + (udpClientSend ri data lk (some tv) sock w).w.lockw
        ≤ w.waited + w.lockw + tv ∧
     (udpClientSend ri data lk (some tv) sock w).w.unbounded = w.unbounded ∧
     (tv = 0 → (udpClientSend ri data lk (some tv) sock w).w.nsel = w.nsel ∧
               (udpClientSend ri data lk (some tv) sock w).w.nlockw = w.nlockw) ∧
     ((udpClientSend ri data lk (some tv) sock w).out = .timeout →
       w.now + tv ≤ (udpClientSend ri data lk (some tv) sock w).w.now)) ∧
    (∀ ev t w', lockWithTimeout ev t w = .timeout w' →
      (udpClientRecv ri bufsize (some ev) t sock w).rest = sock ∧ (udpClientSend ri data (some ev) t sock w).rest = sock ∧
      (udpClientRecv ri bufsize (some ev) t sock w).out = .timeout ∧ (udpClientSend ri data (some ev) t sock w).out = .timeout) := by
  have h := udpClientRecv_fin ri bufsize lk tv sock w
  have hs := udpClientSend_fin ri data lk tv sock w
  refine ⟨⟨h.budget, h.unb, ?_, h.zero, fun ht => h.spent (by simp [ht, Outcome.isTimeout])⟩,
          ⟨hs.budget, hs.unb, hs.zero, fun ht => hs.spent (by simp [ht, Outcome.isTimeout])⟩, ?_⟩
  · have := h.acct; have := h.unb
    simp only [World.acct] at *; omega
  · intro ev t w' hl
    obtain ⟨a, b, _, c, d, _⟩ := udpClient_lock_timeout_no_io ri bufsize data ev t sock w w' hl
    exact ⟨b, d, a, c⟩

/-- non-vacuity: the receive lock is released after 3 of the 5 ticks, the remaining 2 are exactly enough for the datagram
    to arrive; with a lock held for 6 ticks the call times out after 5 without any socket call; with a zero budget and a busy
    lock nothing is waited for at all -/
example : (udpClientRecv none 64 (some (.busy 3)) (some 5) [⟨.eagain, 0⟩, ⟨.data [7], 0⟩] { sel := [.ready 2] }).out = .ok ∧
    (udpClientRecv none 64 (some (.busy 3)) (some 5) [⟨.eagain, 0⟩, ⟨.data [7], 0⟩] { sel := [.ready 2] }).w.now = 5 ∧
    (udpClientRecv none 64 (some (.busy 6)) (some 5) [⟨.data [7], 0⟩] { sel := [] }).out = .timeout ∧
    (udpClientRecv none 64 (some (.busy 6)) (some 5) [⟨.data [7], 0⟩] { sel := [] }).rest = [⟨.data [7], 0⟩] ∧
    (udpClientRecv none 64 (some (.busy 6)) (some 0) [⟨.data [7], 0⟩] { sel := [] }).w.now = 0 := by decide +kernel

/-- **C11, lock discipline of the blocking clients.**  `lock_with_timeout` releases the lock exactly when it acquired it, and
    as the last thing the call does:
    * datagram client (`UDPNetworkClient`): when the lock was obtained, the call logs exactly one `lock.release()` more than
      before — the newest entry of the log — whatever the socket and selector scripts did (success, TimeoutError, OSError);
      when the lock was not obtained within the budget nothing is released (the lock still belongs to its holder);
    * stream client (`TCPNetworkClient`): the world after the call is the world of the endpoint call followed by one release
      when the lock was obtained, and the world of the failed acquisition (no release, no socket call) otherwise. -/
theorem C11_lock_released_iff_acquired {κ : Type} (fl : Flavour) (ri : Tmo) (room : κ → Nat) (next : κ → Bytes → κ × Option Item)
    (cons : κ) (eof : Bool) (tr : Transport) (fix : Bool) (iov : Int) (chunks : List Bytes)
    (bufsize : Nat) (data : Bytes) (ev : LockEv) (t : Tmo) (sock : List SockCall) (w : World) :
    (match lockWithTimeout ev t w with
     | .acquired t' w' =>
        (udpClientRecv ri bufsize (some ev) t sock w).w.nrel = w.nrel + 1 ∧
        (udpClientSend ri data (some ev) t sock w).w.nrel = w.nrel + 1 ∧
        (udpClientRecv ri bufsize (some ev) t sock w).w.log.head? = some .lockRelease ∧
        (udpClientSend ri data (some ev) t sock w).w.log.head? = some .lockRelease ∧
        (clientRecv fl ri room next (some ev) cons eof t sock w).w = (receive fl ri room next cons eof t' sock w').w.lockRelease ∧
        (clientSend tr fix iov ri (some ev) chunks t sock w).2 = (sendPacket tr fix iov ri chunks t' sock w').2.lockRelease
     | .timeout w' =>
        (udpClientRecv ri bufsize (some ev) t sock w).w.nrel = w.nrel ∧
        (udpClientSend ri data (some ev) t sock w).w.nrel = w.nrel ∧
        (clientRecv fl ri room next (some ev) cons eof t sock w).w = w' ∧
        (clientSend tr fix iov ri (some ev) chunks t sock w).2 = w' ∧
        (clientRecv fl ri room next (some ev) cons eof t sock w).out = .timeout ∧
        (clientSend tr fix iov ri (some ev) chunks t sock w).1 = .timeout) := by
  have hu := udpClient_release_count ri bufsize data ev t sock w
  cases hr : lockWithTimeout ev t w with
  | timeout w' =>
    rw [hr] at hu
    exact ⟨hu.1, hu.2, by simp [clientRecv, hr], by simp [clientSend, hr], by simp [clientRecv, hr], by simp [clientSend, hr]⟩
  | acquired t' w' =>
    rw [hr] at hu
    exact ⟨hu.1, hu.2.1, hu.2.2.1, hu.2.2.2, by simp [clientRecv, hr], by simp [clientSend, hr]⟩

/-- non-vacuity: a receive that times out on the socket after it got the lock still releases it (newest log entry); a
    receive that could not get the lock releases nothing -/
example : (udpClientRecv none 64 (some (.busy 1)) (some 3) [⟨.eagain, 0⟩] { sel := [.expired 0] }).out = .timeout ∧
    (udpClientRecv none 64 (some (.busy 1)) (some 3) [⟨.eagain, 0⟩] { sel := [.expired 0] }).w.log.head? = some .lockRelease ∧
    (udpClientRecv none 64 (some (.busy 9)) (some 3) [⟨.eagain, 0⟩] { sel := [.expired 0] }).w.log.head? = some (.lockWait (some 3)) := by
  decide +kernel

end EasyNet
