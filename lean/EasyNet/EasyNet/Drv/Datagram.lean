/-
  Driver for the datagram models (C05).
    case <id> dg1 ru <sephex> <limit> <keepEnd>      ops: dgram <hex>      -> ok <hex> | missing | extra | limit
    case <id> dg1 re <n>                             ops: dgram <hex>
    case <id> dgq                                    ops: dgram <hex> | error <n> | lost [<n>] | close | recv
                                                     -> (recv only) got <hex> | exc <n> | aborted | wait
-/
import EasyNet.Model.Datagram
import EasyNet.Drv.Util
namespace EasyNet.Drv
open EasyNet EasyNet.C05

def c05Show : OneShot → String
  | .ok d => s!"ok {toHex d}"
  | .missing => "missing"
  | .extra => "extra"
  | .limit => "limit"

def c05One {σ} (init : σ) (feed : σ → Bytes → Res σ) (ops : List String) : List String :=
  ops.map fun op =>
    match words op with
    | ["dgram", h] => match parseHex h with | some d => c05Show (oneShot init feed d) | none => "bad-op"
    | _ => "bad-op"

def c05ParseEv : List String → Option DEv
  | ["dgram", h] => (parseHex h).map DEv.dgram
  | ["error", n] => n.toNat?.map DEv.error
  | ["lost"] => some (.lost none)
  | ["lost", n] => n.toNat?.map (fun x => DEv.lost (some x))
  | ["close"] => some .close
  | ["recv"] => some .recv
  | _ => none

def c05Queue (ops : List String) : List String :=
  let rec go (q : DQ) : List String → List String → List String
    | [], out => out.reverse
    | op :: rest, out =>
      match c05ParseEv (words op) with
      | none => go q rest ("bad-op" :: out)
      | some ev =>
        let r := q.step ev
        match r.2 with
        | .none => go r.1 rest out
        | .got d => go r.1 rest (s!"got {toHex d}" :: out)
        | .exc e => go r.1 rest (s!"exc {e}" :: out)
        | .aborted => go r.1 rest ("aborted" :: out)
        | .wait => go r.1 rest ("wait" :: out)
  go {} ops []

def runDatagram (model : String) (cfg : List String) (ops : List String) : Option (List String) :=
  match model, cfg with
  | "dg1", ["ru", sep, limit, ke] => do
    let sep ← parseHex sep; let limit ← limit.toNat?; let ke ← parseBool ke
    if sep.isEmpty ∨ limit = 0 then none else pure (c05One RU.init (RU.feed sep limit ke) ops)
  | "dg1", ["re", n] => do
    let n ← n.toNat?
    if n = 0 then none else pure (c05One RE.init (RE.feed n) ops)
  | "dgq", [] => some (c05Queue ops)
  | _, _ => none

end EasyNet.Drv
