/-
  Line-protocol helpers for the `endriver` executable: hex <-> bytes, number parsing.
  Anything that cannot be parsed yields `none` and the driver prints `bad-op` (it never defaults).
-/
import EasyNet.Model.Bytes
namespace EasyNet.Drv

def hexDigit (c : Char) : Option Nat :=
  if '0' ≤ c ∧ c ≤ '9' then some (c.toNat - '0'.toNat)
  else if 'a' ≤ c ∧ c ≤ 'f' then some (c.toNat - 'a'.toNat + 10)
  else if 'A' ≤ c ∧ c ≤ 'F' then some (c.toNat - 'A'.toNat + 10)
  else none

/-- "-" is the empty byte string -/
def parseHex (s : String) : Option Bytes :=
  if s == "-" then some [] else
  let rec go : List Char → Option Bytes
    | [] => some []
    | [_] => none
    | a :: b :: rest => do
      let x ← hexDigit a
      let y ← hexDigit b
      let r ← go rest
      pure (UInt8.ofNat (x * 16 + y) :: r)
  go s.toList

def hexChar (n : Nat) : Char := if n < 10 then Char.ofNat (n + 48) else Char.ofNat (n - 10 + 97)

def toHex (b : Bytes) : String :=
  if b.isEmpty then "-" else
  String.ofList (b.foldr (fun x acc => hexChar (x.toNat / 16) :: hexChar (x.toNat % 16) :: acc) [])

def parseBool (s : String) : Option Bool :=
  if s == "1" then some true else if s == "0" then some false else none

def words (s : String) : List String :=
  (s.splitOn " ").filter (· ≠ "")

end EasyNet.Drv
