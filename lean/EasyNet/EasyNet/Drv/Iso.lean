/-
  Driver for the C17 model over the generated tables.

    case <id> iso <kind> <oc>            kind = tcp | tcp-tls | udp | unit       oc = coro | gen | -
    ops:
      fault <pos> <k> <gen> <tree…>      the faulty client raises <tree> at hook position <pos>
                                         -> `log …` lines, `taskgroup …`, `faulty-conn closed` (TCP), `hooks …`,
                                            `faulty-fresh …` (UDP), `serving …`
      filter <name> <tree…>              one filter alone -> `log …` lines, `out swallowed | out escapes <tree>`
      chain <kind> <pos> <tree…>         the whole chain of a position -> same
      split <class> <tree…>              `BaseExceptionGroup.split(class)` -> `match <tree|->`, `rest <tree|->`
      cls <tree…>                        -> `cls <class of the object>`
    tree = prefix tokens: `L:<class>` | `G<n>` followed by n trees
-/
import EasyNet.Gen.IsoTables
import EasyNet.Drv.Util
namespace EasyNet.Drv
open EasyNet EasyNet.Iso EasyNet.Gen.Iso

namespace IsoDrv

def findCls (n : String) : Option Cls := allCls.find? (fun c => c.name == n)

mutual
  def parseTree : Nat → List String → Option (Tree Cls × List String)
    | 0, _ => none
    | _ + 1, [] => none
    | fuel + 1, tok :: rest =>
      if tok.startsWith "L:" then
        match findCls (tok.drop 2).toString with
        | some c => some (.leaf c, rest)
        | none => none
      else if tok.startsWith "G" then
        match (tok.drop 1).toString.toNat? with
        | some n =>
          match parseTrees fuel n rest with
          | some (cs, rest') => some (.group cs, rest')
          | none => none
        | none => none
      else none
  def parseTrees : Nat → Nat → List String → Option (List (Tree Cls) × List String)
    | 0, _, _ => none
    | _ + 1, 0, rest => some ([], rest)
    | fuel + 1, n + 1, toks =>
      match parseTree fuel toks with
      | some (t, rest) =>
        match parseTrees fuel n rest with
        | some (ts, rest') => some (t :: ts, rest')
        | none => none
      | none => none
end

def parseWhole (toks : List String) : Option (Tree Cls) :=
  match parseTree (2 * toks.length + 2) toks with
  | some (t, []) => some t
  | _ => none

mutual
  def showTree : Tree Cls → String
    | .leaf c => c.name
    | .group cs => "G(" ++ String.intercalate "," (showTrees cs) ++ ")"
  def showTrees : List (Tree Cls) → List String
    | [] => []
    | t :: ts => showTree t :: showTrees ts
end

def showOpt : Option (Tree Cls) → String
  | none => "-"
  | some t => showTree t

def logLines (ls : List (LogRec Cls)) : List String :=
  ls.map fun r => s!"log {r.1} exc={showOpt r.2}"

def outLine : Option (Tree Cls) → String
  | none => "out swallowed"
  | some r => s!"out escapes {showTree r}"

/-- asyncio.TaskGroup: a cancelled child is ignored; KeyboardInterrupt / SystemExit are re-raised as they are; anything
    else is wrapped in a (Base)ExceptionGroup -/
def taskgroupLine : Option (Tree Cls) → String × Bool
  | none => ("taskgroup unaffected", true)
  | some (.leaf c) =>
    if c.name == "CancelledError" then ("taskgroup unaffected", true)
    else if c.name == "KeyboardInterrupt" || c.name == "SystemExit" then (s!"taskgroup got {c.name}", false)
    else (s!"taskgroup got G({c.name})", false)
  | some r => (s!"taskgroup got G({showTree r})", false)

def findPos (kind pos : String) : Option Position := nesting.find? (fun p => p.kind == kind && p.pos == pos)

def tcpPosOf (pos : String) (k gen : Nat) : Option TcpPos :=
  match pos with
  | "oc_coro" => some .ocCoro
  | "oc_pre" => some .ocPre
  | "oc_post" => some .ocPost
  | "oc_thrown" => some .ocThrown
  | "h_pre" => some (.hPre gen)
  | "h_post" => some (.hPost gen k)
  | "h_thrown" => some (.hThrown gen)
  | "h_gexit" => some (.hGexit gen)
  | "od" => some (.od gen)
  | _ => none

def udpHooks (gen : Nat) (fresh : Bool) : String :=
  let one (i : Nat) : List String := [s!"handle:start_g{i}", s!"handle:closed_g{i}"]
  let before := (List.range gen).flatMap (fun i => one (i + 1))
  String.intercalate " " (before ++ (if fresh then one (gen + 1) else []))

def runFault (kind : String) (pos : String) (k gen : Nat) (t : Tree Cls) : List String :=
  match findPos kind pos with
  | none => ["unknown-position"]
  | some p =>
    match chainLayers filters p.filters with
    | none => ["unknown-filter"]
    | some layers =>
      if kind == "udp" then
        let r := runLayers K layers t
        let tg := taskgroupLine r.1
        logLines r.2 ++ [tg.1, s!"hooks {udpHooks gen tg.2}"] ++ [s!"faulty-fresh {if tg.2 then 1 else 0}"] ++
          [s!"serving {if tg.2 then 1 else 0}"]
      else
        match tcpPosOf pos k gen with
        | some tp =>
          -- hook position: the epilogue machine (it looks the filters up by name), then whatever encloses the initializer
          let s := tcpRun K filters p.odRegistered tp t
          let outerNames := p.filters.dropWhile (fun n => n != "tcp.suppress_and_log") |>.drop 1
          let innerNames := p.filters.takeWhile (fun n => n != "tcp.initializer" && n != "tcp.disconnect_client")
          -- innermost filters (the try statements of misc.py around the hook call) act before the exit stacks unwind
          let pre := match chainLayers filters innerNames with
            | some ls => runLayers K ls t
            | none => (some t, [])
          match pre.1 with
          | none => logLines pre.2 ++ ["taskgroup unaffected", "faulty-conn closed", "hooks ?", "serving 1"]
          | some _ =>
            let post := match s.inflight, chainLayers filters outerNames with
              | some e, some ls => runLayers K ls e
              | some e, none => (some e, [])
              | none, _ => (none, [])
            let tg := taskgroupLine post.1
            logLines (s.logs ++ post.2) ++
              [tg.1, s!"faulty-conn {if s.closed then "closed" else "open"}",
               "hooks " ++ String.intercalate " " s.hooks.reverse, s!"serving {if tg.2 then 1 else 0}"]
        | none =>
          -- set-up positions: the chain alone; the accepted socket / transport is closed by the handler itself
          let r := runLayers K layers t
          let tg := taskgroupLine r.1
          logLines r.2 ++ [tg.1, "faulty-conn closed", "hooks -", s!"serving {if tg.2 then 1 else 0}"]

def runOp (kind : String) (op : String) : List String :=
  match words op with
  | "fault" :: pos :: k :: gen :: toks =>
    match k.toNat?, gen.toNat?, parseWhole toks with
    | some k, some gen, some t => runFault kind pos k gen t
    | _, _, _ => ["bad-op"]
  | "filter" :: name :: toks =>
    match findFilter filters name, parseWhole toks with
    | some f, some t =>
      let r := runLayers K f.layers t
      logLines r.2 ++ [outLine r.1]
    | _, _ => ["bad-op"]
  | "chain" :: kd :: pos :: toks =>
    match findPos kd pos, parseWhole toks with
    | some p, some t =>
      match chainLayers filters p.filters with
      | some ls =>
        let r := runLayers K ls t
        logLines r.2 ++ [outLine r.1]
      | none => ["unknown-filter"]
    | _, _ => ["bad-op"]
  | "split" :: cn :: toks =>
    match findCls cn, parseWhole toks with
    | some c, some t =>
      let r := split (Tree.isInst K [c]) t
      [s!"match {showOpt r.1}", s!"rest {showOpt r.2}"]
    | _, _ => ["bad-op"]
  | "cls" :: toks =>
    match parseWhole toks with
    | some t => [s!"cls {(t.clsOf K).name}"]
    | none => ["bad-op"]
  | _ => ["bad-op"]

end IsoDrv

def runIso (model : String) (cfg : List String) (ops : List String) : Option (List String) :=
  match model, cfg with
  | "iso", [kind, _oc] => some (ops.flatMap (IsoDrv.runOp kind))
  | "iso", _ => some ["bad-case"]
  | _, _ => none

end EasyNet.Drv
