/-
  Driver for the framing models: copying and buffered consumers over the concrete framers.

  case <id> ru  <sephex> <limit> <keepEnd>         ops: feed <hex>
  case <id> re  <n>                                ops: feed <hex>
  case <id> bru <fixed> <sephex> <cap> <keepEnd>   ops: fill <hex>
  case <id> bfx <size> <cap>                       ops: fill <hex>
  case <id> prod <sephex>                          ops: ser <hex>      -> refused | nothing | chunk <hex>
  outputs: frame <hex> | limit | room <n> | crashed | held <hex> (at end)
-/
import EasyNet.Model.Consumer
import EasyNet.Model.Producer
import EasyNet.Drv.Util
namespace EasyNet.Drv
open EasyNet

def showItem : Item → String
  | .frame d => s!"frame {toHex d}"
  | .limit => "limit"

def runCopy {σ} (init : σ) (feed : σ → Bytes → Res σ) (acc : σ → Bytes) (ops : List String) : List String :=
  let rec go (c : Consumer σ) : List String → List String → List String
    | [], out => (s!"held {toHex (c.held acc)}" :: s!"buf {toHex c.buffer}" :: out).reverse
    | op :: rest, out =>
      match words op with
      | ["feed", h] =>
        match parseHex h with
        | some b =>
          let r := Consumer.recvChunk init feed c b
          go r.1 rest ((r.2.map showItem).reverse ++ out)
        | none => go c rest ("bad-op" :: out)
      | ["next"] =>
        let r := Consumer.next init feed c []
        go r.1 rest ((match r.2 with | some it => showItem it | none => "stop") :: out)
      | _ => go c rest ("bad-op" :: out)
  go Consumer.new ops []

def bufHeld {σ} (c : BufConsumer σ) (acc : σ → Nat) : Bytes :=
  match c.fr with
  | some s => c.buffer.take (acc s + c.written)
  | none => []

def runBuf {σ} (init : σ) (start0 cap : Nat) (feed : σ → Bytes → Nat → BRes σ) (acc : σ → Nat)
    (ops : List String) : List String :=
  let rec go (c : BufConsumer σ) : List String → List String → List String
    | [], out => (s!"held {toHex (bufHeld c acc)}" :: out).reverse
    | op :: rest, out =>
      if c.crashed then go c rest ("crashed" :: out) else
      match words op with
      | ["fill", h] =>
        match parseHex h with
        | some b =>
          let c1 := BufConsumer.prepare init start0 cap c
          let out := s!"room {c1.room}" :: out
          if b.length > c1.room then go c rest ("bad-op" :: out) else
          let r := BufConsumer.fill init start0 cap feed c b
          go r.1 rest ((r.2.map showItem).reverse ++ out)
        | none => go c rest ("bad-op" :: out)
      | ["next"] =>
        let r := BufConsumer.next init start0 cap feed c 0
        go r.1 rest ((match r.2 with | some it => showItem it | none => "stop") :: out)
      | _ => go c rest ("bad-op" :: out)
  go BufConsumer.new ops []

def runFraming (model : String) (cfg : List String) (ops : List String) : Option (List String) :=
  match model, cfg with
  | "ru", [sep, limit, ke] => do
    let sep ← parseHex sep; let limit ← limit.toNat?; let ke ← parseBool ke
    if sep.isEmpty ∨ limit = 0 then none else
    pure (runCopy RU.init (RU.feed sep limit ke) (·.buf) ops)
  | "re", [n] => do
    let n ← n.toNat?
    if n = 0 then none else
    pure (runCopy RE.init (RE.feed n) (·.buf) ops)
  | "bru", [fixed, sep, cap, ke] => do
    let fixed ← parseBool fixed; let sep ← parseHex sep; let cap ← cap.toNat?; let ke ← parseBool ke
    if sep.isEmpty ∨ cap = 0 then none else
    pure (runBuf BRU.init BRU.start cap (BRU.feed fixed sep ke) (·.buflen) ops)
  | "bfx", [size, cap] => do
    let size ← size.toNat?; let cap ← cap.toNat?
    if size = 0 ∨ cap < size then none else
    pure (runBuf BFX.init BFX.start cap (BFX.feed size) (·.nread) ops)
  | "prod", [sep] => do
    let sep ← parseHex sep
    if sep.isEmpty then none else
    pure (ops.map fun op =>
      match words op with
      | ["ser", h] =>
        match parseHex h with
        | some d =>
          match AutoSep.produce sep d with
          | .refused => "refused"
          | .nothing => "nothing"
          | .chunk b => s!"chunk {toHex b}"
        | none => "bad-op"
      | _ => "bad-op")
  | _, _ => none

end EasyNet.Drv
