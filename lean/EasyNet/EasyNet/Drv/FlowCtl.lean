/-
  Driver for the C20 model (EasyNet/Model/FlowCtl.lean).

  case <id> fc <wfc|stream|dgram> <n> <errno> <wlp 0|1> <reassert 0|1> <high> <low>
  ops:     send <i> <n> | sendv <i> <n1,n2,…> | drain <i> | pause | resume | kernel <k> | lost <errno> | fail <errno> |
           close | cancel <i> | turn
  outputs: per op its echo line (start | busy | pause | resume | kernel | kernel-skip | lost | fail | fail-skip | close |
           cancel | turn, a turn being preceded by `done <i> ok[ pend=<n>] | cancelled | err <errno>` in id order), then
           `st paused=<0|1> parked=<ids|-> tbuf=<n>`.
-/
import EasyNet.Model.FlowCtl
import EasyNet.Drv.Util
namespace EasyNet.Drv.C20
open EasyNet EasyNet.Drv EasyNet.C20.FC

def parseNatList (s : String) : Option (List Nat) :=
  (s.splitOn ",").mapM (·.toNat?)

def parseFcEv (op : String) : Option Ev :=
  match words op with
  | ["send", i, n] => do let i ← i.toNat?; let n ← n.toNat?; pure (.start i (.send n))
  | ["sendv", i, l] => do let i ← i.toNat?; let l ← parseNatList l; pure (.start i (.sendv l))
  | ["drain", i] => do let i ← i.toNat?; pure (.start i .drain)
  | ["pause"] => some .pause
  | ["resume"] => some .resume
  | ["kernel", k] => do let k ← k.toNat?; pure (.kernel k)
  | ["lost", e] => do let e ← e.toNat?; pure (.lost (if e = 0 then none else some e))
  | ["fail", e] => do let e ← e.toNat?; pure (.fail (if e = 0 then none else some e))
  | ["close"] => some .close
  | ["cancel", i] => do let i ← i.toNat?; pure (.cancel i)
  | ["turn"] => some .turn
  | _ => none

def insertDone (x : Nat × Res × Option Nat) : List (Nat × Res × Option Nat) → List (Nat × Res × Option Nat)
  | [] => [x]
  | y :: ys => if x.1 ≤ y.1 then x :: y :: ys else y :: insertDone x ys

def showDone (c : Cfg) (flushed : Nat) (d : Nat × Res × Option Nat) : String :=
  match d.2.1 with
  | .ok =>
    (match c.kind, d.2.2 with
     | .wfc, _ => s!"done {d.1} ok"
     | _, some e => s!"done {d.1} ok pend={e - flushed}"
     | _, none => s!"done {d.1} ok")
  | .cancelled => s!"done {d.1} cancelled"
  | .err e => s!"done {d.1} err {e}"

def showFcOut (c : Cfg) (s : St) : Out → List String
  | .started => ["start"]
  | .busy => ["busy"]
  | .pause => ["pause"]
  | .resume => ["resume"]
  | .kernel => ["kernel"]
  | .kernelSkip => ["kernel-skip"]
  | .lost => ["lost"]
  | .fail => ["fail"]
  | .failSkip => ["fail-skip"]
  | .close => ["close"]
  | .cancel => ["cancel"]
  | .turn log => ((log.foldr insertDone []).map (showDone c s.flushed)) ++ ["turn"]

def showSt (c : Cfg) (s : St) : String :=
  let parked := (List.range c.n).filter (fun i => (s.senders i).pc ≠ .idle)
  let p := if parked.isEmpty then "-" else String.intercalate "," (parked.map toString)
  let tb := match c.kind with | .wfc => 0 | _ => s.size
  s!"st paused={if s.paused then 1 else 0} parked={p} tbuf={tb}"

def runFc (c : Cfg) (ops : List String) : List String :=
  let rec go (s : St) : List String → List String → List String
    | [], acc => acc.reverse
    | op :: rest, acc =>
      match parseFcEv op with
      | none => go s rest ("bad-op" :: acc)
      | some ev =>
        let r := step c s ev
        go r.1 rest (showSt c r.1 :: (showFcOut c r.1 r.2).reverse ++ acc)
  go (St.init c) ops []

def runFlowCtl (model : String) (cfg : List String) (ops : List String) : Option (List String) :=
  match model, cfg with
  | "fc", [kind, n, errno, wlp, re, high, low] => do
    let kind ← (match kind with | "wfc" => some Kind.wfc | "stream" => some Kind.stream | "dgram" => some Kind.dgram | _ => none)
    let n ← n.toNat?; let errno ← errno.toNat?; let wlp ← parseBool wlp; let re ← parseBool re
    let high ← high.toNat?; let low ← low.toNat?
    pure (runFc { kind := kind, n := n, errno := errno, wlp := wlp, reassert := re, high := high, low := low } ops)
  | _, _ => none

end EasyNet.Drv.C20
