/-
  Driver for the C08 wrapper machine (Model/Tls08.lean) with the scripted engine.

  case <id> tls08 <compat 0|1> [pop | lockalways | fix1]
    eng <hs|read|write> <ok|wantread|wantwrite|zeroreturn|eoferror|error> <cin> <cout> [<hex> (read ok) | <n> (write ok)]
                          the engine log, read first, answers consumed in call order
    call <t> hs | call <t> recv <n> | call <t> recvinto <cap> | call <t> send <hex> | call <t> senditer <hex>*
    resume <t> ok | resume <t> err | resume <t> data <hex> | resume <t> eof
  case <id> tls08blk  with ops `try recv|send <wantr|wantw|sysc|zeroret|reset>` prints the blocking variant's decision
  (`try recv wantr -> block R`, …).
  `pop` selects the seeded write loop (`writeLoopPop`), used only to check that the correspondence can fail.
  `lockalways` / `fix1` select the WANT_READ branch as it was before any fix (`WrPolicy.always`: the send lock is taken even
  when the outgoing BIO is empty) / with docs/C08-fix-1.patch only (`WrPolicy.pending`); used only to show that the
  correspondence with the corresponding code holds and with the other versions fails.

  outputs, one line per observable action of the wrapper:
    ssl <t> hs|read <n>|write <data> in=<pending incoming BIO> -> <outcome…> out=<bytes appended to the outgoing BIO>
    acq|park|rel <t> send|recv      xmit <t> <n> <bio|plain|mixed|empty>      rcv <t>
    inner.aclose <t>      ret <t> hs-ok|sent|data <data>|raise <err>
    bio-eof r=<0|1> w=<0|1> backlog=<chunks left in _data_deque> pending=<bytes left in the outgoing BIO>   (last line)
    bad-step (event not enabled)    bad-op (unparsable)
  <data> = "-" (empty) | hex (≤ 24 bytes) | <len>:<adler32>
-/
import EasyNet.Model.Tls08
import EasyNet.Drv.Util
namespace EasyNet.Drv.T08
open EasyNet EasyNet.C08 EasyNet.Drv

def adler32 (b : Bytes) : Nat :=
  let r := b.foldl (fun (acc : Nat × Nat) x => ((acc.1 + x.toNat) % 65521, (acc.2 + (acc.1 + x.toNat) % 65521) % 65521)) (1, 0)
  r.2 * 65536 + r.1

def fmtData (b : Bytes) : String :=
  if b.length ≤ 24 then toHex b else s!"{b.length}:{adler32 b}"

def showOrgs (p : List TB) : String :=
  if p.isEmpty then "empty"
  else if p.all (fun x => x.1 == .bio) then "bio"
  else if p.all (fun x => x.1 == .plain) then "plain"
  else "mixed"

def showLockId : LockId → String
  | .send => "send"
  | .recv => "recv"

def showErr : Err → String
  | .sslZeroReturn => "sslzeroreturn" | .sslEof => "ssleof" | .sslError => "sslerror" | .oserror => "oserror"
  | .connReset => "connreset" | .typeError => "TypeError" | .desync => "desync" | .spin => "spin"

def showResult : Result → String
  | .hsOk => "hs-ok"
  | .data b => s!"data {fmtData b}"
  | .sent => "sent"
  | .raised e => s!"raise {showErr e}"

def showResp (c : Call) (r : Resp) : String :=
  (match r.out, c with
   | .ok _, .read _ => s!"ok {fmtData r.data}"
   | .ok n, .write _ => s!"ok {n}"
   | .ok _, .handshake => "ok"
   | .wantRead, _ => "wantread" | .wantWrite, _ => "wantwrite" | .zeroReturn, _ => "zeroreturn"
   | .eofError, _ => "eoferror" | .error, _ => "error" | .desync, _ => "desync")
  ++ s!" out={r.cout.length}"

def showCall : Call → String
  | .handshake => "hs"
  | .read n => s!"read {n}"
  | .write d => s!"write {fmtData d}"

/-- `fed` / `eof` are not observable one by one from outside the (real) MemoryBIOs: their effect shows in the `in=` value
    of the next engine call and in the final `bio-eof` line -/
def showAct : Act → Option String
  | .ssl t c k r => some s!"ssl {t} {showCall c} in={k} -> {showResp c r}"
  | .acq t l => some s!"acq {t} {showLockId l}"
  | .park t l => some s!"park {t} {showLockId l}"
  | .rel t l => some s!"rel {t} {showLockId l}"
  | .xmit t p => some s!"xmit {t} {p.length} {showOrgs p}"
  | .rcv t => some s!"rcv {t}"
  | .fed _ _ => none
  | .rbioEof _ => none
  | .bothEof _ => none
  | .closeInner t => some s!"inner.aclose {t}"
  | .ret t r => some s!"ret {t} {showResult r}"

def parseOutcome (s : String) (n : Nat) : Option SslOut :=
  match s with
  | "ok" => some (.ok n) | "wantread" => some .wantRead | "wantwrite" => some .wantWrite
  | "zeroreturn" => some .zeroReturn | "eoferror" => some .eofError | "error" => some .error
  | _ => none

def parseEng (ws : List String) : Option (CallKind × Resp) :=
  match ws with
  | [k, o, cin, cout] => do
    let kind ← (match k with | "hs" => some CallKind.handshake | "read" => some .read | "write" => some .write | _ => none)
    let out ← parseOutcome o 0
    let ci ← cin.toNat?
    let co ← cout.toNat?
    (match out with
     | .ok _ => if kind = .handshake then some () else none     -- read/write ok need their argument
     | _ => some ())
    pure (kind, { out := out, cin := ci, cout := List.replicate co 0 })
  | ["read", "ok", cin, cout, hex] => do
    let ci ← cin.toNat?
    let co ← cout.toNat?
    let d ← parseHex hex
    pure (.read, { out := .ok d.length, data := d, cin := ci, cout := List.replicate co 0 })
  | ["write", "ok", cin, cout, n] => do
    let ci ← cin.toNat?
    let co ← cout.toNat?
    let k ← n.toNat?
    pure (.write, { out := .ok k, cin := ci, cout := List.replicate co 0 })
  | _ => none

/-- the engine log: all `eng` lines; `none` if one of them does not parse -/
def collectEng : List String → Option (List (CallKind × Resp))
  | [] => some []
  | op :: rest =>
    match words op with
    | "eng" :: ws => do
      let e ← parseEng ws
      let r ← collectEng rest
      pure (e :: r)
    | _ => collectEng rest

def parseHexList : List String → Option (List Bytes)
  | [] => some []
  | h :: rest => do
    let b ← parseHex h
    let r ← parseHexList rest
    pure (b :: r)

def parseEv (ws : List String) : Option Ev :=
  match ws with
  | ["call", t, "hs"] => do pure (.call (← t.toNat?) .handshake)
  | ["call", t, "recv", n] => do pure (.call (← t.toNat?) (.recv (← n.toNat?)))
  | ["call", t, "recvinto", n] => do pure (.call (← t.toNat?) (.recvInto (← n.toNat?)))
  | ["call", t, "send", h] => do pure (.call (← t.toNat?) (.sendAll (← parseHex h)))
  | "call" :: t :: "senditer" :: hs => do pure (.call (← t.toNat?) (.sendIter (← parseHexList hs)))
  | ["resume", t, "ok"] => do pure (.resume (← t.toNat?) .ok)
  | ["resume", t, "err"] => do pure (.resume (← t.toNat?) .err)
  | ["resume", t, "eof"] => do pure (.resume (← t.toNat?) (.data []))
  | ["resume", t, "data", h] => do
    let d ← parseHex h
    if d = [] then none else pure (.resume (← t.toNat?) (.data d))
  | _ => none

/-- the seeded variant (`data = write_backlog.popleft()` before the write, `appendleft` only after a partial write):
    whenever a `write` of this step ended in an exception, the chunk that had been popped is gone.
    Only the driver knows this variant (to check that the correspondence can fail); the theorems are about `step`. -/
def stepPop (s : St (List (CallKind × Resp))) (e : Ev) : Option (St (List (CallKind × Resp))) :=
  match step scriptEngine s e with
  | none => none
  | some s' =>
    if s'.acts.any (fun a => match a with
        | .ssl _ (.write _) _ r => (match r.out with | .ok _ => false | _ => true)
        | _ => false)
    then some { s' with deque := s'.deque.drop 1 } else some s'

/-- the driver only prints: the action log and the ghost fields (never read by the machine) are emptied after every step -/
def forget (s : St (List (CallKind × Resp))) : St (List (CallKind × Resp)) :=
  { s with acts := [], written := [], accepted := [], completed := [], xmits := [], outAll := [], taken := [], fedAll := [],
           consumed := [], engRead := [], returned := [] }

def runTls08Ops (pop : Bool) : St (List (CallKind × Resp)) → List String → List String → List String
  | s, [], out => (s!"bio-eof r={if s.rEof then 1 else 0} w={if s.wEof then 1 else 0} backlog={s.deque.length} pending={s.wbio.length}" :: out).reverse
  | s, op :: rest, out =>
    match words op with
    | "eng" :: _ => runTls08Ops pop s rest out
    | ws =>
      match parseEv ws with
      | none => runTls08Ops pop s rest ("bad-op" :: out)
      | some e =>
        match (if pop then stepPop s e else step scriptEngine s e) with
        | none => runTls08Ops pop s rest ("bad-step" :: out)
        | some s' => runTls08Ops pop (forget s') rest ((s'.acts.filterMap showAct).reverse ++ out)

/-! blocking variant: the decision tables of `SSLStreamTransport.recv_noblock` / `send_noblock` (+ `_try_ssl_method`) -/

def parseSockEv : String → Option SockEv
  | "wantr" => some .wantR | "wantw" => some .wantW | "sysc" => some .sysc | "zeroret" => some .zeroRet
  | "reset" => some .reset | _ => none

def showCls : Cls → String
  | .ok n => s!"ok {n}"
  | .got b => s!"got {toHex b}"
  | .block .R => "block R"
  | .block .W => "block W"
  | .err e => "err " ++ (match e with
      | .reset => "reset" | .pipe => "pipe" | .blockingIO => "blockingio" | .interrupted => "interrupted"
      | .sslWantRead => "sslwantread" | .sslWantWrite => "sslwantwrite" | .sslSyscall => "sslsyscall"
      | .sslZeroReturn => "sslzeroreturn")
  | .bad => "bad"

def runBlkOps : List String → List String
  | [] => []
  | op :: rest =>
    (match words op with
     | ["try", "recv", e] => (match parseSockEv e with
        | some ev => s!"try recv {e} -> {showCls (tryRecv ev)}"
        | none => "bad-op")
     | ["try", "send", e] => (match parseSockEv e with
        | some ev => s!"try send {e} -> {showCls (trySend ev)}"
        | none => "bad-op")
     | _ => "bad-op") :: runBlkOps rest

end EasyNet.Drv.T08

namespace EasyNet.Drv
open EasyNet EasyNet.C08 EasyNet.Drv.T08

def runTls08 (model : String) (cfg ops : List String) : Option (List String) :=
  match model, cfg with
  | "tls08", [c] =>
    match parseBool c, collectEng ops with
    | some compat, some log => some (runTls08Ops false (St.init log compat) ops [])
    | _, _ => some ["bad-op"]
  | "tls08", [c, "pop"] =>
    match parseBool c, collectEng ops with
    | some compat, some log => some (runTls08Ops true (St.init log compat) ops [])
    | _, _ => some ["bad-op"]
  | "tls08", [c, "lockalways"] =>
    match parseBool c, collectEng ops with
    | some compat, some log => some (runTls08Ops false { (St.init log compat) with wrPolicy := .always } ops [])
    | _, _ => some ["bad-op"]
  | "tls08", [c, "fix1"] =>
    match parseBool c, collectEng ops with
    | some compat, some log => some (runTls08Ops false { (St.init log compat) with wrPolicy := .pending } ops [])
    | _, _ => some ["bad-op"]
  | "tls08blk", [] => some (runBlkOps ops)
  | _, _ => none

end EasyNet.Drv
