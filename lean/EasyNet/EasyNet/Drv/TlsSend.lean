/-
  Driver for the C12 TLS send machine.

  case <id> c12tls
    pk <t> <hex>        configuration (read first)
    send <t> | resume <t> | ret <t>
        (`ret t` first lets the lower transport write everything still in flight: the correspondence does not
         look at the ciphertext pieces, whose sizes depend on OpenSSL)
  outputs: send s<t> <i> / tls.call s<t> pre <lock> / tls.park s<t> / tls.acq s<t> post <lock> / tls.xmit s<t> <n>
           tls.ret s<t> / tls.rel s<t> post <lock> / sent s<t> <i> ok / bad-step / bad-op / tls.final <lock> / plain <hex>
-/
import EasyNet.Model.TlsSend
import EasyNet.Drv.Senders
namespace EasyNet.Drv
open EasyNet EasyNet.C12

/-- lines after the lock was granted to t in state `b` (base after the grant), `s'` = state after the whole step -/
def showAfterGrant (s' : TlsSys) (t : Tid) (i : Nat) : List String :=
  match s'.base.pc t with
  | .holding => [s!"tls.xmit s{t} {s'.inflight.length}"]
  | _ => [s!"tls.rel s{t} post {showLock s'.base.lock}", s!"sent s{t} {i} ok"]

def runTlsOps (cfg : Cfg) : TlsSys → List String → List String → List String
  | s, [], out => (s!"plain {toHex s.twire}" :: s!"tls.final {showLock s.base.lock}" :: out).reverse
  | s, op :: rest, out =>
    match words op with
    | "pk" :: _ => runTlsOps cfg s rest out
    | ["send", t] =>
      match t.toNat? with
      | none => runTlsOps cfg s rest ("bad-op" :: out)
      | some t =>
        match tstep cfg s (.send t), step (cfgL cfg) s.base (.send t) with
        | some s', some b =>
          let hd := [s!"send s{t} {s.base.idx t}", s!"tls.call s{t} pre {showLock s.base.lock}"]
          let tl := match b.pc t with
            | .holding => s!"tls.acq s{t} post {showLock b.lock}" :: showAfterGrant s' t (s.base.idx t)
            | _ => [s!"tls.park s{t}"]
          runTlsOps cfg s' rest ((hd ++ tl).reverse ++ out)
        | _, _ => runTlsOps cfg s rest ("bad-step" :: out)
    | ["resume", t] =>
      match t.toNat? with
      | none => runTlsOps cfg s rest ("bad-op" :: out)
      | some t =>
        match tstep cfg s (.resume t), step (cfgL cfg) s.base (.resume t) with
        | some s', some b =>
          runTlsOps cfg s' rest ((s!"tls.acq s{t} post {showLock b.lock}" :: showAfterGrant s' t (s.base.idx t)).reverse ++ out)
        | _, _ => runTlsOps cfg s rest ("bad-step" :: out)
    | ["ret", t] =>
      match t.toNat? with
      | none => runTlsOps cfg s rest ("bad-op" :: out)
      | some t =>
        match tstep cfg s (.write t s.inflight.length) with
        | none => runTlsOps cfg s rest ("bad-step" :: out)
        | some s1 =>
          match tstep cfg s1 (.ret t) with
          | none => runTlsOps cfg s rest ("bad-step" :: out)
          | some s' =>
            runTlsOps cfg s' rest
              (([s!"tls.ret s{t}", s!"tls.rel s{t} post {showLock s'.base.lock}", s!"sent s{t} {s.base.idx t} ok"]).reverse ++ out)
    | _ => runTlsOps cfg s rest ("bad-op" :: out)

def runTls (model : String) (cfg : List String) (ops : List String) : Option (List String) :=
  match model, cfg with
  | "c12tls", [] => do
    let pks ← collectPackets ops
    let c : Cfg := { useLock := true, packets := packetsOf pks }
    pure (runTlsOps c TlsSys.init ops [])
  | _, _ => none

end EasyNet.Drv
