/-
  Driver for the connection-racing model (C19).

  case <id> race    <stagger 0|1> <locals> <addrs>     ops: spawn | begin <i> | res <i> ok|err|crash|cancelled |
                                                            cancel | fin ret|allfailed|cancelled|crash
  case <id> raceseq <locals> <addrs>                   ops: start | abort | res ok|err|crash|cancelled | cancel
    <locals> = none | f:b,f:b,…      (family : bind succeeds 0|1)
    <addrs>  = f:s:o,…               (family : socket() succeeds 0|1 : outcome ok|err|crash|hang)
  `<i>` is the position of the address in the resolver's list (the model reorders them itself).
  outputs: the observable lines of harness/vlib/c19_env.py; `not-enabled <op>` when the model refuses a step.
-/
import EasyNet.Model.Race
import EasyNet.Drv.Util
namespace EasyNet.Drv
open EasyNet EasyNet.Race

def parseOutcome : String → Option Outcome
  | "ok" => some .ok | "err" => some .err | "crash" => some .crash | "hang" => some .hang | _ => none

def parseAddrs (s : String) : Option (List Addr) :=
  let rec go : Nat → List String → Option (List Addr)
    | _, [] => some []
    | i, t :: rest => do
      match t.splitOn ":" with
      | [f, sk, o] =>
        let f ← f.toNat?; let sk ← parseBool sk; let o ← parseOutcome o
        let r ← go (i + 1) rest
        pure (⟨i, f, sk, o⟩ :: r)
      | _ => none
  go 0 (s.splitOn ",")

def parseLocals (s : String) : Option (Option (List Loc)) :=
  if s == "none" then some none else
  let rec go : List String → Option (List Loc)
    | [] => some []
    | t :: rest => do
      match t.splitOn ":" with
      | [f, b] =>
        let f ← f.toNat?; let b ← parseBool b
        let r ← go rest
        pure (⟨f, b⟩ :: r)
      | _ => none
  (go (s.splitOn ",")).map some

def parseRes : String → Option Res
  | "ok" => some .ok | "err" => some .err | "crash" => some .crash | "cancelled" => some .cancelled | _ => none

def showRes : Res → String
  | .ok => "ok" | .err => "err" | .crash => "crash" | .cancelled => "cancelled"

def parseFinL : String → Option FinL
  | "ret" => some .ret | "allfailed" => some .allfailed | "cancelled" => some .cancelled | "crash" => some .crash
  | _ => none

/-- lines of the first step of an attempt: `sock`, `bind…`, then `conn` or `close` -/
def beginLines (locals : Option (List Loc)) (a : Addr) : List String :=
  if ¬ a.sockOk then [s!"sock {a.id} fail"] else
  let binds := match locals with
    | none => []
    | some ls => (bindLoop a.fam 0 ls).1.map fun (j, ok) => s!"bind {a.id} {j} {if ok then "ok" else "fail"}"
  let last := match beginRes locals a with
    | .connecting => s!"conn {a.id}"
    | _ => s!"close {a.id}"
  s!"sock {a.id} ok" :: binds ++ [last]

def showNats (l : List Nat) : String :=
  if l.isEmpty then "-" else String.intercalate "," (l.map toString)

def insertSorted (x : Nat) : List Nat → List Nat
  | [] => [x]
  | y :: ys => if x ≤ y then x :: y :: ys else y :: insertSorted x ys

def sortNats (l : List Nat) : List Nat := l.foldr insertSorted []

def openIds (cfg : Cfg) (s : St) : List Nat :=
  sortNats (((List.range cfg.n).filter fun k => (s.ch k).sock == .opened).map fun k => (cfg.addr k).id)

def posOf (cfg : Cfg) (i : Nat) : Option Nat := cfg.ordered.findIdx? (·.id == i)

def showFin : Fin → (Nat → Nat) → String
  | .ret k, idOf => s!"fin ret {idOf k}"
  | .raised (.allfailed n), _ => s!"fin raise allfailed {n}"
  | .raised .cancelled, _ => "fin raise cancelled"
  | .raised .crash, _ => "fin raise crash"

/-- observable lines of one accepted step (pre-state `s`, post-state `s'`) -/
def raceLines (cfg : Cfg) (s s' : St) : Label → List String
  | .spawn => [s!"spawn {(cfg.addr s.next).id}"]
  | .begin k => beginLines cfg.locals (cfg.addr k)
  | .res k r =>
    s!"res {(cfg.addr k).id} {showRes r}" :: (if (s'.ch k).sock == .closed then [s!"close {(cfg.addr k).id}"] else [])
  | .cancel => ["cancel"]
  | .fin _ =>
    let closeW := match s.winner with
      | some w => if (s'.ch w).sock == .closed then [s!"close {(cfg.addr w).id}"] else []
      | none => []
    let f := match s'.fin with
      | some f => [showFin f fun k => (cfg.addr k).id]
      | none => []
    let o := openIds cfg s'
    closeW ++ f ++ [s!"open {showNats o}", s!"fds +{o.length}"]

def parseRaceOp (cfg : Cfg) (op : String) : Option Label :=
  match words op with
  | ["spawn"] => some .spawn
  | ["begin", i] => do let i ← i.toNat?; let k ← posOf cfg i; pure (.begin k)
  | ["res", i, r] => do let i ← i.toNat?; let k ← posOf cfg i; let r ← parseRes r; pure (.res k r)
  | ["cancel"] => some .cancel
  | ["fin", f] => do let f ← parseFinL f; pure (.fin f)
  | _ => none

def runRaceOps (cfg : Cfg) : St → List String → List String → List String
  | _, [], out => out.reverse
  | s, op :: rest, out =>
    match parseRaceOp cfg op with
    | none => runRaceOps cfg s rest ("bad-op" :: out)
    | some l =>
      match step cfg s l with
      | some s' => runRaceOps cfg s' rest ((raceLines cfg s s' l).reverse ++ out)
      | none => runRaceOps cfg s rest (s!"not-enabled {op}" :: out)

/-! sequential variant -/

def seqOpen (cfg : Cfg) (s : SeqSt) : List Nat :=
  (List.range cfg.addrs.length).filter fun k => s.sock k == .opened

/-- lines produced by `seqFrom` walking from address `k` (mirrors its recursion) -/
def seqFromLines (locals : Option (List Loc)) : List Addr → List String
  | [] => []
  | a :: rest =>
    match beginRes locals a with
    | .connecting => beginLines locals a
    | _ => beginLines locals a ++ seqFromLines locals rest

def seqFinLines (cfg : Cfg) (s : SeqSt) : List String :=
  match s.fin with
  | some f => [showFin f id, s!"open {showNats (seqOpen cfg s)}", s!"fds +{(seqOpen cfg s).length}"]
  | none => []

def runSeqOps (cfg : Cfg) : SeqSt → List String → List String → List String
  | _, [], out => out.reverse
  | s, op :: rest, out =>
    let lab : Option SeqLabel := match words op with
      | ["res", r] => (parseRes r).map SeqLabel.res
      | ["cancel"] => some .cancel
      | ["start"] => some .start
      | ["abort"] => some .abort
      | _ => none
    match lab with
    | none => runSeqOps cfg s rest ("bad-op" :: out)
    | some l =>
      match seqStep cfg s l with
      | none => runSeqOps cfg s rest (s!"not-enabled {op}" :: out)
      | some s' =>
        let lines := match l, s.cur with
          | .cancel, _ => ["cancel"]
          | .start, _ => seqFromLines cfg.locals cfg.addrs ++ seqFinLines cfg s'
          | .abort, _ => seqFinLines cfg s'
          | .res r, some k =>
            let closed := if s'.sock k == Sock.closed then [s!"close {k}"] else []
            let cont := if r == Res.err then seqFromLines cfg.locals (cfg.addrs.drop (k + 1)) else []
            s!"res {k} {showRes r}" :: closed ++ cont ++ seqFinLines cfg s'
          | .res _, none => []
        runSeqOps cfg s' rest (lines.reverse ++ out)

def runRace (model : String) (cfg : List String) (ops : List String) : Option (List String) :=
  match model, cfg with
  | "race", [stagger, locals, addrs] => do
    let stagger ← parseBool stagger; let locals ← parseLocals locals; let addrs ← parseAddrs addrs
    let c : Cfg := ⟨addrs, locals, stagger⟩
    pure (runRaceOps c St.init ops [])
  | "raceseq", [locals, addrs] => do
    let locals ← parseLocals locals; let addrs ← parseAddrs addrs
    let c : Cfg := ⟨addrs, locals, false⟩
    pure (runSeqOps c SeqSt.init ops [])
  | _, _ => none

end EasyNet.Drv
