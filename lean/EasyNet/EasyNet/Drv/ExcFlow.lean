/-
  Driver for the exception-flow model over the generated tables.
    case <id> excflow <pipeline-name>     ops: raise <qualified.class.name>
  prints `top <qualified.class.name>` (what leaves the outermost layer) or `swallowed`.
-/
import EasyNet.Gen.ExcTables
import EasyNet.Drv.Util
namespace EasyNet.Drv
open EasyNet

def runExcFlow (model : String) (cfg : List String) (ops : List String) : Option (List String) :=
  match model, cfg with
  | "excflow", [name] =>
    match Gen.pipelines.find? (fun p => p.name == name) with
    | none => some ["unknown-pipeline"]
    | some p =>
      some (ops.map fun op =>
        match words op with
        | ["raise", q] =>
          match Gen.allExc.find? (fun e => e.name == q) with
          | none => "bad-op"
          | some e =>
            match propagate Gen.sub p.layers e with
            | some r => s!"top {r.name}"
            | none => "swallowed"
        | _ => "bad-op")
  | _, _ => none

end EasyNet.Drv
