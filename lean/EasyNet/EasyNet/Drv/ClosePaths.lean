/-
  Driver for the C14 close-path models.

  case <id> c14 stapled  <steps0> <err0> <steps1> <err1>
  case <id> c14 endpoint <steps> <err>
  case <id> c14 tls      <standard_compatible> <steps> <err>
  case <id> c14 tlswrap  <steps> <err>
  case <id> c14 tcpclient <fixed> <busy> <steps> <err>
  ops: d <ok|err|cancel|timeout|stop|fail>      one decision per suspension of the real operation, in order
  outputs: outcome <ok|cancelled|exc:OSError|exc:Timeout> ; inner <0|1>… ; closing <0|1>
-/
import EasyNet.Model.ClosePaths
import EasyNet.Drv.Util
namespace EasyNet.Drv
open EasyNet.C14

def parseDec : String → Option Dec
  | "ok" => some .ok | "err" => some .err | "cancel" => some .cancel | "timeout" => some .timeout | "stop" => some .stop | "fail" => some .fail
  | _ => none

def parseDecs : List String → Option (List Dec)
  | [] => some []
  | op :: rest =>
    match words op with
    | ["d", x] => do let d ← parseDec x; let r ← parseDecs rest; pure (d :: r)
    | _ => none

def showOut : Out → String
  | .ok => "outcome ok"
  | .raised .err => "outcome exc:OSError"
  | .raised .timeoutErr => "outcome exc:Timeout"
  | .raised _ => "outcome cancelled"

def b01 (b : Bool) : String := if b then "1" else "0"

/-- `closingOf`: how `is_closing()` of the outer object is computed from the flags -/
def c14Show (r : Res) (inners : List Nat) (closingOf : St → Bool) : List String :=
  [showOut r.out, "inner " ++ " ".intercalate (inners.map (fun i => b01 (r.st.has (.inner i)))), "closing " ++ b01 (closingOf r.st)]

def runClosePaths (model : String) (cfg : List String) (ops : List String) : Option (List String) :=
  if model ≠ "c14" then none else
  match parseDecs ops with
  | none => some ["bad-op"]
  | some ds =>
    match cfg with
    | ["stapled", s0, e0, s1, e1] => do
      let s0 ← s0.toNat?; let e0 ← parseBool e0; let s1 ← s1.toNat?; let e1 ← parseBool e1
      pure (c14Show (run (stapledProg s0 e0 s1 e1) ds) [0, 1] (fun st => st.has (.inner 0) && st.has (.inner 1)))
    | ["endpoint", s, e] => do
      let s ← s.toNat?; let e ← parseBool e
      pure (c14Show (run (endpointProg s e) ds) [0] (fun st => st.has (.inner 0)))
    | ["tls", sc, s, e] => do
      let sc ← parseBool sc; let s ← s.toNat?; let e ← parseBool e
      pure (c14Show (run (tlsCloseProg sc s e) ds) [0] (fun st => st.has .closing))
    | ["tlswrap", s, e] => do
      let s ← s.toNat?; let e ← parseBool e
      pure (c14Show (run (tlsWrapProg s e) ds) [0] (fun st => st.has .closing))
    | ["tcpclient", fixed, busy, s, e] => do
      let fixed ← parseBool fixed; let busy ← parseBool busy; let s ← s.toNat?; let e ← parseBool e
      pure (c14Show (run (tcpClientProg fixed busy s e) ds) [0] (fun st => st.has (.inner 0)))
    | _ => none

end EasyNet.Drv
