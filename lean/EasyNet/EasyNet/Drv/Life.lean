/-
  Driver for the server-lifecycle models (C18).

  case <id> life-async <n>      asynchronous server machine `Life.A`, n callers
  case <id> life-sa <n> <fix>   standalone (threads) machine `Life.S`, n threads; fix = 1: server_close propagates the
                                BusyResourceError of the embedded server (docs/C18-fix-1.patch), 0: it is swallowed

  Two kinds of op lines, which may be mixed:

  * explicit schedule (the model is deterministic given the labels):
      prog <i> <op>…            program of caller i (ops: serve shutdown close probe [shutdownT])
      step call <i> | step adv <i> <k> | step cancel <i> | step taskRun | step taskDie | step conn | step disc
                                one labelled step; prints `ret <i> <res>` when a call returns in that step,
                                `not-enabled …` when the model refuses it
      show                      prints `flags <serving> <listening> closed=<b>`
  * observed trace (admission check: is there a model execution that exhibits this trace?). The driver keeps the SET
    of model states compatible with the trace so far; between two observed events any number of internal steps
    (resumptions that do not return a call, listener-task steps) may happen:
      call <i> <op>             caller i starts a call (first segment)
      ret <i> <res>             that call returns with <res>: ok | ServerClosedError | ServerAlreadyRunning |
                                BusyResourceError | cancelled | flags <s> <l>
      cancel <i>  conn  disc    environment events
      flags <s> <l>             is_serving()/is_listening() read from outside
      quiet                     nothing can move any more (no internal step enabled)
      final closed=<b>          listeners closed
    Each admitted line is echoed; the first line no model execution can exhibit prints `not-admitted <line>` and the
    rest of the case is skipped.
-/
import EasyNet.Model.Life
import EasyNet.Drv.Util
namespace EasyNet.Drv
open EasyNet EasyNet.Life

namespace LifeDrv

def b01 (b : Bool) : String := if b then "1" else "0"

def resStr : Res → String
  | .ok => "ok"
  | .closedErr => "ServerClosedError"
  | .alreadyRunning => "ServerAlreadyRunning"
  | .busy => "BusyResourceError"
  | .cancelled => "cancelled"
  | .timedOut => "ok"
  | .flags s l => s!"flags {b01 s} {b01 l}"

def parseRes : List String → Option Res
  | ["ok"] => some .ok
  | ["ServerClosedError"] => some .closedErr
  | ["ServerAlreadyRunning"] => some .alreadyRunning
  | ["BusyResourceError"] => some .busy
  | ["cancelled"] => some .cancelled
  | ["flags", s, l] => do let s ← parseBool s; let l ← parseBool l; pure (.flags s l)
  | _ => none

def parseOp : String → Option Op
  | "shutdownT" => some .shutdownT
  | "serve" => some .serve
  | "shutdown" => some .shutdown
  | "close" => some .close
  | "probe" => some .probe
  | _ => none

/-! ## generic set-of-states search -/

def closure {σ} [BEq σ] (tau : σ → List σ) : Nat → List σ → List σ → List σ
  | 0, _, seen => seen
  | _ + 1, [], seen => seen
  | f + 1, fr, seen =>
    let nxt := ((fr.flatMap tau).eraseDups).filter fun x => !seen.contains x
    closure tau f nxt (seen ++ nxt)

def closeSet {σ} [BEq σ] (tau : σ → List σ) (ss : List σ) : List σ := closure tau 200 ss ss

/-- an observed event: take the closure first?, then the successors of each state -/
structure Ev (σ : Type) where
  closeFirst : Bool
  next : σ → List σ

def runTrace {σ} [BEq σ] (tau : σ → List σ) (parse : String → Option (Ev σ)) : List σ → List String → List String → List String
  | _, [], out => out.reverse
  | ss, op :: rest, out =>
    match parse op with
    | none => runTrace tau parse ss rest ("bad-op" :: out)
    | some ev =>
      let s1 := if ev.closeFirst then closeSet tau ss else ss
      let s2 := (s1.flatMap ev.next).eraseDups
      if s2.isEmpty then (s!"not-admitted {op}" :: out).reverse
      else runTrace tau parse s2 rest (op :: out)

end LifeDrv

/-! ## asynchronous machine -/

namespace LifeA
open LifeDrv
open A

abbrev St := G × List Caller

def toState (s : St) : State := ⟨s.1, fun i => s.2.getD i (Caller.init [])⟩
def ofState (n : Nat) (s : State) : St := (s.g, (List.range n).map s.cs)

def stepL (n : Nat) (s : St) (l : Label) : Option St := (step (toState s) l).map (ofState n)

def nRes (s : St) : Nat := s.2.foldl (fun a c => a + c.results.length) 0

/-- internal steps: resumptions that do not return a call; listener task steps; a client task dying in tear-down -/
def tau (n : Nat) (s : St) : List St :=
  let advs := (List.range n).flatMap fun i => (List.range 3).filterMap fun k =>
    match stepL n s (.adv i k) with
    | some s' => if nRes s' = nRes s then some s' else none
    | none => none
  let env := [Label.taskRun, Label.taskDie].filterMap (stepL n s)
  let cd := if s.1.clientsDying then (stepL n s .disc).toList else []
  advs ++ env ++ cd

def stable (n : Nat) (s : St) : Bool :=
  (tau n s).isEmpty && ((List.range n).all fun i => (List.range 3).all fun k => (stepL n s (.adv i k)).isNone)

def setProg (s : St) (i : Nat) (p : List Op) : St := (s.1, s.2.modify i fun c => { c with prog := p })

/-- caller i returns with result r: either the result is already there (the call returned in its first segment) or
    a resumption of caller i returns now -/
def retNext (n i : Nat) (r : Res) (s : St) : List St :=
  let clear (s : St) : St := (s.1, s.2.modify i fun c => { c with results := [] })
  match s.2[i]? with
  | none => []
  | some c =>
    if c.results = [r] then [clear s]
    else if c.results ≠ [] then []
    else (List.range 3).filterMap fun k =>
      match stepL n s (.adv i k) with
      | some s' => match s'.2[i]? with
        | some c' => if c'.results = [r] then some (clear s') else none
        | none => none
      | none => none

def pending (s : St) : Bool := s.2.any fun c => c.results ≠ []

def parseEv (n : Nat) (line : String) : Option (Ev St) :=
  match words line with
  | ["call", i, op] => do
    let i ← i.toNat?; let op ← parseOp op
    if i ≥ n then none else
    pure ⟨true, fun s => if pending s then [] else (stepL n (setProg s i [op]) (.call i)).toList⟩
  | "ret" :: i :: r => do
    let i ← i.toNat?; let r ← parseRes r
    if i ≥ n then none else
    pure ⟨false, fun s => if pending s then retNext n i r s else (closeSet (tau n) [s]).flatMap (retNext n i r)⟩
  | ["cancel", i] => do
    let i ← i.toNat?
    if i ≥ n then none else pure ⟨true, fun s => if pending s then [] else (stepL n s (.cancel i)).toList⟩
  | ["conn"] => pure ⟨true, fun s => if pending s then [] else (stepL n s .conn).toList⟩
  | ["disc"] => pure ⟨true, fun s => if pending s then [] else
      if s.1.clients = 0 then [s] else (stepL n s .disc).toList⟩
  | ["flags", a, b] => do
    let a ← parseBool a; let b ← parseBool b
    pure ⟨true, fun s => if !pending s && serving s.1 == a && listening s.1 == b then [s] else []⟩
  | ["quiet"] => pure ⟨true, fun s => if !pending s && stable n s then [s] else []⟩
  | ["final", c] =>
    if c == "closed=1" then pure ⟨true, fun s => if !pending s && !s.1.lsOpen then [s] else []⟩
    else if c == "closed=0" then pure ⟨true, fun s => if !pending s && s.1.lsOpen then [s] else []⟩
    else none
  | _ => none

def parseLabel : List String → Option Label
  | ["call", i] => do let i ← i.toNat?; pure (.call i)
  | ["adv", i, k] => do let i ← i.toNat?; let k ← k.toNat?; pure (.adv i k)
  | ["cancel", i] => do let i ← i.toNat?; pure (.cancel i)
  | ["taskRun"] => some .taskRun
  | ["taskDie"] => some .taskDie
  | ["conn"] => some .conn
  | ["disc"] => some .disc
  | _ => none

/-- explicit-schedule ops are handled here; anything else is an observed event -/
def run (n : Nat) : List St → List String → List String → List String
  | _, [], out => out.reverse
  | ss, op :: rest, out =>
    match words op with
    | "prog" :: i :: ops =>
      match i.toNat?, ops.mapM parseOp with
      | some i, some p => if i ≥ n then run n ss rest ("bad-op" :: out) else run n (ss.map fun s => setProg s i p) rest out
      | _, _ => run n ss rest ("bad-op" :: out)
    | "step" :: l =>
      match parseLabel l, ss with
      | some l, [s] =>
        match stepL n s l with
        | some s' =>
          let rets := (List.range n).filterMap fun i =>
            match s.2[i]?, s'.2[i]? with
            | some c, some c' => if c'.results.length > c.results.length then some s!"ret {i} {resStr (c'.results.getLastD .ok)}" else none
            | _, _ => none
          run n [s'] rest (rets.reverse ++ out)
        | none => run n ss rest (s!"not-enabled {op}" :: out)
      | _, _ => run n ss rest ("bad-op" :: out)
    | ["show"] =>
      match ss with
      | [s] => run n ss rest (s!"flags {b01 (serving s.1)} {b01 (listening s.1)} closed={b01 (!s.1.lsOpen)}" :: out)
      | _ => run n ss rest ("bad-op" :: out)
    | _ =>
      match parseEv n op with
      | none => run n ss rest ("bad-op" :: out)
      | some ev =>
        let s1 := if ev.closeFirst then closeSet (tau n) ss else ss
        let s2 := (s1.flatMap ev.next).eraseDups
        if s2.isEmpty then (s!"not-admitted {op}" :: out).reverse
        else run n s2 rest (op :: out)

def init (n : Nat) : St := ofState n (State.init fun _ => [])

end LifeA


/-! ## standalone machine -/

namespace LifeS
open LifeDrv S

abbrev St := G × List Caller

def toState (s : St) : State := ⟨s.1, fun i => s.2.getD i (Caller.init [])⟩
def ofState (n : Nat) (s : State) : St := (s.g, (List.range n).map s.cs)
def stepL (n : Nat) (s : St) (l : Label) : Option St := (step (toState s) l).map (ofState n)
def nRes (s : St) : Nat := s.2.foldl (fun a c => a + c.results.length) 0

/-- internal steps.  OS threads: a call's `ret` line is logged by the calling thread some time AFTER the call really
    returned, so the returning step itself is internal and its result stays pending until the `ret` line consumes it -/
def tau (n : Nat) (s : St) : List St :=
  (List.range n).flatMap fun i => (List.range 2).filterMap fun k => stepL n s (.adv i k)

def stable (n : Nat) (s : St) : Bool :=
  (List.range n).all fun i => (stepL n s (.adv i 0)).isNone

def setProg (s : St) (i : Nat) (p : List Op) : St := (s.1, s.2.modify i fun c => { c with prog := p })

/-- observed result `r` matches model result `m` (`serving=<b>` for is_serving; a timed-out shutdown returns like a normal one) -/
def resMatch (r m : Res) : Bool :=
  match r, m with
  | .ok, .timedOut => true
  | .flags a _, .flags b _ => a == b
  | a, b => a == b

def retNext (_n i : Nat) (r : Res) (s : St) : List St :=
  match s.2[i]? with
  | some c => match c.results with
    | [m] => if resMatch r m then [(s.1, s.2.modify i fun c => { c with results := [] })] else []
    | _ => []
  | none => []

def parseEv (n : Nat) (line : String) : Option (Ev St) :=
  match words line with
  | ["call", i, op] => do
    let i ← i.toNat?; let op ← parseOp op
    if i ≥ n then none else pure ⟨true, fun s => (stepL n (setProg s i [op]) (.call i)).toList⟩
  | "ret" :: i :: r => do
    let i ← i.toNat?
    let r ← match r with
      | ["serving=0"] => some (Res.flags false false)
      | ["serving=1"] => some (Res.flags true false)
      | r => parseRes r
    if i ≥ n then none else pure ⟨true, retNext n i r⟩
  | ["quiet"] => pure ⟨true, fun s => if stable n s then [s] else []⟩
  | ["final", c] =>
    if c == "closed=1" then pure ⟨true, fun s => if !s.1.lsOpen then [s] else []⟩
    else if c == "closed=0" then pure ⟨true, fun s => if s.1.lsOpen then [s] else []⟩
    else none
  | _ => none

def parseLabel : List String → Option Label
  | ["call", i] => do let i ← i.toNat?; pure (.call i)
  | ["adv", i, k] => do let i ← i.toNat?; let k ← k.toNat?; pure (.adv i k)
  | _ => none

def run (n : Nat) : List St → List String → List String → List String
  | _, [], out => out.reverse
  | ss, op :: rest, out =>
    match words op with
    | "prog" :: i :: ops =>
      match i.toNat?, ops.mapM parseOp with
      | some i, some p => if i ≥ n then run n ss rest ("bad-op" :: out) else run n (ss.map fun s => setProg s i p) rest out
      | _, _ => run n ss rest ("bad-op" :: out)
    | "step" :: l =>
      match parseLabel l, ss with
      | some l, [s] =>
        match stepL n s l with
        | some s' =>
          let rets := (List.range n).filterMap fun i =>
            match s.2[i]?, s'.2[i]? with
            | some c, some c' => if c'.results.length > c.results.length then some s!"ret {i} {resStr (c'.results.getLastD .ok)}" else none
            | _, _ => none
          run n [s'] rest (rets.reverse ++ out)
        | none => run n ss rest (s!"not-enabled {op}" :: out)
      | _, _ => run n ss rest ("bad-op" :: out)
    | ["show"] =>
      match ss with
      | [s] => run n ss rest (s!"flags {b01 (s.1.phase == .serving && s.1.lsOpen)} {b01 s.1.lsOpen} closed={b01 (!s.1.lsOpen)}" :: out)
      | _ => run n ss rest ("bad-op" :: out)
    | _ =>
      match parseEv n op with
      | none => run n ss rest ("bad-op" :: out)
      | some ev =>
        let s1 := if ev.closeFirst then closeSet (tau n) ss else ss
        let s2 := (s1.flatMap ev.next).eraseDups
        if s2.isEmpty then (s!"not-admitted {op}" :: out).reverse
        else run n s2 rest (op :: out)

def init (n : Nat) (fix : Bool) : St := ofState n (State.init fix fun _ => [])

end LifeS

def runLife (model : String) (cfg : List String) (ops : List String) : Option (List String) :=
  match model, cfg with
  | "life-async", [n] => do
    let n ← n.toNat?
    pure (LifeA.run n [LifeA.init n] ops [])
  | "life-sa", [n, fix] => do
    let n ← n.toNat?
    let fix ← parseBool fix
    pure (LifeS.run n [LifeS.init n fix] ops [])
  | _, _ => none

end EasyNet.Drv
