/-
  Driver for the C12 sender model.

  case <id> c12 <useLock 0|1>
    pk <t> <hex>          declares the next packet of sender t (all `pk` lines are read first: they are the configuration)
    send <t> | resume <t> | cancel <t> | xmit <t> | write <t> <n> | ret <t> | rel <t>
  outputs (same text as the instrumented real run):
    send s<t> <i> / call s<t> pre <lock> / acq s<t> post <lock> / park s<t> / cancelled s<t> post <lock>
    xmit s<t> <hex> / write s<t> <hex> / ret s<t> / rel s<t> post <lock> / sent s<t> <i> <outcome>
    bad-step (event impossible in the model) / bad-op (unparsable)
    final <lock> / wire <hex>                                   at the end
  <lock> = `L=<0|1> W=[s3*,s1]`  (* = event set)
-/
import EasyNet.Model.Senders
import EasyNet.Drv.Util
namespace EasyNet.Drv
open EasyNet EasyNet.C12

def showLock (l : FairLock) : String :=
  let ws := l.waiters.map (fun w => s!"s{w.1}" ++ (if w.2 then "*" else ""))
  s!"L={if l.locked then 1 else 0} W=[{String.intercalate "," ws}]"

def showOutcome : Outcome → String
  | .ok => "ok" | .busy => "busy" | .cancelled => "cancelled" | .released => "ok" | .lockError => "lock-error"
  | .sentLockError => "lock-error"

def lastOutcome (s : Sys) (t : Tid) : String :=
  match (s.res t).getLast? with
  | some o => showOutcome o
  | none => "?"

/-- the lines one event produces, given the state before and after -/
def showStep (cfg : Cfg) (s s' : Sys) : Ev → List String
  | .send t =>
    let hd := s!"send s{t} {s.idx t}"
    if cfg.useLock then
      match s'.pc t with
      | .waiting => [hd, s!"call s{t} pre {showLock s.lock}", s!"park s{t}"]
      | _ => [hd, s!"call s{t} pre {showLock s.lock}", s!"acq s{t} post {showLock s'.lock}"]
    else
      match s'.pc t with
      | .sending r => [hd, s!"xmit s{t} {toHex r}"]
      | _ => [hd, s!"sent s{t} {s.idx t} {lastOutcome s' t}"]
  | .resume t => [s!"acq s{t} post {showLock s'.lock}"]
  | .cancel t => [s!"cancelled s{t} post {showLock s'.lock}", s!"sent s{t} {s.idx t} {lastOutcome s' t}"]
  | .xmit t =>
    match s'.pc t with
    | .sending r => [s!"xmit s{t} {toHex r}"]
    | _ => (if cfg.useLock then [s!"rel s{t} post {showLock s'.lock}"] else []) ++ [s!"sent s{t} {s.idx t} {lastOutcome s' t}"]
  | .write t _ => [s!"write s{t} {toHex (s'.wire.drop s.wire.length)}"]
  | .ret t =>
    [s!"ret s{t}"] ++ (if cfg.useLock then [s!"rel s{t} post {showLock s'.lock}"] else [])
      ++ [s!"sent s{t} {s.idx t} {lastOutcome s' t}"]
  | .rel t => [s!"rel s{t} post {showLock s'.lock}", s!"sent s{t} {s.idx t} {lastOutcome s' t}"]

def parseEv (ws : List String) : Option Ev :=
  match ws with
  | ["send", t] => do pure (.send (← t.toNat?))
  | ["resume", t] => do pure (.resume (← t.toNat?))
  | ["cancel", t] => do pure (.cancel (← t.toNat?))
  | ["xmit", t] => do pure (.xmit (← t.toNat?))
  | ["write", t, n] => do pure (.write (← t.toNat?) (← n.toNat?))
  | ["ret", t] => do pure (.ret (← t.toNat?))
  | ["rel", t] => do pure (.rel (← t.toNat?))
  | _ => none

/-- configuration = the `pk` lines -/
def collectPackets (ops : List String) : Option (List (Tid × Bytes)) :=
  ops.foldr (fun op acc =>
    match words op with
    | ["pk", t, h] => do
      let acc ← acc; let t ← t.toNat?; let b ← parseHex h
      pure ((t, b) :: acc)
    | "pk" :: _ => none
    | _ => acc) (some [])

def packetsOf (pks : List (Tid × Bytes)) (t : Tid) : List Bytes :=
  (pks.filter (fun p => p.1 == t)).map (·.2)

def runSendersOps (cfg : Cfg) : Sys → List String → List String → List String
  | s, [], out => (s!"wire {toHex s.wire}" :: s!"final {showLock s.lock}" :: out).reverse
  | s, op :: rest, out =>
    match words op with
    | "pk" :: _ => runSendersOps cfg s rest out
    | ws =>
      match parseEv ws with
      | none => runSendersOps cfg s rest ("bad-op" :: out)
      | some e =>
        match step cfg s e with
        | none => runSendersOps cfg s rest ("bad-step" :: out)
        | some s' => runSendersOps cfg s' rest ((showStep cfg s s' e).reverse ++ out)

def runSenders (model : String) (cfg : List String) (ops : List String) : Option (List String) :=
  match model, cfg with
  | "c12", [ul] => do
    let ul ← parseBool ul
    let pks ← collectPackets ops
    let c : Cfg := { useLock := ul, packets := packetsOf pks }
    pure (runSendersOps c Sys.init ops [])
  | _, _ => none

end EasyNet.Drv
