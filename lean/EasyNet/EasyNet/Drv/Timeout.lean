/-
  Driver for the C11 sessions: a sequence of blocking calls on one endpoint / client / datagram transport.

  case <id> tmo <stream|dgram> <endpoint|client> <plain|tls> <copy|buffered> <bufsize> <retry_interval|inf> <sephex> <limit> <fix 0|1>
    op tick <p>
    op recv <T|inf> <none|free|busy:d>          followed by the call's own  sock … / sel …  lines
    op send <T|inf> <payload hex> <none|free|busy:d>    idem
    op iter <T|inf>                             followed by:  next <gap> <free|busy:d>  + its sock … / sel … lines, repeated
  outputs: op <i> | next | lock try | lock wait <t|inf> | rcall <n> | call <offered> <nbufs> | select <R|W> <w|inf>
           | ret pkt <hex> | ret ok | ret timeout | ret eof | ret stop | ret parse | ret err … | ret exhausted … | ret rterr | t <ticks>
  The stream consumer is the C01 copying consumer over the separator framer (`Consumer.next RU.init (RU.feed sep limit false)`).
-/
import EasyNet.Model.Timeout
import EasyNet.Drv.Send
namespace EasyNet.Drv
open EasyNet

def parseLock (s : String) : Option (Option LockEv) :=
  if s == "none" then some none
  else if s == "free" then some (some .free)
  else match s.splitOn ":" with
    | ["busy", d] => d.toNat?.map (fun d => some (.busy d))
    | _ => none

/-- split `lines` into groups that start with a line whose first word is `key`; `none` if something precedes the first group -/
def groupsOf (key : String) (lines : List (List String)) : Option (List (List String × List (List String))) :=
  let rec go : List (List String) → Option (List String × List (List String)) → List (List String × List (List String)) →
      Option (List (List String × List (List String)))
    | [], none, acc => some acc.reverse
    | [], some (h, body), acc => some ((h, body.reverse) :: acc).reverse
    | l :: rest, cur, acc =>
      if l.head? == some key then
        match cur with
        | none => go rest (some (l, [])) acc
        | some (h, body) => go rest (some (l, [])) ((h, body.reverse) :: acc)
      else
        match cur with
        | none => none
        | some (h, body) => go rest (some (h, l :: body)) acc
  go lines none []

def parseCallScripts (body : List (List String)) : Option (List SockCall × List SelEv) :=
  body.foldlM (fun (acc : List SockCall × List SelEv) l =>
    match l with
    | "sock" :: rest => (parseSock rest).map (fun c => (acc.1 ++ [c], acc.2))
    | "sel" :: rest => (parseSel rest).map (fun e => (acc.1, acc.2 ++ [e]))
    | _ => none) ([], [])

inductive POp where
  | tick (p : Nat)
  | recv (t : Tmo) (lk : Option LockEv) (sock : List SockCall) (sel : List SelEv)
  | send (t : Tmo) (data : Bytes) (lk : Option LockEv) (sock : List SockCall) (sel : List SelEv)
  | iter (t : Tmo) (nexts : List NextCall)

def parseOp (g : List String × List (List String)) : Option POp :=
  match g.1 with
  | ["op", "tick", p] => if g.2.isEmpty then p.toNat?.map .tick else none
  | ["op", "recv", t, lk] => do
    let t ← parseTmo t; let lk ← parseLock lk; let sc ← parseCallScripts g.2
    pure (.recv t lk sc.1 sc.2)
  | ["op", "send", t, d, lk] => do
    let t ← parseTmo t; let d ← parseHex d; let lk ← parseLock lk; let sc ← parseCallScripts g.2
    pure (.send t d lk sc.1 sc.2)
  | ["op", "iter", t] => do
    let t ← parseTmo t
    let gs ← groupsOf "next" g.2
    let nexts ← gs.mapM (fun ng =>
      match ng.1 with
      | ["next", gap, lk] => do
        let gap ← gap.toNat?
        let lk ← parseLock lk
        let lk ← lk
        let sc ← parseCallScripts ng.2
        pure (⟨gap, lk, sc.1, sc.2⟩ : NextCall)
      | _ => none)
    pure (.iter t nexts)
  | _ => none

def showRecvOut : RecvOut → String
  | .pkt (.frame d) => s!"ret pkt {toHex d}"
  | .pkt .limit => "ret parse"
  | .timeout => "ret timeout"
  | .eof => "ret eof"
  | .err e => s!"ret {showErr e}"
  | .exhaustedSock => "ret exhausted sock"
  | .exhaustedSel => "ret exhausted sel"
  | .rterr => "ret rterr"
  | .bad => "bad-op"

def showSendOut : Outcome → String
  | .ok => "ret ok"
  | .timeout => "ret timeout"
  | .err e => s!"ret {showErr e}"
  | .aborted => "ret eof"
  | .exhaustedSock => "ret exhausted sock"
  | .exhaustedSel => "ret exhausted sel"
  | .rterr => "ret rterr"
  | .bad => "bad-op"

def _root_.EasyNet.RecvOut.aborts : RecvOut → Bool
  | .exhaustedSock => true
  | .exhaustedSel => true
  | .bad => true
  | _ => false

def _root_.EasyNet.Outcome.aborts : Outcome → Bool
  | .exhaustedSock => true
  | .exhaustedSel => true
  | .bad => true
  | _ => false

/-- log entries added between two worlds, oldest first -/
def newLog (before after : World) : List String :=
  ((after.log.take (after.log.length - before.log.length)).reverse).map showSendObs

structure Sess (κ : Type) where
  cons : κ
  eof : Bool := false
  w : World := { sel := [] }
  out : List String := []     -- newest first
  dead : Bool := false

def Sess.emit {κ} (s : Sess κ) (ls : List String) : Sess κ := { s with out := ls.reverse ++ s.out }

def runStream {κ : Type} (cons0 : κ) (room : κ → Nat) (next : κ → Bytes → κ × Option Item)
    (layerClient : Bool) (fl : Flavour) (ri : Tmo) (sep : Bytes) (fix : Bool)
    (ops : List POp) : List String :=
  let tr : Transport := match fl with | .plain => .sendmsg | .tls => .tls
  let rec goNexts (t : Tmo) : List NextCall → Sess κ → Sess κ
    | [], s => s
    | n :: ns, s =>
      if s.dead then s else
      let w0 : World := { s.w with sel := n.sel, now := s.w.now + n.gap }
      let r := iterNext fl ri room next s.cons s.eof t n.lk n.sock w0
      let line := if r.stop then "ret stop" else showRecvOut r.out
      let s' : Sess κ := { s with cons := r.cons, eof := r.eof, w := r.w, dead := r.out.aborts }
      let s' := s'.emit (["next"] ++ newLog w0 r.w ++ [line, s!"t {r.w.now - w0.now}"])
      if r.stop then s' else goNexts r.tmo ns s'
  let rec go (i : Nat) : List POp → Sess κ → Sess κ
    | [], s => s
    | op :: rest, s =>
      if s.dead then s else
      let s := s.emit [s!"op {i}"]
      match op with
      | .tick p => go (i + 1) rest { s with w := { s.w with now := s.w.now + p } }
      | .recv t lk sock sel =>
        let w0 : World := { s.w with sel := sel }
        let r := clientRecv fl ri room next (if layerClient then lk else none) s.cons s.eof t sock w0
        let s' : Sess κ := { s with cons := r.cons, eof := r.eof, w := r.w, dead := r.out.aborts }
        go (i + 1) rest (s'.emit (newLog w0 r.w ++ [showRecvOut r.out, s!"t {r.w.now - w0.now}"]))
      | .send t d lk sock sel =>
        let w0 : World := { s.w with sel := sel }
        -- RawAutoSep.incremental_serialize: nothing for an empty payload, else payload + separator
        let chunks := if d.isEmpty then [] else [d ++ sep]
        let r := clientSend tr fix 1024 ri (if layerClient then lk else none) chunks t sock w0
        let s' : Sess κ := { s with w := r.2, dead := r.1.aborts }
        go (i + 1) rest (s'.emit (newLog w0 r.2 ++ [showSendOut r.1, s!"t {r.2.now - w0.now}"]))
      | .iter t nexts => go (i + 1) rest (goNexts t nexts s)
  (go 0 ops { cons := cons0 }).out.reverse

def showRetry (isRecv : Bool) (bufsize : Nat) (r : RetryRes) : String :=
  match r.out, r.val with
  | .ok, .got b => s!"ret pkt {toHex (b.take bufsize)}"
  | .ok, .ok _ => if isRecv then "bad-op" else "ret ok"
  | o, _ => showSendOut o

def runDgram (layerClient : Bool) (bufsize : Nat) (ri : Tmo) (ops : List POp) : List String :=
  let rec go (i : Nat) : List POp → Sess Unit → Sess Unit
    | [], s => s
    | op :: rest, s =>
      if s.dead then s else
      let s := s.emit [s!"op {i}"]
      match op with
      | .tick p => go (i + 1) rest { s with w := { s.w with now := s.w.now + p } }
      | .recv t lk sock sel =>
        let w0 : World := { s.w with sel := sel }
        let r := udpClientRecv ri bufsize (if layerClient then lk else none) t sock w0
        go (i + 1) rest ({ s with w := r.w, dead := r.out.aborts }.emit
          (newLog w0 r.w ++ [showRetry true bufsize r, s!"t {r.w.now - w0.now}"]))
      | .send t d lk sock sel =>
        let w0 : World := { s.w with sel := sel }
        let r := udpClientSend ri d (if layerClient then lk else none) t sock w0
        go (i + 1) rest ({ s with w := r.w, dead := r.out.aborts }.emit
          (newLog w0 r.w ++ [showRetry false bufsize r, s!"t {r.w.now - w0.now}"]))
      | .iter _ _ => { s with dead := true }.emit ["bad-op"]
  (go 0 ops { cons := () }).out.reverse

def runTimeout (model : String) (cfg ops : List String) : Option (List String) :=
  match model, cfg with
  | "tmo", [kind, layer, fl, path, bufsize, ri, sep, limit, fix] => do
    let fl ← match fl with | "plain" => some Flavour.plain | "tls" => some Flavour.tls | _ => none
    let layerClient ← match layer with | "client" => some true | "endpoint" => some false | _ => none
    let bufsize ← bufsize.toNat?
    let ri ← parseTmo ri
    let sep ← parseHex sep
    let limit ← limit.toNat?
    let fix ← parseBool fix
    if ri == some 0 ∨ bufsize = 0 ∨ sep.isEmpty ∨ limit = 0 then none else
    match groupsOf "op" (ops.map words) with
    | none => pure ["bad-op"]
    | some gs =>
      match gs.mapM parseOp with
      | none => pure ["bad-op"]
      | some pops =>
        match kind with
        | "stream" =>
          match path with
          | "copy" =>
            pure (runStream (Consumer.new : Consumer RUState) (fun _ => bufsize)
              (Consumer.next RU.init (RU.feed sep limit false)) layerClient fl ri sep fix pops)
          | "buffered" =>
            -- BufferedStreamDataConsumer over `_buffered_readuntil`: the buffer has `limit` bytes (RawAutoSep),
            -- `get_write_buffer()` = prepare, the read size is the free room, `next(nbytes)` after the write
            pure (runStream (BufConsumer.new : BufConsumer BRUState)
              (fun c => (BufConsumer.prepare BRU.init BRU.start limit c).room)
              (fun c chunk =>
                if chunk.isEmpty then BufConsumer.next BRU.init BRU.start limit (BRU.feed true sep false) c 0
                else
                  BufConsumer.next BRU.init BRU.start limit (BRU.feed true sep false)
                    { (BufConsumer.prepare BRU.init BRU.start limit c) with
                      buffer := writeAt (BufConsumer.prepare BRU.init BRU.start limit c).buffer
                        ((BufConsumer.prepare BRU.init BRU.start limit c).start +
                          (BufConsumer.prepare BRU.init BRU.start limit c).written) chunk }
                    chunk.length)
              layerClient fl ri sep fix pops)
          | _ => none
        | "dgram" => pure (runDgram layerClient bufsize ri pops)
        | _ => none
  | _, _ => none

end EasyNet.Drv
