/-
  Driver for the C15 stream-server model.

  case <id> c15 <layer:low|high> ru  <sephex> <limit> <keepEnd> <maxRecv>
  case <id> c15 <layer>          re  <n> <maxRecv>
  case <id> c15 <layer>          bru <fixed> <sephex> <cap> <keepEnd>
  case <id> c15 <layer>          bfx <size> <cap>
  ops (in this order):
    chunk <t> <hex>            data readable at absolute time t (sub-ticks)
    fin <eof|reset|oserror> <t> <filter:0|1>
    oc <none|gen>              on_connection is a coroutine / an async generator (its steps follow)
    gen                        a new handle() generator (its steps follow)
    st <sleep> <timeout|-> <resp:0|1> <close:0|1>
  outputs: the observable lines of vlib/c15_run.py (times as @units or @units+subticks, 2^20 sub-ticks per unit)
-/
import EasyNet.Model.StreamServer
import EasyNet.Drv.Util
namespace EasyNet.Drv
open EasyNet EasyNet.C15

def c15Unit : Nat := 1048576

def showT (t : Nat) : String :=
  if t % c15Unit = 0 then s!"@{t / c15Unit}" else s!"@{t / c15Unit}+{t % c15Unit}"

def showObs : Obs → List String
  | .conn t => [s!"conn {showT t}"]
  | .genStart n t => [s!"gen {n} start {showT t}"]
  | .req n (.frame d) t => [s!"req {n} {toHex d} {showT t}"]
  | .req n .limit t => [s!"err {n} limit {showT t}"]
  | .errTimeout n t => [s!"err {n} timeout {showT t}"]
  | .errExc n b t => [s!"err {n} {if b then "conn" else "oserror"} {showT t}"]
  | .resp n t => [s!"resp {n} {showT t}"]
  | .closedBy n t => [s!"closed-by-handler {n} {showT t}"]
  | .genEnd n closed t => [s!"gen {n} end {if closed then "closed" else "return"} {showT t}"]
  | .disc b t => [s!"disc closing={if b then 1 else 0} {showT t}"]
  | .taskDone t => [s!"task-done {showT t}"]
  | .final cl a n => ["task ok", s!"transport closed={if cl then 1 else 0} aclose_calls={a}", s!"nresp {n}"]

structure C15In where
  chunks : List (Nat × Bytes) := []
  fin : Option (EndKind × Nat × Bool) := none
  oc : Option (Option (List Step)) := none       -- none: not seen yet
  gens : List (List Step) := []
  cur : Option String := none                    -- "oc" or "gen": where `st` lines go
  bad : Bool := false

def parseStep : List String → Option Step
  | [sl, to, r, c] => do
    let sl ← sl.toNat?
    let to ← (if to == "-" then some none else to.toNat?.map some)
    let r ← parseBool r
    let c ← parseBool c
    pure ⟨sl, to, r, c⟩
  | _ => none

def c15Op (a : C15In) (op : String) : C15In :=
  match words op with
  | ["chunk", t, h] =>
    match t.toNat?, parseHex h with
    | some t, some b => if b.isEmpty ∨ a.fin.isSome then { a with bad := true } else { a with chunks := a.chunks ++ [(t, b)] }
    | _, _ => { a with bad := true }
  | ["fin", k, t, f] =>
    match (if k == "eof" then some EndKind.eof else if k == "reset" then some EndKind.reset
           else if k == "oserror" then some EndKind.oserror else none), t.toNat?, parseBool f with
    | some k, some t, some f => { a with fin := some (k, t, f) }
    | _, _, _ => { a with bad := true }
  | ["oc", "none"] => { a with oc := some none, cur := none }
  | ["oc", "gen"] => { a with oc := some (some []), cur := some "oc" }
  | ["gen"] => { a with gens := a.gens ++ [[]], cur := some "gen" }
  | "st" :: rest =>
    match parseStep rest, a.cur with
    | some st, some "oc" =>
      match a.oc with
      | some (some l) => { a with oc := some (some (l ++ [st])) }
      | _ => { a with bad := true }
    | some st, some "gen" =>
      match a.gens.reverse with
      | g :: gs => { a with gens := (( g ++ [st]) :: gs).reverse }
      | [] => { a with bad := true }
    | _, _ => { a with bad := true }
  | _ => { a with bad := true }

def c15Run {κ} (I : Iface κ) (k0 : κ) (layer : Layer) (ops : List String) : List String :=
  let a := ops.foldl c15Op {}
  match a.bad, a.fin, a.oc with
  | false, some (k, t, f), some oc =>
    let sh : Shape := ⟨layer, oc, a.gens⟩
    let tr : Transport := ⟨a.chunks, t, k, f⟩
    (session I k0 sh tr).flatMap showObs
  | _, _, _ => ["bad-op"]

def runStreamServer (model : String) (cfg : List String) (ops : List String) : Option (List String) :=
  if model ≠ "c15" then none else
  match cfg with
  | layer :: rest => do
    let layer ← (if layer == "low" then some Layer.low else if layer == "high" then some Layer.high else none)
    match rest with
    | ["ru", sep, limit, ke, mr] =>
      let sep ← parseHex sep; let limit ← limit.toNat?; let ke ← parseBool ke; let mr ← mr.toNat?
      if sep.isEmpty ∨ limit = 0 ∨ mr = 0 then none else
      pure (c15Run (copyIface RU.init (RU.feed sep limit ke) mr) Consumer.new layer ops)
    | ["re", n, mr] =>
      let n ← n.toNat?; let mr ← mr.toNat?
      if n = 0 ∨ mr = 0 then none else
      pure (c15Run (copyIface RE.init (RE.feed n) mr) Consumer.new layer ops)
    | ["bru", fixed, sep, cap, ke] =>
      let fixed ← parseBool fixed; let sep ← parseHex sep; let cap ← cap.toNat?; let ke ← parseBool ke
      if sep.isEmpty ∨ cap = 0 then none else
      pure (c15Run (bufIface BRU.init BRU.start cap (BRU.feed fixed sep ke)) BufConsumer.new layer ops)
    | ["bfx", size, cap] =>
      let size ← size.toNat?; let cap ← cap.toNat?
      if size = 0 ∨ cap < size then none else
      pure (c15Run (bufIface BFX.init BFX.start cap (BFX.feed size)) BufConsumer.new layer ops)
    | _ => none
  | [] => none

end EasyNet.Drv
