/-
  Driver for the C09 model (Model/TlsEof.lean over the generated tables Gen/TlsEofTables.lean).

  case <id> tlseof async <standard_compatible> <inner_is_closing>
     ops:  op wrap | op recv | op recv_into | op aclose          an API call on the transport; the lines that follow, up to the
                                                                  next `op`, are the responses its SSL object / wrapped transport gave
           s ret <n> <out> <alert>                                SSL call returned (read: n bytes); wrote <out> bytes to the write BIO
           s raise <qualified.class> <pat> <out> <alert>          SSL call raised; pat = strerror contains UNEXPECTED_EOF_WHILE_READING
           t ok | t n <k> | t eof | t raise <qualified.class> | t cancel | t timeout
     prints, per op:  call <…> for every call the model makes, then  res <ok|data n|eof|exc <class>|cancelled|timeout|bad>,
                      `desync` if the script is exhausted / out of step, `unused <k>` if responses are left over
  case <id> tlseof sync <standard_compatible>
     ops:  suppress                                               -> suppress <0|1|unknown>
           recv <recv|recv_into> ret <n> | recv <…> raise <class> <pat>   -> out <data n|eof|wbr|wbw|exc class|bad>
           close <open> <ok|timeout|raise:<class>>…               -> calls <…> ; prop <none|class>
  case <id> tlseof misc
     ops:  iseof <class> <pat>                                    -> iseof <0|1>
           ctx <client> <default-options>                         -> opts <n>
-/
import EasyNet.Gen.TlsEofTables
import EasyNet.Drv.Util
namespace EasyNet.Drv
open EasyNet.TlsEof EasyNet.Gen.TlsEof

namespace TlsEofDrv

def T : Tables TExc := tables

def findExc (q : String) : Option TExc := allExc.find? (fun e => e.name == q)

def parseResp (l : String) : Option (Resp TExc) :=
  match words l with
  | ["s", "ret", n, out, alert] => do
    let n ← n.toNat?; let out ← out.toNat?; let a ← parseBool alert
    pure (.ssl (.ret n) out a)
  | ["s", "raise", q, pat, out, alert] => do
    let e ← findExc q; let p ← parseBool pat; let out ← out.toNat?; let a ← parseBool alert
    pure (.ssl (.raise e p) out a)
  | ["t", "ok"] => some (.tr .ok)
  | ["t", "n", k] => do
    let k ← k.toNat?
    if k = 0 then none else pure (.tr (.n (k - 1)))
  | ["t", "eof"] => some (.tr .eof)
  | ["t", "raise", q] => do let e ← findExc q; pure (.tr (.raise e))
  | ["t", "cancel"] => some (.tr .cancel)
  | ["t", "timeout"] => some (.tr .timeout)
  | _ => none

def parseResps : List String → Option (List (Resp TExc))
  | [] => some []
  | l :: r => do let x ← parseResp l; let xs ← parseResps r; pure (x :: xs)

def b01 (b : Bool) : String := if b then "1" else "0"

def showMethod : Method → String
  | .handshake => "do_handshake" | .read => "read" | .unwrap => "unwrap"

def showCall : Call → String
  | .ssl m => s!"call ssl.{showMethod m}"
  | .getpeercert => "call ssl.getpeercert"
  | .send n a => s!"call t.send {n} {b01 a}"
  | .recvInto => "call t.recv_into"
  | .rbioWrite n => s!"call rbio.write {n}"
  | .rbioEof => "call rbio.write_eof"
  | .wbioEof => "call wbio.write_eof"
  | .innerClose => "call t.aclose"
  | .innerForce => "call t.aclose_forcefully"

def showExn : Exn TExc → String
  | .cls e _ => s!"exc {e.name}"
  | .cancel => "cancelled"
  | .scopeTimeout => "timeout"

def showOut : Out TExc → String
  | .data n => s!"res data {n}"
  | .eof => "res eof"
  | .exc x => "res " ++ showExn x
  | .bad => "res bad"

def showCOut : COut TExc → String
  | .ok => "res ok"
  | .exn x => "res " ++ showExn x

/-- split the op list into (op name, its response lines) -/
def splitOpsF : Nat → List String → List (String × List String)
  | 0, _ => []
  | _, [] => []
  | fuel + 1, l :: rest =>
    let resp := rest.takeWhile (fun x => !(x.startsWith "op "))
    (l, resp) :: splitOpsF fuel (rest.dropWhile (fun x => !(x.startsWith "op ")))

def splitOps (ls : List String) : List (String × List String) := splitOpsF (ls.length + 1) ls

def finish {α} (sh : α → String) (r : Run TExc α) (s : St) : List String × St :=
  match r with
  | none => (["desync"], s)
  | some (o, s', rest, calls) =>
    (calls.map showCall ++ [sh o] ++ (if rest.isEmpty then [] else [s!"unused {rest.length}"]), s')

def runAsync (sc : Bool) : List (String × List String) → St → List String
  | [], s => [s!"state closing={b01 s.closing} closed_ev={b01 s.closedEv} inner_closing={b01 s.innerClosing} reof={b01 s.rEof} fed={s.fed}"]
  | (op, resp) :: more, s =>
    match parseResps resp with
    | none => ["bad-op"]
    | some script =>
      let r : Option (List String × St) :=
        match words op with
        | ["op", "wrap"] => some (finish showCOut (wrap T s script) s)
        | ["op", "recv"] => some (finish showOut (recv T sc .recv s script) s)
        | ["op", "recv_into"] => some (finish showOut (recv T sc .recvInto s script) s)
        | ["op", "aclose"] => some (finish showCOut (aclose T sc s script) s)
        | _ => none
      match r with
      | none => ["bad-op"]
      | some (lines, s') => (op :: lines) ++ runAsync sc more s'

def showSOut : SOut TExc → String
  | .data n => s!"out data {n}"
  | .eof => "out eof"
  | .wouldBlockRead => "out wbr"
  | .wouldBlockWrite => "out wbw"
  | .exc e => s!"out exc {e.name}"
  | .bad => "out bad"

def parseWhich : String → Option Which
  | "recv" => some .recv | "recv_into" => some .recvInto | _ => none

def parseUAns (t : String) : Option (UAns TExc) :=
  if t == "ok" then some .ok
  else if t == "timeout" then some .timeout
  else if t.startsWith "raise:" then (findExc (t.drop 6).toString).map .raise
  else none

def parseUAnss : List String → Option (List (UAns TExc))
  | [] => some []
  | l :: r => do let x ← parseUAns l; let xs ← parseUAnss r; pure (x :: xs)

def showSCall : SCall → String
  | .unwrap => "unwrap" | .closeSocket => "closeSocket"

def runSyncOp (sc : Bool) (op : String) : List String :=
  match words op with
  | ["suppress"] =>
    match T.suppressRagged.eval sc with
    | some b => [s!"suppress {b01 b}"]
    | none => ["suppress unknown"]
  | ["recv", w, "ret", n] =>
    match parseWhich w, n.toNat? with
    | some w, some n => [showSOut (syncRecv T sc w (.ret n))]
    | _, _ => ["bad-op"]
  | ["recv", w, "raise", q, pat] =>
    match parseWhich w, findExc q, parseBool pat with
    | some w, some e, some p => [showSOut (syncRecv T sc w (.raise e p))]
    | _, _, _ => ["bad-op"]
  | "close" :: o :: answers =>
    match parseBool o, parseUAnss answers with
    | some o, some a =>
      let r := syncClose T sc o a
      ["calls " ++ " ".intercalate (r.1.map showSCall),
       "prop " ++ (match r.2 with | some e => e.name | none => "none")]
    | _, _ => ["bad-op"]
  | _ => ["bad-op"]

def runMiscOp (op : String) : List String :=
  match words op with
  | ["iseof", q, pat] =>
    match findExc q, parseBool pat with
    | some e, some p => [s!"iseof {b01 (isEofErr T e p)}"]
    | _, _ => ["bad-op"]
  | ["ctx", client, d] =>
    match T.clientCtx.find? (fun c => c.client == client), d.toNat? with
    | some c, some d => [s!"guards {" && ".intercalate c.guards}", s!"opts {ctxAfter optBit d c.stmts d}"]
    | _, _ => ["bad-op"]
  | _ => ["bad-op"]

end TlsEofDrv

def runTlsEof (model : String) (cfg ops : List String) : Option (List String) :=
  if model ≠ "tlseof" then none else
  match cfg with
  | ["async", sc, ic] => do
    let sc ← parseBool sc; let ic ← parseBool ic
    pure (TlsEofDrv.runAsync sc (TlsEofDrv.splitOps ops) { innerClosing := ic })
  | ["sync", sc] => do
    let sc ← parseBool sc
    pure (ops.flatMap (TlsEofDrv.runSyncOp sc))
  | ["misc"] => some (ops.flatMap TlsEofDrv.runMiscOp)
  | _ => none

end EasyNet.Drv
