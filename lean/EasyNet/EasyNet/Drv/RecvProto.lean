/-
  Driver for the C10 model (EasyNet/Model/RecvProto.lean).

  case <id> rp <maxSize> <guard 0|1> <salvage 0|1>
  ops:     recv <n> | into <cap> | io <hex> | eof | lost <errno, 0 = None> | cancel | turn
  outputs: one line per op (start | busy | io <n> ext|int | io-skip | io-full | eof | eof-skip | lost | cancel |
           idle | parked | ret <hex> | into <n> <hex> | cancelled | err <errno> | err AssertionError), each followed by
           `held <n>` (= _get_read_buffer_size()); at the end `arrived <hex>` and `delivered <hex>`.
-/
import EasyNet.Model.RecvProto
import EasyNet.Drv.Util
namespace EasyNet.Drv.C10
open EasyNet EasyNet.Drv EasyNet.C10.RP

def parseRpEv (op : String) : Option Ev :=
  match words op with
  | ["recv", n] => do let n ← n.toNat?; pure (.start (.recv n))
  | ["into", n] => do let n ← n.toNat?; pure (.start (.into n))
  | ["io", h] => do let b ← parseHex h; pure (.io b)
  | ["eof"] => some .eof
  | ["lost", e] => do let e ← e.toNat?; pure (.lost (if e = 0 then none else some e))
  | ["cancel"] => some .cancel
  | ["turn"] => some .turn
  | _ => none

def showRpOut : Out → String
  | .started => "start"
  | .busy => "busy"
  | .ioSkip => "io-skip"
  | .ioFull => "io-full"
  | .io n toExt _ => s!"io {n} {if toExt then "ext" else "int"}"
  | .eof => "eof"
  | .eofSkip => "eof-skip"
  | .lost => "lost"
  | .cancel => "cancel"
  | .idle => "idle"
  | .parked => "parked"
  | .ret d => s!"ret {toHex d}"
  | .retInto n d => s!"into {n} {toHex d}"
  | .cancelled => "cancelled"
  | .err e => s!"err {e}"
  | .errAssert => "err AssertionError"

def runRp (c : Cfg) (ops : List String) : List String :=
  let rec go (s : St) (outs : List Out) : List String → List String → List String
    | [], acc =>
      (s!"delivered {toHex (deliveredOf outs.reverse)}" :: s!"arrived {toHex (arrivedOf outs.reverse)}" :: acc).reverse
    | op :: rest, acc =>
      match parseRpEv op with
      | none => go s outs rest ("bad-op" :: acc)
      | some ev =>
        let r := step c s ev
        go r.1 (r.2 :: outs) rest (s!"held {r.1.buf.length}" :: showRpOut r.2 :: acc)
  go (St.init c) [] ops []

def runRecvProto (model : String) (cfg : List String) (ops : List String) : Option (List String) :=
  match model, cfg with
  | "rp", [maxSize, g, sv] => do
    let m ← maxSize.toNat?; let g ← parseBool g; let sv ← parseBool sv
    pure (runRp { maxSize := m, guard := g, salvage := sv } ops)
  | _, _ => none

end EasyNet.Drv.C10
