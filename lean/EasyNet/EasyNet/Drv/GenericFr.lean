/-
  Driver for the generic (file-based / compressor) framers.

  case <id> gfr  <limit|-> <entry>…            ops: feed <hex>     copy path      (`-` = compressor: no limit)
  case <id> bgfr <limit|-> <sizehint> <entry>… ops: fill <hex>     buffered path  (capacity computed by the model)
  case <id> gdg  file|comp                     ops: dgram <hex> <eof|ok:<k>|bad:<k>|corrupt>   one-shot deserialize
  case <id> gprod file|comp                    ops: dump <hex> | comp <hex> <hex>              incremental_serialize
  outputs: frame <hex> | err parse | limit | room <n> | crashed | no-entry <pos> | held <hex> | buf <hex>
           ok | missing | invalid | extra            (gdg)
           nothing | chunk <hex>                     (gprod)

  The opaque loader / decompressor is supplied by the case as a table computed by the harness with the REAL library on
  the case's stream `T`:
      <start>:<need>:<end>:<v>    for the bytes starting at absolute offset `start`: EOFError / "not finished" while
                                  fewer than `need - start` bytes are available, afterwards the verdict `v`
                                  (o = packet, b = expected error / wrapped serializer rejects, c = decompressor error)
                                  having consumed `end - start` bytes
      <start>:-                   never anything but EOFError on `T[start:]`
  The accumulated buffer of a generic framer always ends where the received data ends, so during the read that brings
  the total to `total` a buffer `b` is `T[total-|b| : total]`: `loadAt` looks up the entry of `total - |b|`.
  A start offset without entry makes the model wait; the driver reports it (`no-entry`) once the read is processed.
-/
import EasyNet.Model.GenericFr
import EasyNet.Drv.Util
namespace EasyNet.Drv.GFr
open EasyNet EasyNet.GenericFr EasyNet.Drv

structure GEntry where
  start : Nat
  need : Option Nat        -- none = never
  stop : Nat
  verdict : Char
  deriving Repr

def parseGEntry (s : String) : Option GEntry :=
  match s.splitOn ":" with
  | [a, "-"] => do let a ← a.toNat?; pure ⟨a, none, 0, 'o'⟩
  | [a, n, e, v] => do
    let a ← a.toNat?; let n ← n.toNat?; let e ← e.toNat?
    if a ≤ e ∧ e ≤ n then
      (if v == "o" then some ⟨a, some n, e, 'o'⟩ else if v == "b" then some ⟨a, some n, e, 'b'⟩
       else if v == "c" then some ⟨a, some n, e, 'c'⟩ else none)
    else none
  | _ => none

def findEntry (tbl : List GEntry) (p : Nat) : Option GEntry := tbl.find? (·.start == p)

/-- the case's decompressor, during the read that brings the received total to `total` -/
def decAt (tbl : List GEntry) (total : Nat) (b : Bytes) : DecRes :=
  match findEntry tbl (total - b.length) with
  | none => .more
  | some e =>
    match e.need with
    | none => .more
    | some n =>
      if total < n then .more
      else if e.verdict == 'c' then .corrupt
      else .fin (e.stop - e.start) (e.verdict == 'o')

/-- the case's file loader -/
def loadAt (tbl : List GEntry) (total : Nat) (b : Bytes) : LoadRes := loadOf (decAt tbl total) b

def showGItem : Item → String
  | .frame (t :: d) => if t == okTag then s!"frame {toHex d}" else "err parse"
  | .frame [] => "bad-item"
  | .limit => "limit"

def noEntry (tbl : List GEntry) (total : Nat) (held : Bytes) : List String :=
  if held.isEmpty then [] else
  match findEntry tbl (total - held.length) with
  | some _ => []
  | none => [s!"no-entry {total - held.length}"]

def runCopyAt {σ} (init : σ) (feedAt : Nat → σ → Bytes → Res σ) (acc : σ → Bytes) (tbl : List GEntry)
    (ops : List String) : List String :=
  let rec go (c : Consumer σ) (total : Nat) : List String → List String → List String
    | [], out => (s!"held {toHex (c.held acc)}" :: s!"buf {toHex c.buffer}" :: out).reverse
    | op :: rest, out =>
      match words op with
      | ["feed", h] =>
        match parseHex h with
        | some b =>
          let total := total + b.length
          let r := Consumer.recvChunk init (feedAt total) c b
          go r.1 total rest ((noEntry tbl total (r.1.held acc)).reverse ++ (r.2.map showGItem).reverse ++ out)
        | none => go c total rest ("bad-op" :: out)
      | _ => go c total rest ("bad-op" :: out)
  go Consumer.new 0 ops []

def gbufHeld {σ} (c : BufConsumer σ) (acc : σ → Bytes) : Bytes :=
  match c.fr with
  | some s => acc s ++ c.buffer.take c.written
  | none => []

def runBufAt {σ} (init : σ) (cap : Nat) (feedAt : Nat → σ → Bytes → Nat → BRes σ) (acc : σ → Bytes)
    (tbl : List GEntry) (ops : List String) : List String :=
  let rec go (c : BufConsumer σ) (total : Nat) : List String → List String → List String
    | [], out => (s!"held {toHex (gbufHeld c acc)}" :: out).reverse
    | op :: rest, out =>
      if c.crashed then go c total rest ("crashed" :: out) else
      match words op with
      | ["fill", h] =>
        match parseHex h with
        | some b =>
          let c1 := BufConsumer.prepare init 0 cap c
          let out := s!"room {c1.room}" :: out
          if b.length > c1.room then go c total rest ("bad-op" :: out) else
          let total := total + b.length
          let r := BufConsumer.fill init 0 cap (feedAt total) c b
          go r.1 total rest ((noEntry tbl total (gbufHeld r.1 acc)).reverse ++ (r.2.map showGItem).reverse ++ out)
        | none => go c total rest ("bad-op" :: out)
      | _ => go c total rest ("bad-op" :: out)
  go BufConsumer.new 0 ops []

def showOneShot : OneShot → String
  | .pkt => "ok"
  | .missing => "missing"
  | .invalid => "invalid"
  | .extra => "extra"

def parseDec (s : String) : Option DecRes :=
  match s.splitOn ":" with
  | ["eof"] => some .more
  | ["corrupt"] => some .corrupt
  | ["ok", k] => do let k ← k.toNat?; pure (.fin k true)
  | ["bad", k] => do let k ← k.toNat?; pure (.fin k false)
  | _ => none

def parseEntries (es : List String) : Option (List GEntry) := es.mapM parseGEntry

end EasyNet.Drv.GFr

namespace EasyNet.Drv
open EasyNet EasyNet.GenericFr EasyNet.Drv.GFr

def runGenericFr (model : String) (cfg : List String) (ops : List String) : Option (List String) :=
  match model, cfg with
  | "gfr", limit :: entries => do
    let tbl ← parseEntries entries
    if limit == "-" then
      pure (runCopyAt cinit (fun total => cfeed (decAt tbl total)) (·.fed) tbl ops)
    else
      let limit ← limit.toNat?
      if limit = 0 then none else
      pure (runCopyAt GenericFr.init (fun total => feed (loadAt tbl total) limit) (·.buf) tbl ops)
  | "bgfr", limit :: hint :: entries => do
    let tbl ← parseEntries entries
    let hint ← hint.toNat?
    if hint = 0 then none else
    if limit == "-" then
      pure (runBufAt cinit (cbufCap hint) (fun total => cbfeed (decAt tbl total)) (·.fed) tbl ops)
    else
      let limit ← limit.toNat?
      if limit = 0 then none else
      pure (runBufAt GenericFr.init (bufCap limit hint) (fun total => bfeed (loadAt tbl total) limit) (·.buf) tbl ops)
  | "gdg", [kind] =>
    if kind ≠ "file" ∧ kind ≠ "comp" then none else
    pure (ops.map fun op =>
      match words op with
      | ["dgram", h, r] =>
        match parseHex h, parseDec r with
        | some d, some res =>
          if kind == "file" then
            (match res with
             | .corrupt => "bad-op"
             | _ => showOneShot (deserialize (loadOf (fun _ => res)) d))
          else showOneShot (cdeserialize (fun _ => res) d)
        | _, _ => "bad-op"
      | _ => "bad-op")
  | "gprod", [kind] =>
    if kind ≠ "file" ∧ kind ≠ "comp" then none else
    pure (ops.flatMap fun op =>
      let render (cs : List Bytes) : List String :=
        if cs.isEmpty then ["nothing"] else cs.map (fun c => s!"chunk {toHex c}")
      match kind, words op with
      | "file", ["dump", h] =>
        match parseHex h with
        | some d => render (produce d)
        | none => ["bad-op"]
      | "comp", ["comp", h1, h2] =>
        match parseHex h1, parseHex h2 with
        | some a, some b => render (cproduce (fun _ => (a, b)) [])
        | _, _ => ["bad-op"]
      | _, _ => ["bad-op"])
  | _, _ => none

end EasyNet.Drv
