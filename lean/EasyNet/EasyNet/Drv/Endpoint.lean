/-
  Driver for the endpoint receive model (C03).
    case <id> ep copy ru <sephex> <limit> <keepEnd> <maxRecv>
    case <id> ep copy re <n> <maxRecv>
    case <id> ep buf bru <sephex> <cap> <keepEnd>
    case <id> ep buf bfx <size> <cap>
  ops:  ev data <hex> | ev eof | ev block | ev reset | ev oserr      (the transport script, in order)
        call <zero 0|1> [client]                                      (one recv_packet; `client` = TCP client error mapping)
  prints per call: frame <hex> | limit | timeout | eos | connerr | oserr | stuck, then `nreads <n>`.
-/
import EasyNet.Model.Endpoint
import EasyNet.Drv.Util
namespace EasyNet.Drv
open EasyNet EasyNet.C03 EasyNet.C15

def c03ShowOut : ROut → String
  | .item (.frame d) => s!"frame {toHex d}"
  | .item .limit => "limit"
  | .timeout => "timeout"
  | .eos => "eos"
  | .connErr => "connerr"
  | .osErr => "oserr"
  | .stuck => "stuck"

def c03ParseEv : List String → Option TEv
  | ["data", h] => (parseHex h).map TEv.data
  | ["eof"] => some .eof
  | ["block"] => some .block
  | ["reset"] => some .reset
  | ["oserr"] => some .oserr
  | _ => none

def c03Run {κ} (I : Iface κ) (k0 : κ) (ops : List String) : List String :=
  let evs := ops.filterMap (fun op => match words op with | "ev" :: rest => c03ParseEv rest | _ => none)
  let nEv := (ops.filter (fun op => (words op).head? == some "ev")).length
  if evs.length ≠ nEv then ["bad-op"] else
  let rec go (s : EP κ) : List String → List String → List String
    | [], out => out.reverse
    | op :: rest, out =>
      match words op with
      | "ev" :: _ => go s rest out
      | "call" :: z :: more =>
        match parseBool z with
        | some zero =>
          let r := EP.receive I s zero
          let o := if more == ["client"] then clientOut r.2 else r.2
          go r.1 rest (s!"nreads {r.1.nreads}" :: c03ShowOut o :: out)
        | none => go s rest ("bad-op" :: out)
      | _ => go s rest ("bad-op" :: out)
  go ⟨k0, false, evs, [], 0⟩ ops []

def runEndpoint (model : String) (cfg : List String) (ops : List String) : Option (List String) :=
  match model, cfg with
  | "ep", ["copy", "ru", sep, limit, ke, mr] => do
    let sep ← parseHex sep; let limit ← limit.toNat?; let ke ← parseBool ke; let mr ← mr.toNat?
    if sep.isEmpty ∨ limit = 0 ∨ mr = 0 then none else
    pure (c03Run (copyIface RU.init (RU.feed sep limit ke) mr) Consumer.new ops)
  | "ep", ["copy", "re", n, mr] => do
    let n ← n.toNat?; let mr ← mr.toNat?
    if n = 0 ∨ mr = 0 then none else
    pure (c03Run (copyIface RE.init (RE.feed n) mr) Consumer.new ops)
  | "ep", ["buf", "bru", sep, cap, ke] => do
    let sep ← parseHex sep; let cap ← cap.toNat?; let ke ← parseBool ke
    if sep.isEmpty ∨ cap = 0 then none else
    pure (c03Run (bufIface BRU.init BRU.start cap (BRU.feed true sep ke)) BufConsumer.new ops)
  | "ep", ["buf", "bfx", size, cap] => do
    let size ← size.toNat?; let cap ← cap.toNat?
    if size = 0 ∨ cap < size then none else
    pure (c03Run (bufIface BFX.init BFX.start cap (BFX.feed size)) BufConsumer.new ops)
  | _, _ => none

end EasyNet.Drv
