/-
  Driver for the datagram-server model (C16).

  case <id> dgsrv <naddr>
  ops: arrive <a> <hex> | h <a> | hl <a> | y <a> | yt <a> <t> | end <a> r|e | rs <a> | wk <a> | to <a> | quiet
  outputs: the observable lines of harness/vlib/c16_env.py (minus the noise lines gate/go/hs);
           `not-enabled <op>` when the model refuses a step.
-/
import EasyNet.Model.DgramSrv
import EasyNet.Drv.Util
namespace EasyNet.Drv
open EasyNet EasyNet.DgramSrv

/-- datagrams are kept as their hex text; a payload starting with '!' (0x21) does not parse -/
def dgLine (a : Nat) (d : String) : String :=
  if d.startsWith "21" then s!"bad {a} {d}" else s!"req {a} {d}"

structure DgAcc where
  sys : Sys String
  amax : Nat → Nat

def DgAcc.upd (acc : DgAcc) (a : Nat) (c : Client String) : DgAcc :=
  { sys := fun b => if b = a then c else acc.sys b,
    amax := fun b => if b = a then max (acc.amax a) c.active else acc.amax b }

/-- lines of an accepted step of client `a` (pre-state `c`, post-state `c'`) -/
def dgLines (a : Nat) (c c' : Client String) (echo : String) : Label String → List String
  | .arrive _ => [echo]
  | .h =>
    let d := c.inflight.headD "?"
    s!"h {a} {d}" :: (if c'.active > c.active then [s!"cb {a}"] else [])
  | .hl => s!"hl {a}" :: (if c'.active > c.active then [s!"cb {a}"] else [])
  | .gy _ =>
    echo :: (if c'.consumed.length > c.consumed.length then [dgLine a (c'.consumed.getLastD "?")] else [])
  | .ge => [echo]
  | .rs => [echo, s!"cb {a}"]
  | .wk => echo :: (if c'.consumed.length > c.consumed.length then [dgLine a (c'.consumed.getLastD "?")] else [])
  | .to => [s!"to {a}"]

def parseDgOp (op : String) : Option (Nat × Label String) :=
  match words op with
  | ["arrive", a, d] => do let a ← a.toNat?; let _ ← parseHex d; pure (a, .arrive d)
  | ["h", a] => do let a ← a.toNat?; pure (a, .h)
  | ["hl", a] => do let a ← a.toNat?; pure (a, .hl)
  | ["y", a] => do let a ← a.toNat?; pure (a, .gy false)
  | ["yt", a, t] => do let a ← a.toNat?; let _ ← t.toNat?; pure (a, .gy true)
  | ["end", a, x] => do let a ← a.toNat?; if x == "r" ∨ x == "e" then pure (a, .ge) else none
  | ["rs", a] => do let a ← a.toNat?; pure (a, .rs)
  | ["wk", a] => do let a ← a.toNat?; pure (a, .wk)
  | ["to", a] => do let a ← a.toNat?; pure (a, .to)
  | _ => none

def dgFinal (n : Nat) (acc : DgAcc) : List String :=
  "quiet" :: (List.range n).flatMap fun a =>
    let c := acc.sys a
    [s!"left {a} {c.arrived.length - c.consumed.length}", s!"active-max {a} {acc.amax a}"]

def runDgOps (n : Nat) : DgAcc → List String → List String → List String
  | _, [], out => out.reverse
  | acc, op :: rest, out =>
    if op == "quiet" then runDgOps n acc rest ((dgFinal n acc).reverse ++ out) else
    match parseDgOp op with
    | none => runDgOps n acc rest ("bad-op" :: out)
    | some (a, l) =>
      if a ≥ n then runDgOps n acc rest ("bad-op" :: out) else
      let c := acc.sys a
      match step c l with
      | some c' =>
        let flag := if c'.bad ∧ ¬ c.bad then ["inconsistent-state"] else []
        runDgOps n (acc.upd a c') rest (flag ++ (dgLines a c c' op l).reverse ++ out)
      | none => runDgOps n acc rest (s!"not-enabled {op}" :: out)

def runDgramSrv (model : String) (cfg : List String) (ops : List String) : Option (List String) :=
  match model, cfg with
  | "dgsrv", [n] => do
    let n ← n.toNat?
    pure (runDgOps n ⟨Sys.init, fun _ => 0⟩ ops [])
  | _, _ => none

end EasyNet.Drv
