/-
  Driver for the blocking send paths (C04).

  case <id> send <sendmsg|join|tls> <packet|iterable|all> <fix 0|1> <SC_IOV_MAX> <timeout|inf> <retry_interval|inf>
    chunk <hex>                          one chunk produced for the packet (in order; `-` = empty chunk)
    sock <kind> <n> <p>                  one socket answer: kind ∈ sent data eagain eintr wantr wantw sysc zeroret reset pipe,
                                         n = byte count for `sent` (hex bytes for `data`), p = processing ticks of the call
    sel <ready|expired> <d>              one select() answer
  outputs: call <offered> <nbufs> | select <R|W> <wait|inf> | wire <hex> | out … | time <ticks>

  The parsing/printing helpers for scripts, timeouts, logs and outcomes are shared with Drv/Timeout.lean.
-/
import EasyNet.Model.Send
import EasyNet.Drv.Util
namespace EasyNet.Drv
open EasyNet

def parseTmo (s : String) : Option Tmo :=
  if s == "inf" then some none else s.toNat?.map some

def parseInt (s : String) : Option Int :=
  if s.startsWith "-" then (s.drop 1).toNat?.map (fun n => - (n : Int)) else s.toNat?.map (fun n => (n : Int))

def parseSockEv (kind arg : String) : Option SockEv :=
  match kind with
  | "sent" => arg.toNat?.map .sent
  | "data" => (parseHex arg).map .data
  | "eagain" => some .eagain
  | "eintr" => some .eintr
  | "wantr" => some .wantR
  | "wantw" => some .wantW
  | "sysc" => some .sysc
  | "zeroret" => some .zeroRet
  | "reset" => some .reset
  | "pipe" => some .pipe
  | _ => none

def parseSock (ws : List String) : Option SockCall :=
  match ws with
  | [kind, arg, p] => do
    let ev ← parseSockEv kind arg
    let p ← p.toNat?
    pure ⟨ev, p⟩
  | _ => none

def parseSel (ws : List String) : Option SelEv :=
  match ws with
  | ["ready", d] => d.toNat?.map .ready
  | ["expired", d] => d.toNat?.map .expired
  | _ => none

def showTmo : Tmo → String
  | none => "inf"
  | some t => toString t

def showSendObs : Obs → String
  | .call o n => s!"call {o} {n}"
  | .rcall n => s!"rcall {n}"
  | .select .R w => s!"select R {showTmo w}"
  | .select .W w => s!"select W {showTmo w}"
  | .lockTry => "lock try"
  | .lockWait w => s!"lock wait {showTmo w}"
  | .lockRelease => "lock release"

def showErr : ErrK → String
  | .reset => "err reset"
  | .pipe => "err pipe"
  | .blockingIO => "exc BlockingIOError"
  | .interrupted => "exc InterruptedError"
  | .sslWantRead => "exc SSLWantReadError"
  | .sslWantWrite => "exc SSLWantWriteError"
  | .sslSyscall => "exc SSLSyscallError"
  | .sslZeroReturn => "exc SSLZeroReturnError"

def showOutcomeA1 : Outcome → String
  | .ok => "out ok"
  | .timeout => "out timeout"
  | .err e => s!"out {showErr e}"
  | .aborted => "out err aborted"
  | .exhaustedSock => "out exhausted sock"
  | .exhaustedSel => "out exhausted sel"
  | .rterr => "out rterr"
  | .bad => "bad-op"

/-- scripts parsed from the op lines -/
structure Scripts where
  chunks : List Bytes := []
  sock : List SockCall := []
  sel : List SelEv := []
  bad : Bool := false

def parseScripts (ops : List String) : Scripts :=
  let s := ops.foldl (fun (acc : Scripts) op =>
    match words op with
    | ["chunk", h] => match parseHex h with
      | some b => { acc with chunks := b :: acc.chunks }
      | none => { acc with bad := true }
    | "sock" :: rest => match parseSock rest with
      | some c => { acc with sock := c :: acc.sock }
      | none => { acc with bad := true }
    | "sel" :: rest => match parseSel rest with
      | some e => { acc with sel := e :: acc.sel }
      | none => { acc with bad := true }
    | _ => { acc with bad := true }) {}
  { s with chunks := s.chunks.reverse, sock := s.sock.reverse, sel := s.sel.reverse }

def parseTransport (s : String) : Option Transport :=
  match s with
  | "sendmsg" => some .sendmsg
  | "join" => some .nosendmsg
  | "tls" => some .tls
  | _ => none

def runSend (model : String) (cfg ops : List String) : Option (List String) :=
  match model, cfg with
  | "send", [tr, entry, fix, iov, t, ri] => do
    let tr ← parseTransport tr
    let fix ← parseBool fix
    let iov ← parseInt iov
    let t ← parseTmo t
    let ri ← parseTmo ri
    if ri == some 0 then none else
    let sc := parseScripts ops
    if sc.bad then pure ["bad-op"] else
    let w0 : World := { sel := sc.sel }
    let r ← match entry with
      | "packet" => some (sendPacket tr fix iov ri sc.chunks t sc.sock w0)
      | "iterable" => some (sendAllFromIterable tr fix iov ri sc.chunks t sc.sock w0)
      | "all" => some (sendAllOn tr ri sc.chunks.flatten t sc.sock w0)
      | _ => none
    pure (r.2.log.reverse.map showSendObs ++ [s!"wire {toHex r.2.wire}", showOutcomeA1 r.1, s!"time {r.2.now}"])
  | _, _ => none

end EasyNet.Drv
