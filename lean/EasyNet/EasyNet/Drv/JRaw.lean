/-
  Driver for the raw JSON stream framer (JSONSerializer(use_lines=False)) under the copying consumer.

  case <id> jraw <limit>          ops: feed <hex> | next
  outputs: frame <hex> | limit | stop | held <hex> (at end) | buf <hex> (at end)      (same format as `ru`)
  case <id> jrawprod              ops: ser <hex of the encoded JSON text>   -> chunk <hex>   (JSONSerializer.incremental_serialize)
-/
import EasyNet.Model.JRaw
import EasyNet.Drv.Framing
namespace EasyNet.Drv
open EasyNet

def runJRaw (model : String) (cfg : List String) (ops : List String) : Option (List String) :=
  match model, cfg with
  | "jraw", [limit] => do
    let limit ← limit.toNat?
    if limit = 0 then none else
    pure (runCopy JRaw.init (JRaw.feed limit) (·.doc) ops)
  | "jrawprod", [] =>
    pure (ops.map fun op =>
      match words op with
      | ["ser", h] =>
        match parseHex h with
        | some d => s!"chunk {toHex (JRaw.produce d)}"
        | none => "bad-op"
      | _ => "bad-op")
  | _, _ => none

end EasyNet.Drv
