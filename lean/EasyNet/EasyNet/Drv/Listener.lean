/-
  Driver for the listener machine (C14 / C18).

  case <id> lsn
    acceptCall | acceptDone <ok|capacity|ignorable|other> | scopeDelivered | backoffDone | extCancel
    | closeCall | closeResume | closeCancel
    | state
  outputs, one line per event:  <out|-|disabled> ;  `state`:  state m=<0|1> ref=<0|1> open=<0|1>
     out ∈ accepted ebusy ebadf oserror acceptCancelled closeReturned closeCancelled ; `-` = the coroutine is parked
-/
import EasyNet.Model.Listener
import EasyNet.Drv.Framing
namespace EasyNet.Drv
open EasyNet EasyNet.Lsn

def parseLsnEv (l : List String) : Option Ev :=
  match l with
  | ["acceptCall"] => some .acceptCall
  | ["acceptDone", "ok"] => some (.acceptDone .ok)
  | ["acceptDone", "capacity"] => some (.acceptDone .capacity)
  | ["acceptDone", "ignorable"] => some (.acceptDone .ignorable)
  | ["acceptDone", "other"] => some (.acceptDone .other)
  | ["scopeDelivered"] => some .scopeDelivered
  | ["backoffDone"] => some .backoffDone
  | ["extCancel"] => some .extCancel
  | ["closeCall"] => some .closeCall
  | ["closeResume"] => some .closeResume
  | ["closeCancel"] => some .closeCancel
  | _ => none

def showLsnOut : Option Out → String
  | none => "-"
  | some .accepted => "accepted"
  | some .ebusy => "ebusy"
  | some .ebadf => "ebadf"
  | some .oserror => "oserror"
  | some .acceptCancelled => "acceptCancelled"
  | some .closeReturned => "closeReturned"
  | some .closeCancelled => "closeCancelled"

def lsnBit (b : Bool) : String := if b then "1" else "0"

def showLsnSt (s : St) : String := s!"m={lsnBit s.marker} ref={lsnBit s.sockRef} open={lsnBit s.osOpen}"

def runLsnOps : St → List String → List String → List String
  | _, [], out => out.reverse
  | s, op :: rest, out =>
    if words op == ["state"] then runLsnOps s rest (s!"state {showLsnSt s}" :: out) else
    match parseLsnEv (words op) with
    | none => runLsnOps s rest ("bad-op" :: out)
    | some e =>
      match Lsn.step s e with
      | none => runLsnOps s rest ("disabled" :: out)
      | some (s', o) => runLsnOps s' rest (showLsnOut o :: out)

def runListener (model : String) (cfg ops : List String) : Option (List String) :=
  match model, cfg with
  | "lsn", [] => some (runLsnOps St.init ops [])
  | _, _ => none

end EasyNet.Drv
