/-
  endriver front-end of the cancel-scope model (C13).

    case <id> cs <fix 0|1> <extLast 0|1> <maxTurns> <ext times…>
    sleep 3 | yield | syield | cancel 0 | resched 0 4 | resched 0 inf
    scope m|t <delay|inf> <pre 0|1> … endscope | shield … endshield | try … endtry
    end

  statement id = index of its (opening) line.  Output: the trace lines of harness/vlib/c13_run.py.
-/
import EasyNet.Model.CancelScope
import EasyNet.Drv.Util
namespace EasyNet.Drv
open EasyNet.CS

def parseDelay (s : String) : Option (Option Nat) :=
  if s == "inf" then some none else s.toNat?.map some

/-- parse statements until `closer` (or the end of input when `closer = none`);
    returns the block, the index of the next line and the remaining lines -/
def parseBlock : Nat → Option String → Nat → List String → Option (List Stmt × Nat × List String)
  | 0, _, _, _ => none
  | _ + 1, none, idx, [] => some ([], idx, [])
  | _ + 1, some _, _, [] => none
  | fuel + 1, closer, idx, l :: rest =>
    let w := words l
    if (match closer, w with | some c, [x] => c == x | _, _ => false) then
      some ([], idx + 1, rest)
    else
      let simple (s : Stmt) : Option (List Stmt × Nat × List String) := do
        let r ← parseBlock fuel closer (idx + 1) rest
        pure (s :: r.1, r.2.1, r.2.2)
      let compound (closer' : String) (mk : List Stmt → Stmt) : Option (List Stmt × Nat × List String) := do
        let b ← parseBlock fuel (some closer') (idx + 1) rest
        let r ← parseBlock fuel closer b.2.1 b.2.2
        pure (mk b.1 :: r.1, r.2.1, r.2.2)
      match w with
      | ["sleep", d] => do let d ← d.toNat?; simple (.sleep idx d)
      | ["yield"] => simple (.yield_ idx)
      | ["syield"] => simple (.syield idx)
      | ["cancel", i] => do let i ← i.toNat?; simple (.cancel idx i)
      | ["resched", i, d] => do let i ← i.toNat?; let d ← parseDelay d; simple (.resched idx i d)
      | ["scope", kind, d, pre] => do
        let to ← (if kind == "t" then some true else if kind == "m" then some false else none)
        let d ← parseDelay d
        let pre ← parseBool pre
        compound "endscope" (fun b => .scope idx to d pre b)
      | ["shield"] => compound "endshield" (fun b => .shield idx b)
      | ["try"] => compound "endtry" (fun b => .tryc idx b)
      | _ => none

def showOutCS : Out → String
  | .ok => "ok" | .cancel => "cancel" | .timeout => "timeout"

def showB (b : Bool) : String := if b then "1" else "0"

def showBits (cc : List Bool) : String := if cc.isEmpty then "-" else String.join (cc.map showB)

def showEv : Ev → String
  | .blk id t cc => s!"blk {id} {t} " ++ showBits cc
  | .ret id t => s!"ret {id} {t}"
  | .exc id t => s!"exc {id} {t}"
  | .did id t => s!"do {id} {t}"
  | .enter id t c => s!"enter {id} {t} {c}"
  | .exit id t r o called caught c h pc =>
    s!"exit {id} {t} in={showOutCS r} out={showOutCS o} called={showB called} caught={showB caught} cancelling={c} handles={h} pc={showBits pc}"
  | .sin id t => s!"sin {id} {t}"
  | .sout id t o => s!"sout {id} {t} {showOutCS o}"
  | .swallow id t => s!"swallow {id} {t}"
  | .ext t d => s!"ext {t} {showB d}"
  | .assertion => "assertion"

def showResCS : Res → String
  | .ok => "ok" | .cancel => "cancel" | .timeout => "timeout" | .crash => "crash"

/-- names of the scope-machinery handles still alive when the task is done (sorted like the harness does) -/
def leftNames (k : K) : String :=
  let hs : List Handle := k.ready ++ k.batch ++ k.timers.map (·.2.2)
  let n1 := (hs.filter (fun h => match h with | .delayedCancel _ => true | _ => false)).length
  let n2 := (hs.filter (fun h => match h with | .deliver _ => true | _ => false)).length
  let n3 := (hs.filter (fun h => match h with | .timeoutCancel _ => true | _ => false)).length
  let names := List.replicate n1 "cs.__cancel_task_unless_done" ++ List.replicate n2 "cs.__deliver_cancellation"
    ++ List.replicate n3 "cs.cancel"
  if names.isEmpty then "-" else String.intercalate "," names

def showRun (r : K × Stop) : List String :=
  let k := r.1
  let tail := match r.2, k.done with
    | .done, some res => [s!"end {k.now} {showResCS res} cancelling={k.numCancels} left={leftNames k}"]
    | .deadlock, _ => [s!"deadlock {k.now}"]
    | _, _ => ["overrun"]
  k.out.reverse.map showEv ++ tail ++ (if k.bad then ["bad"] else [])

def parseNats : List String → Option (List Nat)
  | [] => some []
  | x :: xs => do let n ← x.toNat?; let r ← parseNats xs; pure (n :: r)

def runCancelScope (model : String) (cfg : List String) (ops : List String) : Option (List String) :=
  match model, cfg with
  | "cs", fix :: extLast :: maxTurns :: ext => do
    let fix ← parseBool fix
    let extLast ← parseBool extLast
    let maxTurns ← maxTurns.toNat?
    let ext ← parseNats ext
    match parseBlock (ops.length + 1) none 0 ops with
    | some (prog, _, []) => pure (showRun (run prog ext extLast fix maxTurns))
    | _ => pure ["bad-op"]
  | _, _ => none

end EasyNet.Drv
