/-
  endriver: reads cases on stdin, prints the model's observable outputs.

    case <id> <model> <config…>
    <op>
    …
    end

  prints `case <id>`, one line per observable, `end`.  Unknown model / unparsable config: `bad-case`.
-/
import EasyNet.Drv.Framing
import EasyNet.Drv.ExcFlow
import EasyNet.Drv.Endpoint
import EasyNet.Drv.Datagram
import EasyNet.Drv.Senders
import EasyNet.Drv.TlsSend
import EasyNet.Drv.StreamServer
import EasyNet.Drv.ClosePaths
import EasyNet.Drv.Race
import EasyNet.Drv.DgramSrv
import EasyNet.Drv.Timeout
import EasyNet.Drv.Send
import EasyNet.Drv.CancelScope
import EasyNet.Drv.RecvProto
import EasyNet.Drv.FlowCtl
import EasyNet.Drv.Tls08
import EasyNet.Drv.JRaw
import EasyNet.Drv.Iso
import EasyNet.Drv.TlsEof
import EasyNet.Drv.GenericFr
import EasyNet.Drv.Life
import EasyNet.Drv.Listener
open EasyNet.Drv

/-- one runner per model family; each returns `none` for model names it does not know -/
def runners : List (String → List String → List String → Option (List String)) :=
  [ runFraming
  , runExcFlow
  , runEndpoint
  , runDatagram
  , C10.runRecvProto
  , C20.runFlowCtl
  , runSenders
  , runTls
  , runStreamServer
  , runClosePaths
  , runRace
  , runDgramSrv
  , runTimeout
  , runSend
  , runCancelScope
  , runTls08
  , runJRaw
  , runIso
  , runTlsEof
  , runGenericFr
  , runLife
  , runListener
  ]

def dispatch (model : String) (cfg : List String) (ops : List String) : Option (List String) :=
  runners.findSome? (fun r => r model cfg ops)

partial def readLines (h : IO.FS.Stream) (acc : Array String) : IO (Array String) := do
  let line ← h.getLine
  if line.isEmpty then return acc
  readLines h (acc.push (line.trimAscii.toString))

def processAll (lines : List String) : List String :=
  let rec go (fuel : Nat) (ls : List String) (out : List String) : List String :=
    match fuel, ls with
    | 0, _ => out.reverse
    | _, [] => out.reverse
    | fuel + 1, l :: rest =>
      match words l with
      | "case" :: id :: model :: cfg =>
        let ops := rest.takeWhile (· ≠ "end")
        let rest' := (rest.dropWhile (· ≠ "end")).drop 1
        let res := match dispatch model cfg ops with
          | some r => r
          | none => ["bad-case"]
        go fuel rest' ("end" :: res.reverse ++ (s!"case {id}" :: out))
      | [] => go fuel rest out
      | _ => go fuel rest ("bad-line" :: out)
  go (lines.length + 1) lines []

def main : IO Unit := do
  let stdin ← IO.getStdin
  let lines ← readLines stdin #[]
  let out := processAll lines.toList
  let stdout ← IO.getStdout
  stdout.putStr (String.intercalate "\n" out ++ "\n")
