-- Root of the `EasyNet` library: models, drivers, lemmas and property theorems.
import EasyNet.Model.Bytes
import EasyNet.Model.Framers
import EasyNet.Model.Consumer
import EasyNet.Drv.Util
import EasyNet.Drv.Framing
