-- Root of the `EasyNet` library: models, drivers, lemmas and property theorems.
import EasyNet.Model.Bytes
import EasyNet.Model.Framers
import EasyNet.Model.Consumer
import EasyNet.Drv.Util
import EasyNet.Drv.Framing
import EasyNet.Model.Spec
import EasyNet.Lemmas.Find
import EasyNet.Lemmas.RU
import EasyNet.Lemmas.ConsumerSim
import EasyNet.Lemmas.ChunkIndep
import EasyNet.Lemmas.RUSpec
import EasyNet.Props.C01
import EasyNet.Props.C02
import EasyNet.Props.C07
import EasyNet.Lemmas.BufConsumerSim
import EasyNet.Lemmas.BRU
import EasyNet.Lemmas.BRUSpec
