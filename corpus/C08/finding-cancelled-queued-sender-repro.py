#!/usr/bin/env python3
"""
Stand-alone reproduction (stdlib + easynetwork only; no harness import) of a residual of the "skip the flush when a task is
already queued on the send lock" rule of AsyncTLSStreamTransport._retry_ssl_method (docs/C08.md, observation 3), on the
UNCHANGED library.  Found while adding cancellation histories to C08 (vlib/c08_cancel.py, case option "keep").

    reader (long-lived)    : loop of tls.recv()
    sender A               : tls.send_all(40 kB), parked in the wrapped send_all under back-pressure, owns the send lock
    sender B               : tls.send_all(100 B) with a timeout, queued on the send lock        (waiters == 1)
    server                 : verify_client_post_handshake() + b"x"  (TLS 1.3 post-handshake authentication)
    reader                 : gets b"x" (the SSL object has put the client's Certificate/Verify/Finished into the outgoing
                             BIO), calls recv again: WANT_READ, output pending, BUT a waiter is queued -> no flush, goes to
                             wait for input.  "Whoever gets the lock flushes everything."
    sender B               : its timeout expires while it is still queued: CANCELLED.  Nobody is queued any more.
    back-pressure released : A completes (it had taken its own bytes out of the BIO before the answer was produced).
    => the client's answer stays in the outgoing BIO, the reader is parked in the wrapped recv_into, the server waits for
       the certificate: the post-handshake exchange is deadlocked until the application happens to send something.

Exit status: 0 if the server gets the client certificate (and the reader the b"ok" the server then sends), 1 otherwise.
On /repo HEAD 14674d9: exit 1.
The same equivalent request file for the check:  {"kind": "cancel", "seed": 3, "ver": "1.3", "role": "client", "peer": "raw",
 "cap": 4096, "pha": true, "keep": true, "steps": [["gate", 0], ["send", "S1", 10000, "task"], ["yield", 2], ["send", "S2",
 100, "task"], ["yield", 2], ["pha", 1], ["recv", "R1", ["recv", 10], 0, "task"], ["settle"], ["cancel", "S2", "s"], ["gate", 1]]}
(the generator of vlib/c08_cancel.py never combines "keep" with "pha": see docs/C08.md).
"""
from __future__ import annotations

import asyncio
import os
import ssl
import subprocess
import sys
import tempfile
from collections import deque
from typing import Any

from easynetwork.lowlevel.api_async.backend.utils import new_builtin_backend
from easynetwork.lowlevel.api_async.transports.abc import AsyncStreamTransport
from easynetwork.lowlevel.api_async.transports.tls import AsyncTLSStreamTransport


def make_certificate(directory: str) -> tuple[str, str]:
    cert, key = os.path.join(directory, "cert.pem"), os.path.join(directory, "key.pem")
    subprocess.run(["openssl", "req", "-x509", "-newkey", "rsa:2048", "-nodes", "-keyout", key, "-out", cert, "-days", "2",
                    "-subj", "/CN=localhost"], check=True, stdout=subprocess.DEVNULL, stderr=subprocess.DEVNULL)
    return cert, key


class MemoryStreamTransport(AsyncStreamTransport):
    def __init__(self, backend, on_send) -> None:
        super().__init__()
        self._backend, self._on_send = backend, on_send
        self._incoming: deque[bytes] = deque()
        self._event = asyncio.Event()
        self._closing = False
        self.gate = asyncio.Event()
        self.gate.set()
        self.sender_parked = asyncio.Event()
        self.readers_parked = 0

    def feed(self, data: bytes) -> None:
        if data:
            self._incoming.append(data)
            self._event.set()

    def backend(self):
        return self._backend

    def is_closing(self) -> bool:
        return self._closing

    async def aclose(self) -> None:
        self._closing = True
        self._event.set()
        await asyncio.sleep(0)

    @property
    def extra_attributes(self):
        return {}

    async def recv_into(self, buffer: Any) -> int:
        while not self._incoming:
            if self._closing:
                return 0
            self._event.clear()
            self.readers_parked += 1
            try:
                await self._event.wait()
            finally:
                self.readers_parked -= 1
        data = self._incoming.popleft()
        with memoryview(buffer) as view:
            n = min(len(data), view.nbytes)
            view[:n] = data[:n]
        if n < len(data):
            self._incoming.appendleft(data[n:])
        return n

    async def recv(self, bufsize: int) -> bytes:
        buf = bytearray(bufsize)
        n = await self.recv_into(buf)
        return bytes(buf[:n])

    async def send_all(self, data) -> None:
        data = bytes(data)
        if not self.gate.is_set():
            self.sender_parked.set()
            await self.gate.wait()
        else:
            await asyncio.sleep(0)
        self._on_send(data)

    async def send_eof(self) -> None:
        raise NotImplementedError


class StdlibTLSServer:
    def __init__(self, context: ssl.SSLContext) -> None:
        self.rbio, self.wbio = ssl.MemoryBIO(), ssl.MemoryBIO()
        self.obj = context.wrap_bio(self.rbio, self.wbio, server_side=True)
        self.handshake_done = False
        self.received = bytearray()
        self.replied_ok = False
        self.client: MemoryStreamTransport | None = None

    def flush(self) -> None:
        data = self.wbio.read()
        if data and self.client is not None:
            self.client.feed(data)

    def on_ciphertext(self, data: bytes) -> None:
        self.rbio.write(data)
        try:
            if not self.handshake_done:
                try:
                    self.obj.do_handshake()
                except ssl.SSLWantReadError:
                    return
                self.handshake_done = True
            while True:
                try:
                    chunk = self.obj.read(65536)
                except ssl.SSLWantReadError:
                    break
                if not chunk:
                    break
                self.received += chunk
            if not self.replied_ok and self.has_cert():
                self.replied_ok = True
                self.obj.write(b"ok")
        finally:
            self.flush()

    def has_cert(self) -> bool:
        try:
            return bool(self.obj.getpeercert())
        except ValueError:
            return False


async def settle() -> None:
    for _ in range(50):
        await asyncio.sleep(0)


async def scenario(cert: str, key: str) -> int:
    sctx = ssl.SSLContext(ssl.PROTOCOL_TLS_SERVER)
    sctx.minimum_version = ssl.TLSVersion.TLSv1_3
    sctx.load_cert_chain(cert, key)
    sctx.load_verify_locations(cert)
    sctx.verify_mode = ssl.CERT_REQUIRED
    sctx.post_handshake_auth = True
    cctx = ssl.SSLContext(ssl.PROTOCOL_TLS_CLIENT)
    cctx.minimum_version = ssl.TLSVersion.TLSv1_3
    cctx.check_hostname = False
    cctx.load_verify_locations(cert)
    cctx.load_cert_chain(cert, key)
    cctx.post_handshake_auth = True

    backend = new_builtin_backend("asyncio")
    server = StdlibTLSServer(sctx)
    raw = MemoryStreamTransport(backend, server.on_ciphertext)
    server.client = raw
    tls = await asyncio.wait_for(AsyncTLSStreamTransport.wrap(raw, cctx, server_side=False, server_hostname="localhost"), 10)

    got = bytearray()

    async def reader() -> None:                         # the application's long-lived reader
        while True:
            data = await tls.recv(10)
            if not data:
                return
            got.extend(data)

    raw.gate.clear()
    payload_a, payload_b = bytes(range(256)) * 160, b"B" * 100
    task_a = asyncio.create_task(tls.send_all(payload_a))
    await asyncio.wait_for(raw.sender_parked.wait(), 10)           # A parked under back-pressure, owns the send lock

    async def send_b() -> str:
        try:
            with backend.timeout(0.5):                              # an ordinary send timeout
                await tls.send_all(payload_b)
        except TimeoutError:
            return "timeout"
        return "sent"

    task_b = asyncio.create_task(send_b())                          # queued on the send lock
    await settle()
    task_r = asyncio.create_task(reader())
    await settle()
    server.obj.verify_client_post_handshake()
    server.obj.write(b"x")
    server.flush()
    await settle()
    print(f"reader got {bytes(got)!r}; outgoing BIO holds {tls._write_bio.pending} bytes; readers parked on the wrapped "
          f"transport: {raw.readers_parked}")
    print("sender B:", await task_b)                                # its timeout expires while it is queued
    raw.gate.set()                                                  # the peer reads again
    await asyncio.wait_for(task_a, 10)
    print(f"sender A done; server read {len(server.received)} bytes (A wrote {len(payload_a)}, B's cancelled call {len(payload_b)})")
    # nothing else happens on the connection: the reader is waiting for the server, the server for the certificate
    for _ in range(20):
        await asyncio.sleep(0.1)
        if server.has_cert() and bytes(got).endswith(b"ok"):
            break
    ok = server.has_cert() and bytes(got).endswith(b"ok")
    print(f"2 s later: server has the client certificate: {server.has_cert()}; reader got {bytes(got)!r}; "
          f"outgoing BIO still holds {tls._write_bio.pending} bytes; readers parked: {raw.readers_parked}")
    task_r.cancel()
    if ok:
        print("PASS")
        return 0
    print("FAIL: the post-handshake exchange is stuck: the client's answer was left in the outgoing BIO when the queued sender "
          "the reader relied upon was cancelled; the reader waits for input, nobody flushes")
    return 1


def main() -> int:
    with tempfile.TemporaryDirectory() as d:
        cert, key = make_certificate(d)
        return asyncio.run(scenario(cert, key))


if __name__ == "__main__":
    sys.exit(main())
