#!/usr/bin/env python3
"""
Confirm a seeded change produced by an independent sub-agent and run our checks against it.

  tools_seed.py <Cxx> <mN> [--suite] [--checks C01,C02,…]

 1. scratch worktree of /repo HEAD (under /tmp), patch applied;
 2. the demonstration is run WITH and WITHOUT the change (must fail with, pass without);
 3. optionally (--suite) the repository's test suite is run on the changed tree and compared with the summary of the unchanged tree;
 4. the quick check of the property (and of any other listed property) is run with VERIF_REPO=<worktree>;
 5. everything is stored under /verif/seeded/<Cxx>-<mN>/ (patch.diff, demo, notes, meta.json); the worktree is removed.
"""
import json
import os
import re
import shutil
import subprocess
import sys
import time

VERIF = os.path.dirname(os.path.abspath(__file__))
PY = "/venv/bin/python"


def sh(cmd, cwd=None, env=None, timeout=3600):
    e = dict(os.environ)
    if env:
        e.update(env)
    try:
        p = subprocess.run(cmd, shell=True, cwd=cwd, env=e, capture_output=True, text=True, timeout=timeout)
        return p.returncode, (p.stdout or "") + (p.stderr or "")
    except subprocess.TimeoutExpired as ex:
        return 124, f"TIMEOUT after {timeout}s\n" + ((ex.stdout or b"").decode(errors="replace") if isinstance(ex.stdout, bytes) else (ex.stdout or ""))


def summary_line(out: str) -> str:
    lines = [l for l in out.splitlines() if re.search(r"\d+ (passed|failed|error)", l)]
    return lines[-1].strip() if lines else out.strip().splitlines()[-1] if out.strip() else ""


def pass_set(junit_path: str) -> set:
    import xml.etree.ElementTree as ET
    res, bad = set(), set()
    try:
        root = ET.parse(junit_path).getroot()
    except Exception:
        return set()
    for tc in root.iter("testcase"):
        tid = f"{tc.get('classname')}::{tc.get('name')}"
        if any(ch.tag in ("failure", "error", "skipped") for ch in tc):
            bad.add(tid)
        else:
            res.add(tid)
    return res - bad


def baseline_pass_set(head: str) -> set:
    """passing tests of the unchanged tree at this /repo HEAD (cached under /tmp; intersection of what passes there with
    the official stable-pass list of /root/.vp/BASELINE.json when that is readable)"""
    cache = f"/tmp/seed-baseline-pass-{head}.json"
    if os.path.exists(cache):
        return set(json.load(open(cache)))
    import fcntl
    lockf = open(f"/tmp/seed-baseline-{head}.lock", "w")
    fcntl.flock(lockf, fcntl.LOCK_EX)          # several evaluations may start at once: one of them computes the baseline
    if os.path.exists(cache):
        return set(json.load(open(cache)))
    wt = f"/tmp/seedwt-baseline-{head}"
    sh(f"git -C /repo worktree remove --force {wt}")
    sh(f"git -C /repo worktree add -q --detach {wt} HEAD && cp /repo/src/easynetwork/version.py {wt}/src/easynetwork/")
    jx = f"/tmp/seedjunit-baseline-{head}.xml"
    try:
        sh(f"{PY} -m pytest -q -p no:cacheprovider --timeout=900 --continue-on-collection-errors --junitxml={jx} 2>&1 | tail -3",
           cwd=wt, env={"PYTHONPATH": f"{wt}/src"}, timeout=3000)
        got = pass_set(jx)
    finally:
        sh(f"git -C /repo worktree remove --force {wt}")
    json.dump(sorted(got), open(cache, "w"))
    return got


def main():
    pid, mn = sys.argv[1], sys.argv[2]
    suite = "--suite" in sys.argv
    checks = [pid]
    for a in sys.argv[3:]:
        if a.startswith("--checks"):
            checks = a.split("=", 1)[1].split(",")
    src = f"/tmp/seedout-{pid}/{mn}"
    wt = f"/tmp/seedwt-{pid}-{mn}"
    dst = os.path.join(VERIF, "seeded", f"{pid}-{mn}")
    if os.path.exists(f"{dst}/patch.diff"):     # a stored change is re-evaluated from its stored files (never overwritten)
        src = dst      # re-evaluation of a change that is already stored
    os.makedirs(dst, exist_ok=True)
    meta = {"property": pid, "mutation": mn, "repo_head": sh("git -C /repo rev-parse --short HEAD")[1].strip()}
    sh(f"git -C /repo worktree remove --force {wt}")
    rc, out = sh(f"git -C /repo worktree add -q --detach {wt} HEAD && cp /repo/src/easynetwork/version.py {wt}/src/easynetwork/")
    if rc:
        print(out)
        return 2
    try:
        demo = "demo.py" if os.path.exists(f"{src}/demo.py") else ("demo_test.py" if os.path.exists(f"{src}/demo_test.py") else None)
        env = {"PYTHONPATH": f"{wt}/src"}

        def run_demo():
            if demo is None:
                return None, "no demo"
            if demo.endswith("_test.py"):
                return sh(f"{PY} -m pytest -q -p no:cacheprovider -x {src}/{demo} 2>&1 | tail -15", cwd=wt, env=env, timeout=300)
            return sh(f"{PY} {src}/{demo} 2>&1 | tail -15", cwd=wt, env=env, timeout=300)

        rc0, out0 = run_demo()
        meta["demo_without_change"] = {"exit": rc0, "tail": out0[-600:]}
        # the stored patch was written against the HEAD of its day; when /repo moved under it (a later `fix:` commit in the
        # same function) a hand-adapted variant with the same intent is stored next to it as patch-adapted-<head>.diff
        import glob as _glob
        cands = [f"{src}/patch.diff"] + sorted(_glob.glob(f"{dst}/patch-adapted-*.diff"), key=os.path.getmtime, reverse=True)
        used = None
        for cand in cands:
            rc, out = sh(f"git apply --check {cand}", cwd=wt)
            if rc == 0:
                used = cand
                break
        if used is None:
            meta["error"] = "patch does not apply to current HEAD: " + out[-400:]
            print(meta["error"])
            try:
                old = json.load(open(f"{dst}/meta.json"))
                meta["checks_recorded_before_head_moved"] = old.get("checks") or old.get("checks_recorded_before_head_moved")
            except Exception:
                pass
            json.dump(meta, open(f"{dst}/meta.json", "w"), indent=1)
            return 2
        if used != f"{src}/patch.diff":
            meta["patch_used"] = os.path.basename(used)
            src_patch = used
        else:
            src_patch = f"{src}/patch.diff"
        sh(f"git apply {src_patch}", cwd=wt)
        rc1, out1 = run_demo()
        meta["demo_with_change"] = {"exit": rc1, "tail": out1[-600:]}
        # pytest demo exit code through `| tail` is lost: look at the text
        def failed(rc, out):
            if demo and demo.endswith("_test.py"):
                return bool(re.search(r"\d+ failed|\d+ error", out))
            return rc != 0
        if demo and not demo.endswith("_test.py"):
            # exit code of a pipeline = tail's; re-run without tail for the code
            rcw = sh(f"{PY} {src}/{demo} >/dev/null 2>&1", cwd=wt, env=env, timeout=300)[0]
            sh(f"git apply -R {src_patch}", cwd=wt)
            rco = sh(f"{PY} {src}/{demo} >/dev/null 2>&1", cwd=wt, env=env, timeout=300)[0]
            sh(f"git apply {src_patch}", cwd=wt)
            meta["patch_applied_for_checks"] = sh("git diff --stat | tail -1", cwd=wt)[1].strip()
            meta["demo_with_change"]["exit"] = rcw
            meta["demo_without_change"]["exit"] = rco
            meta["demo_confirms"] = (rcw != 0 and rco == 0)
        else:
            meta["demo_confirms"] = failed(rc1, out1) and not failed(rc0, out0)
        if suite:
            t0 = time.time()
            jx = f"/tmp/seedjunit-{pid}-{mn}.xml"
            rc, out = sh(f"{PY} -m pytest -q -p no:cacheprovider --timeout=900 --continue-on-collection-errors --junitxml={jx} 2>&1 | tail -3", cwd=wt, env=env, timeout=3000)
            meta["suite_with_change"] = summary_line(out)
            meta["suite_wall_s"] = round(time.time() - t0)
            base = baseline_pass_set(meta["repo_head"])
            got = pass_set(jx)
            lost = sorted(base - got)
            meta["suite_baseline_passing"] = len(base)
            meta["suite_passing_with_change"] = len(got)
            meta["suite_lost_tests"] = lost[:20]
            meta["suite_ok"] = not lost
            try:
                os.unlink(jx)
            except OSError:
                pass
        meta["checks"] = {}
        for c in checks:
            t0 = time.time()
            scratch = f"/tmp/seedev-{pid}-{mn}"
            os.makedirs(scratch, exist_ok=True)
            rc, out = sh(f"{PY} harness/check.py {c} --tier quick", cwd=VERIF,
                         env={"VERIF_REPO": wt, "VERIF_EVIDENCE_DIR": scratch + "/evidence", "VERIF_REPLAYS_DIR": scratch + "/replays"}, timeout=1500)
            lines = [l for l in out.splitlines() if l.startswith(("VIOLATION", "KNOWN-FINDING", c + " "))]
            kind = "missed"
            if rc == 1:
                kind = "caught-no-failing-input" if any("no-failing-input-found" in l for l in lines if l.startswith("VIOLATION")) and \
                    not any(l.startswith("VIOLATION") and "no-failing-input-found" not in l for l in lines) else "caught-with-replay"
            elif rc not in (0, 1):
                kind = f"infra-error-{rc}"
            # keep the first replay as part of the record
            try:
                reps = sorted(os.listdir(scratch + "/replays"))
                if reps:
                    shutil.copy(f"{scratch}/replays/{reps[0]}", f"{dst}/replay-{c}.json")
            except OSError:
                pass
            shutil.rmtree(scratch, ignore_errors=True)
            meta["checks"][c] = {"exit": rc, "verdict": kind, "lines": [l[:300] for l in lines][-4:], "wall_s": round(time.time() - t0, 1)}
            if rc not in (0, 1):
                meta["checks"][c]["tail"] = out[-800:]
        for f in ("patch.diff", "demo.py", "demo_test.py", "notes.md"):
            if os.path.exists(f"{src}/{f}") and src != dst:
                shutil.copy(f"{src}/{f}", f"{dst}/{f}")
        json.dump(meta, open(f"{dst}/meta.json", "w"), indent=1)
        print(json.dumps({k: meta[k] for k in ("property", "mutation", "demo_confirms", "checks") if k in meta}, indent=1))
        if suite:
            print("suite:", meta.get("suite_with_change"))
    finally:
        sh(f"git -C /repo worktree remove --force {wt}")
        # the translators regenerate lean/EasyNet/EasyNet/Gen/*.lean from the tree under test: put back the tables of /repo
        sh("git checkout -- lean/EasyNet/EasyNet/Gen", cwd=VERIF)
    return 0


if __name__ == "__main__":
    sys.exit(main())
