#!/bin/bash
# Offline set-up: build the Lean library (all models, lemmas, property theorems) and the endriver executable.
set -e
cd "$(dirname "$0")/lean/EasyNet"
lake build 2>&1 | tail -5
test -x .lake/build/bin/endriver
