#!/usr/bin/env python3
"""Regenerates MANIFEST.json from harness/props/*.py (claimed = module has CLAIMED = True) and validates it."""
import importlib, json, os, sys, re
HERE = os.path.dirname(os.path.abspath(__file__))
sys.path.insert(0, os.path.join(HERE, "harness"))
PY = "/venv/bin/python"

def main():
    props = [json.loads(l) for l in open(os.path.join(HERE, "properties.jsonl"))]
    checks, na = [], []
    for p in props:
        pid = p["id"]
        path = os.path.join(HERE, "harness", "props", pid.lower() + ".py")
        src = open(path).read() if os.path.exists(path) else ""
        m = re.search(r"^CLAIMED\s*=\s*True", src, flags=re.M)
        if not m:
            r = re.search(r'^NOT_CLAIMED_REASON\s*=\s*"(.*)"', src, flags=re.M)
            na.append({"property_id": pid, "reason": r.group(1) if r else "machinery for this property not built yet (model, theorems and correspondence are planned in DESIGN.md section 5); not claimed until the minimum of DESIGN.md section 10 is met"})
            continue
        def grab(name, default=""):
            r = re.search(rf'^{name}\s*=\s*\(?\s*((?:"[^"\n]*"\s*)+)\)?', src, flags=re.M)
            if not r: return default
            return "".join(re.findall(r'"([^"\n]*)"', r.group(1)))
        checks.append({
            "property_id": pid,
            "quick_cmd": f"{PY} harness/check.py {pid} --tier quick",
            "thorough_cmd": f"{PY} harness/check.py {pid} --tier thorough",
            "evidence_file": f"evidence/{pid}.json",
            "replay_cmd_template": f"{PY} harness/check.py {pid} --replay {{path}}",
            "engine": "lean4-proof+correspondence",
            "level_claimed": {"category": "proof", "text": grab("LEVEL_TEXT"), "design_ref": f"DESIGN.md section 5, {pid}"},
            "level_note": grab("LEVEL_NOTE"),
            "technique": grab("TECHNIQUE", "Lean 4 theorems over a hand-written executable model; differential correspondence check model vs real code; direct oracle for failing-input search"),
        })
    man = {
        "version": 1,
        "setup_cmd": "bash setup.sh",
        "hooks": {"guard": "EASYNETWORK_VERIF", "enable": "export EASYNETWORK_VERIF=1 (set by harness/vlib/core.py; no guarded hook exists in /repo at present)",
                  "baseline_off_cmd": "cd /repo && env -u EASYNETWORK_VERIF /venv/bin/python -m pytest -ra -q -p no:cacheprovider --timeout=900 --continue-on-collection-errors",
                  "source_commits": [], "add_only": True},
        "engines": [{"name": "lean4-proof+correspondence", "path": "lean/EasyNet + harness/", "serves_properties": [c["property_id"] for c in checks],
                     "kind_free_text": "Lean 4 project (models, theorems, compiled line-protocol driver) + Python harness driving the real EasyNetwork code in-process under deterministic environments"}],
        "checks": checks,
        "not_applicable": na,
        "notes": "See DESIGN.md. Every check: translate -> lake build + axiom audit -> correspondence (real code vs compiled Lean model) -> oracle on real outputs. Exit 2 = infrastructure error.",
    }
    extra = os.path.join(HERE, "manifest_extra.json")
    if os.path.exists(extra):
        e = json.load(open(extra))
        man["hooks"]["source_commits"] = e.get("source_commits", [])
    json.dump(man, open(os.path.join(HERE, "MANIFEST.json"), "w"), indent=1)
    try:
        import jsonschema
        jsonschema.validate(man, json.load(open("/root/.vp/MANIFEST.schema.json")))
        print("MANIFEST valid;", len(checks), "claimed,", len(na), "not claimed")
    except ImportError:
        print("written (jsonschema not available)")
main()
