import asyncio, ssl, sys
from easynetwork.lowlevel.api_async.backend._asyncio.backend import AsyncIOBackend
from easynetwork.lowlevel.api_async.transports.abc import AsyncStreamTransport
from easynetwork.lowlevel.api_async.transports.tls import AsyncTLSStreamTransport
CERT="/verif/harness/vlib/c14_certs/cert.pem"; KEY="/verif/harness/vlib/c14_certs/key.pem"
backend = AsyncIOBackend()
class Pipe:
    def __init__(self): self.buf=bytearray(); self.ev=asyncio.Event(); self.eof=False; self.log=bytearray()
class T(AsyncStreamTransport):
    def __init__(self, i, o): super().__init__(); self.i, self.o, self.c = i, o, False
    async def aclose(self): self.c=True; self.o.eof=True; self.o.ev.set()
    def is_closing(self): return self.c
    def backend(self): return backend
    async def recv_into(self, b):
        while not self.i.buf and not self.i.eof:
            self.i.ev.clear(); await self.i.ev.wait()
        n=min(len(b), len(self.i.buf)); memoryview(b)[:n]=self.i.buf[:n]; del self.i.buf[:n]; return n
    async def send_all(self, d):
        d=bytes(d); self.o.buf+=d; self.o.log+=d; self.o.ev.set()
    async def send_eof(self): pass
    @property
    def extra_attributes(self): return {}
def records(b):
    out=[]; i=0
    while i+5<=len(b):
        n=int.from_bytes(b[i+3:i+5],'big'); out.append((b[i], n)); i+=5+n
    return out
async def main(ver):
    p1,p2=Pipe(),Pipe()
    sctx=ssl.SSLContext(ssl.PROTOCOL_TLS_SERVER); sctx.load_cert_chain(CERT,KEY)
    cctx=ssl.SSLContext(ssl.PROTOCOL_TLS_CLIENT); cctx.check_hostname=False; cctx.verify_mode=ssl.CERT_NONE
    if ver=="1.2":
        cctx.maximum_version=ssl.TLSVersion.TLSv1_2
    a,b=await asyncio.gather(AsyncTLSStreamTransport.wrap(T(p1,p2),cctx,server_hostname="x"), AsyncTLSStreamTransport.wrap(T(p2,p1),sctx,server_side=True))
    await b.send_all(b"first record"); await b.send_all(b"second record")
    for _ in range(5): await asyncio.sleep(0)
    d = await a.recv(4096)
    before=len(p2.log)
    await a.aclose()
    emitted=bytes(p2.log[before:])
    print(ver, "read:", d, "| emitted on close:", records(emitted) or "NOTHING")
    # what does the peer see?
    try:
        r=[await b.recv(100), await b.recv(100)]
        print("  peer reads:", r)
    except Exception as e:
        print("  peer gets:", type(e).__name__, e)
for v in ("1.3","1.2"): asyncio.run(main(v))
