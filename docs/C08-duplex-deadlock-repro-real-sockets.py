import asyncio, ssl, sys, socket
from easynetwork.lowlevel.api_async.backend._asyncio.backend import AsyncIOBackend
from easynetwork.lowlevel.api_async.transports.tls import AsyncTLSStreamTransport
CERT="/verif/harness/vlib/c14_certs/cert.pem"; KEY="/verif/harness/vlib/c14_certs/key.pem"
backend = AsyncIOBackend()
N = int(sys.argv[1]) if len(sys.argv) > 1 else 50_000_000
async def main():
    s1,s2=socket.socketpair()
    t1=await backend.wrap_stream_socket(s1); t2=await backend.wrap_stream_socket(s2)
    sctx=ssl.SSLContext(ssl.PROTOCOL_TLS_SERVER); sctx.load_cert_chain(CERT,KEY)
    cctx=ssl.SSLContext(ssl.PROTOCOL_TLS_CLIENT); cctx.check_hostname=False; cctx.verify_mode=ssl.CERT_NONE
    a,b=await asyncio.gather(AsyncTLSStreamTransport.wrap(t1,cctx,server_hostname="x"), AsyncTLSStreamTransport.wrap(t2,sctx,server_side=True))
    async def send(t): await t.send_all(b"z"*N)
    async def recv(t):
        n=0
        while n<N:
            d=await t.recv(65536)
            if not d: break
            n+=len(d)
        return n
    try:
        r=await asyncio.wait_for(asyncio.gather(send(a),send(b),recv(a),recv(b)), 40)
        print("completed", r[2], r[3])
    except asyncio.TimeoutError:
        print("DEADLOCK: full-duplex transfer over a real socketpair did not complete in 40 s")
asyncio.run(main())
