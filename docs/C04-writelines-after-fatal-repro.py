"""
asyncio adapter: send_all_from_iterable() on a connection whose fatal write error has been SEEN by asyncio but whose
connection_lost() has not run yet (same loop iteration / the very next send of another task).

CPython 3.12.1 `_SelectorSocketTransport.writelines()` has no `_conn_lost` guard: it queues the data and ends with
`loop._add_writer(fd, ...)` for a socket that `_call_connection_lost()` closes a moment later -> a CLOSED descriptor stays
registered in the event loop's selector:
  * select()-based selector: every later loop iteration raises OSError(EBADF) out of run_forever(): the whole loop dies;
  * epoll: the kernel drops the registration silently, but the selector keeps a stale key for that fd number: the next socket
    that gets the same number cannot be watched (loop.add_reader -> selector.modify -> FileNotFoundError).
usage: python writelines_after_fatal_repro.py [repo] [select|epoll]
"""
import asyncio, logging, selectors, socket, sys
sys.path.insert(0, (sys.argv[1] if len(sys.argv) > 1 else "/repo") + "/src")
logging.getLogger("asyncio").setLevel(logging.CRITICAL)
from easynetwork.lowlevel.api_async.backend._asyncio.backend import AsyncIOBackend

which = sys.argv[2] if len(sys.argv) > 2 else "select"


async def main() -> int:
    loop = asyncio.get_running_loop()
    a, b = socket.socketpair()
    fd = a.fileno()
    tr = await AsyncIOBackend().wrap_stream_socket(a)
    b.close()                                   # the peer goes away

    async def send(data):
        try:
            await tr.send_all_from_iterable([data])
            return "returned"
        except Exception as e:
            return f"{type(e).__name__}"

    t1 = asyncio.ensure_future(send(b"x" * 13))         # EPIPE -> asyncio _fatal_error(): connection_lost() is only scheduled
    t2 = asyncio.ensure_future(send(b"y" * 300000))     # the next task writes before connection_lost() has run
    print("sends:", await t1, await t2)
    for _ in range(5):
        await asyncio.sleep(0)
    sel = loop._selector
    stale = fd in sel.get_map()
    print(f"descriptor {fd} still registered in the loop's selector after the transport closed its socket: {stale}")
    if stale and which == "epoll":
        # the next socket gets the same number
        c, d = socket.socketpair()
        print("new socket has fd", c.fileno())
        try:
            loop.add_reader(c.fileno(), lambda: None)
            loop.remove_reader(c.fileno())
            print("add_reader on the new socket: ok")
        except Exception as e:
            print(f"add_reader on the new socket with the same number: {type(e).__name__}: {e}")
        c.close(); d.close()
    return 1 if stale else 0


loop = asyncio.SelectorEventLoop(selectors.SelectSelector() if which == "select" else selectors.DefaultSelector())
try:
    rc = loop.run_until_complete(main())
except OSError as e:
    print(f"THE EVENT LOOP DIED: run_until_complete raised {type(e).__name__}: {e}")
    rc = 1
print("FAIL" if rc else "PASS")
sys.exit(rc)
