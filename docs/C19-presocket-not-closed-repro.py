"""AsyncTCPNetworkClient(<connected socket>) closed (or its first wait_connected() cancelled before it ran) before the lazy
connect ever started: aclose() returns, is_closing() is True, but the socket handed over is never closed."""
import asyncio, socket, sys
sys.path.insert(0, "/repo/src")
from easynetwork.clients.async_tcp import AsyncTCPNetworkClient
from easynetwork.protocol import StreamProtocol
from easynetwork.serializers import StringLineSerializer

async def main() -> int:
    lst = socket.socket(); lst.bind(("127.0.0.1", 0)); lst.listen(1)
    sk = socket.socket(); sk.connect(lst.getsockname())
    conn, _ = lst.accept(); conn.setblocking(False)
    client = AsyncTCPNetworkClient(sk, StreamProtocol(StringLineSerializer()), "asyncio")
    await client.aclose()
    for _ in range(50):
        await asyncio.sleep(0)
    print("is_closing:", client.is_closing(), " socket fileno after aclose():", sk.fileno())
    try:
        eof = conn.recv(10) == b""
    except BlockingIOError:
        eof = False
    print("peer saw EOF:", eof)
    bad = sk.fileno() != -1 or not eof
    sk.close(); conn.close(); lst.close()
    return 1 if bad else 0

sys.exit(asyncio.run(main()))
