import sys, io
sys.path.insert(0, "/repo/src")
from easynetwork.serializers.base_stream import FileBasedPacketSerializer
from easynetwork.protocol import StreamProtocol, BufferedStreamProtocol
from easynetwork.lowlevel._stream import StreamDataConsumer, BufferedStreamDataConsumer
from easynetwork.exceptions import StreamProtocolParseError

class Err(Exception): pass
class ZeroBad(FileBasedPacketSerializer):
    """raises the expected error WITHOUT reading anything when the first byte is 0xff (peeks via getvalue-free API: read+seek back)"""
    def __init__(self): super().__init__(expected_load_error=Err, limit=64)
    def dump_to_file(self, p, f): f.write(bytes([len(p)])+p)
    def load_from_file(self, f):
        h = f.read(1)
        if not h: raise EOFError
        if h[0] == 0xff:
            f.seek(-1, 1)          # un-read the byte, then complain
            raise Err("bad header")
        if h[0] == 0xfe:
            f.seek(-1, 1)          # returns a packet having consumed nothing
            return b"ghost"
        d = f.read(h[0])
        if len(d) < h[0]: raise EOFError
        return d

def run(path, data):
    ser = ZeroBad()
    out = []
    if path == "copy":
        c = StreamDataConsumer(StreamProtocol(ser)); arg = data
        for i in range(6):
            try: out.append(("pkt", c.next(arg)))
            except StopIteration: out.append("stop"); break
            except StreamProtocolParseError as e: out.append(("err", bytes(e.remaining_data)))
            arg = None
    else:
        c = BufferedStreamDataConsumer(BufferedStreamProtocol(ser), 16)
        v = memoryview(c.get_write_buffer()); v[:len(data)] = data; arg = len(data)
        for i in range(6):
            try: out.append(("pkt", c.next(arg)))
            except StopIteration: out.append("stop"); break
            except StreamProtocolParseError as e: out.append(("err", bytes(e.remaining_data)))
            except Exception as e: out.append(("escape", repr(e))); break
            arg = None
    return out
for path in ("copy", "buffered"):
    print(path, "bad0 :", run(path, b"\xff\x01a"))
    print(path, "ok0  :", run(path, b"\xfe\x01a"))
