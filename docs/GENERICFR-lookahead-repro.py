import sys, io
sys.path.insert(0, "/repo/src")
from easynetwork.serializers.base_stream import FileBasedPacketSerializer
from easynetwork.protocol import BufferedStreamProtocol
from easynetwork.lowlevel._stream import BufferedStreamDataConsumer
from easynetwork.exceptions import StreamProtocolParseError
class Err(Exception): pass
class Look2(FileBasedPacketSerializer):
    """violates ok_pre: says EOF until TWO bytes beyond the packet are available"""
    def __init__(self): super().__init__(expected_load_error=Err, limit=64)
    def dump_to_file(self, p, f): f.write(bytes([len(p)])+p)
    def load_from_file(self, f):
        data = f.getvalue()
        if not data or len(data) < 1 + data[0] + 2: raise EOFError
        f.seek(1 + data[0]); return data[1:1+data[0]]
c = BufferedStreamDataConsumer(BufferedStreamProtocol(Look2()), 1)
out=[]
for b in b"\x01a\x01b\x01c":
    v = memoryview(c.get_write_buffer()); v[0]=b; v.release(); arg=1
    while True:
        try: out.append(("pkt", c.next(arg)))
        except StopIteration: break
        except Exception as e: out.append(("escape", repr(e))); break
        arg=None
print(out)
