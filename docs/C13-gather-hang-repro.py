"""
EasyNetwork, asyncio backend: backend.gather() (and `await backend.ignore_cancellation(tg.start(...))` in general)
hangs for ever when a task of the group fails in the loop turn in which the next start() has just created its child.

TaskGroup.start() waits for a `waiter` future which only the child's first step resolves.  If the group aborts (another
child failed) the not-yet-started child is cancelled BEFORE its first step: the waiter is never resolved.  Unshielded,
start() is rescued by the cancellation the group sends to its host; under ignore_cancellation() (which is how
AsyncBackend.gather() calls start()) that cancellation is swallowed: start() never returns.

Exit 0 = finished (ExceptionGroup expected), exit 1 = hang.
"""
import asyncio, os, sys
sys.path.insert(0, os.environ.get("VERIF_REPO", "/repo") + "/src")
from easynetwork.lowlevel.api_async.backend.utils import new_builtin_backend


async def bad():
    await asyncio.sleep(0)          # fails in its SECOND step
    raise ValueError("boom")


async def good(backend):
    await backend.sleep(0.05)
    return 42


async def main() -> int:
    backend = new_builtin_backend("asyncio")
    t = asyncio.ensure_future(backend.gather(bad(), good(backend)))
    done, _ = await asyncio.wait({t}, timeout=3.0)
    if not done:
        print("HANG: backend.gather(bad(), good()) did not finish within 3 s:", t)
        os._exit(1)                 # (the task cannot be cancelled either: it sits in a cancel-shielded wait)
    print("gather finished:", repr(t.exception()))
    return 0


sys.exit(asyncio.run(main()))
