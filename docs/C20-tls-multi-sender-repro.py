"""
Stand-alone reproduction (unchanged EasyNetwork, CPython 3.12): AsyncTLSStreamTransport with >= 3 concurrent send_all().

  A  connection lost while senders are suspended: the ones whose records were inside ANOTHER sender's failed flush
     return normally instead of failing with a connection error.
  B  the owner of the TLS send lock is cancelled while suspended in the wrapped transport, after it had taken the other
     senders' records out of the outgoing BIO: those senders return at once although the peer has not read a byte and
     their records sit in asyncio's write buffer (no backpressure for them).

usage: python C20-tls-multi-sender-repro.py [path-to-repo]      exit 0 = both behave as the property says, 1 = not
"""
import asyncio, socket, ssl, sys
from pathlib import Path

sys.path.insert(0, (sys.argv[1] if len(sys.argv) > 1 else "/repo") + "/src")
from easynetwork.lowlevel.api_async.backend._asyncio.backend import AsyncIOBackend
from easynetwork.lowlevel.api_async.transports.tls import AsyncTLSStreamTransport

CERTS = Path("/verif/harness/vlib/c14_certs")


async def connect():
    a, b = socket.socketpair()
    for s in (a, b):
        s.setsockopt(socket.SOL_SOCKET, socket.SO_SNDBUF, 4096)
        s.setsockopt(socket.SOL_SOCKET, socket.SO_RCVBUF, 4096)
        s.setblocking(False)
    sctx = ssl.SSLContext(ssl.PROTOCOL_TLS_SERVER)
    sctx.load_cert_chain(CERTS / "cert.pem", CERTS / "key.pem")
    cctx = ssl.create_default_context(cafile=str(CERTS / "cert.pem"))
    inc, out = ssl.MemoryBIO(), ssl.MemoryBIO()
    peer = sctx.wrap_bio(inc, out, server_side=True)
    loop = asyncio.get_running_loop()

    async def peer_handshake():
        while True:
            try:
                peer.do_handshake()
            except ssl.SSLWantReadError:
                if out.pending:
                    await loop.sock_sendall(b, out.read())
                inc.write(await loop.sock_recv(b, 65536))
            else:
                if out.pending:
                    await loop.sock_sendall(b, out.read())
                return

    backend = AsyncIOBackend()
    raw = await backend.wrap_stream_socket(a)
    hs = asyncio.create_task(peer_handshake())
    tls = await AsyncTLSStreamTransport.wrap(raw, cctx, server_hostname="localhost")
    await hs
    return tls, raw, b


def outcome(t: asyncio.Task) -> str:
    if not t.done():
        return "still suspended"
    if t.cancelled():
        return "cancelled"
    return "returned normally" if t.exception() is None else f"raised {type(t.exception()).__name__}"


async def scenario_a() -> bool:
    tls, raw, b = await connect()
    tasks = {"A": asyncio.create_task(tls.send_all(bytes(8 << 20)))}
    await asyncio.sleep(0.05)
    for name in "BCD":
        tasks[name] = asyncio.create_task(tls.send_all(name.encode() * 512))
    await asyncio.sleep(0.05)
    assert not any(t.done() for t in tasks.values()), "all four must be suspended: the peer does not read"
    b.close()                                      # connection lost (unread data: reset)
    await asyncio.sleep(0.3)
    res = {n: outcome(t) for n, t in tasks.items()}
    print("A (connection lost while 4 senders are suspended):", res)
    for t in tasks.values():
        t.cancel()
    raw._AsyncioTransportStreamSocketAdapter__transport.abort()
    return all(r.startswith("raised") for r in res.values())


async def scenario_b() -> bool:
    tls, raw, b = await connect()
    aio = raw._AsyncioTransportStreamSocketAdapter__transport
    tasks = {"W": asyncio.create_task(tls.send_all(bytes(8 << 20)))}
    await asyncio.sleep(0.05)
    for name in "XYZ":
        tasks[name] = asyncio.create_task(tls.send_all(name.encode() * 100000))
    await asyncio.sleep(0.05)
    tasks["W"].cancel()                            # X gets the lock, flushes the records of X, Y and Z, is suspended
    await asyncio.sleep(0.05)
    tasks["X"].cancel()                            # ... and is cancelled too
    await asyncio.sleep(0.05)
    res = {n: outcome(t) for n, t in tasks.items()}
    buffered = aio.get_write_buffer_size()
    print("B (owner of the send lock cancelled, peer has read NOTHING):", res, f"- asyncio write buffer: {buffered} bytes")
    ok = res["Y"] == "still suspended" and res["Z"] == "still suspended"
    for t in tasks.values():
        t.cancel()
    aio.abort()
    b.close()
    return ok


async def main() -> int:
    ok_a = await scenario_a()
    ok_b = await scenario_b()
    print("A:", "ok" if ok_a else "DEVIATES: a suspended sender returned normally on a lost connection")
    print("B:", "ok" if ok_b else "DEVIATES: senders returned while their records are still in the user-space write buffer")
    return 0 if ok_a and ok_b else 1


sys.exit(asyncio.run(main()))
