from easynetwork.protocol import BufferedStreamProtocol
from easynetwork.serializers import StringLineSerializer, JSONSerializer
from easynetwork.serializers.wrapper import Base64EncoderSerializer
from easynetwork.lowlevel._stream import BufferedStreamDataConsumer
from easynetwork.exceptions import StreamProtocolParseError
for ser in (StringLineSerializer(), JSONSerializer(), Base64EncoderSerializer(JSONSerializer())):
    c = BufferedStreamDataConsumer(BufferedStreamProtocol(ser), 1024)
    data = b"\xff\xfe\nrest!XYZ and more data"
    buf = c.get_write_buffer()
    buf[:len(data)] = data
    try:
        c.next(len(data))
    except StreamProtocolParseError as e:
        print(type(ser).__name__, type(e.remaining_data).__name__, bytes(e.remaining_data))
