"""AsyncUDPNetworkClient.aclose() cancelled while a send_packet() of another task holds the send lock closes nothing
(UDP twin of the AsyncTCPNetworkClient defect fixed in 9f42264).  Exit 1 when the client is still open."""
import asyncio, socket, sys
sys.path.insert(0, (sys.argv[1] if len(sys.argv) > 1 else "/repo") + "/src")
from easynetwork.clients.async_udp import AsyncUDPNetworkClient
from easynetwork.lowlevel.api_async.backend._asyncio.backend import AsyncIOBackend
from easynetwork.lowlevel.api_async.transports.utils import aclose_forcefully
from easynetwork.protocol import DatagramProtocol
from easynetwork.serializers import StringLineSerializer


class SlowSendBackend(AsyncIOBackend):
    """the datagram transport's send() waits on a gate (what writer flow control does when the socket buffer is full)"""
    def __init__(self):
        super().__init__()
        self.gate = asyncio.Event()

    async def wrap_connected_datagram_socket(self, sock):
        tr = await super().wrap_connected_datagram_socket(sock)
        gate = self.gate
        from easynetwork.lowlevel.api_async.transports.abc import AsyncDatagramTransport

        class Slow(AsyncDatagramTransport):
            def backend(s): return tr.backend()
            def is_closing(s): return tr.is_closing()
            async def aclose(s): await tr.aclose()
            async def recv(s): return await tr.recv()
            async def send(s, data):
                await gate.wait()
                await tr.send(data)
            @property
            def extra_attributes(s): return tr.extra_attributes
        return Slow()


async def main():
    peer = socket.socket(socket.AF_INET, socket.SOCK_DGRAM); peer.bind(("127.0.0.1", 0))
    sock = socket.socket(socket.AF_INET, socket.SOCK_DGRAM); sock.bind(("127.0.0.1", 0)); sock.connect(peer.getsockname())
    be = SlowSendBackend()
    client = AsyncUDPNetworkClient(sock, DatagramProtocol(StringLineSerializer()), be)
    await client.wait_connected()
    sender = asyncio.ensure_future(client.send_packet("x"))
    for _ in range(3):
        await asyncio.sleep(0)
    await aclose_forcefully(client)          # = client.aclose() in an already expired scope
    for _ in range(5):
        await asyncio.sleep(0)
    print("after aclose_forcefully(client): is_closing() =", client.is_closing(), " fileno =", client.socket.fileno())
    bad = (not client.is_closing()) or client.socket.fileno() != -1
    be.gate.set()
    await asyncio.wait({sender}, timeout=2)
    await client.aclose()
    peer.close()
    return 1 if bad else 0

sys.exit(asyncio.run(main()))
