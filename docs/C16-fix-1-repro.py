import sys, json, os
sys.path.insert(0,'/verif/harness')
from props import c16

N=int(sys.argv[1]); eager = sys.argv[2]=="1"
case={"api": sys.argv[3] if len(sys.argv)>3 else "low", "naddr": 1, "early": [], "eager": eager,
      "progs": {"0": [[{"s": 1, "do": "r"}]] + [[{"s": 0, "do": "r"}]] * (N+5)},
      "script": [[["a", 0, f"{i%250:02x}"] for i in range(N+1)], [], [["g", 0]], [], []], "never": []}
real=c16.run_real(case)
print(len(real), real[-6:])
print("oracle:", c16.oracle(case, real))
print("key:", c16.known_key(case, real, c16.oracle(case, real) or ""))
