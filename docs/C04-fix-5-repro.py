"""
Stand-alone reproduction: SocketStreamTransport.send_all_from_iterable() (sendmsg path) / _utils.adjust_leftover_buffer with a
multi-dimensional memoryview of bytes (itemsize 1, ndim 2: e.g. memoryview(data).cast("B", shape=[rows, cols])).
usage: python sendmsg_2d_repro.py [repo]     exit 0 = peer received exactly the bytes; 1 = bytes dropped / exception
"""
import socket, sys, threading
sys.path.insert(0, (sys.argv[1] if len(sys.argv) > 1 else "/repo") + "/src")
from easynetwork.lowlevel.api_sync.transports.socket import SocketStreamTransport
from easynetwork.lowlevel._utils import adjust_leftover_buffer
from collections import deque

bad = 0
# (1) the helper alone
d = deque([memoryview(b"abcdef").cast("B", shape=[2, 3]), memoryview(b"xy")])
try:
    adjust_leftover_buffer(d, 3)          # sendmsg() reported 3 bytes sent: "def" + "xy" must be left
    left = b"".join(v.tobytes() for v in d)
except Exception as e:
    left = f"{type(e).__name__}: {e}"
if left != b"defxy":
    bad += 1
    print(f"FAIL: adjust_leftover_buffer([2x3 view of b'abcdef', b'xy'], 3) leaves {left!r} instead of b'defxy'")
d = deque([memoryview(b"abcdef").cast("B", shape=[2, 3])])
try:
    adjust_leftover_buffer(d, 6)
    left = b"".join(v.tobytes() for v in d)
except Exception as e:
    left = f"{type(e).__name__}: {e}"
if left != b"":
    bad += 1
    print(f"FAIL: adjust_leftover_buffer([2x3 view of b'abcdef'], 6) -> {left!r} instead of nothing left")

# (2) the real transport on a socketpair, a peer that reads late (partial sendmsg)
a, b = socket.socketpair()
a.setsockopt(socket.SOL_SOCKET, socket.SO_SNDBUF, 16384)
rows, cols = 4000, 1000
data = bytes((i * 7 + i // 251) % 256 for i in range(rows * cols))
got = bytearray()
def peer():
    b.settimeout(3)
    try:
        while len(got) < len(data) + 4:
            x = b.recv(1 << 16)
            if not x:
                break
            got.extend(x)
    except OSError:
        pass
th = threading.Thread(target=peer, daemon=True); th.start()
tr = SocketStreamTransport(a, 1.0)
try:
    tr.send_all_from_iterable([memoryview(data).cast("B", shape=[rows, cols]), b"tail"], 10.0)
    out = "returned"
except Exception as e:
    out = f"raised {type(e).__name__}: {e}"
tr.close(); th.join(5)
if out != "returned" or bytes(got) != data + b"tail":
    bad += 1
    print(f"FAIL: send_all_from_iterable([{rows}x{cols} view of {len(data)} bytes, b'tail']): call {out}; peer got {len(got)} of {len(data) + 4} bytes"
          f" ({'a prefix' if (data + b'tail').startswith(bytes(got)) else 'NOT a prefix: bytes dropped in the middle'})")
print("PASS" if not bad else f"{bad} failing inputs")
sys.exit(1 if bad else 0)
