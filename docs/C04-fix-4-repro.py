"""
Stand-alone reproduction: AsyncioTransportStreamSocketAdapter.send_all() / send_all_from_iterable() with a memoryview whose
itemsize != 1 (documented parameter type: bytes | bytearray | memoryview) and a peer that reads slowly (partial first write).

usage: python aio_itemsize_repro.py [path-to-repo]      (default /repo)
exit 0 = the peer received exactly the bytes of the buffer; exit 1 = bytes lost / call never returns
"""
import array, asyncio, hashlib, logging, socket, sys

logging.getLogger("asyncio").setLevel(logging.CRITICAL)

sys.path.insert(0, (sys.argv[1] if len(sys.argv) > 1 else "/repo") + "/src")
from easynetwork.lowlevel.api_async.backend._asyncio.backend import AsyncIOBackend


async def one(api: str, fmt: str, nitems: int) -> str | None:
    backend = AsyncIOBackend()
    a, b = socket.socketpair()
    a.setsockopt(socket.SOL_SOCKET, socket.SO_SNDBUF, 16384)
    b.setblocking(False)
    loop = asyncio.get_running_loop()
    tr = await backend.wrap_stream_socket(a)
    arr = array.array(fmt, (i % 251 for i in range(nitems)))
    expected = arr.tobytes()
    got = bytearray()

    async def reader():
        await asyncio.sleep(0.05)          # the first write is partial
        while len(got) < len(expected):
            try:
                data = await asyncio.wait_for(loop.sock_recv(b, 65536), 1.0)
            except asyncio.TimeoutError:
                return
            if not data:
                return
            got.extend(data)

    rd = asyncio.ensure_future(reader())
    try:
        if api == "send_all":
            await asyncio.wait_for(tr.send_all(memoryview(arr)), 10)
        else:
            await asyncio.wait_for(tr.send_all_from_iterable([b"head", memoryview(arr)][1:]), 10)
        out = "returned"
    except asyncio.TimeoutError:
        out = "STILL RUNNING after 10 s"
    except Exception as e:
        out = f"raised {type(e).__name__}: {e}"
    await rd
    b.close()
    try:
        await asyncio.wait_for(tr.aclose(), 2)
    except Exception:
        pass
    if out == "returned" and bytes(got) == expected:
        return None
    same = bytes(got) == expected[:len(got)]
    return (f"{api}(memoryview(array({fmt!r}, range({nitems})))) [{len(expected)} bytes]: call {out}; peer got {len(got)} bytes"
            f" ({'a prefix' if same else 'NOT a prefix: bytes dropped in the middle'})")


async def main() -> int:
    bad = 0
    for api in ("send_all", "send_all_from_iterable"):
        for fmt in ("B", "H", "I", "Q"):
            r = await one(api, fmt, 200)              # fits the socket buffer: complete first write
            r2 = await one(api, fmt if fmt != "B" else "B", 2_000_000 if fmt != "B" else 255 * 4000)
            for x in (r, r2):
                if x:
                    bad += 1
                    print("FAIL:", x)
    print("PASS" if not bad else f"{bad} failing inputs")
    return 1 if bad else 0

sys.exit(asyncio.run(main()))
