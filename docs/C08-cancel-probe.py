"""C08: cancel-safety probe for candidate fixes of the full-duplex deadlock (VERIF_REPO=<tree> selects the code).
Two concurrent send_all on one TLS transport over a 4 KiB pipe; the second one is cancelled while it waits for the send
lock; then a third send.  Expected: the peer reads A x20000, B x100, C x50 (the cancelled send's records stay in the outgoing BIO
and go out with the next flush).  With docs/C08-fix-2-rejected-trio-style.patch the peer fails with BAD_RECORD_MAC."""
import sys, asyncio
from pathlib import Path
sys.path.insert(0, str(Path(__file__).resolve().parents[1] / "harness"))
from vlib import c08_env as env, c08_run as R, c08_duplex as D
from easynetwork.lowlevel.api_async.transports.tls import AsyncTLSStreamTransport

def main():
    res = {}
    async def run():
        ab, ba = D.Pipe(4096), D.Pipe(4096)
        A = D.PipeTransport(env.HBackend(None), None, ba, ab)
        B = D.PipeTransport(env.HBackend(None), None, ab, ba)
        loop = asyncio.get_running_loop()
        tb = loop.create_task(AsyncTLSStreamTransport.wrap(B, R.server_ctx("1.3", 0), server_side=True, handshake_timeout=1e9))
        ta = await AsyncTLSStreamTransport.wrap(A, R.client_ctx("1.3"), server_hostname="localhost", handshake_timeout=1e9)
        tb = await tb
        big = b"A" * 20000
        s1 = loop.create_task(ta.send_all(big))          # parks in transport.send_all (pipe of 4 KiB)
        await asyncio.sleep(0)
        s2 = loop.create_task(ta.send_all(b"B" * 100))   # ssl.write done, waits for the send lock
        for _ in range(3): await asyncio.sleep(0)
        s2.cancel()
        await asyncio.gather(s2, return_exceptions=True)
        got = bytearray()
        async def rd():
            while len(got) < 20000 + 100 + 50 - (0):
                try:
                    d = await tb.recv(65536)
                except Exception as e:
                    res["err"] = f"{type(e).__name__}: {e}"; return
                if not d: return
                got.extend(d)
                if got.endswith(b"C" * 50): return
        r = loop.create_task(rd())
        await s1
        await ta.send_all(b"C" * 50)
        await r
        res["got"] = (got.count(b"A"), got.count(b"B"), got.count(b"C"))
        A.closing = B.closing = True
    out, loop = env.run(run)
    print(out[0], res)
main()
