import asyncio
from easynetwork.lowlevel.api_async.backend._asyncio.backend import AsyncIOBackend

async def main():
    backend = AsyncIOBackend()
    loop = asyncio.get_running_loop()
    async def victim():
        me = asyncio.current_task()
        with backend.open_cancel_scope() as scope:
            loop.call_soon(scope.cancel)      # e.g. a move_on_after deadline expiring ...
            loop.call_soon(me.cancel)         # ... and the caller cancelling the task in the same loop turn
            await asyncio.sleep(10)
        print("scope swallowed: cancelled_caught =", scope.cancelled_caught(), " task.cancelling() =", me.cancelling())
        await asyncio.sleep(0.05)
        await asyncio.sleep(0.05)
        return "survived"
    t = asyncio.create_task(victim())
    try:
        print("result:", await t)
    except asyncio.CancelledError:
        print("victim cancelled (expected)")

    # reference: asyncio.timeout in the same situation
    async def victim2():
        me = asyncio.current_task()
        try:
            async with asyncio.timeout(None) as cm:
                loop.call_soon(lambda: cm.reschedule(loop.time()-1))
                loop.call_soon(loop.call_soon, me.cancel)
                await asyncio.sleep(10)
        except TimeoutError:
            print("asyncio.timeout: TimeoutError")
        return "survived"
    t = asyncio.create_task(victim2())
    try:
        print("result:", await t)
    except asyncio.CancelledError:
        print("victim2 cancelled (expected)")
asyncio.run(main())
