import asyncio, ssl, sys
from easynetwork.lowlevel.api_async.backend._asyncio.backend import AsyncIOBackend
from easynetwork.lowlevel.api_async.transports.abc import AsyncStreamTransport
from easynetwork.lowlevel.api_async.transports.tls import AsyncTLSStreamTransport

CERT="/verif/harness/vlib/c14_certs/cert.pem"; KEY="/verif/harness/vlib/c14_certs/key.pem"
backend = AsyncIOBackend()
CAP = int(sys.argv[1]) if len(sys.argv) > 1 else 65536
N = int(sys.argv[2]) if len(sys.argv) > 2 else 2_000_000

class Pipe:
    def __init__(self): self.buf=bytearray(); self.ev=asyncio.Event(); self.space=asyncio.Event(); self.space.set(); self.eof=False
class T(AsyncStreamTransport):
    def __init__(self, i, o): super().__init__(); self.i, self.o, self.c = i, o, False
    async def aclose(self): self.c=True; self.o.eof=True; self.o.ev.set()
    def is_closing(self): return self.c
    def backend(self): return backend
    async def recv_into(self, b):
        while not self.i.buf and not self.i.eof:
            self.i.ev.clear(); await self.i.ev.wait()
        n=min(len(b), len(self.i.buf)); memoryview(b)[:n]=self.i.buf[:n]; del self.i.buf[:n]; self.i.space.set(); return n
    async def send_all(self, d):
        d=bytes(d)
        while d:
            while len(self.o.buf) >= CAP:          # bounded pipe: backpressure
                self.o.space.clear(); await self.o.space.wait()
            k=CAP-len(self.o.buf); self.o.buf+=d[:k]; d=d[k:]; self.o.ev.set()
    async def send_eof(self): pass
    @property
    def extra_attributes(self): return {}

async def main():
    p1,p2=Pipe(),Pipe()
    sctx=ssl.SSLContext(ssl.PROTOCOL_TLS_SERVER); sctx.load_cert_chain(CERT,KEY)
    cctx=ssl.SSLContext(ssl.PROTOCOL_TLS_CLIENT); cctx.check_hostname=False; cctx.verify_mode=ssl.CERT_NONE
    a,b=await asyncio.gather(AsyncTLSStreamTransport.wrap(T(p1,p2),cctx,server_hostname="x"), AsyncTLSStreamTransport.wrap(T(p2,p1),sctx,server_side=True))
    async def send(t): await t.send_all(b"z"*N)
    async def recv(t):
        n=0
        while n<N:
            d=await t.recv(65536)
            if not d: break
            n+=len(d)
        return n
    try:
        r=await asyncio.wait_for(asyncio.gather(send(a),send(b),recv(a),recv(b)), 20)
        print("completed", r[2], r[3])
    except asyncio.TimeoutError:
        print("DEADLOCK: full-duplex transfer did not complete in 20 s")
asyncio.run(main())
