"""
Observation (unchanged library, documented/tested behaviour - NOT registered as a finding):

    for packet in client.iter_received_packets(timeout=None): ...

ends NORMALLY (no exception) both when the TLS peer closed cleanly (close_notify) and when the TLS stream was TRUNCATED
(connection dropped without close_notify) although the client is in the default, standard-compatible mode:
ClientRecvIterator.__next__ / AsyncClientRecvIterator.__anext__ turn ANY OSError of recv_packet() into StopIteration
(`except OSError as exc: raise StopIteration from exc`, clients/_iter.py).  Only StopIteration.__cause__ - which a `for`
loop or a list comprehension discards - tells the two apart; a direct recv_packet() afterwards does raise the error
(ConnectionAbortedError <- SSLEOFError).

Run:  /venv/bin/python /tmp/r5hb-scratch/iter_truncation_repro.py      (uses the committed test certificate of /verif)
"""
import os, socket, ssl, sys, threading

sys.path.insert(0, "/repo/src")
from easynetwork.clients.tcp import TCPNetworkClient
from easynetwork.protocol import StreamProtocol
from easynetwork.serializers.line import StringLineSerializer

CERT = "/verif/harness/vlib/c14_certs/cert.pem"
KEY = "/verif/harness/vlib/c14_certs/key.pem"


def server(clean: bool):
    ctx = ssl.SSLContext(ssl.PROTOCOL_TLS_SERVER)
    ctx.load_cert_chain(CERT, KEY)
    lst = socket.create_server(("127.0.0.1", 0))

    def run():
        conn, _ = lst.accept()
        lst.close()
        s = ctx.wrap_socket(conn, server_side=True)
        s.sendall(b"hello\nworld\n")
        if clean:
            try:
                conn2 = s.unwrap()          # close_notify, waits for the client's
                conn2.close()
            except OSError:
                pass
        else:
            # drop the TCP connection WITHOUT close_notify
            os.close(s.detach())

    threading.Thread(target=run, daemon=True).start()
    return lst.getsockname()[1]


def describe(e):
    out = []
    while e is not None:
        out.append(f"{type(e).__name__}({e})")
        e = e.__cause__ or e.__context__
    return " <- ".join(out)


for clean in (True, False):
    port = server(clean)
    cctx = ssl.create_default_context(cafile=CERT)
    cctx.options &= ~getattr(ssl, "OP_IGNORE_UNEXPECTED_EOF", 0)
    client = TCPNetworkClient(("127.0.0.1", port), StreamProtocol(StringLineSerializer()), ssl=cctx, server_hostname="localhost")
    try:
        got = []
        for p in client.iter_received_packets(timeout=20):        # the documented idiom
            got.append(p)
        print(f"peer {'closed cleanly (close_notify)' if clean else 'DROPPED the connection (no close_notify)'}: "
              f"the for loop ended normally with {got}")
        try:
            client.recv_packet(timeout=5)
        except Exception as e:
            print("    a recv_packet() afterwards:", describe(e))
    finally:
        client.close()
