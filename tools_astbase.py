#!/venv/bin/python
"""Regenerates harness/ast_baseline.json: sha256 of the normalised AST (comments / formatting / docstrings ignored) of every
module under /repo/src/easynetwork at the CURRENT /repo HEAD. Run after every fix: commit in /repo and commit the result.
The baseline decides nothing: a module whose hash differs at check time only raises the number of generated cases for
that run (DESIGN.md section 3, change-directed escalation) and is listed in the evidence."""
import json, os, sys
HERE = os.path.dirname(os.path.abspath(__file__))
sys.path.insert(0, os.path.join(HERE, "harness"))
from vlib import asthash  # noqa: E402

base = asthash.hash_tree("/repo")
json.dump({"python": list(sys.version_info[:2]), "repo_head": os.popen("git -C /repo rev-parse --short HEAD").read().strip(), "modules": base},
          open(os.path.join(HERE, "harness", "ast_baseline.json"), "w"), indent=0, sort_keys=True)
print(len(base), "modules hashed")
