"""
C15 layer "tcp": the REAL high-level AsyncTCPNetworkServer / AsyncTCPNetworkClient, completely in memory, on the
virtual-time loop of vlib/c15_env.py.  Nothing here patches EasyNetwork: the only entry point used is the public
`backend=` argument, given a subclass of the asyncio backend whose two socket factories return in-memory objects:

  FakeSocket       ISocket-shaped attribute holder (fileno() == -1, AF_INET, get/setsockopt raise OSError(EBADF)):
                   no file descriptor, so no ResourceWarning and no real network I/O
  inet_extra       the INETSocketAttribute typed attributes (socket, family, sockname, peername) over a FakeSocket
  MemBackend       AsyncIOBackend with create_tcp_listeners() -> [the MemListener] and
                   create_tcp_connection() -> the next MemTransport; the objects it is given (or that it creates with
                   .transport() / .listen()) are adopted: they report this backend and carry the INET attributes
  run_tcp_server_session(case)   same case / lines / aux as c15_run.run_session, through AsyncTCPNetworkServer
  run_tcp_server_conn_session(case)   the same for any connection kind (`case["conn"]`, c15_run.Connection: "stapled" =
                   the library's AsyncStapledStreamTransport over two in-memory half transports)
  make_tcp_client(proto, ...)    (AsyncTCPNetworkClient, its MemTransport, the MemBackend)

The server installs its own disconnect_error_filter (ConnectionError -> disconnection), so case["filter"] is ignored.
"""
from __future__ import annotations

import asyncio
import contextlib
import errno
import logging
import socket as _socket
from typing import Any, Callable, Sequence

from vlib import core, streamdrive as sd  # noqa: F401  (core: sys.path for /repo/src)
from vlib import c15_env as env
from vlib import c15_run as run

from easynetwork.clients.async_tcp import AsyncTCPNetworkClient
from easynetwork.lowlevel.api_async.backend._asyncio.backend import AsyncIOBackend
from easynetwork.lowlevel.socket import INETSocketAttribute
from easynetwork.servers.async_tcp import AsyncTCPNetworkServer

HOST = "127.0.0.1"
LISTEN_PORT = 9000        # the "bound" port of the in-memory listener (the server asks for port 0)
ACCEPTED_PORT0 = 50000    # peer port of the i-th accepted connection: ACCEPTED_PORT0 + i
CLIENT_PORT0 = 40000      # local port of the i-th outgoing connection: CLIENT_PORT0 + i


class FakeSocket:
    """what EasyNetwork looks at on a socket it does not own: names, family, options (which all fail with EBADF)"""

    family = _socket.AF_INET
    type = _socket.SOCK_STREAM
    proto = _socket.IPPROTO_TCP

    def __init__(self, sockname: tuple[str, int], peername: tuple[str, int] | None = None) -> None:
        self._sockname, self._peername = sockname, peername
        self.opt_calls: list[tuple] = []      # every getsockopt / setsockopt attempt, for the curious

    def fileno(self) -> int:
        return -1

    def get_inheritable(self) -> bool:
        return False

    def getsockname(self) -> tuple[str, int]:
        return self._sockname

    def getpeername(self) -> tuple[str, int]:
        if self._peername is None:
            raise OSError(errno.ENOTCONN, "not connected")
        return self._peername

    def getsockopt(self, *args: Any) -> int | bytes:
        self.opt_calls.append(("get", *args))
        raise OSError(errno.EBADF, "fake socket")

    def setsockopt(self, *args: Any) -> None:
        self.opt_calls.append(("set", *args))
        raise OSError(errno.EBADF, "fake socket")


def inet_extra(sockname: tuple[str, int], peername: tuple[str, int] | None = None) -> dict[Any, Callable[[], Any]]:
    """typed attributes of a TCP transport (with `peername`) or of a TCP listener (without)"""
    sock = FakeSocket(sockname, peername)
    extra: dict[Any, Callable[[], Any]] = {
        INETSocketAttribute.socket: lambda: sock,
        INETSocketAttribute.family: lambda: sock.family,
        INETSocketAttribute.sockname: sock.getsockname,
    }
    if peername is not None:
        extra[INETSocketAttribute.peername] = sock.getpeername
    return extra


class MemBackend(AsyncIOBackend):
    """
    listener:    what create_tcp_listeners() returns (as a one-element list); None -> OSError(EADDRNOTAVAIL)
    connections: what successive create_tcp_connection() calls return; exhausted -> ConnectionRefusedError
    Every object given is adopted: its backend() becomes this backend, and the INET typed attributes it lacks are added
    (keys already present in its `extra=` win).  `listen_calls` / `connect_calls` record the arguments received.
    """

    def __init__(self, listener: env.MemListener | None = None, connections: Sequence[env.MemTransport] = ()) -> None:
        super().__init__()
        self.listener: env.MemListener | None = None
        self.connections: list[env.MemTransport] = []
        self.listen_calls: list[tuple] = []
        self.connect_calls: list[tuple] = []
        self._nconn = 0
        if listener is not None:
            self.adopt_listener(listener)
        for tr in connections:
            self.adopt_connection(tr)

    # ---- adoption
    def _adopt(self, obj: Any, extra: dict) -> Any:
        obj._be = self
        obj._extra = {**extra, **obj._extra}
        return obj

    def adopt_listener(self, listener: env.MemListener) -> env.MemListener:
        self.listener = self._adopt(listener, inet_extra((HOST, LISTEN_PORT)))
        for i, tr in enumerate(listener.transports):
            self._adopt(tr, inet_extra((HOST, LISTEN_PORT), (HOST, ACCEPTED_PORT0 + i)))
        return listener

    def adopt_connection(self, tr: env.MemTransport, port: int = 9) -> env.MemTransport:
        self._adopt(tr, inet_extra((HOST, CLIENT_PORT0 + self._nconn), (HOST, port)))
        self._nconn += 1
        self.connections.append(tr)
        return tr

    # ---- conveniences
    def transport(self, incoming=(), end: str = "eof", end_time: float | None = None, **kw: Any) -> env.MemTransport:
        """a MemTransport bound to this backend (not yet served by the listener, nor queued as a connection)"""
        return env.MemTransport(list(incoming), end, end_time, be=self, **kw)

    def listen(self, transports: list[env.MemTransport]) -> env.MemListener:
        return self.adopt_listener(env.MemListener(transports, be=self))

    # ---- the two factories the high-level TCP server / client call
    async def create_tcp_listeners(self, host, port, backlog, *, reuse_port=False):
        self.listen_calls.append((host, port, backlog, reuse_port))
        await self.coro_yield()
        if self.listener is None:
            raise OSError(errno.EADDRNOTAVAIL, "MemBackend has no listener")
        return [self.listener]

    async def create_tcp_connection(self, host, port, *, local_address=None, happy_eyeballs_delay=None):
        self.connect_calls.append((host, port, local_address, happy_eyeballs_delay))
        await self.coro_yield()
        if not self.connections:
            raise ConnectionRefusedError(errno.ECONNREFUSED, "MemBackend has no connection left")
        return self.connections.pop(0)


def _quiet() -> None:
    logging.getLogger("easynetwork").setLevel(logging.CRITICAL)


def run_tcp_server_session(case: dict) -> tuple[list[str], dict]:
    """c15_run.run_session for layer "tcp": returns (canonical lines, aux)"""
    _quiet()
    log = run.Log()
    script = run.Script(case, log)
    incoming, t_end, chunks = run.build_incoming(case)
    be = MemBackend()
    tr = run.SessionTransport(incoming, case.get("end", "eof"), t_end, be=be, after_close=case.get("after_close", "ebadf"))
    log.probe = lambda: tr.nread
    listener = be.listen([tr])
    proto = sd.make_protocol(case["spec"], case["path"], bool(case.get("conv")))
    aux: dict[str, Any] = {"chunks": chunks, "incoming": incoming, "t_end": t_end}

    async def main() -> None:
        server = AsyncTCPNetworkServer(
            case.get("host", HOST), 0, proto, run.ScriptedHandler(script), backend=be,
            max_recv_size=case.get("max_recv", 16384), log_client_connection=False,
        )
        assert server.backend() is be and tr.backend() is be and listener.backend() is be
        t = asyncio.ensure_future(server.serve_forever())
        try:
            # wait for the client task to finish (serve_forever() dying first would otherwise spin forever)
            while listener.all_done is None and not t.done():
                await asyncio.sleep(0)
            if listener.all_done is not None:
                await listener.all_done.wait()
                aux["addresses"] = [tuple(a) for a in server.get_addresses()]
            log("task-done")
            await server.shutdown()
            await server.server_close()
        finally:
            t.cancel()
            with contextlib.suppress(asyncio.CancelledError):
                await t      # an exception of serve_forever() itself is reported as "main-exc"

    out, loop = env.run(main)
    lines = list(log.lines)
    if out[0] == "exc":
        lines.append(f"main-exc {type(out[1]).__name__}: {out[1]}")
    for kind, e in listener.task_results:
        lines.append("task " + (kind if kind != "exc" else "exc:" + run.exc_kind(e)))
    lines.append(f"transport closed={int(tr.closed)} aclose_calls={min(tr.aclose_calls, 9)}")
    lines.append(f"nresp {script.nresp}")
    aux["written"] = b"".join(tr.written)
    aux["gen_ends"] = script.gen_ends
    aux["gens_started"] = script.gens_started
    aux["recv_log"] = tr.recv_log
    aux["recv_while_closed"] = tr.recv_while_closed
    aux["read_marks"] = list(log.marks)
    aux["listener_closed"] = listener.closing
    aux["listen_calls"] = be.listen_calls
    return lines, aux


def run_tcp_server_conn_session(case: dict) -> tuple[list[str], dict]:
    """run_tcp_server_session for any connection kind of c15_run.Connection (`case["conn"]`: "single" | "stapled"): the
    accepted connection is whatever Connection builds, its in-memory (half) transports adopted by the MemBackend"""
    _quiet()
    log = run.Log()
    script = run.Script(case, log)
    be = MemBackend()
    peer = (HOST, ACCEPTED_PORT0)
    conn = run.make_connection(case, be=be, adopt=lambda obj, which: be._adopt(obj, inet_extra((HOST, LISTEN_PORT), peer)))
    ssl_kw: dict[str, Any] = {}
    if conn.kind == "tls":
        # the in-memory listener accepts the wire; AsyncTCPNetworkServer(ssl=...) puts its own AsyncTLSListener in front
        from vlib import c15_tls
        ssl_kw["ssl"] = c15_tls.server_context()
    log.probe = lambda: conn.reader.nread
    listener = env.MemListener([conn.transport], be=be)
    be.listener = be._adopt(listener, inet_extra((HOST, LISTEN_PORT)))
    proto = sd.make_protocol(case["spec"], case["path"], bool(case.get("conv")))
    aux: dict[str, Any] = {"chunks": conn.chunks, "incoming": conn.incoming, "t_end": conn.t_end}

    async def main() -> None:
        server = AsyncTCPNetworkServer(
            case.get("host", HOST), 0, proto, run.ScriptedHandler(script), backend=be,
            max_recv_size=case.get("max_recv", 16384), log_client_connection=False, **ssl_kw,
        )
        assert server.backend() is be and conn.transport.backend() is be and listener.backend() is be
        t = asyncio.ensure_future(server.serve_forever())
        try:
            while listener.all_done is None and not t.done():
                await asyncio.sleep(0)
            if listener.all_done is not None:
                await listener.all_done.wait()
                aux["addresses"] = [tuple(a) for a in server.get_addresses()]
            log("task-done")
            await server.shutdown()
            await server.server_close()
        finally:
            t.cancel()
            with contextlib.suppress(asyncio.CancelledError):
                await t

    out, loop = env.run(main)
    lines = list(log.lines)
    if out[0] == "exc":
        lines.append(f"main-exc {type(out[1]).__name__}: {out[1]}")
    for kind, e in listener.task_results:
        lines.append("task " + (kind if kind != "exc" else "exc:" + run.exc_kind(e)))
    lines.extend(conn.final_lines())
    lines.append(f"nresp {script.nresp}")
    conn.fill_aux(aux)
    aux["gen_ends"] = script.gen_ends
    aux["gens_started"] = script.gens_started
    aux["read_marks"] = list(log.marks)
    aux["listener_closed"] = listener.closing
    aux["listen_calls"] = be.listen_calls
    return lines, aux


def make_tcp_client(proto, incoming=(), end: str = "eof", end_time: float | None = None, *,
                    max_recv_size: int | None = None, address: tuple[str, int] = (HOST, 9),
                    **transport_kwargs: Any) -> tuple[AsyncTCPNetworkClient, env.MemTransport, MemBackend]:
    """
    (client, mem_transport, backend): a real AsyncTCPNetworkClient(address, proto, backend=MemBackend(...)) whose
    connection attempt resolves to `mem_transport` = MemTransport(incoming, end, end_time, **transport_kwargs), so
    that `await client.wait_connected()`, send_packet(), recv_packet(), aclose() all work in memory.

    MUST be called inside a running VLoop (from a coroutine given to c15_env.run): the client constructor opens a
    cancel scope and creates locks that belong to the running loop, and the client can only be closed with `await
    client.aclose()` on that same loop (a connected client dropped unclosed emits a ResourceWarning from __del__).
    `incoming` times are absolute virtual times, as for MemTransport.
    """
    _quiet()
    asyncio.get_running_loop()      # fail early and clearly when misused
    be = MemBackend()
    tr = be.adopt_connection(be.transport(incoming, end, end_time, **transport_kwargs), address[1])
    client = AsyncTCPNetworkClient(address, proto, backend=be, max_recv_size=max_recv_size)
    return client, tr, be
