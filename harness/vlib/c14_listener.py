"""
C14 / C18 — path `lsn`: the REAL ListenerSocketAdapter (backend/_asyncio/stream/listener.py) driven event by event against
the Lean machine Model/Listener.lean (driver model `lsn`).

A case is a history of model events
    acceptCall | acceptDone ok|capacity|ignorable|other | scopeDelivered | backoffDone | extCancel | closeCall | closeResume | closeCancel
executed on a real listener (a real listening socket on loopback) inside an event loop whose `sock_accept()` is scripted (the
harness decides when and how an accept completes) and whose clock is virtual (the 100 ms back-off sleep ends when the harness
advances the clock).  Nothing in the library is patched; the marker `__accept_scope` is read, never written.

How an event is made to happen (one event = the same atomic piece of the coroutines as in the model):
    acceptCall        a task runs `listener.raw_accept()` until it parks (in sock_accept) or ends (EBUSY / EBADF)
    acceptDone r      the parked sock_accept future gets its result / OSError(errno); the task runs until it parks again or ends
    backoffDone       the virtual clock passes the back-off deadline; the task runs until it parks in the next sock_accept
    extCancel         `task.cancel()` on the accept task; it runs until it ends
    closeCall         a task runs `listener.aclose()` until it parks (at its yield) or ends
    scopeDelivered    the cancellation `aclose()` requested through the accept scope reaches the accept task (next loop turn)
    closeResume / closeCancel   the parked close resumes / is cancelled (`task.cancel()` before the turn)
In the real loop the accept task's wake-up and the close task's resumption happen in the SAME loop turn, accept first: the
generator emits them in that order (scopeDelivered immediately followed by closeResume | closeCancel) and the runner executes
the pair as one turn.  An event the real system cannot perform in its current state is reported `disabled` (as the model does).

Lines (identical for the model): one per event  `<out|-|disabled>`  and a final  `state m=<0|1> ref=<0|1> open=<0|1>`.
"""
from __future__ import annotations

import asyncio
import errno
import socket
from typing import Any

from vlib import core  # noqa: F401

EVENTS = ("acceptCall", "acceptDone ok", "acceptDone capacity", "acceptDone ignorable", "acceptDone other", "scopeDelivered",
          "backoffDone", "extCancel", "closeCall", "closeResume", "closeCancel")
CAPACITY = (errno.EMFILE, errno.ENFILE, errno.ENOBUFS, errno.ENOMEM)
IGNORABLE = (errno.ECONNABORTED,)
OTHER = (errno.EINVAL,)


class _VLoop(asyncio.SelectorEventLoop):
    """virtual clock (timers fire only when the harness advances it) + scripted sock_accept"""

    def __init__(self) -> None:
        super().__init__()
        self.vt = 0.0
        self.accept_fut: asyncio.Future | None = None
        self.accept_calls = 0

    def time(self) -> float:
        return self.vt

    async def sock_accept(self, sock):  # type: ignore[override]
        self.accept_calls += 1
        self.accept_fut = fut = self.create_future()
        try:
            return await fut
        finally:
            if self.accept_fut is fut:
                self.accept_fut = None


def _outcome(task: asyncio.Task, kind: str) -> str:
    if task.cancelled():
        return "acceptCancelled" if kind == "accept" else "closeCancelled"
    exc = task.exception()
    if exc is None:
        if kind == "accept":
            try:
                task.result().close()
            except Exception:
                pass
            return "accepted"
        return "closeReturned"
    if isinstance(exc, OSError):
        if exc.errno == errno.EBUSY:
            return "ebusy"
        if exc.errno == errno.EBADF:
            return "ebadf"
        return "oserror"
    return f"exc-{type(exc).__name__}"


def run_case(case: dict) -> tuple[list[str], dict]:
    import logging

    from easynetwork.lowlevel.api_async.backend._asyncio.backend import AsyncIOBackend
    from easynetwork.lowlevel.socket import INETSocketAttribute

    logging.getLogger("easynetwork").setLevel(logging.CRITICAL)
    lines: list[str] = []
    evs = [e.split() for e in case["events"]]
    loop = _VLoop()

    async def turns(n: int = 1) -> None:
        for _ in range(n):
            await asyncio.sleep(0)

    async def settle(task: asyncio.Task | None, parked) -> None:
        """run until `task` has ended or `parked()` holds (bounded)"""
        for _ in range(50):
            if task is None or task.done() or parked():
                return
            await asyncio.sleep(0)
        lines.append("harness-exc task neither ended nor parked within 50 turns")

    async def main() -> None:
        be = AsyncIOBackend()
        listeners = await be.create_tcp_listeners("127.0.0.1", 0, 10)
        listener = listeners[0]
        for extra in listeners[1:]:
            await extra.aclose()
        proxy = listener.extra(INETSocketAttribute.socket)
        acc: asyncio.Task | None = None      # the task inside raw_accept()
        clo: asyncio.Task | None = None      # the task parked inside aclose()
        where = "idle"                       # idle | accept | backoff
        scope_cancelled = False
        given: list[socket.socket] = []

        def marker() -> bool:
            return getattr(listener, "_ListenerSocketAdapter__accept_scope") is not None

        i = 0
        while i < len(evs):
            ev = evs[i]
            i += 1
            name = ev[0]
            if name == "acceptCall":
                n0 = loop.accept_calls
                t = loop.create_task(listener.raw_accept())
                await settle(t, lambda: loop.accept_calls > n0 and loop.accept_fut is not None)
                if t.done():
                    lines.append(_outcome(t, "accept"))
                else:
                    acc, where = t, "accept"
                    lines.append("-")
            elif name == "acceptDone":
                if acc is None or where != "accept" or scope_cancelled or loop.accept_fut is None or loop.accept_fut.done():
                    lines.append("disabled")
                    continue
                n0 = loop.accept_calls
                fut = loop.accept_fut
                if ev[1] == "ok":
                    s = socket.socket()
                    given.append(s)
                    fut.set_result((s, ("127.0.0.1", 1)))
                else:
                    code = {"capacity": CAPACITY, "ignorable": IGNORABLE, "other": OTHER}[ev[1]]
                    fut.set_exception(OSError(code[case.get("pick", 0) % len(code)], "scripted accept error"))
                t = acc
                await settle(t, lambda: (loop.accept_calls > n0 and loop.accept_fut is not None) or (ev[1] == "capacity" and loop.accept_fut is None and marker()))
                if t.done():
                    lines.append(_outcome(t, "accept"))
                    acc, where = None, "idle"
                else:
                    where = "backoff" if ev[1] == "capacity" else "accept"
                    lines.append("-")
            elif name == "backoffDone":
                if acc is None or where != "backoff" or scope_cancelled:
                    lines.append("disabled")
                    continue
                n0 = loop.accept_calls
                loop.vt += 1.0
                await settle(acc, lambda: loop.accept_calls > n0 and loop.accept_fut is not None)
                if acc.done():
                    lines.append(_outcome(acc, "accept"))
                    acc, where = None, "idle"
                else:
                    where = "accept"
                    lines.append("-")
            elif name == "extCancel":
                if acc is None or scope_cancelled:
                    lines.append("disabled")
                    continue
                acc.cancel()
                await settle(acc, lambda: False)
                lines.append(_outcome(acc, "accept"))
                acc, where = None, "idle"
            elif name == "closeCall":
                t = loop.create_task(listener.aclose())
                had_marker = marker()
                # its first step runs in the next loop iteration; the wake-up of the accept task (if any) only in the one after
                await turns(1)
                if t.done():
                    lines.append(_outcome(t, "close"))
                else:
                    if clo is not None:
                        lines.append("harness-exc two closes parked")
                    clo = t
                    scope_cancelled = had_marker
                    lines.append("-")
            elif name == "scopeDelivered":
                if acc is None or not scope_cancelled:
                    lines.append("disabled")
                    continue
                # same loop turn: accept task first, then the close task (resumed, or cancelled when the next event says so)
                nxt = evs[i][0] if i < len(evs) else None
                if clo is not None and nxt == "closeCancel":
                    clo.cancel()
                await settle(acc, lambda: False)
                lines.append(_outcome(acc, "accept"))
                acc, where, scope_cancelled = None, "idle", False
                if clo is not None and nxt in ("closeResume", "closeCancel"):
                    await settle(clo, lambda: False)
                    lines.append(_outcome(clo, "close"))
                    clo = None
                    i += 1
            elif name in ("closeResume", "closeCancel"):
                if clo is None:
                    lines.append("disabled")
                    continue
                if name == "closeCancel":
                    clo.cancel()
                await settle(clo, lambda: False)
                lines.append(_outcome(clo, "close"))
                clo = None
                if acc is not None and acc.done():
                    # (the accept task woke up in the same turn: its result belongs to a scopeDelivered event the history lacks)
                    lines.append("harness-exc accept task ended without its event")
            else:
                lines.append("bad-op")
        # (no extra loop turn here: a history may end with the close parked and the accept task's wake-up still pending)
        lines.append(f"state m={int(marker())} ref={int(not listener.is_closing())} open={int(proxy.fileno() != -1)}")
        # tear-down (not observed)
        for t in (acc, clo):
            if t is not None and not t.done():
                t.cancel()
        await turns(3)
        try:
            await listener.aclose()
        except BaseException:  # noqa: BLE001
            pass
        await turns(3)
        for t in (acc, clo):
            if t is not None and t.done() and not t.cancelled():
                t.exception()
        for s in given:
            try:
                s.close()
            except Exception:
                pass

    try:
        loop.run_until_complete(main())
    except BaseException as exc:  # noqa: BLE001
        lines.append(f"harness-exc {type(exc).__name__}: {exc}")
    finally:
        try:
            loop.run_until_complete(loop.shutdown_asyncgens())
        except Exception:
            pass
        loop.close()
    return lines, {}


def model_input(case: dict, real: list[str]):
    if any(ln.startswith(("harness-exc", "bad-op")) for ln in real):
        return None
    return "lsn", list(case["events"]) + ["state"]


def oracle(case: dict, real: list[str]) -> str | None:
    """clauses of C14 / C18 read off the real run alone"""
    for ln in real:
        if ln.startswith(("harness-exc", "bad-op")):
            # the harness could not drive / observe the listener (e.g. a private attribute it reads was renamed): not a verdict
            raise core.InfraError(f"C14/C18 lsn: {ln}")
        if ln.startswith("exc-"):
            return f"unexpected: {ln}"
    evs = case["events"]
    outs = [ln for ln in real if not ln.startswith("state ")]
    st = dict(x.split("=") for x in real[-1].split()[1:]) if real and real[-1].startswith("state ") else {}
    # pair events with their lines (scopeDelivered+close pairs produce one line each as well)
    close_started = False
    close_over = True
    inside = False            # a task is inside raw_accept()
    for e, o in zip(evs, outs):
        if o == "disabled":
            continue
        name = e.split()[0]
        if name == "acceptCall":
            if o == "ebusy" and not inside:
                return ("raw_accept() answered EBUSY although no accept is in progress (stale 'accept in progress' marker): "
                        "a stopped server cannot serve again")
            if o == "-":
                inside = True
        elif name in ("acceptDone", "backoffDone"):
            if o != "-":
                inside = False
        elif name in ("extCancel", "scopeDelivered"):
            inside = False
        elif name == "closeCall":
            if close_started and close_over and o != "closeReturned":
                return f"a second close did not return at once: {o}"
            close_started = True
            close_over = o != "-"
        elif name in ("closeResume", "closeCancel"):
            close_over = True
    if close_started and close_over and st.get("open") != "0":
        return "the close operation is over (returned or cancelled) but the listening socket is still open"
    if close_started and st.get("ref") != "0":
        return "is_closing() is false after a close started"
    if not inside and st.get("m") == "1":
        return "the 'accept in progress' marker is set although no task is inside raw_accept()"
    return None


def gen_case(rng) -> dict:
    """random walk that mostly follows enabled events (so that histories are long), canonical order for the close pair"""
    evs: list[str] = []
    where, marker, ref, cpark, sc = "idle", False, True, False, False
    for _ in range(rng.randint(2, 14)):
        r = rng.random()
        cand: list[str] = []
        if sc and where != "idle":
            e = "scopeDelivered"
            evs.append(e)
            where, marker, sc = "idle", False, False
            if cpark:
                evs.append(rng.choice(["closeResume", "closeCancel", "closeCancel"]))
                cpark = False
            continue
        if where == "idle":
            cand += ["acceptCall"] * 4
        else:
            cand += ["acceptCall"]                      # a second raw_accept(): EBUSY
            cand += ["extCancel"] * 2
            if where == "accept":
                cand += ["acceptDone ok", "acceptDone capacity", "acceptDone capacity", "acceptDone ignorable", "acceptDone other"]
            else:
                cand += ["backoffDone"] * 2
        cand += ["closeCall"] * (1 if ref else 2)
        if cpark:
            cand += ["closeResume", "closeCancel"]
        if r < 0.08:
            cand = list(EVENTS)                         # anything, also disabled events
        e = rng.choice(cand)
        evs.append(e)
        n = e.split()[0]
        if n == "acceptCall" and where == "idle" and ref and not marker:
            where, marker = "accept", True
        elif n == "acceptDone" and where == "accept" and not sc:
            k = e.split()[1]
            if k in ("ok", "other"):
                where, marker = "idle", False
            elif k == "capacity":
                where = "backoff"
        elif n == "backoffDone" and where == "backoff" and not sc:
            where = "accept"
        elif n == "extCancel" and where != "idle" and not sc:
            where, marker = "idle", False
        elif n == "closeCall" and ref:
            ref = False
            if marker:
                sc, cpark = True, True
        elif n in ("closeResume", "closeCancel") and cpark:
            cpark = False
    return {"path": "lsn", "events": evs, "pick": rng.randrange(4)}


def corpus() -> list[dict]:
    cs = []
    for cap in range(4):
        # stop during the back-off after a capacity error, then serve again (C18-m7)
        cs.append({"path": "lsn", "pick": cap, "events": ["acceptCall", "acceptDone capacity", "extCancel", "acceptCall", "acceptDone ok"]})
        cs.append({"path": "lsn", "pick": cap, "events": ["acceptCall", "acceptDone capacity", "backoffDone", "extCancel", "acceptCall", "acceptDone ok"]})
    # close cancelled at its only await while an accept is parked (C14-m8)
    cs.append({"path": "lsn", "pick": 0, "events": ["acceptCall", "closeCall", "scopeDelivered", "closeCancel", "closeCall", "acceptCall"]})
    cs.append({"path": "lsn", "pick": 0, "events": ["acceptCall", "closeCall", "scopeDelivered", "closeResume", "closeCall"]})
    cs.append({"path": "lsn", "pick": 0, "events": ["acceptCall", "acceptDone capacity", "closeCall", "scopeDelivered", "closeCancel"]})
    cs.append({"path": "lsn", "pick": 0, "events": ["closeCall", "closeCall", "acceptCall"]})
    cs.append({"path": "lsn", "pick": 0, "events": ["acceptCall", "acceptCall", "acceptDone ignorable", "acceptDone other", "acceptCall", "acceptDone ok"]})
    return cs


def nontrivial(case: dict, real: list[str]) -> str | None:
    tags = set()
    for e, o in zip(case["events"], real):
        n = e.split()
        if n[0] == "acceptDone" and o != "disabled":
            tags.add(n[1])
        elif n[0] in ("extCancel", "closeCancel", "scopeDelivered", "backoffDone") and o != "disabled":
            tags.add(n[0])
        elif o == "ebusy":
            tags.add("ebusy")
    return "lsn/" + "+".join(sorted(tags)) if tags else None


def shrink(case: dict):
    evs = case["events"]
    for i in range(len(evs)):
        if len(evs) > 1:
            yield {**case, "events": evs[:i] + evs[i + 1:]}


def known_key(case: dict, real: list[str], why: str) -> str:
    return "path=lsn,why=" + "-".join(why.split()[:4])
