"""
C12, TLS: the real AsyncTLSStreamTransport (real OpenSSL through ssl.MemoryBIO) over an in-memory pipe whose other
end is a raw ssl.SSLObject played by the harness.

  target tls        N tasks call transport.send_all_from_iterable / send_all directly and concurrently
                    (no lock above: ordering rests on `_data_deque` + synchronous write to the SSL object + the
                    transport send lock)
  target tlsclient  N tasks call AsyncTCPNetworkClient.send_packet, the client's transport being the TLS transport

The ciphertext is handed to the peer in exactly the pieces and the order the (scripted, partial, suspending)
lower transport writes them; the peer decrypts as it goes.  Two flushes overlapping on the lower transport would
cut a TLS record in two and the peer would fail to decrypt.

Lines:  send s<t> <j> <hex of the plaintext of this call>
        tls.call/acq/rel/cancelled s<t> …      the transport send lock (logged FairLock / asyncio.Lock)
        tls.xmit s<t> <n>                      a flush: lower send_all() called with ciphertext carrying n plaintext bytes
        tls.ret s<t>                           that send_all() returned
        sent s<t> <j> ok
        plain <hex>                            everything the peer decrypted;  rx … = parsed back into packets
TLS 1.3 record accounting (harness side, to know how much plaintext a blob carries): an application-data record is
5 header bytes + plaintext + 1 type byte + 16 tag bytes.
"""
from __future__ import annotations

import asyncio
import os
import ssl
import subprocess
from pathlib import Path
from typing import Any

from vlib import core
from vlib import c12_env as env
from vlib import c12_run as R

from easynetwork.clients.async_tcp import AsyncTCPNetworkClient
from easynetwork.lowlevel.api_async.transports.tls import AsyncTLSStreamTransport

_ctx: tuple[ssl.SSLContext, ssl.SSLContext] | None = None


def contexts() -> tuple[ssl.SSLContext, ssl.SSLContext]:
    """(client context, server context); the key pair is generated once per process with the openssl CLI"""
    global _ctx
    if _ctx is None:
        import tempfile

        d = Path(tempfile.mkdtemp(prefix="a3-c12-certs-"))
        key, crt = d / "key.pem", d / "cert.pem"
        p = subprocess.run(["openssl", "req", "-x509", "-newkey", "ec", "-pkeyopt", "ec_paramgen_curve:prime256v1",
                            "-nodes", "-keyout", str(key), "-out", str(crt), "-days", "3650", "-subj", "/CN=localhost",
                            "-addext", "subjectAltName=DNS:localhost"], capture_output=True, text=True)
        if p.returncode != 0:
            raise core.InfraError("openssl req failed: " + p.stderr[-300:])
        srv = ssl.SSLContext(ssl.PROTOCOL_TLS_SERVER)
        srv.load_cert_chain(str(crt), str(key))
        srv.minimum_version = ssl.TLSVersion.TLSv1_3
        srv.num_tickets = 0
        cli = ssl.SSLContext(ssl.PROTOCOL_TLS_CLIENT)
        cli.load_verify_locations(str(crt))
        cli.minimum_version = ssl.TLSVersion.TLSv1_3
        _ctx = (cli, srv)
        for f in (key, crt):
            f.unlink(missing_ok=True)
        d.rmdir()
    return _ctx


class Peer:
    """the other end: a server-side SSLObject fed with the ciphertext pieces as they are written"""

    def __init__(self) -> None:
        self.inc = ssl.MemoryBIO()
        self.out = ssl.MemoryBIO()
        self.obj = contexts()[1].wrap_bio(self.inc, self.out, server_side=True)
        self.handshaken = False
        self.plain = bytearray()
        self.error: str | None = None

    def feed(self, piece: bytes) -> bytes:
        """returns what the peer wants to send back"""
        if self.error:
            return b""
        self.inc.write(piece)
        try:
            if not self.handshaken:
                try:
                    self.obj.do_handshake()
                    self.handshaken = True
                except ssl.SSLWantReadError:
                    pass
            if self.handshaken:
                while True:
                    try:
                        d = self.obj.read(65536)
                    except ssl.SSLWantReadError:
                        break
                    if not d:
                        break
                    self.plain += d
        except ssl.SSLError as e:
            self.error = f"{type(e).__name__}:{getattr(e, 'reason', '')}"
        return self.out.read()


class PipeTransport(env.MemTransport):
    """MemTransport whose written pieces go to the Peer and whose reads return the peer's answers"""

    def __init__(self, *a: Any, peer: Peer, **kw: Any) -> None:
        super().__init__(*a, **kw)
        self.peer = peer
        self._data_ev = asyncio.Event()
        self.on_write = self._deliver
        self.blobs: list[tuple[str, bytes]] = []

    def _deliver(self, piece: bytes) -> None:
        back = self.peer.feed(piece)
        if back:
            self.inbox.append(back)
            self._data_ev.set()

    async def recv(self, bufsize: int) -> bytes:
        while not self.inbox:
            if self._closing:
                return b""
            self._data_ev.clear()
            await self._data_ev.wait()
        c = self.inbox.popleft()
        if len(c) > bufsize:
            self.inbox.appendleft(c[bufsize:])
            c = c[:bufsize]
        return c

    async def aclose(self) -> None:
        self._closing = True
        self._data_ev.set()
        await asyncio.sleep(0)

    async def send_all(self, data) -> None:
        who = env.cur()
        data = bytes(data)
        self.blobs.append((who, data))
        n = plain_bytes(data)
        self.trace.ev(f"tls.xmit {who} {n}")
        self.active += 1
        if self.active > 1:
            self.overlap = True
        try:
            await self._write_all(who, data)
        finally:
            self.active -= 1
        self.trace.ev(f"tls.ret {who}")


def plain_bytes(blob: bytes) -> int:
    """plaintext bytes carried by the TLS 1.3 application-data records of a ciphertext blob"""
    i, n = 0, 0
    while i + 5 <= len(blob):
        ln = int.from_bytes(blob[i + 3:i + 5], "big")
        if blob[i] == 23:
            n += ln - 17
        i += 5 + ln
    return n


def run_tls(case: dict) -> list[str]:
    trace = env.Trace()
    box: dict[str, Any] = {}
    spec = case["spec"]
    via_client = case["target"] == "tlsclient"

    async def main() -> None:
        backend = env.HBackend(trace, lock_kind=case.get("lock", "fair"))
        peer = Peer()
        box["peer"] = peer
        tr = PipeTransport(backend, trace, env.Script([]), peer=peer, log=False)
        box["tr"] = tr
        trace.enabled = False
        if via_client:
            backend.transports.append(tr)
            backend.lock_names = ["", "tls.", "tlsrecv."]     # client send lock, TLS send lock, TLS recv lock
            client = AsyncTCPNetworkClient(env.attr_socket(), R.build_protocol(spec), backend, ssl=contexts()[0],
                                           server_hostname="localhost")
            await client.wait_connected()
            send = client.send_packet
            lock = backend.fair_locks[0]
            parked = lambda: lock.parked  # noqa: E731
        else:
            backend.lock_names = ["tls.", "tlsrecv."]
            tls = await AsyncTLSStreamTransport.wrap(tr, contexts()[0], server_hostname="localhost")
            proto = R.build_protocol(spec)
            mode = case.get("mode", "iter")

            async def send(packet: Any) -> None:
                chunks = list(proto.generate_chunks(packet))
                if mode == "join":
                    await tls.send_all(b"".join(chunks))
                else:
                    await tls.send_all_from_iterable(chunks)

            parked = lambda: set()  # noqa: E731
        if not peer.handshaken:
            raise core.InfraError("TLS handshake did not complete: " + str(peer.error))
        tr.script = env.Script(case["script"])
        trace.enabled = True
        await R.Senders(case, trace, send, parked).run()
        for lk in backend.fair_locks:
            if lk.name == "tls.":
                trace.ev(f"tls.final {lk.state()}")
        trace.enabled = False
        tr.script = env.Script([])
        if via_client:
            await R._quiet(client.aclose())
        else:
            await R._quiet(tls.aclose())

    res, loop = env.run(main, trace)
    lines = list(trace.lines)
    if isinstance(res, env.Deadlock) or loop.deadlocked:
        lines.append("deadlock")
    peer = box.get("peer")
    if peer is not None:
        if peer.error:
            lines.append(f"peer-error {peer.error}")
        if box["tr"].overlap:
            lines.append("note overlapping-flushes")
        # the close_notify / nothing else follows the application data; plain = application bytes only
        lines.append(f"plain {core.hexs(bytes(peer.plain))}")
        lines.extend(R.parse_wire(spec, bytes(peer.plain)))
    return lines


# ------------------------------------------------------------------------------------------------
# model side: the TLS flush machine (EasyNet.C12.TlsSys)
# ------------------------------------------------------------------------------------------------

def _strip(case: dict, real: list[str]) -> list[str]:
    """the lines the TLS model reproduces: calls, the TLS send lock, flushes, outcomes, final plaintext"""
    out = []
    for ln in real:
        if ln.startswith(("tlsrecv.", "cancel-req", "rx", "note ", "peer-error")):
            continue
        if case["target"] == "tlsclient" and ln.startswith(("call ", "acq ", "rel ", "cancelled ", "final ", "send ", "sent ")):
            continue            # the client's own send lock and call boundaries (covered by the sender model on the
                                # other targets); the TLS-level call starts at `tls.call`
        out.append(ln)
    return out


def real_for_diff(case: dict, real: list[str]) -> list[str]:
    from props import c12

    lines = _strip(case, real)
    res: list[str] = []
    for i, ln in enumerate(lines):
        w = ln.split()
        if w[0] == "send":
            ln = " ".join(w[:3])
        res.append(ln)
        if w[0] == "tls.call":
            nxt = lines[i + 1].split() if i + 1 < len(lines) else []
            if not (len(nxt) >= 2 and nxt[0] == "tls.acq" and nxt[1] == w[1]):
                res.append(f"tls.park {w[1]}")
    return c12._unstar(case, res)


def model_input(case: dict, real: list[str]):
    from props import c12

    if any(ln.startswith(("tls.cancelled", "deadlock", "peer-error")) for ln in real):
        return None
    pks = []
    done = c12.outcomes(real)
    for i, s in enumerate(case["senders"]):
        for j, h in enumerate(s["packets"]):
            if done.get((f"s{i}", j)) == "ok":      # a call cancelled on the client lock never reaches the transport
                pks.append(f"pk {i} {core.hexs(R.expected_chunks(case['spec'], h))}")
    ops: list[str] = []
    prev: list[str] = []
    for ln in _strip(case, real):
        w = ln.split()
        t = c12._tid(w[1]) if len(w) > 1 else None
        k = w[0]
        if k in ("sent", "tls.final", "plain", "tls.rel") or (k == "tls.call" and case["target"] != "tlsclient"):
            pass
        elif t is None:
            ops.append("foreign " + ln)
        elif k == "send":
            ops.append(f"send {t}")
        elif k == "tls.call" and case["target"] == "tlsclient":
            ops.append(f"send {t}")
        elif k == "tls.acq":
            if not (prev and prev[0] == "tls.call" and prev[1] == w[1]):
                ops.append(f"resume {t}")
        elif k == "tls.xmit":
            pass                      # part of the step that took the lock
        elif k == "tls.ret":
            ops.append(f"ret {t}")
        else:
            ops.append("foreign " + ln)
        prev = w
    return "c12tls", pks + ops


def nontrivial(case: dict, real: list[str]) -> str | None:
    if case["target"] == "tlsclient":
        from props import c12

        canon = c12.canonical(case, [ln for ln in real if not ln.startswith(("tls.", "tlsrecv."))])
        if any(ln.startswith("park ") for ln in canon):
            return f"tlsclient/{case.get('lock', 'fair')}/park"
        return None
    lines = real_for_diff(case, real)
    parked = any(ln.startswith("tls.park") for ln in lines)
    merged = False
    # a flush that carried the plaintext of more than one call, or of none (somebody else had flushed it)
    sizes = [int(ln.split()[2]) for ln in lines if ln.startswith("tls.xmit")]
    calls = [ln for ln in lines if ln.startswith("send ")]
    if len(sizes) != len(calls):
        merged = True
    if not parked and not merged:
        return None
    return f"{case['target']}/{case.get('lock', 'fair')}/" + ("merged-flush" if merged else "park")
