"""
C12, TLS: the real AsyncTLSStreamTransport (real OpenSSL through ssl.MemoryBIO) over an in-memory pipe whose other
end is a raw ssl.SSLObject played by the harness.

  target tls        N tasks call transport.send_all_from_iterable / send_all directly and concurrently
                    (no lock above: ordering rests on `_data_deque` + synchronous write to the SSL object + the
                    transport send lock)
  target tlsclient  N tasks call AsyncTCPNetworkClient.send_packet, the client's transport being the TLS transport
  target tlsserver  N tasks call send_packet on the server-side client object of an AsyncTCPNetworkServer(ssl=...)
                    (in-memory listener; the peer is a client-side SSLObject) while the server itself reads requests

Readers (`readers`, optional): tasks calling recv() / recv_into() on the same TLS transport (tlsclient: recv_packet();
tlsserver: the server's own request receiver is the reader), started before / between / after the senders, parked with
nothing to read, or woken by traffic of the peer (`peer_msgs`: application data encrypted by the peer, handed over in
pieces cut at arbitrary ciphertext offsets, so that a reader goes through the SSLWantReadError branch of
`_retry_ssl_method` again and again while senders hold / queue on the transport send lock).  At the end the peer sends
close_notify and every reader must come back with EOF (a reader that never does = the loop runs dry = `deadlock`).

The ciphertext is handed to the peer in exactly the pieces and the order the (scripted, partial, suspending)
lower transport writes them; the peer decrypts as it goes.  Two flushes overlapping on the lower transport would
cut a TLS record in two and the peer would fail to decrypt.

Lines:  send s<t> <j> <hex of the plaintext of this call>
        tls.call/acq/rel/cancelled s<t> …      the transport send lock (logged FairLock / asyncio.Lock)
        tls.xmit s<t> <n>                      a flush: lower send_all() called with ciphertext carrying n plaintext bytes
        tls.ret s<t>                           that send_all() returned
        sent s<t> <j> ok
        plain <hex>                            everything the peer decrypted;  rx … = parsed back into packets
        rd.call r<k> <n> / rd.ret r<k> <n> <hex|eof|error>    the n-th read of reader k (tlsserver: `rd.ret srv n <hex>`)
        peer.msg <hex plaintext> / peer.close  what the peer sent
        note interleaved-flush <a> <b>         the lower transport wrote a piece of b's blob inside a's blob
        note unlocked-flush <who>              lower send_all() called by a task that does not own the TLS send lock
Round 5 (`inject`, class Injection): chosen write() calls of the library-side SSLObject raise SSLWantReadError /
SSLWantWriteError or return a short count (hook: SSLContext.sslobject_class); `note inject <k> <what> <task> <len>` lines;
these cases are judged by the oracle only.
TLS 1.3 record accounting (harness side, to know how much plaintext a blob carries): an application-data record is
5 header bytes + plaintext + 1 type byte + 16 tag bytes.
"""
from __future__ import annotations

import asyncio
import os
import re
import ssl
import subprocess
from pathlib import Path
from typing import Any

from vlib import core
from vlib import c12_env as env
from vlib import c12_run as R

from easynetwork.clients.async_tcp import AsyncTCPNetworkClient
from easynetwork.lowlevel.api_async.transports.tls import AsyncTLSStreamTransport

_ctx: tuple[ssl.SSLContext, ssl.SSLContext] | None = None


def contexts() -> tuple[ssl.SSLContext, ssl.SSLContext]:
    """(client context, server context); the key pair is generated once per process with the openssl CLI"""
    global _ctx
    if _ctx is None:
        import tempfile

        d = Path(tempfile.mkdtemp(prefix="a3-c12-certs-"))
        key, crt = d / "key.pem", d / "cert.pem"
        p = subprocess.run(["openssl", "req", "-x509", "-newkey", "ec", "-pkeyopt", "ec_paramgen_curve:prime256v1",
                            "-nodes", "-keyout", str(key), "-out", str(crt), "-days", "3650", "-subj", "/CN=localhost",
                            "-addext", "subjectAltName=DNS:localhost"], capture_output=True, text=True)
        if p.returncode != 0:
            raise core.InfraError("openssl req failed: " + p.stderr[-300:])
        srv = ssl.SSLContext(ssl.PROTOCOL_TLS_SERVER)
        srv.load_cert_chain(str(crt), str(key))
        srv.minimum_version = ssl.TLSVersion.TLSv1_3
        srv.num_tickets = 0
        cli = ssl.SSLContext(ssl.PROTOCOL_TLS_CLIENT)
        cli.load_verify_locations(str(crt))
        cli.minimum_version = ssl.TLSVersion.TLSv1_3
        _ctx = (cli, srv)
        for f in (key, crt):
            f.unlink(missing_ok=True)
        d.rmdir()
    return _ctx


VIA_CLIENT = ("tlsclient", "tlsserver")


# ------------------------------------------------------------------------------------------------
# round 5: the TLS engine refuses application-data writes (SSL_ERROR_WANT_READ / WANT_WRITE) in the middle of the backlog
# ------------------------------------------------------------------------------------------------

class Injection:
    """`case["inject"]` = [[k, what]…]: the k-th call of SSLObject.write() made after the handshake (all tasks together, retries
    count) is answered  "wantw"  SSLWantWriteError, nothing consumed;  "wantr"  SSLWantReadError, nothing consumed (the peer
    then sends a record: at once — which also wakes a reader parked on the lower transport — and again each time a SENDER task
    comes to read the lower transport, which it only does to serve a WANT_READ; at most `MAX_KICKS` records per run);
    "part:n"  the first n bytes are written and n is returned (the documented return value of write(); n >= 1).
    These are the answers the documented API of ssl.SSLObject.write() has (CPython never sets SSL_MODE_ENABLE_PARTIAL_WRITE, so
    its own objects write everything or raise; "part" exercises the contract the transport's code is written against, and is
    drawn rarely).  Everything else is the real OpenSSL object: the hook is the documented `SSLContext.sslobject_class`."""

    MAX_KICKS = 16

    def __init__(self, plan: list, kick: bytes) -> None:
        self.plan = {int(k): str(v) for k, v in plan}
        self.kick_data = kick
        self.n = 0
        self.armed = False
        self.kicks = 0
        self.fired: list[str] = []
        self.push = None        # set by the run: callable(bytes plaintext) -> None
        self.note = None        # set by the run: callable(str) -> None

    def kick(self) -> bool:
        if self.push is None or self.kicks >= self.MAX_KICKS:
            return False
        self.kicks += 1
        self.push(self.kick_data)
        return True


class InjectingSSLObject(ssl.SSLObject):
    """the real ssl.SSLObject (created by the real SSLContext.wrap_bio through `sslobject_class`); write() consults the plan of
    the run in progress"""

    _inj: Injection | None = None

    def write(self, data):  # type: ignore[override]
        inj = InjectingSSLObject._inj
        if inj is None or not inj.armed:
            return super().write(data)
        k = inj.n
        inj.n += 1
        what = inj.plan.get(k)
        if what is None:
            return super().write(data)
        who = env.cur()
        if what == "wantw":
            inj.fired.append(f"{k}:wantw")
            if inj.note:
                inj.note(f"note inject {k} wantw {who} {len(memoryview(data).cast('B'))}")
            raise ssl.SSLWantWriteError(ssl.SSL_ERROR_WANT_WRITE, "injected: the operation did not complete (write)")
        if what == "wantr":
            inj.fired.append(f"{k}:wantr")
            if inj.note:
                inj.note(f"note inject {k} wantr {who} {len(memoryview(data).cast('B'))}")
            inj.kick()
            raise ssl.SSLWantReadError(ssl.SSL_ERROR_WANT_READ, "injected: the operation did not complete (read)")
        if what.startswith("part:"):
            view = memoryview(data).cast("B")
            n = max(1, int(what[5:]))
            if n < len(view):
                inj.fired.append(f"{k}:part")
                if inj.note:
                    inj.note(f"note inject {k} part {who} {n}/{len(view)}")
                return super().write(view[:n])
        return super().write(data)


class injecting:
    """context manager: the library-side SSLContext creates InjectingSSLObject instances for the duration of one run"""

    def __init__(self, ctx: ssl.SSLContext, inj: Injection | None) -> None:
        self.ctx, self.inj = ctx, inj

    def __enter__(self):
        if self.inj is not None:
            self.ctx.sslobject_class = InjectingSSLObject
            InjectingSSLObject._inj = self.inj
        return self.inj

    def __exit__(self, *a):
        if self.inj is not None:
            self.ctx.sslobject_class = ssl.SSLObject
            InjectingSSLObject._inj = None


def make_injection(case: dict) -> Injection | None:
    if not case.get("inject"):
        return None
    return Injection(case["inject"], R.expected_chunks(case["spec"], case.get("kick", "6b")))


class Peer:
    """the other end: a raw SSLObject (server side, or client side for the tlsserver target) fed with the ciphertext
    pieces as they are written"""

    def __init__(self, server_side: bool = True) -> None:
        self.inc = ssl.MemoryBIO()
        self.out = ssl.MemoryBIO()
        if server_side:
            self.obj = contexts()[1].wrap_bio(self.inc, self.out, server_side=True)
        else:
            self.obj = contexts()[0].wrap_bio(self.inc, self.out, server_side=False, server_hostname="localhost")
        self.handshaken = False
        self.plain = bytearray()
        self.error: str | None = None
        self.closed = False
        self.sent = bytearray()

    def start(self) -> bytes:
        """client side: the ClientHello"""
        try:
            self.obj.do_handshake()
            self.handshaken = True
        except ssl.SSLWantReadError:
            pass
        return self.out.read()

    def feed(self, piece: bytes) -> bytes:
        """returns what the peer wants to send back"""
        if self.error:
            return b""
        self.inc.write(piece)
        try:
            if not self.handshaken:
                try:
                    self.obj.do_handshake()
                    self.handshaken = True
                except ssl.SSLWantReadError:
                    pass
            if self.handshaken:
                while True:
                    try:
                        d = self.obj.read(65536)
                    except ssl.SSLWantReadError:
                        break
                    if not d:
                        break
                    self.plain += d
        except ssl.SSLError as e:
            if not self.closed:         # after our own close_notify only the library's closing handshake follows
                self.error = f"{type(e).__name__}:{getattr(e, 'reason', '')}"
        return self.out.read()

    def write(self, data: bytes) -> bytes:
        """application data from the peer: returns the ciphertext"""
        if self.error or self.closed or not self.handshaken:
            return b""
        self.obj.write(data)
        self.sent += data
        return self.out.read()

    def close_notify(self) -> bytes:
        self.closed = True
        try:
            self.obj.unwrap()
        except ssl.SSLError:
            pass
        return self.out.read()


class PipeTransport(env.MemTransport):
    """MemTransport whose written pieces go to the Peer and whose reads return the peer's answers"""

    def __init__(self, *a: Any, peer: Peer, **kw: Any) -> None:
        super().__init__(*a, **kw)
        self.peer = peer
        self._data_ev = asyncio.Event()
        self.blobs: list[tuple[str, bytes]] = []
        self.nflush = 0
        self.mid: int | None = None        # the flush that has written a part of its blob, not all of it
        self.mid_who = ""
        self.interleaved: str | None = None
        self.unlocked: str | None = None
        self.send_lock: Any = None         # the logged TLS send lock, when known
        self.eof = False                   # the peer has closed its end (after its close_notify)
        self.inj: Injection | None = None  # round 5: scripted WANT_READ / WANT_WRITE answers of the TLS engine

    def _deliver(self, piece: bytes) -> None:
        back = self.peer.feed(piece)
        if back:
            self.push(back)

    def push(self, data: bytes) -> None:
        if data:
            self.inbox.append(bytes(data))
            self._data_ev.set()

    async def recv(self, bufsize: int) -> bytes:
        while not self.inbox:
            if self._closing or self.eof:
                return b""
            if self.inj is not None and self.inj.armed and env.cur().startswith("s") and env.cur()[1:].isdigit() and self.inj.kick():
                continue        # a sender reads the lower transport only to serve a WANT_READ: the peer answers
            self._data_ev.clear()
            await self._data_ev.wait()
        c = self.inbox.popleft()
        if len(c) > bufsize:
            self.inbox.appendleft(c[bufsize:])
            c = c[:bufsize]
        return c

    async def aclose(self) -> None:
        self._closing = True
        self._data_ev.set()
        await asyncio.sleep(0)

    async def _write_all(self, who: str, data: bytes) -> None:
        self.nflush += 1
        fid = self.nflush
        while True:
            n, p = self.script.next()
            n = max(1, n)
            piece, data = data[:n], data[n:]
            if piece:
                if self.mid is not None and self.mid != fid and self.interleaved is None:
                    self.interleaved = f"{self.mid_who} {who}"
                self.wire += piece
                self.writes.append((who, piece))
                self._deliver(piece)
                if data:
                    self.mid, self.mid_who = fid, who
                elif self.mid == fid:
                    self.mid = None
            await env.pause(p)
            if not data:
                return

    async def send_all(self, data) -> None:
        who = env.cur()
        data = bytes(data)
        self.blobs.append((who, data))
        n = plain_bytes(data)
        self.trace.ev(f"tls.xmit {who} {n}")
        if self.trace.enabled and self.send_lock is not None and self.unlocked is None \
                and getattr(self.send_lock, "holder", who) != who:
            self.unlocked = who
        self.active += 1
        if self.active > 1:
            self.overlap = True
        try:
            await self._write_all(who, data)
        finally:
            self.active -= 1
        self.trace.ev(f"tls.ret {who}")


def plain_bytes(blob: bytes) -> int:
    """plaintext bytes carried by the TLS 1.3 application-data records of a ciphertext blob"""
    i, n = 0, 0
    while i + 5 <= len(blob):
        ln = int.from_bytes(blob[i + 3:i + 5], "big")
        if blob[i] == 23:
            n += ln - 17
        i += 5 + ln
    return n


class _Run:
    """what the three TLS targets share: the peer's traffic, the reader tasks, the end of the run"""

    def __init__(self, case: dict, trace: env.Trace, tr: PipeTransport, peer: Peer) -> None:
        self.case, self.trace, self.tr, self.peer = case, trace, tr, peer

    def rd(self, line: str) -> None:
        # reader / peer lines are harness-side observations: written whatever `trace.enabled` says
        self.trace.lines.append(line)

    def arm(self, inj: "Injection | None") -> None:
        self.inj = inj
        if inj is None:
            return

        def push(plain: bytes) -> None:
            ct = self.peer.write(plain)
            if ct:
                self.rd(f"peer.msg {core.hexs(plain)}")
                self.tr.push(ct)

        inj.push, inj.note = push, self.rd
        self.tr.inj = inj
        inj.armed = True

    def disarm(self) -> None:
        inj = getattr(self, "inj", None)
        if inj is not None:
            inj.armed = False

    @staticmethod
    async def sleep_until(at: float) -> None:
        now = asyncio.get_running_loop().time()
        if at > now:
            await asyncio.sleep(at - now)

    def end_tick(self) -> float:
        ticks = [float(r.get("delay", 0)) for r in self.case.get("readers", [])]
        ticks += [float(m.get("at", 0)) for m in self.case.get("peer_msgs", [])]
        return max(ticks, default=0.0)

    def msg_bytes(self, m: dict) -> bytes:
        if "raw" in m:
            return bytes.fromhex(m["raw"])
        return b"".join(R.expected_chunks(self.case["spec"], h) for h in m.get("packets", []))

    async def peer_task(self) -> None:
        for m in self.case.get("peer_msgs", []):
            await self.sleep_until(float(m.get("at", 0)))
            await env.pause(max(0, int(m.get("pre", 0))))
            data = self.msg_bytes(m)
            ct = self.peer.write(data)
            if not ct:
                continue
            self.rd(f"peer.msg {core.hexs(data)}")
            i = 0
            for n in m.get("cuts", []):
                if i >= len(ct):
                    break
                n = max(1, int(n))
                self.tr.push(ct[i:i + n])
                i += n
                await env.pause(int(m.get("gap", 1)))
            if i < len(ct):
                self.tr.push(ct[i:])

    def close_peer(self) -> None:
        # close_notify, then the peer closes its end of the connection (EOF on the lower transport)
        self.rd("peer.close")
        self.tr.push(self.peer.close_notify())
        self.tr.eof = True
        self.tr._data_ev.set()

    async def reader(self, name: str, r: dict, recv_once, packets: bool) -> None:
        await self.sleep_until(float(r.get("delay", 0)))
        await env.pause(max(0, int(r.get("pre", 0))))
        n = 0
        count = int(r.get("count", 0))
        while True:
            self.rd(f"rd.call {name} {n}")
            try:
                d = await recv_once()
            except asyncio.CancelledError:
                self.rd(f"rd.ret {name} {n} cancelled")
                raise
            except Exception as e:
                self.rd(f"rd.ret {name} {n} {R.exc_enum(e)}")
                return
            if not packets and not d:
                self.rd(f"rd.ret {name} {n} eof")
                return
            self.rd(f"rd.ret {name} {n} {R.packet_hex(self.case['spec'], d) if packets else bytes(d).hex()}")
            n += 1
            if count and n >= count:
                return
            await env.pause(int(r.get("gap", 0)))


def _finish(case: dict, trace: env.Trace, box: dict, res: Any, loop: env.VLoop) -> list[str]:
    return finish_lines(case, trace, box, isinstance(res, env.Deadlock) or loop.deadlocked)


def finish_lines(case: dict, trace: env.Trace, box: dict, deadlocked: bool) -> list[str]:
    lines = list(trace.lines)
    if deadlocked:
        lines.append("deadlock")
    peer = box.get("peer")
    if peer is not None:
        tr = box["tr"]
        if peer.error:
            lines.append(f"peer-error {peer.error}")
        if tr.overlap:
            lines.append("note overlapping-flushes")
        if tr.interleaved:
            lines.append(f"note interleaved-flush {tr.interleaved}")
        if tr.unlocked:
            lines.append(f"note unlocked-flush {tr.unlocked}")
        # the close_notify / nothing else follows the application data; plain = application bytes only
        lines.append(f"plain {core.hexs(bytes(peer.plain))}")
        lines.extend(R.parse_wire(case["spec"], bytes(peer.plain)))
    return lines


def run_tls(case: dict) -> list[str]:
    if case["target"] == "tlsserver":
        return run_tls_server(case)
    trace = env.Trace()
    box: dict[str, Any] = {}
    inj = make_injection(case)
    box["inj"] = inj
    with injecting(contexts()[0], inj):
        res, loop = env.run(session_tls(case, trace, box), trace)
    return _finish(case, trace, box, res, loop)


def session_tls(case: dict, trace: env.Trace, box: dict):
    """targets tls / tlsclient as a session (see c12_run: run alone by run_tls, or next to other sessions by c12_multi)"""
    spec = case["spec"]
    via_client = case["target"] == "tlsclient"

    async def main() -> None:
        backend = env.make_backend(trace, lock_kind=case.get("lock", "fair"))
        peer = Peer()
        box["peer"] = peer
        tr = PipeTransport(backend, trace, env.Script([]), peer=peer, log=False)
        box["tr"] = tr
        trace.enabled = False
        loop = asyncio.get_running_loop()
        if via_client:
            backend.transports.append(tr)
            backend.lock_names = ["", "tls.", "tlsrecv."]     # client send lock, TLS send lock, TLS recv lock
            client = AsyncTCPNetworkClient(env.attr_socket(), R.build_protocol(spec), backend, ssl=contexts()[0],
                                           server_hostname="localhost")
            await client.wait_connected()
            send = client.send_packet
            lock = backend.fair_locks[0]
            parked = lambda: lock.parked  # noqa: E731

            def recv_of(r: dict):
                return client.recv_packet
        else:
            backend.lock_names = ["tls.", "tlsrecv."]
            tls = await AsyncTLSStreamTransport.wrap(tr, contexts()[0], server_hostname="localhost")
            proto = R.build_protocol(spec)
            mode = case.get("mode", "iter")
            ncall: dict[str, int] = {}

            async def send(packet: Any) -> None:
                chunks = list(proto.generate_chunks(packet))
                m = mode
                if mode == "mixed":       # send_all and send_all_from_iterable mixed, per call
                    who = env.cur()
                    j = ncall.get(who, 0)
                    ncall[who] = j + 1
                    tid = int(who[1:]) if who[1:].isdigit() else 0
                    ms = case["senders"][tid].get("modes", []) if tid < len(case["senders"]) else []
                    m = ms[j] if j < len(ms) else "iter"
                if m == "join":
                    await tls.send_all(b"".join(chunks))
                else:
                    await tls.send_all_from_iterable(chunks)

            parked = lambda: set()  # noqa: E731

            def recv_of(r: dict):
                size = max(1, int(r.get("bufsize", 1024)))
                if r.get("kind") == "recv_into":
                    async def once() -> bytes:
                        buf = bytearray(size)
                        k = await tls.recv_into(buf)
                        return bytes(buf[:k])
                else:
                    async def once() -> bytes:
                        return await tls.recv(size)
                return once
        if not peer.handshaken:
            raise core.InfraError("TLS handshake did not complete: " + str(peer.error))
        tr.send_lock = next((lk for lk in backend.fair_locks if lk.name == "tls."), None)
        tr.script = env.Script(case["script"])
        trace.enabled = True
        run = _Run(case, trace, tr, peer)
        run.arm(box.get("inj"))
        rtasks: list[asyncio.Task] = []

        def start_readers(first: bool) -> None:
            for k, r in enumerate(case.get("readers", [])):
                if bool(r.get("first")) == first:
                    rtasks.append(loop.create_task(run.reader(f"r{k}", r, recv_of(r), via_client), name=f"r{k}"))

        start_readers(True)
        ptask = loop.create_task(run.peer_task(), name="peer") if case.get("peer_msgs") else None
        await R.Senders(case, trace, send, parked, on_started=lambda: start_readers(False)).run()
        if ptask is not None:
            await ptask
        await run.sleep_until(run.end_tick())
        for lk in backend.fair_locks:
            if lk.name == "tls.":
                trace.ev(f"tls.final {lk.state()}")
        trace.enabled = False
        run.disarm()
        tr.script = env.Script([])
        if rtasks:
            # the peer closes: every reader (parked or not) must come back with EOF
            run.close_peer()
            await asyncio.gather(*rtasks, return_exceptions=True)
        if via_client:
            await R._quiet(client.aclose())
        else:
            await R._quiet(tls.aclose())

    return main


def run_tls_server(case: dict) -> list[str]:
    """the client object a request handler gets from AsyncTCPNetworkServer(ssl=...): senders are tasks started by
    on_connection, the reader is the server's own request receiver (recv() for StreamProtocol, recv_into() for
    BufferedStreamProtocol)"""
    trace = env.Trace()
    box: dict[str, Any] = {}
    inj = make_injection(case)
    box["inj"] = inj
    with injecting(contexts()[1], inj):
        res, loop = env.run(session_tls_server(case, trace, box), trace)
    return _finish(case, trace, box, res, loop)


def session_tls_server(case: dict, trace: env.Trace, box: dict):
    import logging

    from easynetwork.exceptions import StreamProtocolParseError
    from easynetwork.protocol import BufferedStreamProtocol
    from easynetwork.servers.async_tcp import AsyncTCPNetworkServer
    from easynetwork.servers.handlers import AsyncStreamRequestHandler
    from vlib import sers

    spec = case["spec"]

    async def main() -> None:
        backend = env.make_backend(trace, lock_kind=case.get("lock", "fair"))
        peer = Peer(server_side=False)
        box["peer"] = peer
        tr = PipeTransport(backend, trace, env.Script([]), peer=peer, log=False)
        box["tr"] = tr
        tr.push(peer.start())
        backend.listener_transports.append(tr)
        backend.lock_names = ["tls.", "tlsrecv.", ""]     # TLS send lock, TLS recv lock, the client object's send lock
        trace.enabled = False
        loop = asyncio.get_running_loop()
        finished = asyncio.Event()
        gone = asyncio.Event()
        run = _Run(case, trace, tr, peer)
        per_gen = int(case.get("per_gen", 0))

        async def job(client: Any, lock: Any) -> None:
            try:
                ptask = loop.create_task(run.peer_task(), name="peer") if case.get("peer_msgs") else None
                await R.Senders(case, trace, client.send_packet, lambda: lock.parked).run()
                if ptask is not None:
                    await ptask
                await run.sleep_until(run.end_tick())
                for lk in backend.fair_locks:
                    if lk.name == "tls.":
                        trace.ev(f"tls.final {lk.state()}")
            finally:
                trace.enabled = False
                run.disarm()
                tr.script = env.Script([])
                finished.set()

        class Handler(AsyncStreamRequestHandler):
            nreq = 0

            async def on_connection(self, client) -> None:
                asyncio.current_task().set_name("srv")
                lock = next(lk for lk in backend.fair_locks if lk.name == "")
                tr.send_lock = next((lk for lk in backend.fair_locks if lk.name == "tls."), None)
                tr.script = env.Script(case["script"])
                trace.enabled = True
                run.arm(box.get("inj"))
                box["job"] = loop.create_task(job(client, lock), name="job")
                # the senders may start while on_connection is still running (nobody reads yet)
                await env.pause(int(case.get("oc_pause", 0)))

            async def handle(self, client):
                k = 0
                while True:
                    try:
                        req = yield
                    except StreamProtocolParseError as e:
                        run.rd(f"rd.ret srv {Handler.nreq} parse-error-{type(e.error).__name__}")
                    else:
                        run.rd(f"rd.ret srv {Handler.nreq} {R.packet_hex(spec, req)}")
                    Handler.nreq += 1
                    k += 1
                    if per_gen and k >= per_gen:
                        return

            async def on_disconnection(self, client) -> None:
                gone.set()

        if case.get("buffered") and sers.is_buffered(spec):
            proto: Any = BufferedStreamProtocol(sers.build(spec))
        else:
            proto = R.build_protocol(spec)
        logger = logging.getLogger("c12.tlsserver")
        logger.disabled = True
        server = AsyncTCPNetworkServer("127.0.0.1", 0, proto, Handler(), backend, ssl=contexts()[1], logger=logger)
        stask = loop.create_task(server.serve_forever(), name="server")
        fw = loop.create_task(finished.wait(), name="done")
        await asyncio.wait([stask, fw], return_when=asyncio.FIRST_COMPLETED)
        trace.enabled = False
        gw = loop.create_task(gone.wait(), name="gone")
        if finished.is_set() and not stask.done():
            run.close_peer()
            await asyncio.wait([stask, gw], return_when=asyncio.FIRST_COMPLETED)
        await server.shutdown()
        await server.server_close()
        fw.cancel()
        gw.cancel()
        await asyncio.gather(stask, fw, gw, return_exceptions=True)
        if not peer.handshaken:
            raise core.InfraError("TLS handshake did not complete: " + str(peer.error))

    return main


# ------------------------------------------------------------------------------------------------
# model side: the TLS flush machine (EasyNet.C12.TlsSys)
#
# A reader that flushes (`_retry_ssl_method`, SSLWantReadError branch: `if self._write_bio.pending and not …waiters:
# await self.__flush_pending_writes()`) does exactly what a `send_all(b"")` caller does after its (empty) write to the
# SSL object: take the send lock, send what is pending, release.  It is given to the model as one more caller
# (task id = number of senders + reader index) whose packets are all empty; WHEN it flushes is the environment's
# choice (the trace), what happens then is predicted by `tstep`.
# ------------------------------------------------------------------------------------------------

_RD_NAME = re.compile(r"\b(?:r(\d+)|srv)\b")


def _is_reader(name: str) -> bool:
    return name == "srv" or (name.startswith("r") and name[1:].isdigit())


def _rd_tid(case: dict, name: str) -> int:
    return len(case["senders"]) + (int(name[1:]) if name != "srv" else 0)


def _rename(case: dict, ln: str) -> str:
    n = len(case["senders"])
    return _RD_NAME.sub(lambda m: f"s{n + int(m.group(1) or 0)}", ln)


def _strip(case: dict, real: list[str]) -> list[str]:
    """the lines the TLS model reproduces: calls, the TLS send lock, flushes, outcomes, final plaintext"""
    out = []
    for ln in real:
        if ln.startswith(("tlsrecv.", "cancel-req", "rx", "note ", "peer-error", "rd.", "peer.")):
            continue
        if case["target"] in VIA_CLIENT and ln.startswith(("call ", "acq ", "rel ", "cancelled ", "final ", "send ", "sent ")):
            continue            # the client's own send lock and call boundaries (covered by the sender model on the
                                # other targets); the TLS-level call starts at `tls.call`
        out.append(ln)
    return out


def real_for_diff(case: dict, real: list[str]) -> list[str]:
    from props import c12

    lines = _strip(case, real)
    direct = case["target"] not in VIA_CLIENT
    res: list[str] = []
    nflush: dict[str, int] = {}
    cur: dict[str, int] = {}
    for i, ln in enumerate(lines):
        w = ln.split()
        if w[0] == "send":
            ln = " ".join(w[:3])
        rdr = len(w) > 1 and _is_reader(w[1])
        if rdr and w[0] == "tls.call" and direct:
            cur[w[1]] = nflush.get(w[1], 0)
            nflush[w[1]] = cur[w[1]] + 1
            res.append(f"send s{_rd_tid(case, w[1])} {cur[w[1]]}")
        res.append(_rename(case, ln))
        if w[0] == "tls.call":
            nxt = lines[i + 1].split() if i + 1 < len(lines) else []
            if not (len(nxt) >= 2 and nxt[0] == "tls.acq" and nxt[1] == w[1]):
                res.append(_rename(case, f"tls.park {w[1]}"))
        if rdr and w[0] == "tls.rel" and direct and w[1] in cur:
            res.append(f"sent s{_rd_tid(case, w[1])} {cur.pop(w[1])} ok")
    return c12._unstar(case, res)


def model_input(case: dict, real: list[str]):
    from props import c12

    if any(ln.startswith(("tls.cancelled", "deadlock", "peer-error")) for ln in real):
        return None
    if case.get("inject"):
        # a write refused by the TLS engine (WANT_READ / WANT_WRITE / partial) is outside the Lean machine (`writeAllToSsl` always
        # empties the backlog): these cases are judged by the oracle only
        return None
    pks = []
    done = c12.outcomes(real)
    for i, s in enumerate(case["senders"]):
        for j, h in enumerate(s["packets"]):
            if done.get((f"s{i}", j)) == "ok":      # a call cancelled on the client lock never reaches the transport
                pks.append(f"pk {i} {core.hexs(R.expected_chunks(case['spec'], h))}")
    direct = case["target"] not in VIA_CLIENT
    ops: list[str] = []
    prev: list[str] = []
    for ln in _strip(case, real):
        w = ln.split()
        name = w[1] if len(w) > 1 else ""
        t = c12._tid(name)
        if t is None and _is_reader(name):
            t = str(_rd_tid(case, name))
        k = w[0]
        if k in ("sent", "tls.final", "plain", "tls.rel"):
            pass
        elif t is None:
            ops.append("foreign " + ln)
        elif k == "send":
            ops.append(f"send {t}")
        elif k == "tls.call":
            if _is_reader(name):
                pks.append(f"pk {t} -")             # a flush by a reader = a caller with nothing of its own to send
                ops.append(f"send {t}")
            elif not direct:
                ops.append(f"send {t}")
        elif k == "tls.acq":
            if not (prev and prev[0] == "tls.call" and prev[1] == w[1]):
                ops.append(f"resume {t}")
        elif k == "tls.xmit":
            if not (prev and prev[0] == "tls.acq" and prev[1] == w[1]):
                ops.append("foreign " + ln)     # a flush that does not follow the grant of the send lock to that task
        elif k == "tls.ret":
            ops.append(f"ret {t}")
        else:
            ops.append("foreign " + ln)
        prev = w
    return "c12tls", pks + ops


def reader_window(real: list[str]) -> str | None:
    """did a reader go through the SSLWantReadError branch of `_retry_ssl_method` (it asks for the TLS recv lock right
    after the "flush pending writes first" step) while a sender was in the middle of a flush?
    'window' : … and another sender was queued on the send lock (its ciphertext sits in the write BIO)
    'midflush': … nobody queued"""
    flushing: str | None = None
    waiting: set[str] = set()
    best: str | None = None
    for ln in real:
        w = ln.split()
        if w[0] == "tls.xmit":
            flushing = w[1]
        elif w[0] == "tls.ret" and flushing == w[1]:
            flushing = None
        elif w[0] == "tls.call":
            waiting.add(w[1])
        elif w[0] in ("tls.acq", "tls.cancelled"):
            waiting.discard(w[1])
        elif w[0] == "tlsrecv.call" and _is_reader(w[1]) and flushing is not None:
            if waiting:
                return "window"
            best = "midflush"
    return best


def nontrivial(case: dict, real: list[str]) -> str | None:
    if case.get("inject"):
        fired = sorted({ln.split()[3] for ln in real if ln.startswith("note inject ")})
        if fired:
            # refused while another sender's chunks were queued behind / another sender was parked on the send lock?
            return f"{case['target']}/{case.get('lock', 'fair')}/inject-" + "+".join(fired)
    rd = ""
    if case.get("readers") or case.get("peer_msgs") or case["target"] == "tlsserver":
        rd = "/rd-" + (reader_window(real) or "idle")
    if case["target"] in VIA_CLIENT:
        from props import c12

        canon = c12.canonical(case, [ln for ln in real if not ln.startswith(("tls.", "tlsrecv.", "rd.", "peer."))])
        if any(ln.startswith("park ") for ln in canon):
            return f"{case['target']}/{case.get('lock', 'fair')}/park{rd}"
        if rd and not rd.endswith("idle"):
            return f"{case['target']}/{case.get('lock', 'fair')}/nopark{rd}"
        return None
    lines = real_for_diff(case, real)
    parked = any(ln.startswith("tls.park") for ln in lines)
    merged = False
    # a flush that carried the plaintext of more than one call, or of none (somebody else had flushed it)
    sizes = [int(ln.split()[2]) for ln in lines if ln.startswith("tls.xmit")]
    calls = [ln for ln in lines if ln.startswith("send ")]
    if len(sizes) != len(calls):
        merged = True
    if not parked and not merged:
        return None
    return f"{case['target']}/{case.get('lock', 'fair')}/" + ("merged-flush" if merged else "park") + rd
