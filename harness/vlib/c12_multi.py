"""
C12, round 6: SEVERAL library objects in ONE event loop.

The one-object targets of c12_run / c12_tls are sessions (`session_x(case, trace, box)`); a `multi` case runs 2-4 of them
(mixed kinds) concurrently on one virtual-time loop:

  {"target": "multi", "shared_backend": bool,
   "objects": [ <a case of target aclient | sclient | endpoint | sendpoint | fairlock | tls | tlsclient | tlsserver>
                + "start": t    virtual tick at which the object is built (others are already sending, or are done and closed;
                                ignored for the connections of a `server` group)
                + "pre": k      bare yields before the object is built (objects are built while others already send)
                + "server": g   (sclient only) objects with the same g are connections of ONE AsyncTCPNetworkServer, each
                                with its own server-side client object
              , ...]}

Every object has its own in-memory transport (own script of partial writes / suspensions), its own senders, its own trace
and - unless `shared_backend` - its own backend object.  With `shared_backend` ONE backend object serves all of them (what
an application does); the harness-side bookkeeping stays per object (c12_env.SharedHBackend, context variable OBJ).
While the transport of one object keeps a sender suspended in the middle of a packet (k loop turns, or k virtual ticks during
which every other object runs until it has nothing left to do), the senders of the other objects call send_packet.

Lines of the real run:
  o<k> <line>              the trace of object k, exactly in the format of its one-object target (so the one-object oracle
                           and the non-trivial classes apply to it as they are)
  note overlap <n>         n send_packet calls were made on an object while ANOTHER object had a sender suspended inside its
                           transport (or, for `fairlock`, holding its lock)
  alone o<k> same | alone o<k> differs@<i> together=<line> | alone=<line>
                           the same object with the same inputs run ALONE on a fresh loop gives the same trace / a different one
Oracle (c12.oracle): per object the unchanged one-object oracle (every call succeeds, the peer's stream is a merge of whole
packets in lock order, lock mutual exclusion, readers ...) + independence: the trace of every object is the one it produces
alone.  That comparison is exact because nothing in the environment couples the objects: virtual time only moves when no
task of any object is runnable, every object's tasks are started by that object's own callbacks, and timers that are due at
the same tick fire in scheduling order (VLoop(fifo_timers=True)), so the projection of the schedule on one object's tasks
does not depend on the other objects - unless the LIBRARY couples them (a lock, a guard, a buffer shared through a class
attribute, a default argument, a module global, the backend object).
"""
from __future__ import annotations

import asyncio
from typing import Any

from vlib import core
from vlib import c12_env as env
from vlib import c12_run as R

SUB_TARGETS = ("aclient", "sclient", "endpoint", "sendpoint", "fairlock", "tls", "tlsclient", "tlsserver")


class Hub:
    """who is inside a transport write right now (all objects of the loop): used only for `note overlap`"""

    def __init__(self) -> None:
        self.inside: dict[int, int] = {}
        self.overlaps = 0


class MTrace(env.Trace):
    def __init__(self, k: int, hub: Hub, hold: bool) -> None:
        super().__init__()
        self.k, self.hub = k, hub
        self.enter = ("xmit", "tls.xmit") + (("acq",) if hold else ())
        self.leave = ("ret", "tls.ret") + (("rel",) if hold else ())

    def ev(self, line: str) -> None:
        if self.enabled:
            w = line.split(None, 1)[0]
            hub = self.hub
            if w in self.enter:
                hub.inside[self.k] = hub.inside.get(self.k, 0) + 1
            elif w in self.leave:
                hub.inside[self.k] = max(0, hub.inside.get(self.k, 0) - 1)
            elif w == "send" and any(n > 0 for k, n in hub.inside.items() if k != self.k):
                hub.overlaps += 1
        super().ev(line)


def _session(sub: dict, trace: env.Trace, box: dict, more: tuple = ()):
    t = sub["target"]
    if t == "aclient":
        return R.session_aclient(sub, trace, box)
    if t == "sclient":
        return R.session_sclient(sub, trace, box, more)
    if t in ("endpoint", "sendpoint"):
        return R.session_endpoint(sub, trace, box)
    if t == "fairlock":
        return R.session_fairlock(sub, trace, box)
    if t in ("tls", "tlsclient", "tlsserver"):
        from vlib import c12_tls

        if sub.get("inject"):
            raise ValueError("multi: `inject` is a process-wide hook, not available per object")
        return (c12_tls.session_tls_server if t == "tlsserver" else c12_tls.session_tls)(sub, trace, box)
    raise ValueError(f"multi: unknown object target {t!r}")


def _lines(sub: dict, trace: env.Trace, box: dict, deadlocked: bool) -> list[str]:
    t = sub["target"]
    if t == "fairlock":
        return R.fairlock_lines(trace, deadlocked)
    if t in ("tls", "tlsclient", "tlsserver"):
        from vlib import c12_tls

        return c12_tls.finish_lines(sub, trace, box, deadlocked)
    return R.finish_lines(sub, trace, R._wire_of(box), deadlocked)


def run_objects(objects: list[dict], idx: list[int], shared_backend: bool) -> tuple[dict[int, list[str]], int]:
    """run the objects `idx` of the list together on one fresh loop; returns ({k: lines of object k}, overlaps)"""
    hub = Hub()
    traces = {k: MTrace(k, hub, objects[k]["target"] == "fairlock") for k in idx}
    boxes: dict[int, dict] = {k: {} for k in idx}
    # connections of one server: the first object of a group runs the server session, the others are handed to it
    leader: dict[Any, int] = {}
    followers: dict[int, list[int]] = {}
    for k in idx:
        g = objects[k].get("server")
        if objects[k]["target"] == "sclient" and g is not None:
            if g in leader:
                followers.setdefault(leader[g], []).append(k)
            else:
                leader[g] = k
    follower_set = {k for ks in followers.values() for k in ks}

    async def one(k: int, shared: Any) -> None:
        env.OBJ.set(k)
        env.SHARED.set(shared if shared is not None else env.SharedHBackend())
        sub = objects[k]
        if sub.get("start") and sub.get("server") is None:      # (the connections of one server are accepted at tick 0)
            await asyncio.sleep(float(sub["start"]))
        await env.pause(max(0, int(sub.get("pre", 0))))
        more = tuple((j, objects[j], traces[j], boxes[j]) for j in followers.get(k, []))
        await _session(sub, traces[k], boxes[k], more)()

    async def main() -> None:
        loop = asyncio.get_running_loop()
        shared = env.SharedHBackend() if shared_backend else None
        tasks = [loop.create_task(one(k, shared), name=f"o{k}") for k in idx if k not in follower_set]
        try:
            await asyncio.gather(*tasks)
        finally:
            for t in tasks:
                t.cancel()

    res, loop = env.run(main, None, fifo_timers=True, traces=list(traces.values()))
    dead = isinstance(res, env.Deadlock) or loop.deadlocked
    return {k: _lines(objects[k], traces[k], boxes[k], dead) for k in idx}, hub.overlaps


def run_multi(case: dict) -> list[str]:
    objects = case["objects"]
    idx = list(range(len(objects)))
    shared = bool(case.get("shared_backend"))
    together, overlaps = run_objects(objects, idx, shared)
    out: list[str] = []
    for k in idx:
        out.extend(f"o{k} {ln}" for ln in together[k])
    out.append(f"note overlap {overlaps}")
    if len(idx) > 1 and case.get("alone", True):
        for k in idx:
            alone = run_objects(objects, [k], shared)[0][k]
            if alone == together[k]:
                out.append(f"alone o{k} same")
            else:
                i = next((i for i, (a, b) in enumerate(zip(together[k], alone)) if a != b), min(len(alone), len(together[k])))
                a = together[k][i] if i < len(together[k]) else "<end>"
                b = alone[i] if i < len(alone) else "<end>"
                out.append(f"alone o{k} differs@{i} together={a} | alone={b}")
    return out


def split(real: list[str]) -> tuple[dict[int, list[str]], list[str]]:
    """({k: lines of object k}, the other lines)"""
    per: dict[int, list[str]] = {}
    rest: list[str] = []
    for ln in real:
        if ln.startswith("o") and " " in ln and ln[1:ln.index(" ")].isdigit():
            k, _, body = ln.partition(" ")
            per.setdefault(int(k[1:]), []).append(body)
        else:
            rest.append(ln)
    return per, rest


def describe(sub: dict) -> str:
    t = sub["target"]
    what = {"aclient": "AsyncTCPNetworkClient", "sclient": "server-side client of AsyncTCPNetworkServer",
            "endpoint": "AsyncStreamEndpoint (no lock)", "sendpoint": "AsyncStreamSenderEndpoint (no lock)",
            "fairlock": "FairLock", "tls": "AsyncTLSStreamTransport", "tlsclient": "AsyncTCPNetworkClient(ssl=...)",
            "tlsserver": "server-side client of AsyncTCPNetworkServer(ssl=...)"}.get(t, t)
    if sub.get("server") is not None:
        what += f", connection of server {sub['server']}"
    return what


def _unused() -> Any:      # (core is imported for its side effect: VERIF_REPO/src on sys.path)
    return core
