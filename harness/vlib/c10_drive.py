"""
C10 helpers: protocol-level driving of the real StreamReaderBufferedProtocol (the harness is the asyncio transport)
and end-to-end runs of AsyncStreamEndpoint over a socketpair on the deterministic loop.

Event vocabulary of a protocol-level case (one reader task at a time, as the endpoint guards enforce):

    ["recv", n]     loop.create_task(protocol.receive_data(n))                (first step runs at the next turn)
    ["into", cap]   loop.create_task(protocol.receive_data_into(bytearray(cap)))
    ["io", hex]     the transport's _read_ready: buf = get_buffer(-1); buf[:n] = data[:n]; buffer_updated(n)
    ["eof"]         protocol.eof_received()
    ["lost", errno] protocol.connection_lost(None if errno == 0 else OSError(errno))
    ["cancel"]      task.cancel()     (what a timeout scope / a task group / a request handler's timeout does)
    ["turn"]        one event-loop iteration

`io`/`cancel` issued between the same two turns are "in the same loop iteration", in the order written.
"""
from __future__ import annotations

import asyncio
import errno as _errno
import os
from typing import Any

from . import core  # noqa: F401  (sets sys.path for the repository under test)
from .c10_vloop import StubTransport, VLoop

FINISH = [["turn"], ["turn"], ["cancel"], ["turn"]]
DRAIN = [["recv", 65536], ["turn"], ["turn"]]


def _proto_class(max_size: int | None):
    from easynetwork.lowlevel.api_async.backend._asyncio.stream.socket import StreamReaderBufferedProtocol

    if max_size is None:
        return StreamReaderBufferedProtocol
    return type("SmallProto", (StreamReaderBufferedProtocol,), {"max_size": max_size, "__slots__": ()})


def exc_code(e: BaseException) -> str:
    if isinstance(e, asyncio.CancelledError):
        return "cancelled"
    if isinstance(e, OSError):
        return f"err {e.errno if e.errno is not None else 'oserror'}"
    return f"err {type(e).__name__}"


class ProtoRun:
    """executes events on the real protocol and produces the canonical lines"""

    def __init__(self, max_size: int | None = None) -> None:
        self.loop = VLoop()
        self.proto = _proto_class(max_size)(loop=self.loop)
        self.transport = StubTransport()
        self.proto.connection_made(self.transport)
        self.task: asyncio.Task | None = None
        self.kind = ""
        self.callbuf: bytearray | None = None
        self.lines: list[str] = []
        self.arrived = bytearray()
        self.delivered = bytearray()
        self.dead = False  # eof or lost seen: the transport stops reading
        self.lost = False
        self.executed: list[list] = []

    def held(self) -> int:
        return self.proto._get_read_buffer_size()

    def event(self, ev: list) -> None:
        self.executed.append(ev)
        k = ev[0]
        out = self.lines
        if k in ("recv", "into"):
            if self.task is not None:
                out.append("busy")
            else:
                if k == "recv":
                    self.callbuf = None
                    self.task = self.loop.create_task(self.proto.receive_data(ev[1]))
                else:
                    self.callbuf = bytearray(b"\xee" * ev[1])
                    self.task = self.loop.create_task(self.proto.receive_data_into(self.callbuf))
                self.kind = k
                out.append("start")
        elif k == "io":
            data = bytes.fromhex(ev[1])
            if self.dead or self.transport.read_paused or not data:
                out.append("io-skip")
            else:
                buf = memoryview(self.proto.get_buffer(-1))
                n = min(len(data), buf.nbytes)
                if n == 0:
                    out.append("io-full")
                else:
                    buf[:n] = data[:n]
                    target = "ext" if (self.callbuf is not None and buf.obj is self.callbuf) else "int"
                    buf.release()
                    self.proto.buffer_updated(n)
                    self.arrived += data[:n]
                    out.append(f"io {n} {target}")
        elif k == "eof":
            if self.dead:
                out.append("eof-skip")
            else:
                self.proto.eof_received()
                self.dead = True
                out.append("eof")
        elif k == "lost":
            self.proto.connection_lost(None if ev[1] == 0 else OSError(ev[1], os.strerror(ev[1])))
            self.dead = True
            self.lost = True
            out.append("lost")
        elif k == "cancel":
            if self.task is not None:
                self.task.cancel()
            out.append("cancel")
        elif k == "turn":
            self.loop.turn()
            t = self.task
            if t is None:
                out.append("idle")
            elif not t.done():
                out.append("parked")
            else:
                self.task = None
                if t.cancelled():
                    out.append("cancelled")
                elif t.exception() is not None:
                    out.append(exc_code(t.exception()))
                else:
                    r = t.result()
                    if self.kind == "recv":
                        self.delivered += r
                        out.append(f"ret {core.hexs(r)}")
                    else:
                        d = bytes(self.callbuf[:r])
                        self.delivered += d
                        out.append(f"into {r} {core.hexs(d)}")
        else:
            raise core.InfraError(f"unknown C10 event {ev!r}")
        out.append(f"held {self.held()}")

    def finish(self) -> None:
        for ev in FINISH:
            self.event(ev)
        n = 0
        while self.held() > 0 and n < 24:
            for ev in DRAIN:
                self.event(ev)
            n += 1

    def close(self) -> None:
        self.loop.shutdown()


_variant_cache: dict[str, str] = {}


def probe_variant() -> tuple[int, int]:
    """which variant of the protocol is the code under test?  (guard, salvage) -- behavioural probe.
    guard   = get_buffer() hands the caller's buffer out only while the read waiter is pending
    salvage = a cancelled wake-up puts an already delivered count back into the internal buffer"""
    if "v" not in _variant_cache:
        res = []
        for order in (("cancel", "io"), ("io", "cancel")):
            r = ProtoRun()
            try:
                r.event(["into", 8])
                r.event(["turn"])
                for k in order:
                    r.event(["io", "616263"] if k == "io" else ["cancel"])
                r.event(["turn"])
                r.event(["turn"])
                res.append(1 if r.held() == 3 else 0)
            finally:
                r.close()
        _variant_cache["v"] = f"{res[0]} {res[1]}"
    g, s = _variant_cache["v"].split()
    return int(g), int(s)


# ----------------------------------------------------------------------------------------------
# end-to-end: AsyncStreamEndpoint over the real asyncio socket transport on a socketpair
# ----------------------------------------------------------------------------------------------

class E2ERun:
    """
    ops:  ["recvpkt", timeout|None]   start `with backend.timeout(t): await endpoint.recv_packet()` in a new task
          ["peer", hex]               the peer writes bytes (socketpair: readable at once)
          ["cancel"]                  loop.call_soon(task.cancel): runs in the next turn BEFORE that turn's I/O callbacks
          ["tick", d]                 advance the virtual clock (a timer due fires in the next turn AFTER the I/O callbacks)
          ["turn"]
    """

    def __init__(self, path: str, max_recv_size: int = 8, kind: str = "endpoint") -> None:
        import socket

        from easynetwork.lowlevel.api_async.backend._asyncio.backend import AsyncIOBackend
        from easynetwork.lowlevel.api_async.endpoints.stream import AsyncStreamEndpoint
        from easynetwork.protocol import BufferedStreamProtocol, StreamProtocol
        from easynetwork.serializers.line import StringLineSerializer

        self.loop = VLoop()
        self.backend = AsyncIOBackend()
        self.a, self.b = socket.socketpair()
        self.b.setblocking(False)
        ser = StringLineSerializer("LF", encoding="ascii", limit=4096)
        proto = BufferedStreamProtocol(ser) if path == "buffered" else StreamProtocol(ser)
        self.lines: list[str] = []
        self.task: asyncio.Task | None = None
        self.written = bytearray()
        self.packets: list[str] = []

        self.kind = kind
        self.receiver = None

        async def setup():
            tr = await self.backend.wrap_stream_socket(self.a)
            if kind == "server":
                # the request receivers of AsyncStreamServer (what `timeout = yield` of a request handler drives)
                from easynetwork.lowlevel import _stream
                from easynetwork.lowlevel.api_async.servers import stream as srv

                if path == "buffered":
                    self.receiver = srv._BufferedRequestReceiver(
                        transport=tr, consumer=_stream.BufferedStreamDataConsumer(proto, max_recv_size), disconnect_error_filter=None)
                else:
                    self.receiver = srv._RequestReceiver(
                        transport=tr, consumer=_stream.StreamDataConsumer(proto), max_recv_size=max_recv_size,
                        disconnect_error_filter=None)
                return tr
            return AsyncStreamEndpoint(tr, proto, max_recv_size=max_recv_size)

        t = self.loop.create_task(setup())
        self.loop.turns_until(t.done, 20)
        self.endpoint = t.result()

    async def _recv(self, timeout):
        if self.receiver is not None:
            from easynetwork.lowlevel._asyncgen import SendAction

            action = await self.receiver.next(timeout)  # never raises but StopAsyncIteration: errors come back as ThrowAction
            if isinstance(action, SendAction):
                return action.value
            raise action.exception
        if timeout is None:
            return await self.endpoint.recv_packet()
        with self.backend.timeout(timeout):
            return await self.endpoint.recv_packet()

    def op(self, op: list) -> None:
        k = op[0]
        out = self.lines
        if k == "recvpkt":
            if self.task is not None:
                out.append("busy")
            else:
                self.task = self.loop.create_task(self._recv(op[1]))
                out.append("start")
        elif k == "peer":
            data = bytes.fromhex(op[1])
            self.b.send(data)
            self.written += data
            out.append(f"peer {len(data)}")
        elif k == "cancel":
            if self.task is not None:
                self.loop.call_soon(self.task.cancel)
            out.append("cancel")
        elif k == "tick":
            self.loop.advance(op[1])
            out.append("tick")
        elif k == "turn":
            self.loop.turn()
            t = self.task
            if t is None:
                out.append("idle")
            elif not t.done():
                out.append("parked")
            else:
                self.task = None
                if t.cancelled():
                    out.append("cancelled")
                elif t.exception() is not None:
                    e = t.exception()
                    out.append("timeout" if isinstance(e, TimeoutError) else exc_code(e))
                else:
                    self.packets.append(t.result())
                    out.append(f"pkt {core.hexs(t.result().encode())}")
        else:
            raise core.InfraError(f"unknown C10 e2e op {op!r}")

    def finish(self, expected: int) -> None:
        # let a pending receive end, then read everything that is left
        for _ in range(3):
            self.op(["turn"])
        if self.task is not None:
            self.op(["cancel"])
            self.op(["turn"])
            self.op(["turn"])
        n = 0
        while len(self.packets) < expected and n < expected + 4:
            self.op(["recvpkt", None])
            for _ in range(12):
                self.op(["turn"])
                if self.task is None:
                    break
            if self.task is not None:  # nothing more comes
                self.op(["cancel"])
                self.op(["turn"])
                self.op(["turn"])
                break
            n += 1

    def close(self) -> None:
        try:
            t = self.loop.create_task(self.endpoint.aclose())
            self.loop.turns_until(t.done, 20)
        finally:
            self.b.close()
            self.loop.shutdown()
            try:
                self.a.close()
            except OSError:
                pass


class SyncRun:
    """blocking StreamEndpoint over SocketStreamTransport on a socketpair: receives that end with TimeoutError.
    ops: ["recvpkt", timeout] (0 or a few ms: nothing ever arrives while it waits) | ["peer", hex]"""

    def __init__(self, path: str, max_recv_size: int = 8) -> None:
        import math
        import socket

        from easynetwork.lowlevel.api_sync.endpoints.stream import StreamEndpoint
        from easynetwork.lowlevel.api_sync.transports.socket import SocketStreamTransport
        from easynetwork.protocol import BufferedStreamProtocol, StreamProtocol
        from easynetwork.serializers.line import StringLineSerializer

        self.a, self.b = socket.socketpair()
        ser = StringLineSerializer("LF", encoding="ascii", limit=4096)
        proto = BufferedStreamProtocol(ser) if path == "buffered" else StreamProtocol(ser)
        self.endpoint = StreamEndpoint(SocketStreamTransport(self.a, math.inf), proto, max_recv_size=max_recv_size)
        self.lines: list[str] = []
        self.written = bytearray()
        self.packets: list[str] = []

    def op(self, op: list) -> None:
        if op[0] == "peer":
            data = bytes.fromhex(op[1])
            self.b.send(data)
            self.written += data
            self.lines.append(f"peer {len(data)}")
        elif op[0] == "recvpkt":
            try:
                p = self.endpoint.recv_packet(timeout=op[1])
            except TimeoutError:
                self.lines.append("timeout")
            except OSError as e:
                self.lines.append(exc_code(e))
            else:
                self.packets.append(p)
                self.lines.append(f"pkt {core.hexs(p.encode())}")
        elif op[0] in ("turn", "tick", "cancel"):
            self.lines.append("skip")
        else:
            raise core.InfraError(f"unknown C10 sync op {op!r}")

    def finish(self, expected: int) -> None:
        n = 0
        while len(self.packets) < expected and n < 3 * expected + 6:
            self.op(["recvpkt", 0])
            n += 1

    def close(self) -> None:
        try:
            self.endpoint.close()
        finally:
            self.b.close()


class TLSRun:
    """AsyncTLSStreamTransport (client side) over the real asyncio socket adapter on a socketpair; the peer is an in-memory
    `ssl.SSLObject` (server side) that the harness pumps.  Observed: plaintext returned by `recv()`.
    ops: ["recvpkt", timeout|None] = recv(64) under a timeout scope | ["peer", hex] plaintext written by the peer |
         ["cancel"] | ["tick", d] | ["turn"]"""

    CERTS = __import__("pathlib").Path(__file__).resolve().parent / "c10_certs"

    def __init__(self) -> None:
        import socket
        import ssl

        from easynetwork.lowlevel.api_async.backend._asyncio.backend import AsyncIOBackend
        from easynetwork.lowlevel.api_async.transports.tls import AsyncTLSStreamTransport

        self.loop = VLoop()
        self.backend = AsyncIOBackend()
        self.a, self.b = socket.socketpair()
        self.b.setblocking(False)
        sctx = ssl.SSLContext(ssl.PROTOCOL_TLS_SERVER)
        sctx.load_cert_chain(self.CERTS / "cert.pem", self.CERTS / "key.pem")
        sctx.num_tickets = 0  # no post-handshake records: every record after the handshake is application data
        cctx = ssl.SSLContext(ssl.PROTOCOL_TLS_CLIENT)
        cctx.load_verify_locations(self.CERTS / "cert.pem")
        self.a.setsockopt(socket.SOL_SOCKET, socket.SO_SNDBUF, 4096)
        self.sender: asyncio.Task | None = None
        self.pin, self.pout = ssl.MemoryBIO(), ssl.MemoryBIO()
        self.peer = sctx.wrap_bio(self.pin, self.pout, server_side=True)
        self.hs_done = False
        self.lines: list[str] = []
        self.task: asyncio.Task | None = None
        self.written = bytearray()
        self.received = bytearray()

        async def setup():
            tr = await self.backend.wrap_stream_socket(self.a)
            return await AsyncTLSStreamTransport.wrap(tr, cctx, server_hostname="localhost", handshake_timeout=1000.0)

        t = self.loop.create_task(setup())
        for _ in range(60):
            if t.done():
                break
            self.loop.turn()
            self.pump()
        self.tls = t.result()
        self.pump()

    def pump(self) -> None:
        import ssl

        try:
            while True:
                d = self.b.recv(65536)
                if not d:
                    break
                self.pin.write(d)
        except (BlockingIOError, ConnectionError):
            pass
        if not self.hs_done:
            try:
                self.peer.do_handshake()
                self.hs_done = True
            except (ssl.SSLWantReadError, ssl.SSLWantWriteError):
                pass
        if self.pout.pending:
            self.b.send(self.pout.read())

    async def _recv(self, timeout):
        if timeout is None:
            return await self.tls.recv(64)
        with self.backend.timeout(timeout):
            return await self.tls.recv(64)

    def op(self, op: list) -> None:
        k = op[0]
        out = self.lines
        if k == "recvpkt":
            if self.task is not None:
                out.append("busy")
            else:
                self.task = self.loop.create_task(self._recv(op[1]))
                out.append("start")
        elif k == "peer":
            data = bytes.fromhex(op[1])
            self.peer.write(data)
            self.b.send(self.pout.read())
            self.written += data
            out.append(f"peer {len(data)}")
        elif k == "cancel":
            if self.task is not None:
                self.loop.call_soon(self.task.cancel)
            out.append("cancel")
        elif k == "tick":
            self.loop.advance(op[1])
            out.append("tick")
        elif k == "turn":
            self.loop.turn()
            t = self.task
            if t is None:
                out.append("idle")
            elif not t.done():
                out.append("parked")
            else:
                self.task = None
                if t.cancelled():
                    out.append("cancelled")
                elif t.exception() is not None:
                    e = t.exception()
                    out.append("timeout" if isinstance(e, TimeoutError) else f"err {type(e).__name__}")
                else:
                    self.received += t.result()
                    out.append(f"data {core.hexs(t.result())}")
        elif k == "bigsend":
            # a concurrent sender that the silent peer leaves parked in transport.send_all(), holding the TLS send lock
            if self.sender is None:
                self.sender = self.loop.create_task(self.tls.send_all(bytes(op[1])))
            out.append("bigsend")
        elif k == "peer-drain":
            self.peer_drain()
            out.append("peer-drain")
        else:
            raise core.InfraError(f"unknown C10 tls op {op!r}")

    def peer_drain(self) -> None:
        import ssl

        if self.sender is None:
            return
        for _ in range(4000):
            if self.sender.done():
                break
            self.pump()
            try:
                while self.peer.read(1 << 16):
                    pass
            except ssl.SSLError:
                pass
            self.loop.turn()
        if self.sender.done() and not self.sender.cancelled() and self.sender.exception() is not None:
            self.lines.append(f"sender err {type(self.sender.exception()).__name__}")

    def finish(self, expected: int) -> None:
        for _ in range(3):
            self.op(["turn"])
        if self.task is not None:
            self.op(["cancel"])
            self.op(["turn"])
            self.op(["turn"])
        self.peer_drain()
        n = 0
        while len(self.received) < len(self.written) and n < 12:
            self.op(["recvpkt", None])
            for _ in range(12):
                self.op(["turn"])
                if self.task is None:
                    break
            if self.task is not None:
                self.op(["cancel"])
                self.op(["turn"])
                self.op(["turn"])
                break
            n += 1
        self.packets = []

    def close(self) -> None:
        try:
            t = self.loop.create_task(self.backend.ignore_cancellation(self._force_close()))
            self.loop.turns_until(t.done, 20)
        except Exception:
            pass
        finally:
            self.b.close()
            self.loop.shutdown()
            try:
                self.a.close()
            except OSError:
                pass

    async def _force_close(self):
        from easynetwork.lowlevel.api_async.transports.utils import aclose_forcefully

        await aclose_forcefully(self.tls)
