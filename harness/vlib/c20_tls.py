"""
C20 — the TLS twin of the asyncio stream transport: SEVERAL concurrent senders on ONE `AsyncTLSStreamTransport` whose peer
stops reading (oracle only, no model run).

targets
  tls_sock   AsyncTLSStreamTransport.wrap(<pass-through counter>(AsyncIOBackend().wrap_stream_socket(sock))): the REAL asyncio
             adapter over the REAL selector transport on a socketpair (SO_SNDBUF / SO_RCVBUF 4096); the peer is an
             independent stdlib `ssl.SSLObject` on the other (non-blocking) socket, driven by the harness between two loop
             turns: it reads only when the case says so.
  tls_mem    the same TLS transport over an in-memory `AsyncStreamTransport` (EasyNetwork's public ABC) with the semantics of
             the adapter: `send_all()` takes all the bytes at once and returns when the "kernel" (a buffer of `KCAP` bytes
             that only the peer empties) has taken every one of them; a cancelled `send_all()` leaves its bytes queued (as
             asyncio's transport does); `fail` makes every parked `send_all()` raise the connection error.

How "handed to the operating system" is observed.  Every byte leaves the outgoing `MemoryBIO` only through the wrapped
transport's `send_all()`, so   produced = bytes handed to send_all so far + `_write_bio.pending`   is the number of
ciphertext bytes the SSL object has emitted.  A thin proxy around the real `SSLObject` (installed through the public
`ssl_context.wrap_bio` entry point of `wrap()`) notes `produced` after every `write()` of a sender task: that is the END
OFFSET `E_i` of sender i's records in the ciphertext stream.   taken = handed - <write buffer of the asyncio transport>
(tls_mem: the kernel counter).  `pend_i = max(0, E_i - taken)` = bytes of sender i still in USER SPACE (outgoing BIO +
adapter / asyncio write buffer).  `uq` = `_write_bio.pending` + write buffer = the whole user-space queue.

ops (between two `turn`s everything happens "in the same loop iteration", in the order written)
  ["send", i, n] | ["send", i, n, "timeout" | "moveon", d]      task i: tls.send_all(n bytes)  [inside backend.timeout(d) /
  ["sendv", i, [n…]] | ["sendv", i, [n…], "timeout" | "moveon", d]                              backend.move_on_after(d)]
  ["cancel", i]            task i .cancel()
  ["turn"]                 one loop iteration
  ["advance", dt]          the virtual clock moves on (timeouts fire in the next turn)
  ["peer-read"] | ["peer-read", k]    the peer reads everything it can get / at most k bytes of ciphertext, and decrypts
  ["peer-send", n]         the peer writes n bytes of application data (for the optional reader task of the library side)
  ["peer-close"]           tls_sock: the peer closes its socket with unread data (reset); tls_mem: the transport fails (ECONNRESET)
  ["aclose"]               task "c": tls.aclose()
"""
from __future__ import annotations

import asyncio
import errno
import os
import socket
import ssl
from pathlib import Path
from typing import Any

from . import core
from .c10_vloop import VLoop

from easynetwork.lowlevel.api_async.backend._asyncio.backend import AsyncIOBackend
from easynetwork.lowlevel.api_async.transports.abc import AsyncStreamTransport
from easynetwork.lowlevel.api_async.transports.tls import AsyncTLSStreamTransport

CERT = str(Path(__file__).with_name("c14_certs") / "cert.pem")
KEY = str(Path(__file__).with_name("c14_certs") / "key.pem")
KCAP = 4096                 # tls_mem: size of the "kernel" buffer
SOCKBUF = 4096              # tls_sock: SO_SNDBUF / SO_RCVBUF
FINISH_IDLE = 16            # finish(): consecutive (peer-read, turn) rounds without any progress before giving up
FINISH_MAX = 3000

_CTX: dict[tuple, ssl.SSLContext] = {}


def _server_ctx(ver: str) -> ssl.SSLContext:
    key = ("s", ver)
    if key not in _CTX:
        c = ssl.SSLContext(ssl.PROTOCOL_TLS_SERVER)
        c.load_cert_chain(CERT, KEY)
        if ver == "1.2":
            c.maximum_version = ssl.TLSVersion.TLSv1_2
        else:
            c.minimum_version = ssl.TLSVersion.TLSv1_3
        c.num_tickets = 0
        _CTX[key] = c
    return _CTX[key]


def _client_ctx(ver: str) -> ssl.SSLContext:
    key = ("c", ver)
    if key not in _CTX:
        c = ssl.create_default_context(cafile=CERT)
        if ver == "1.2":
            c.maximum_version = ssl.TLSVersion.TLSv1_2
        else:
            c.minimum_version = ssl.TLSVersion.TLSv1_3
        _CTX[key] = c
    return _CTX[key]


def _cur() -> str:
    t = asyncio.current_task()
    return t.get_name() if t is not None else "?"


def err_code(e: BaseException) -> str:
    if isinstance(e, asyncio.CancelledError):
        return "cancelled"
    if isinstance(e, TimeoutError):
        return "timeout"
    if isinstance(e, ssl.SSLError):
        return "err ssl"
    if isinstance(e, OSError):          # connection error (ConnectionError subclasses, ECONNABORTED of a closed transport, …)
        return "err conn"
    return f"err {type(e).__name__}"


# ----------------------------------------------------------------------------------------------
class _Obj:
    """the real SSLObject; `write` additionally tells the run where the sender's records end in the ciphertext stream"""

    def __init__(self, obj: ssl.SSLObject, run: "TlsRun") -> None:
        self._obj = obj
        self._run = run

    def write(self, data) -> int:
        n = self._obj.write(data)
        with memoryview(data) as mv:
            self._run.note_write(bytes(mv[:n]))
        return n

    def __getattr__(self, name: str) -> Any:
        return getattr(self._obj, name)


class _Ctx:
    def __init__(self, ctx: ssl.SSLContext, run: "TlsRun") -> None:
        self._ctx = ctx
        self._run = run

    def wrap_bio(self, incoming, outgoing, server_side=False, server_hostname=None, session=None):
        obj = self._ctx.wrap_bio(incoming, outgoing, server_side=server_side, server_hostname=server_hostname, session=session)
        self._run.wbio = outgoing
        return _Obj(obj, self._run)


class Counting(AsyncStreamTransport):
    """pass-through (public ABC) around the library's asyncio adapter: counts the bytes handed to its send_all()"""

    def __init__(self, inner: AsyncStreamTransport) -> None:
        super().__init__()
        self.inner = inner
        self.handed = 0
        self.calls: list[list] = []         # [start offset, end offset, "inflight" | "done" | "cancelled" | "failed", task]

    def backend(self):
        return self.inner.backend()

    def is_closing(self) -> bool:
        return self.inner.is_closing()

    @property
    def extra_attributes(self):
        return self.inner.extra_attributes

    async def aclose(self) -> None:
        await self.inner.aclose()

    async def recv(self, bufsize: int) -> bytes:
        return await self.inner.recv(bufsize)

    async def recv_into(self, buffer) -> int:
        return await self.inner.recv_into(buffer)

    async def send_all(self, data) -> None:
        call = [self.handed, self.handed + len(data), "inflight", _cur()]
        self.handed += len(data)
        self.calls.append(call)
        try:
            await self.inner.send_all(data)
        except OSError:
            call[2] = "failed"
            raise
        except BaseException:
            call[2] = "cancelled"
            raise
        call[2] = "done"

    async def send_eof(self) -> None:
        await self.inner.send_eof()


class MemStream(AsyncStreamTransport):
    """in-memory stream transport with the adapter's semantics (accept everything, then wait until the kernel has it)"""

    def __init__(self, backend: AsyncIOBackend, kcap: int = KCAP) -> None:
        super().__init__()
        self._backend = backend
        self.kcap = kcap
        self.out = bytearray()          # every byte accepted by send_all, in order
        self.flushed = 0                # how many of them the kernel has taken
        self.peer_pos = 0               # how many of them the peer has read
        self.waiters: list[tuple[int, asyncio.Future]] = []
        self.inbox = bytearray()
        self.rwaiter: asyncio.Future | None = None
        self.lost: int | None = None
        self.closing = False
        self.calls: list[list] = []         # [start offset, end offset, "inflight" | "done" | "cancelled" | "failed", task]
        self.handed = 0                     # bytes passed to send_all() (accepted or refused)

    def backend(self):
        return self._backend

    def is_closing(self) -> bool:
        return self.closing

    @property
    def extra_attributes(self):
        return {}

    def _pump(self) -> None:
        n = min(len(self.out) - self.flushed, self.kcap - (self.flushed - self.peer_pos))
        if n > 0:
            self.flushed += n
        for end, fut in list(self.waiters):
            if end <= self.flushed and not fut.done():
                fut.set_result(None)

    def _wake_reader(self) -> None:
        w = self.rwaiter
        if w is not None and not w.done():
            w.set_result(None)

    async def send_all(self, data) -> None:
        call = [self.handed, self.handed + len(data), "inflight", _cur()]
        self.handed += len(data)
        self.calls.append(call)
        try:
            if self.lost is not None:
                raise OSError(self.lost, os.strerror(self.lost))
            if self.closing:
                raise OSError(errno.ECONNABORTED, os.strerror(errno.ECONNABORTED))
            self.out += data
            end = len(self.out)
            self._pump()
            if self.flushed < end:
                fut = asyncio.get_running_loop().create_future()
                item = (end, fut)
                self.waiters.append(item)
                try:
                    await fut
                finally:
                    self.waiters.remove(item)
        except OSError:
            call[2] = "failed"
            raise
        except BaseException:
            call[2] = "cancelled"
            raise
        call[2] = "done"

    def peer_take(self, k: int | None) -> bytes:
        n = self.flushed - self.peer_pos
        if k is not None:
            n = min(n, k)
        data = bytes(self.out[self.peer_pos:self.peer_pos + n])
        self.peer_pos += n
        if self.lost is None:
            self._pump()
        return data

    def fail(self, err: int) -> None:
        if self.lost is not None:
            return
        self.lost = err
        for _, fut in list(self.waiters):
            if not fut.done():
                fut.set_exception(OSError(err, os.strerror(err)))
        self._wake_reader()

    def feed(self, data: bytes) -> None:
        self.inbox += data
        self._wake_reader()

    async def recv_into(self, buffer) -> int:
        while not self.inbox:
            if self.lost is not None:
                raise OSError(self.lost, os.strerror(self.lost))
            if self.closing:
                return 0
            self.rwaiter = asyncio.get_running_loop().create_future()
            try:
                await self.rwaiter
            finally:
                self.rwaiter = None
        with memoryview(buffer) as mv:
            n = min(len(self.inbox), mv.nbytes)
            mv[:n] = self.inbox[:n]
        del self.inbox[:n]
        return n

    async def recv(self, bufsize: int) -> bytes:
        buf = bytearray(bufsize)
        n = await self.recv_into(buf)
        return bytes(buf[:n])

    async def aclose(self) -> None:
        self.closing = True
        for _, fut in list(self.waiters):
            if not fut.done():
                fut.set_exception(OSError(errno.ECONNABORTED, os.strerror(errno.ECONNABORTED)))
        self._wake_reader()
        await asyncio.sleep(0)

    async def send_eof(self) -> None:
        await asyncio.sleep(0)


# ----------------------------------------------------------------------------------------------
class TlsRun:
    def __init__(self, case: dict) -> None:
        self.target = case["target"]
        self.ver = case.get("ver", "1.3")
        self.server = case.get("role", "client") == "server"       # role of the library side
        self.loop = VLoop()
        self.backend = AsyncIOBackend()
        self.lines: list[str] = []
        self.tasks: dict[Any, asyncio.Task] = {}
        self.E: dict[str, int] = {}                 # task name -> end offset of its records in the ciphertext stream
        self.pk: dict[str, list[int]] = {}          # task name -> [start, end) of its packet in the plaintext stream
        self.accepted = bytearray()                 # plaintext accepted by ssl.write, in order
        self.wbio: ssl.MemoryBIO | None = None
        self.lost = False
        self.closed_by_us = False
        self.a: socket.socket | None = None
        self.b: socket.socket | None = None
        self.peer_closed = False
        self.peer_backlog = bytearray()             # ciphertext of the peer not yet accepted by its socket
        self.received = bytearray()                 # plaintext decrypted by the peer
        self.peer_error: str | None = None
        self.peer_sent = 0
        self.lib_received = 0
        self.ok_ends: list[tuple[str, int]] = []    # (sender, end of its packet in the plaintext stream) for every `ok`
        if self.target == "tls_sock":
            self.a, self.b = socket.socketpair()
            for s in (self.a, self.b):
                s.setsockopt(socket.SOL_SOCKET, socket.SO_SNDBUF, SOCKBUF)
                s.setsockopt(socket.SOL_SOCKET, socket.SO_RCVBUF, SOCKBUF)
            self.b.setblocking(False)
            t = self.loop.create_task(self.backend.wrap_stream_socket(self.a))
            self.loop.turns_until(t.done, 20)
            self.adapter = t.result()
            self.aio = getattr(self.adapter, "_AsyncioTransportStreamSocketAdapter__transport")
            self.sink: Any = Counting(self.adapter)
        elif self.target == "tls_mem":
            self.adapter = None
            self.aio = None
            self.sink = MemStream(self.backend)
        else:
            raise core.InfraError(f"unknown C20 TLS target {self.target}")
        # ---- the peer
        self.inc, self.out = ssl.MemoryBIO(), ssl.MemoryBIO()
        pctx = _client_ctx(self.ver) if self.server else _server_ctx(self.ver)
        self.pobj = pctx.wrap_bio(self.inc, self.out, server_side=not self.server,
                                  server_hostname="localhost" if self.server else None)
        self.peer_hs = False
        # ---- handshake
        lctx = _Ctx(_server_ctx(self.ver) if self.server else _client_ctx(self.ver), self)
        hs = self.loop.create_task(AsyncTLSStreamTransport.wrap(
            self.sink, lctx, server_side=self.server, server_hostname=None if self.server else "localhost",  # type: ignore[arg-type]
            handshake_timeout=1e9, shutdown_timeout=30.0), name="hs")
        for _ in range(200):
            self.loop.turn()
            self._peer_pull(None)
            if hs.done() and self.peer_hs:
                break
        if not hs.done() or hs.exception() is not None or not self.peer_hs:
            why = repr(hs.exception()) if hs.done() else "not finished"
            hs.cancel()
            self.lines.append(f"handshake-failed {why}")
            self.tls: AsyncTLSStreamTransport | None = None
        else:
            self.tls = hs.result()
            self.lines.append("handshake ok")
        if self.tls is not None and case.get("reader"):
            self.tasks["r"] = self.loop.create_task(self._reader(), name="r")
            self.loop.turn()

    # ---- accounting
    def handed(self) -> int:
        return self.sink.handed

    def tbuf(self) -> int:
        if self.target == "tls_sock":
            return self.aio.get_write_buffer_size()
        return len(self.sink.out) - self.sink.flushed

    def taken(self) -> int:
        return self.handed() - self.tbuf()

    def produced(self) -> int:
        return self.handed() + (self.wbio.pending if self.wbio is not None else 0)

    def where(self, end: int, name: str) -> str:
        """where the last byte of a sender's records is: still in the outgoing BIO, or in which call of the wrapped
        transport's send_all() it was handed over: how that call ended, and whether the sender itself made it"""
        if end > self.handed():
            return "bio"
        for a, b, status, who in reversed(self.sink.calls):
            if a < end <= b:
                return f"{status}-flush:{'own' if who == name else 'other'}"
        return "none"

    def note_write(self, plain: bytes) -> None:
        t = asyncio.current_task()
        name = t.get_name() if t is not None else "?"
        start = len(self.accepted)
        self.accepted += plain
        self.E[name] = self.produced()
        if name in self.pk:
            self.pk[name][1] = len(self.accepted)
        else:
            self.pk[name] = [start, len(self.accepted)]

    # ---- the peer (driven by the harness, never by the loop)
    def _peer_push(self) -> None:
        if self.out.pending:
            self.peer_backlog += self.out.read()
        if not self.peer_backlog or self.peer_closed:
            return
        if self.target == "tls_mem":
            self.sink.feed(bytes(self.peer_backlog))
            self.peer_backlog.clear()
            return
        try:
            n = self.b.send(self.peer_backlog)
            del self.peer_backlog[:n]
        except (BlockingIOError, InterruptedError):
            pass
        except OSError:
            self.peer_backlog.clear()

    def _peer_step(self) -> None:
        if not self.peer_hs:
            try:
                self.pobj.do_handshake()
                self.peer_hs = True
            except ssl.SSLWantReadError:
                return
            except ssl.SSLError as e:
                self.peer_error = f"handshake:{type(e).__name__}"
                return
        while self.peer_error is None:
            try:
                d = self.pobj.read(65536)
            except ssl.SSLWantReadError:
                break
            except ssl.SSLZeroReturnError:
                try:
                    self.pobj.unwrap()              # answer the close_notify
                except ssl.SSLError:
                    pass
                self.peer_error = "closed"
                break
            except ssl.SSLError as e:
                self.peer_error = f"{type(e).__name__}:{getattr(e, 'reason', '')}"
                break
            if not d:
                break
            self.received += d

    def _peer_pull(self, k: int | None) -> int:
        got = 0
        if self.peer_closed:
            return 0
        if self.target == "tls_mem":
            data = self.sink.peer_take(k)
            got = len(data)
            if data:
                self.inc.write(data)
        else:
            while k is None or got < k:
                try:
                    d = self.b.recv(65536 if k is None else min(65536, k - got))
                except (BlockingIOError, InterruptedError):
                    break
                except OSError:
                    break
                if not d:
                    break
                got += len(d)
                self.inc.write(d)
        self._peer_step()
        self._peer_push()
        return got

    # ---- library-side tasks
    async def _reader(self) -> None:
        while True:
            d = await self.tls.recv(65536)
            if not d:
                return
            self.lib_received += len(d)

    async def _send(self, i: int, sizes: list[int], vec: bool, scope: list | None):
        chunks = [bytes([0x41 + (i % 26)]) * n for n in sizes]

        async def call():
            if vec:
                await self.tls.send_all_from_iterable(chunks)
            else:
                await self.tls.send_all(chunks[0])

        if scope is None:
            await call()
            return "ok"
        if scope[0] == "timeout":
            with self.backend.timeout(scope[1]):
                await call()
            return "ok"
        with self.backend.move_on_after(scope[1]) as sc:
            await call()
        return "movedon" if sc.cancelled_caught() else "ok"

    def parked(self) -> list:
        return sorted((k for k, t in self.tasks.items() if not t.done() and k != "r"), key=str)

    def _collect(self) -> bool:
        out = self.lines
        any_done = False
        for i in sorted(self.tasks, key=str):
            t = self.tasks[i]
            if not t.done():
                continue
            any_done = True
            del self.tasks[i]
            name = str(i)
            if t.cancelled():
                out.append(f"done {i} cancelled")
            elif t.exception() is not None:
                out.append(f"done {i} {err_code(t.exception())}")
            elif i in ("r", "c"):
                out.append(f"done {i} ok")
            elif t.result() == "movedon":
                out.append(f"done {i} movedon")
            else:
                pend = max(0, self.E.get(name, 0) - self.taken())
                out.append(f"done {i} ok pend={pend} lost={int(self.lost)} closed={int(self.closed_by_us)} "
                           f"where={self.where(self.E.get(name, 0), name)}")
                if name in self.pk:
                    self.ok_ends.append((name, self.pk[name][1]))
            self.E.pop(name, None)
            self.pk.pop(name, None)
        return any_done

    def _st(self) -> None:
        uq = (self.wbio.pending if self.wbio is not None else 0) + (0 if self.lost else self.tbuf())
        self.lines.append(f"st parked={','.join(map(str, self.parked())) or '-'} uq={uq}")

    def op(self, op: list) -> None:
        k = op[0]
        out = self.lines
        if self.tls is None:
            out.append("skip")
            self._st()
            return
        if k in ("send", "sendv"):
            i = op[1]
            if i in self.tasks:
                out.append("busy")
            else:
                sizes = list(op[2]) if k == "sendv" else [op[2]]
                scope = [op[3], op[4]] if len(op) >= 5 else None
                self.tasks[i] = self.loop.create_task(self._send(i, sizes, k == "sendv", scope), name=str(i))
                out.append("start")
        elif k == "turn":
            self.loop.turn()
            self._collect()
            out.append("turn")
        elif k == "advance":
            self.loop.advance(float(op[1]))
            out.append("advance")
        elif k == "cancel":
            t = self.tasks.get(op[1])
            if t is not None:
                t.cancel()
            out.append("cancel")
        elif k == "peer-read":
            self._peer_pull(op[1] if len(op) > 1 else None)
            out.append("peer-read")
        elif k == "peer-send":
            if self.peer_hs and self.peer_error is None and not self.peer_closed:
                try:
                    self.pobj.write(bytes([0x61]) * int(op[1]))
                    self.peer_sent += int(op[1])
                except ssl.SSLError:
                    pass
                self._peer_push()
            out.append("peer-send")
        elif k == "peer-close":
            if not self.lost:
                # what every sender in flight still has in user space at this very moment
                for i in self.parked():
                    if i == "c":
                        continue
                    name = str(i)
                    if name in self.E:
                        out.append(f"atloss {i} pend={max(0, self.E[name] - self.taken())}")
                    else:
                        out.append(f"atloss {i} pend=unstarted")
                self.lost = True
                self.peer_closed = True
                if self.target == "tls_mem":
                    self.sink.fail(errno.ECONNRESET)
                else:
                    self.b.close()
            out.append("peer-close")
        elif k == "aclose":
            if "c" not in self.tasks:
                self.closed_by_us = True
                self.tasks["c"] = self.loop.create_task(self.tls.aclose(), name="c")
                out.append("start")
            else:
                out.append("busy")
        else:
            raise core.InfraError(f"unknown C20 TLS op {op!r}")
        self._st()

    def finish(self) -> None:
        """the peer reads again until everybody is done; gives up after FINISH_IDLE rounds in which nothing at all moved"""
        if self.tls is None:
            return
        idle = 0
        rounds = 0
        while idle < (FINISH_IDLE if self.parked() else 3) and rounds < FINISH_MAX:
            rounds += 1
            before = (self.handed(), self.tbuf(), self.wbio.pending if self.wbio else 0, len(self.received))
            got = self._peer_pull(None)
            self.loop.turn()
            done = self._collect()
            after = (self.handed(), self.tbuf(), self.wbio.pending if self.wbio else 0, len(self.received))
            idle = 0 if (got or done or before != after) else idle + 1
        if "c" in self.tasks and not self.tasks["c"].done():
            # aclose() is bounded by its shutdown timeout: let it expire
            self.loop.advance(100.0)
            for _ in range(FINISH_IDLE):
                self._peer_pull(None)
                self.loop.turn()
                self._collect()
                if "c" not in self.tasks:
                    break
        self._peer_pull(None)
        self.loop.turn()
        self._collect()
        self.lines.append(f"finish rounds={rounds}")
        self._st()
        # ---- what the peer got
        acc, rec = bytes(self.accepted), bytes(self.received)
        self.lines.append(f"peer received={len(rec)} accepted={len(acc)} prefix={int(acc.startswith(rec))} "
                          f"error={self.peer_error or '-'}")
        if not self.lost and not self.closed_by_us:
            short = [f"{n}:{end}" for n, end in self.ok_ends if end > len(rec)]
            self.lines.append("peer missing-of-ok " + (",".join(short) or "-"))

    def close(self) -> None:
        try:
            for t in self.tasks.values():
                t.cancel()
            if self.aio is not None:
                try:
                    self.aio.abort()
                except AttributeError:
                    # CPython 3.12: a transport closed through _write_ready() has dropped its loop without counting the
                    # connection as lost, so abort() does not see that there is nothing left to do
                    pass
                self.adapter._AsyncioTransportStreamSocketAdapter__closing = True   # no ResourceWarning
            elif self.target == "tls_mem":
                self.sink.closing = True
            for _ in range(3):
                self.loop.turn()
        finally:
            if self.b is not None and not self.peer_closed:
                self.b.close()
            self.loop.shutdown()
            if self.a is not None:
                try:
                    self.a.close()
                except OSError:
                    pass


def run_tls(case: dict) -> list[str]:
    r = TlsRun(case)
    try:
        for op in case["ops"]:
            r.op(op)
        r.finish()
        lines = list(r.lines)
        if r.loop.unhandled:
            lines.append("unhandled " + "|".join(r.loop.unhandled))
        return lines
    finally:
        r.close()
