"""
C03, family `aint` (round 7): INTERRUPTED receives on the REAL asyncio transport.

The peer's stream reaches a real `AsyncStreamEndpoint` (over `AsyncIOBackend.wrap_stream_socket()`, socketpair) or a real
`AsyncTCPNetworkClient` (loopback TCP) on the real selector event loop - no scripted transport, no virtual clock.  The plan
of a case is a list of receive steps, each of which is INTERRUPTED at a controlled moment relative to the arrival of the
next piece of the stream; then the peer sends the rest, closes (FIN) and the endpoint is drained.

step = {"k": "recv" | "iter", "mech": <how the receive is interrupted>, "order": <when, relative to the arrival>,
        "feed": n (bytes of the stream the peer writes at this step), "park": turns given to the receive before the feed}

    mech   cancel     task.cancel() of the task running recv_packet()
           scope      CancelScope.cancel() of a backend.open_cancel_scope() around recv_packet()
           timeout    backend.timeout(d) around recv_packet()            (TimeoutError)
           move_on    backend.move_on_after(d) around recv_packet()
           wait_for   asyncio.wait_for(recv_packet(), d)
           (k = "iter": client.iter_received_packets(timeout=d), client layer only - the timeout ends the iteration)
    order  io-first      the piece arrives and the interruption is delivered IN THE SAME EVENT-LOOP TURN, I/O callback first:
                         asyncio has filled the reader's buffer, the interruption comes before the reader wakes up.
                         How (real loop, no hooks): one callback writes the piece on the peer socket (socketpair / loopback:
                         readable when send() returns) and either schedules `call_later(0, cancel)` (timer handles run after
                         the I/O callbacks of the turn in which they are due), or - deadline mechanisms - blocks the loop
                         (`time.sleep`) until the deadline of the receive has passed: the next select() returns the read
                         event and the deadline's timer is due in that same turn.
           zero          the piece is written, then the receive starts under an ALREADY EXPIRED deadline (d = 0): its first
                         suspension parks it on the transport, the arrival and the timer fall in the next turn (deadline
                         mechanisms only)
           cancel-first  same turn, the interruption first (`call_soon(cancel)` from the callback that writes the piece)
           before        interrupted while nothing arrives; the piece is written afterwards
           after         the piece is written, the reader is given turns to finish, then the (late) interruption
           eof           io-first, and the peer CLOSES after the piece: the interruption meets the end of the stream

No step result is judged by itself (a receive that wins or loses a race against its interruption is legitimate either way):
the oracle is C03's own, over the WHOLE history - the packets delivered by all calls together are the packets sent, in order,
once each, all of them before the end-of-stream report, which is then repeated.  The only deadline is a watchdog on the final
drain (everything sent, FIN seen): a miss is retried once; reproduced -> line `stuck` (judged), not reproduced -> InfraError.
"""
from __future__ import annotations

import asyncio
import socket
import time
from typing import Any, Callable

from vlib import core, streamdrive as sd

DEADLINE_MECHS = ("timeout", "move_on", "wait_for")
MECHS = ("cancel", "scope") + DEADLINE_MECHS
ORDERS = ("io-first", "zero", "cancel-first", "before", "after", "eof")
SMALL = 0.004          # the deadline of an interrupted receive (seconds, real time)
MARGIN = 0.003
WATCHDOG = 6.0


class _Watchdog(Exception):
    pass


def _pair(layer: str) -> tuple[socket.socket, socket.socket]:
    if layer == "endpoint":
        return socket.socketpair()
    srv = socket.socket()
    try:
        srv.bind(("127.0.0.1", 0))
        srv.listen(1)
        ours = socket.create_connection(srv.getsockname())
        peer, _ = srv.accept()
    finally:
        srv.close()
    peer.setsockopt(socket.IPPROTO_TCP, socket.TCP_NODELAY, 1)
    return ours, peer


def _run_once(case: dict, classify: Callable[[BaseException, bool], str]) -> list[str]:
    from easynetwork.clients.async_tcp import AsyncTCPNetworkClient
    from easynetwork.lowlevel.api_async.backend._asyncio.backend import AsyncIOBackend
    from easynetwork.lowlevel.api_async.endpoints.stream import AsyncStreamEndpoint

    client_layer = case["layer"] == "client"
    proto = sd.make_protocol(case["spec"], case["path"])
    stream = b"".join(bytes.fromhex(e[1]) for e in case["events"] if e[0] == "data")
    lines: list[str] = []
    ours, peer = _pair(case["layer"])
    state = {"pos": 0, "closed": False, "eos": False}

    def feed(n: int, close: bool = False) -> None:
        if state["closed"]:
            return
        chunk = stream[state["pos"]:state["pos"] + n]
        state["pos"] += len(chunk)
        if chunk:
            peer.sendall(chunk)          # far below the socket buffers: never blocks
        if close:
            peer.shutdown(socket.SHUT_WR)
            state["closed"] = True

    def note(e: BaseException) -> None:
        r = classify(e, client_layer)
        lines.append(r)
        if r.startswith("eos"):
            state["eos"] = True

    async def main() -> None:
        loop = asyncio.get_running_loop()
        backend = AsyncIOBackend()
        if client_layer:
            ep: Any = AsyncTCPNetworkClient(ours, proto, backend, max_recv_size=case["maxrecv"])
            await ep.wait_connected()
        else:
            ep = AsyncStreamEndpoint(await backend.wrap_stream_socket(ours), proto, max_recv_size=case["maxrecv"])
        try:
            for step in case["plan"]:
                if state["eos"]:
                    break
                await one_step(loop, backend, ep, step)
            # the rest of the stream, the peer's FIN, then the drain: every remaining packet, then the end, again and again
            feed(len(stream), close=True)
            n_after = 0
            for _ in range(case["ndrain"]):
                try:
                    lines.append(sd.pkt_line(await asyncio.wait_for(ep.recv_packet(), WATCHDOG)))
                except asyncio.TimeoutError:
                    raise _Watchdog from None
                except Exception as e:  # noqa: BLE001
                    note(e)
                if state["eos"]:
                    n_after += 1
                    if n_after >= 3:
                        break
        finally:
            try:
                await asyncio.wait_for(ep.aclose(), WATCHDOG)
            except Exception:  # noqa: BLE001
                pass

    async def one_step(loop: asyncio.AbstractEventLoop, backend: Any, ep: Any, step: dict) -> None:
        mech, order, n, park = step["mech"], step["order"], int(step["feed"]), int(step.get("park", 6))
        it = step.get("k") == "iter" and client_layer
        deadline_mech = it or mech in DEADLINE_MECHS
        if order == "eof":
            n = len(stream)          # the piece is the whole rest of the stream, then the peer's FIN
        if order == "zero" and not deadline_mech:
            order = "io-first"
        if order == "cancel-first" and deadline_mech:
            order = "before"
        d = 0.0 if order == "zero" else (SMALL if deadline_mech else None)
        box: dict[str, Any] = {}

        async def receive() -> None:
            box["t0"] = loop.time()
            try:
                if it:
                    async for p in ep.iter_received_packets(timeout=d):
                        lines.append(sd.pkt_line(p))
                    lines.append("iter-end")
                elif mech == "timeout":
                    with backend.timeout(d):
                        p = await ep.recv_packet()
                    lines.append(sd.pkt_line(p))
                elif mech == "move_on":
                    got = False
                    with backend.move_on_after(d):
                        p = await ep.recv_packet()
                        got = True
                    lines.append(sd.pkt_line(p) if got else "moved-on")
                elif mech == "wait_for":
                    lines.append(sd.pkt_line(await asyncio.wait_for(ep.recv_packet(), d)))
                elif mech == "scope":
                    got = False
                    with backend.open_cancel_scope() as scope:
                        box["scope"] = scope
                        p = await ep.recv_packet()
                        got = True
                    lines.append(sd.pkt_line(p) if got else "moved-on")
                else:
                    lines.append(sd.pkt_line(await ep.recv_packet()))
            except asyncio.CancelledError:
                lines.append("cancelled")
            except Exception as e:  # noqa: BLE001
                note(e)

        def interrupt() -> None:
            if mech == "scope" and "scope" in box:
                box["scope"].cancel()
            elif not task.done():
                task.cancel()

        if order == "zero":
            feed(n)
            task = asyncio.ensure_future(receive())
        else:
            task = asyncio.ensure_future(receive())
            for _ in range(park):
                await asyncio.sleep(0)
            if deadline_mech:
                if order in ("io-first", "eof"):
                    def arrive_and_block() -> None:
                        feed(n, close=order == "eof")
                        # block the loop until the deadline of the receive has passed: the next turn sees the read event AND
                        # the due timer (I/O callbacks first)
                        left = box.get("t0", loop.time()) + SMALL + MARGIN - loop.time()
                        if left > 0:
                            time.sleep(left)
                    loop.call_soon(arrive_and_block)
                elif order == "before":
                    await asyncio.wait([task], timeout=WATCHDOG)
                    feed(n)
                else:       # after
                    feed(n)
            else:
                if order in ("io-first", "eof"):
                    def arrive_then_cancel() -> None:
                        feed(n, close=order == "eof")
                        loop.call_later(0, interrupt)
                    loop.call_soon(arrive_then_cancel)
                elif order == "cancel-first":
                    def cancel_then_arrive() -> None:
                        feed(n)
                        loop.call_soon(interrupt)
                    loop.call_soon(cancel_then_arrive)
                elif order == "before":
                    interrupt()
                    await asyncio.wait([task], timeout=WATCHDOG)
                    feed(n)
                else:       # after: the reader gets its turns first; the interruption comes late (usually a no-op)
                    feed(n)
                    for _ in range(8):
                        await asyncio.sleep(0)
                    interrupt()
        done, _pending = await asyncio.wait([task], timeout=WATCHDOG)
        if not done:
            if deadline_mech:
                task.cancel()
                await asyncio.wait([task], timeout=WATCHDOG)
                raise _Watchdog
            # an un-interrupted plain receive that found no complete packet (`after` with a partial frame): stop it now
            interrupt()
            if mech == "scope":
                task.cancel()
            await asyncio.wait([task], timeout=WATCHDOG)

    try:
        asyncio.run(main())
    finally:
        for s in (ours, peer):
            try:
                s.close()
            except OSError:
                pass
    return lines


def run_checked(case: dict, classify: Callable[[BaseException, bool], str]) -> list[str]:
    """the watchdog (wall clock) fired: reproduced on a second run -> the observation `stuck`; not reproduced -> InfraError"""
    try:
        return _run_once(case, classify)
    except _Watchdog:
        pass
    try:
        lines = _run_once(case, classify)
    except _Watchdog:
        return ["stuck"]
    raise core.InfraError(f"C03 aint: a receive missed the {WATCHDOG} s watchdog once and not on the re-run ({len(lines)} lines)")


NOT_A_CALL_RESULT = ("cancelled", "moved-on", "timeout", "iter-end")


def oracle(case: dict, real: list[str], expected: list[str]) -> str | None:
    """C03 over the whole history: delivered == sent (in order, once each), all of it before the end-of-stream, which sticks."""
    where = (f"({'AsyncTCPNetworkClient over loopback' if case['layer'] == 'client' else 'AsyncStreamEndpoint over a socketpair'}, "
             f"real asyncio transport, {case['path']} path, receives interrupted: "
             + ", ".join(f"{s.get('k', 'recv')}/{s['mech']}/{s['order']}+{s['feed']}B" for s in case["plan"][:6]) + ")")
    bad = [ln for ln in real if ln.startswith(("harness-exc", "exc ", "oserr", "connerr"))]
    if bad:
        return f"unexpected outcome of a receive: {bad[0]} {where}"
    outs = [ln for ln in real if ln not in NOT_A_CALL_RESULT]
    items = [ln for ln in outs if ln.startswith(("pkt ", "err "))]
    if items != expected[:len(items)]:
        k = next((i for i, (a, b) in enumerate(zip(items, expected)) if a != b), min(len(items), len(expected)))
        return (f"delivered packets are not the packets sent, in order, once each: item #{k} is "
                f"{items[k] if k < len(items) else None!r}, sent {expected[k] if k < len(expected) else None!r} "
                f"(delivered {items[:6]}, sent {expected[:6]}) {where}")
    if "stuck" in outs:
        return (f"the peer has sent everything and closed, and a receive never ends: {len(items)} of {len(expected)} complete "
                f"packets delivered {where}")
    eos = [i for i, ln in enumerate(outs) if ln.startswith("eos")]
    if not eos:
        return f"the peer has closed and no call reported the end of the stream ({len(items)} of {len(expected)} packets) {where}"
    before = [ln for ln in outs[:eos[0]] if ln.startswith(("pkt ", "err "))]
    if before != expected:
        missing = expected[len(before):][:3]
        return (f"end-of-stream reported after {len(before)} of {len(expected)} complete packets: {missing} completely received "
                f"and never delivered {where}")
    after = [ln for ln in outs[eos[0]:] if not ln.startswith("eos")]
    if after:
        return f"after the end-of-stream report a later call returned {after[:3]} {where}"
    wrong = [ln for ln in outs if ln.startswith("eos-as ")]
    if wrong:
        return f"the end of the stream is reported as {wrong[0].split()[1]} instead of ConnectionAbortedError {where}"
    return None


def nontrivial(case: dict, real: list[str]) -> str | None:
    n_int = sum(1 for ln in real if ln in ("cancelled", "moved-on", "timeout"))
    orders = sorted({s["order"] for s in case["plan"]})
    return f"aint/{case['layer']}/{case['path']}/" + ("interrupted" if n_int else "none") + "/" + "+".join(orders)


def gen_plan(rng, stream: bytes, frame_ends: list[int], client_layer: bool) -> list[dict]:
    plan: list[dict] = []
    pos = 0
    bounds = sorted(set(frame_ends))
    for _ in range(rng.randint(1, 5)):
        left = len(stream) - pos
        r = rng.random()
        nxt = [b - pos for b in bounds if b > pos]
        if not left:
            n = 0
        elif r < 0.45 and nxt:
            n = nxt[0]                                   # exactly one frame completes
        elif r < 0.6 and len(nxt) > 1:
            n = nxt[rng.randint(1, len(nxt) - 1)]          # several frames in one piece
        elif r < 0.8:
            n = rng.randint(1, left)                       # anywhere: inside a frame
        elif r < 0.9 and nxt:
            n = min(left, nxt[0] + 1)                      # a frame and the first byte of the next
        else:
            n = 0
        mech = rng.choice(MECHS)
        order = rng.choice(["io-first", "io-first", "io-first", "zero", "cancel-first", "before", "after", "eof"])
        if order == "eof" and rng.random() < 0.6:
            order = "io-first"
        step = {"k": "iter" if (client_layer and rng.random() < 0.2) else "recv", "mech": mech, "order": order, "feed": n,
                "park": rng.choice([0, 1, 2, 3, 6, 6, 6, 12])}
        plan.append(step)
        pos += n
        if order == "eof":
            break
    return plan


def shrink(case: dict):
    plan = case["plan"]
    for i in range(len(plan)):
        if len(plan) > 1:
            yield {**case, "plan": plan[:i] + plan[i + 1:]}
    for i, s in enumerate(plan):
        if s.get("park", 6) != 6:
            yield {**case, "plan": plan[:i] + [{**s, "park": 6}] + plan[i + 1:]}
