"""
C14 path "tcpconnect": AsyncTCPNetworkClient.aclose() called while the CONNECTION ATTEMPT of the client is still in
progress (in-memory backend, virtual-time loop).

The attempt is started by another task through one of the public entry points
    via = "wait"       wait_connected()                      (holds the connector lock only)
          "send"       send_packet()                         (holds the SEND lock for the whole connect + TLS handshake)
          "eof"        send_eof()                            (likewise)
          "recv"       recv_packet()                         (holds the receive lock)
          "wait+send"  wait_connected() and, queued behind it on the connector lock, a send_packet() that owns the send lock
and is slow because
    slow = "resolve"   backend.create_tcp_connection() takes `delay` units of virtual time (the raw transport exists only
                       once it has been handed to the client)
           "tls"       the TCP connection is there at once, the TLS peer starts its (complete) handshake after `delay` units
           "tlssilent" the TLS peer never answers (the handshake would end by its 60-unit timeout)
The close operation is `client.aclose()`
    close = "task"     run as a task of its own, `task.cancel()` after step k (k from the case, None = not cancelled)
            "scope"    inside a cancel scope of the caller, `scope.cancel()` after step k
            "moveon"   inside `backend.move_on_after(bound)`, bound < delay (no injection: the deadline does it)

Observables (on top of those of c14_run): the raw transport counts as CLOSED while the backend has not handed it out
(nothing to release); `inner-later` is taken after every connecting call has ended (bounded by 1000 units of virtual time,
far above the handshake timeout); `connect <via>=<how the connecting call ended>`; `connected <0|1>` = client.is_connected()
at the end; `connect-pending <n>` = connecting calls still running after the bound.
"""
from __future__ import annotations

import asyncio
import contextlib
from typing import Any

from vlib import core, streamdrive as sd  # noqa: F401
from vlib import c14_env as e14
from vlib import c15_tcp

from easynetwork.clients.async_tcp import AsyncTCPNetworkClient

LINE = {"k": "line", "newline": "LF", "keep_end": False, "encoding": "ascii", "limit": 64}
SETTLE = 1000.0


class SlowBackend(c15_tcp.MemBackend):
    """MemBackend whose create_tcp_connection() takes `resolve_delay` units of virtual time"""

    def __init__(self, resolve_delay: float = 0.0) -> None:
        super().__init__()
        self.resolve_delay = resolve_delay
        self.handed: list[Any] = []

    async def create_tcp_connection(self, host, port, *, local_address=None, happy_eyeballs_delay=None):
        self.connect_calls.append((host, port, local_address, happy_eyeballs_delay))
        await self.coro_yield()
        if self.resolve_delay:
            await asyncio.sleep(self.resolve_delay)
        if not self.connections:
            raise ConnectionRefusedError(111, "SlowBackend has no connection left")
        tr = self.connections.pop(0)
        self.handed.append(tr)
        return tr


def _kind(e: BaseException) -> str:
    if isinstance(e, asyncio.CancelledError):
        return "cancelled"
    if isinstance(e, TimeoutError):
        return "exc:Timeout"
    if type(e).__name__ == "ClientClosedError":
        return "exc:ClientClosedError"
    if isinstance(e, OSError):
        return "exc:OSError"
    return "exc:" + type(e).__name__


async def setup(p: dict, s):
    """fills the c14_run.Setup `s`"""
    c = p.get("connecting") or {}
    via = c.get("via", "wait")
    slow = c.get("slow", "resolve")
    delay = float(c.get("delay", 5))
    ip = p.get("inner") or {}
    err = OSError(5, "scripted close error") if ip.get("err") else None
    proto = sd.make_protocol(LINE, "copy")
    c15_tcp._quiet()
    be = SlowBackend(delay if slow == "resolve" else 0.0)
    kw: dict[str, Any] = {}
    if slow == "resolve":
        raw = be.adopt_connection(be.transport([], "hang", close_steps=ip.get("steps", 0), close_error=err))
    else:
        a, b = e14.pipe_pair(close_steps=ip.get("steps", 0), close_error=err)
        a._be = be
        raw = be.adopt_connection(a)
        peer = e14.TLSPeer(b, "slow" if slow == "tls" else "silent", "reply", hs_delay=delay)
        peer.go_after.set()
        s.bg.append(asyncio.ensure_future(peer.run()))
        kw = {"ssl": e14.client_context(), "server_hostname": "localhost"}
        if c.get("shutdown_timeout") is not None:
            kw["ssl_shutdown_timeout"] = float(c["shutdown_timeout"])
    client = AsyncTCPNetworkClient((c15_tcp.HOST, 9), proto, backend=be, **kw)

    class Flag:
        @property
        def closed(self) -> bool:
            return (raw not in be.handed) or bool(raw.closed)

    results: dict[str, str] = {}
    tasks: dict[str, asyncio.Task] = {}

    async def call(name: str) -> None:
        try:
            if name == "wait":
                await client.wait_connected()
            elif name == "send":
                await client.send_packet("x")
            elif name == "eof":
                await client.send_eof()
            elif name == "recv":
                await client.recv_packet()
            else:  # pragma: no cover
                raise AssertionError(name)
            results[name] = "ok"
        except asyncio.CancelledError:
            results[name] = "cancelled"
            raise
        except BaseException as e:  # noqa: BLE001
            results[name] = _kind(e)

    for name in via.split("+"):
        tasks[name] = asyncio.ensure_future(call(name))
        for _ in range(3):
            await asyncio.sleep(0)
    for _ in range(3):
        await asyncio.sleep(0)
    s.bg.extend(tasks.values())
    s.inners = {"t": Flag()}
    s.outer = client

    mode = p.get("close", "task")
    box: dict[str, Any] = {}
    if mode in ("scope", "moveon"):
        async def op() -> None:
            scope = be.open_cancel_scope() if mode == "scope" else be.move_on_after(float(p.get("bound", 1)))
            inj = e14.CountingTask._injector
            if mode == "scope" and inj is not None:
                inj.scope = scope
            try:
                with scope:
                    await client.aclose()
            finally:
                if inj is not None:
                    inj.scope = None
            box["caught"] = scope.cancelled_caught()

        s.op = op
        s.outcome_fix = lambda outcome: "cancelled" if (outcome == "ok" and box.get("caught")) else outcome

    state: dict[str, Any] = {}

    async def settle() -> None:
        pend = [t for t in tasks.values() if not t.done()]
        if pend:
            _, still = await asyncio.wait(pend, timeout=SETTLE)
            state["pending"] = len(still)
        else:
            state["pending"] = 0
        for _ in range(8):
            await asyncio.sleep(0)

    def later_lines() -> list[str]:
        return ["connect " + " ".join(f"{n}={results.get(n, 'pending')}" for n in tasks),
                f"connected {int(client.is_connected())}",
                f"connect-pending {state.get('pending', -1)}"]

    s.after_first = settle
    s.later_lines = later_lines
    return s
