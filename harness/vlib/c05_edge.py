"""
C05, round 6 — wrappers x inner serializers at the SIZE BOUNDARIES of the inner serialization.

Missing region (found with the seeded change C05-m9): a wrapper serializer (base64 with / without checksum, zlib, bz2, and
wrappers of wrappers) handles the byte string produced by its inner serializer: it appends a 32-byte digest, cuts it off again,
encodes 3 bytes as 4 characters, feeds a compressor.  Every place where it slices, measures or tests that byte string has its
own boundary values, and the generated packets never reached them: the shortest inner serialization was one byte (the shared
packet generator refuses "" inside a wrapper, `sers.empty_packet` only knows packets whose OUTER serialization is empty), and the
inner serializers drawn for wrappers (line / JSON / pickle) give no control over the inner size.

Covered now: for EVERY wrapper configuration (WRAPPERS: base64 standard / urlsafe x no checksum / sha256 / keyed with the key as
str and as bytes, zlib and bz2 at several levels, wrappers of wrappers) x EVERY inner serializer that lets the harness choose the
size of its output (INNERS: the line serializer with every newline, raw bytes through a user-defined pass-through serializer, a
fixed-size user serializer, `StructSerializer("!<n>s")`, JSON strings) the packets whose INNER serialization has exactly
0 / 1 / 2 / 3 / 4 / 5 / 6 bytes (the base64 quantum, with and without the 32 digest bytes), 31 / 32 / 33, 63 / 64 / 65, 95 / 96 / 97
(the digest size and its multiples), and a few more — sent and received through every datagram API of C05 (scripted endpoints,
one-directional endpoints, the socket transport, both UDP clients, both iterators).  The oracle is C05's own: the datagram made
from a packet is received as that packet, `send_packet(p)` puts exactly one datagram on the wire and that datagram deserializes
to `p`.  Generated cases mix these datagrams with truncated / bit-flipped / merged ones (errors isolated).
"""
from __future__ import annotations

from typing import Any

from vlib import sers

SIZES = [0, 1, 2, 3, 4, 5, 6, 7, 8, 15, 16, 17, 29, 30, 31, 32, 33, 34, 35, 47, 48, 49, 63, 64, 65, 95, 96, 97, 127, 128, 129]
CORE_SIZES = [0, 1, 2, 3, 31, 32, 33, 64]

_B64 = {"separator": "0d0a", "limit": 65536}


def wrappers() -> list[dict]:
    """every wrapper configuration, the inner serializer left open (key `inner` filled in by `wrap`)"""
    out: list[dict] = []
    for alphabet in ("standard", "urlsafe"):
        out.append({"k": "b64", "alphabet": alphabet, "checksum": False, **_B64})
        out.append({"k": "b64", "alphabet": alphabet, "checksum": True, **_B64})
    out.append({"k": "b64", "alphabet": "urlsafe", "checksum": {"key": sers.B64_KEYS[0], "as": "str"}, **_B64})
    out.append({"k": "b64", "alphabet": "standard", "checksum": {"key": sers.B64_KEYS[1], "as": "bytes"}, **_B64})
    out.append({"k": "b64", "alphabet": "urlsafe", "checksum": True, "debug": True, **_B64})
    for level in (None, 0, 1, 9, -1):
        out.append({"k": "zlib", "level": level})
    out.append({"k": "zlib", "debug": True})
    for level in (None, 1, 9):
        out.append({"k": "bz2", "level": level})
    # wrappers of wrappers: the inner wrapper's own output is the outer wrapper's "inner serialization" (base64 of nothing is
    # nothing; a digest alone is 32 bytes = 44 characters; a compressed nothing is 8 / 14 bytes)
    ck = {"k": "b64", "alphabet": "urlsafe", "checksum": True, **_B64}
    nock = {"k": "b64", "alphabet": "standard", "checksum": False, **_B64}
    out.append({**ck, "inner": {**nock, "inner": None}})
    out.append({**nock, "inner": {**ck, "inner": None}})
    out.append({**ck, "inner": {**ck, "inner": None}})
    out.append({**ck, "inner": {"k": "zlib", "inner": None}})
    out.append({"k": "zlib", "inner": {**ck, "inner": None}})
    out.append({"k": "bz2", "inner": {**nock, "inner": None}})
    out.append({"k": "zlib", "inner": {"k": "bz2", "inner": None}})
    return out


def wrap(w: dict, inner: dict) -> dict:
    """the wrapper configuration `w` around `inner` (innermost open slot)"""
    if "inner" not in w:
        return {**w, "inner": inner}
    if w["inner"] is None:
        return {**w, "inner": inner}
    return {**w, "inner": wrap(w["inner"], inner)}


INNERS = ("line-LF", "line-CRLF", "line-CR-utf8", "raw", "fixed", "struct", "json", "line-keep")


def inner_spec(name: str, size: int) -> dict | None:
    """the inner serializer `name` configured so that a packet of inner size `size` exists (None: impossible)"""
    if name == "line-LF":
        return {"k": "line", "newline": "LF", "keep_end": False, "encoding": "ascii", "limit": 65536}
    if name == "line-CRLF":
        return {"k": "line", "newline": "CRLF", "keep_end": False, "encoding": "ascii", "limit": 65536, "debug": True}
    if name == "line-CR-utf8":
        return {"k": "line", "newline": "CR", "keep_end": False, "encoding": "utf-8", "limit": 65536}
    if name == "line-keep":
        return {"k": "line", "newline": "LF", "keep_end": True, "encoding": "ascii", "limit": 65536} if size >= 1 else None
    if name == "raw":
        return {"k": "autosep", "sep": "0d0a", "limit": 65536, "check": True}
    if name == "fixed":
        return {"k": "fixed", "size": size} if size >= 1 else None
    if name == "struct":
        return {"k": "struct", "format": f"!{size}s"} if size >= 1 else None
    if name == "json":
        return {"k": "json", "use_lines": False, "limit": 65536} if size >= 1 else None
    raise ValueError(name)


_TEXT = "abcdefghijklmnopqrstuvwxyz0123456789 ABCDEFGHIJKLMNOPQRSTUVWXYZ"


def inner_packet(name: str, size: int, salt: int = 0) -> Any:
    """a packet whose serialization by the inner serializer `name` has exactly `size` bytes"""
    text = "".join(_TEXT[(i * 7 + salt) % len(_TEXT)] for i in range(size))
    if name in ("line-LF", "line-CRLF"):
        return text
    if name == "line-CR-utf8":
        # (two-byte characters: the size is counted in bytes)
        return ("é" * (size // 2) + ("a" if size % 2 else ""))
    if name == "line-keep":
        return text[:size - 1] + "\n"
    if name in ("raw", "fixed"):
        return bytes((i * 37 + salt) % 251 for i in range(size))      # (never starts with 0xff)
    if name == "struct":
        return (bytes((i * 37 + salt + 1) % 251 or 1 for i in range(size)),)
    if name == "json":
        if size == 1:
            return salt % 10
        return text[:size - 2]        # "…" : two quotes
    raise ValueError(name)


def combos() -> list[tuple[dict, str]]:
    return [(w, name) for w in wrappers() for name in INNERS]


def packets_for(w: dict, name: str, sizes: list[int]) -> list[tuple[dict, Any]]:
    """[(spec, packet)] — one spec per size where the inner serializer depends on the size (fixed, struct), checked against the
    real inner serializer: the inner serialization has exactly the size asked for"""
    out = []
    for n in sizes:
        inner = inner_spec(name, n)
        if inner is None:
            continue
        p = inner_packet(name, n, salt=n)
        if len(sers.build(inner).serialize(p)) != n:
            raise AssertionError(f"harness: inner serializer {name} gives {len(sers.build(inner).serialize(p))} bytes for size {n}")
        out.append((wrap(w, inner), p))
    return out


def _group(pairs: list[tuple[dict, Any]]) -> list[tuple[dict, list[Any]]]:
    """consecutive pairs with the same spec share one case"""
    groups: list[tuple[dict, list[Any]]] = []
    for spec, p in pairs:
        if groups and groups[-1][0] == spec:
            groups[-1][1].append(p)
        else:
            groups.append((spec, [p]))
    return groups


SEND_APIS = ("sync", "async", "sync-rx", "async-rx", "sync-socket", "udp", "audp")
ALL_APIS = SEND_APIS + ("udp-iter", "audp-iter")


def make_case(spec: dict, packets: list[Any], api: str, conv: bool = False, iter_fields: dict | None = None) -> dict:
    ser = sers.build(spec)
    ev = sers.enc_val
    datagrams = [ser.serialize(p) for p in packets]
    send = list(packets) if api in SEND_APIS else []
    if api == "audp" and not sers.REPORTED:
        # (the asyncio transport of CPython 3.12 drops an empty sendto(): reported in the notes, not part of this region)
        send = [p for p in send if ser.serialize(p)]
    case = {"kind": "seq", "spec": spec, "api": api, "datagrams": [d.hex() for d in datagrams], "valid": [ev(p) for p in packets],
            "kinds": ["edge"] * len(packets), "send": [ev(p) for p in send], "conv": conv, "edge": True}
    if api in ("udp-iter", "audp-iter"):
        case.update(iter_fields or {"timeout": 30.0, "plan": ["n"] * len(packets), "batch": "all", "reiter": False})
    return case


def corpus() -> list[dict]:
    """every wrapper x every inner serializer: all the sizes through the scripted endpoints (alternating blocking / asyncio,
    one-directional every third time), the core sizes through one socket / client / iterator API in rotation"""
    out: list[dict] = []
    rot = ("sync-socket", "udp", "audp", "udp-iter", "audp-iter")
    scripted = ("sync", "async", "sync-rx", "async-rx")
    for i, (w, name) in enumerate(combos()):
        sized = name in ("fixed", "struct")
        for spec, ps in _group(packets_for(w, name, CORE_SIZES if sized else SIZES)):
            out.append(make_case(spec, ps, scripted[i % 4], conv=(i % 5 == 0)))
        if sized:
            for spec, ps in _group(packets_for(w, name, [1, 32, 33])):
                out.append(make_case(spec, ps, rot[i % 5]))
        else:
            for spec, ps in _group(packets_for(w, name, CORE_SIZES)):
                out.append(make_case(spec, ps, rot[i % 5]))
    # the empty inner serialization under every wrapper through EVERY api (the shortest datagram each wrapper can produce)
    for w in wrappers():
        for name in ("line-LF", "raw"):
            (spec, ps), = _group(packets_for(w, name, [0, 0, 1, 0]))
            for api in ALL_APIS:
                f = {"timeout": 0 if api == "udp-iter" else 30.0, "plan": ["n"] * len(ps), "batch": "each", "reiter": True}
                out.append(make_case(spec, ps, api, iter_fields=f))
    return out


def gen_case(rng, iter_schedule) -> dict:
    """a random wrapper x inner serializer x sizes x API, boundary packets mixed with malformed datagrams made from them"""
    w = rng.choice(wrappers())
    name = rng.choice(INNERS)
    api = rng.choice(ALL_APIS)
    if name in ("fixed", "struct"):
        sizes = [rng.choice([s for s in SIZES if s >= 1])] * rng.randint(1, 4)
    else:
        sizes = [rng.choice(SIZES if rng.random() < 0.7 else CORE_SIZES[:4]) for _ in range(rng.randint(1, 6))]
    pairs = packets_for(w, name, sizes)
    if not pairs:
        pairs = packets_for(w, "raw", sizes)
    spec = pairs[0][0]
    packets = [p for _, p in pairs]
    if rng.random() < 0.3:
        spec = {**spec, "debug": True}
    case = make_case(spec, packets, api, conv=rng.random() < 0.2)
    ser = sers.build(spec)
    ds, valid, kinds = [], [], []
    for d, v in zip(case["datagrams"], case["valid"]):
        d = bytes.fromhex(d)
        r = rng.random()
        if r < 0.7:
            ds.append(d); valid.append(v); kinds.append("edge")
        elif r < 0.8:
            ds.append(d[:rng.randint(0, max(0, len(d) - 1))]); valid.append(None); kinds.append("truncated")
        elif r < 0.9:
            b = bytearray(d or b"\x00")
            b[rng.randrange(len(b))] ^= 1 << rng.randrange(8)
            ds.append(bytes(b)); valid.append(None); kinds.append("flipped")
        else:
            ds.append(d + ser.serialize(packets[0])); valid.append(None); kinds.append("merged")
    case.update({"datagrams": [d.hex() for d in ds], "valid": valid, "kinds": kinds})
    if api in ("udp-iter", "audp-iter"):
        case.update(iter_schedule(rng, api, len(ds)))
    return case


def leaf_empty_packet(spec: dict) -> Any:
    """a packet whose INNERMOST serialization is empty, whatever wraps it ("" for the line serializer without keep_end, b"" for
    the pass-through serializer), or None — for the ordinary generator of C05 (sers.empty_packet only knows packets whose OUTER
    serialization is empty, which a checksum or a compressor header never is)"""
    leaf = sers._leaf_spec(spec)
    if leaf["k"] == "line" and not leaf.get("keep_end"):
        p: Any = ""
    elif leaf["k"] == "autosep":
        p = b""
    else:
        return None
    try:
        sers.sender(spec).serialize(p)
    except Exception:  # noqa: BLE001
        return None
    return p
